// Package p2psender executes P2PSender schedules on the REAL p2p.Sender / p2p.SendReceive / p2p.Send, p2p.RegisterHandler
// and p2p.ConnGater and records what they did.
//
// One schedule = one small network of in-memory libp2p hosts (go-libp2p mocknet, real secp256k1 identities).  Every host
// is wrapped (fhost): NewStream and SetStreamHandlerMatch are intercepted, so that the code under test works on wrapped
// streams (wstream) on both ends.  The wrapper is the NETWORK of the specification: it records every call the code makes
// on a stream (SetDeadline, a complete message written, CloseWrite, Close, Reset, the outcome of reads), implements the
// stream deadlines (mocknet's are no-ops) and realises the scripted fate of each attempt: what NewStream returns (a
// swarm.DialError, network.ErrReset, ...), whether a write / CloseWrite fails, how long the request and the response
// travel and whether they arrive, are reset or dropped.  Handlers are scripts too (latency, what they return, whether
// they give up when their context ends).  The connection gaters (real p2p.ConnGater behind a recording wrapper) are asked
// by the wrapped host what libp2p asks them whenever a connection has to be made.
//
// Everything runs inside a testing/synctest bubble: time is virtual and exact; synctest.Wait() after every stimulus is
// the quiescence barrier.  The executor contains no expected value: P2PSenderTrace.tla decides.
package p2psender

import (
	"bytes"
	"context"
	"crypto/sha256"
	"encoding/json"
	"errors"
	"fmt"
	"io"
	"net"
	"reflect"
	"runtime"
	"strconv"
	"strings"
	"sync"
	"testing"
	"testing/synctest"
	"time"

	k1 "github.com/decred/dcrd/dcrec/secp256k1/v4"
	"github.com/libp2p/go-libp2p/core/connmgr"
	"github.com/libp2p/go-libp2p/core/control"
	libp2pcrypto "github.com/libp2p/go-libp2p/core/crypto"
	"github.com/libp2p/go-libp2p/core/host"
	"github.com/libp2p/go-libp2p/core/network"
	"github.com/libp2p/go-libp2p/core/peer"
	"github.com/libp2p/go-libp2p/core/protocol"
	mocknet "github.com/libp2p/go-libp2p/p2p/net/mock"
	"github.com/libp2p/go-libp2p/p2p/net/swarm"
	ma "github.com/multiformats/go-multiaddr"
	"github.com/multiformats/go-varint"
	"go.uber.org/zap/zapcore"
	"google.golang.org/protobuf/proto"

	"github.com/obolnetwork/charon/app/log"
	"github.com/obolnetwork/charon/app/z"
	pbv1 "github.com/obolnetwork/charon/core/corepb/v1"
	"github.com/obolnetwork/charon/p2p"

	"verifharness/drv"
)

const (
	protoPrefix = "/charon/vf/"
	bigSlot     = uint64(1) << 60
	lostDelay   = 5 * time.Minute // "never" (time stamps must stay below 2^31 microseconds for TLC)
)

func protoID(name string) protocol.ID { return protocol.ID(protoPrefix + name + ".0.0") }
func protoName(id protocol.ID) string {
	s := strings.TrimSuffix(strings.TrimPrefix(string(id), protoPrefix), ".0.0")
	if len(s) == 1 {
		return s
	}
	return "?" + string(id)
}

func detKey(label string) *k1.PrivateKey {
	h := sha256.Sum256([]byte(label))
	return k1.PrivKeyFromBytes(h[:])
}

func obj(v any) map[string]any { m, _ := v.(map[string]any); return m }
func list(v any) []any         { l, _ := v.([]any); return l }
func ms(v any) time.Duration {
	if f, ok := v.(float64); ok { // fractions of a millisecond: calls of one pair of hosts never complete in the same instant
		return time.Duration(f*1000+0.5) * time.Microsecond
	}
	return time.Duration(drv.Num(v)) * time.Millisecond
}
func str(m map[string]any, k, def string) string {
	if s, ok := m[k].(string); ok && s != "" {
		return s
	}
	return def
}

// goid returns the id of the calling goroutine (the handler function is not handed its stream: the session is found by
// the goroutine libp2p runs the stream handler in).
func goid() int64 {
	var buf [64]byte
	n := runtime.Stack(buf[:], false)
	f := strings.Fields(string(buf[:n]))
	if len(f) < 2 {
		return -1
	}
	id, _ := strconv.ParseInt(f[1], 10, 64)
	return id
}

type timeoutErr struct{}

func (timeoutErr) Error() string   { return "i/o deadline reached" }
func (timeoutErr) Timeout() bool   { return true }
func (timeoutErr) Temporary() bool { return true }

var _ net.Error = timeoutErr{}

// classify is how the specification sees an error: nil, a relay error (what withRelayRetry retries), a dial error (what
// addResult does not log), anything else.
func classify(err error) string {
	dErr := new(swarm.DialError)
	switch {
	case err == nil:
		return "ok"
	case p2p.IsRelayError(err):
		return "relay"
	case errors.As(err, &dErr):
		return "dial"
	}
	return "other"
}

func injected(kind string) error {
	switch kind {
	case "relay":
		return fmt.Errorf("injected: %w", network.ErrReset)
	case "scope":
		return fmt.Errorf("injected: %w", network.ErrResourceScopeClosed)
	case "dial":
		a, _ := ma.NewMultiaddr("/ip4/10.9.9.9/tcp/1")
		return &swarm.DialError{Peer: "x", DialErrors: []swarm.TransportError{{Address: a, Cause: errors.New("connection refused")}}}
	case "canceled":
		return errors.New("close called for canceled stream 4")
	}
	return errors.New("injected failure")
}

// script of one attempt (all optional).
type attScript struct {
	ns       string // "", "relay", "scope", "dial", "other": what NewStream returns instead of a stream
	w        string // "", "relay", "other", "stall": the write of the request fails / blocks until the deadline
	cw       string // "", "canceled", "relay", "other": what CloseWrite returns
	reqd     time.Duration
	reqfate  string // "deliver", "reset", "drop" (stream ends without the request), "lost"
	hlat     time.Duration
	hres     string // see HResults of the specification
	hon      bool   // the handler gives up (error) when its context ends
	sw       string // "", "relay", "other": the write of the response fails
	respd    time.Duration
	respfate string // "deliver", "reset", "drop", "lost"
}

func parseAtt(m map[string]any) attScript {
	return attScript{ns: str(m, "ns", ""), w: str(m, "w", ""), cw: str(m, "cw", ""), reqd: ms(m["reqd"]), reqfate: str(m, "reqfate", "deliver"),
		hlat: ms(m["hlat"]), hres: str(m, "hres", "resp"), hon: m["hon"] == true, sw: str(m, "sw", ""), respd: ms(m["respd"]),
		respfate: str(m, "respfate", "deliver")}
}

type call struct {
	id       int
	kind     string
	from, to int
	reqtype  string
	shape    string
	script   []attScript
	attempts int
	cancel   context.CancelFunc
	ctx      context.Context
}

func (c *call) att(a int) attScript {
	if a-1 < len(c.script) {
		return c.script[a-1]
	}
	if len(c.script) > 0 {
		return c.script[len(c.script)-1]
	}
	return parseAtt(map[string]any{})
}

type srvConf struct {
	on      bool
	base    string
	delims  []string
	rto     int // ms, 0: default
	reqtype string
	limit   int
}

type env struct {
	t       *testing.T
	mu      sync.Mutex
	cond    *sync.Cond
	events  []drv.Step
	genesis time.Time
	n       int
	mn      mocknet.Mocknet
	hosts   []host.Host // 1..n
	fh      []*fhost
	ids     []peer.ID
	idx     map[peer.ID]int
	names   map[string]int
	srv     []srvConf
	senders []*p2p.Sender
	gaters  []*logGater
	relays  []*p2p.MutablePeer
	calls   map[int]*call
	byInner map[uintptr]*wstream // client side mocknet stream -> its wrapper
	byGo    map[int64]*wstream   // goroutine of a stream handler -> the session's stream
	quit    chan struct{}
	hctx    context.Context
	hcancel context.CancelFunc
	running int // synchronous calls that have not returned
	flying  int // deliveries under way
	probeMu sync.Mutex
	probe   int
}

func (e *env) us() int { return int(time.Since(e.genesis) / time.Microsecond) }

// log appends an event stamped with the virtual time (under the mutex: the log is a linearisation).
func (e *env) log(ev drv.Step, f func()) {
	e.mu.Lock()
	defer e.mu.Unlock()
	if f != nil {
		f()
	}
	ev["t"] = e.us()
	e.events = append(e.events, ev)
}

func ctxState(ctx context.Context) string {
	if ctx.Err() == nil {
		return "live"
	}
	return "canceled"
}

// ---------------------------------------------------------------------------------------------------------------------
// log sink: the two lines of Sender.addResult and the lines of the stream handler are events
// ---------------------------------------------------------------------------------------------------------------------

type logSink struct{ e *env }

func (s logSink) Write(b []byte) (int, error) {
	for _, line := range bytes.Split(b, []byte("\n")) {
		if len(bytes.TrimSpace(line)) == 0 {
			continue
		}
		var m map[string]any
		if json.Unmarshal(line, &m) != nil {
			continue
		}
		s.e.logged(m)
	}
	return len(b), nil
}

func (e *env) logged(m map[string]any) {
	msg := drv.Str(m["msg"])
	if msg == "vprobe" {
		e.probe = drv.Num(m["vcall"])
		return
	}
	level := drv.Str(m["level"])
	peerIdx := func() int {
		e.mu.Lock()
		defer e.mu.Unlock()
		if i, ok := e.names[drv.Str(m["peer"])]; ok {
			return i
		}
		return 0
	}
	switch {
	case strings.HasPrefix(msg, "P2P message sending failed to peer"):
		e.log(drv.Step{"ev": "Log", "kind": "sendfail", "level": level, "c": drv.Num(m["vcall"]), "p": peerIdx()}, nil)
	case strings.HasPrefix(msg, "P2P sending recovered"):
		e.log(drv.Step{"ev": "Log", "kind": "recovered", "level": level, "c": drv.Num(m["vcall"]), "p": peerIdx()}, nil)
	case strings.HasPrefix(msg, "Internal error: Type assertion failed"):
		e.log(drv.Step{"ev": "Log", "kind": "internal", "level": level, "c": drv.Num(m["vcall"]), "p": peerIdx()}, nil)
	default:
		kind := ""
		switch {
		case strings.HasPrefix(msg, "Timeout reading p2p message"):
			kind = "timeout"
		case strings.HasPrefix(msg, "Failed to read p2p request"):
			kind = "readfail"
		case strings.HasPrefix(msg, "LibP2P received invalid proto"):
			kind = "invalid"
		case strings.HasPrefix(msg, "P2P stream handler encountered an error"):
			kind = "herr"
		case strings.HasPrefix(msg, "Failed to write p2p response"):
			kind = "writefail"
		case strings.HasPrefix(msg, "No writer registered"), strings.HasPrefix(msg, "No reader registered"):
			kind = "nocodec"
		}
		if kind == "" {
			return
		}
		g := goid()
		e.mu.Lock()
		ws := e.byGo[g]
		e.mu.Unlock()
		ev := drv.Step{"ev": "SLog", "kind": kind, "level": level, "c": 0, "a": 0, "p": 0, "topic": drv.Str(m["topic"])}
		if ws != nil {
			ev["c"], ev["a"], ev["p"] = ws.c, ws.a, ws.host
		}
		e.log(ev, nil)
	}
}

// callOf finds the call a context belongs to: the harness put the number into the context's log fields (SendAsync keeps
// nothing else of the caller's context).
func (e *env) callOf(ctx context.Context) int {
	e.probeMu.Lock()
	defer e.probeMu.Unlock()
	e.probe = 0
	log.Debug(ctx, "vprobe")
	return e.probe
}

// ---------------------------------------------------------------------------------------------------------------------
// the recording connection gater
// ---------------------------------------------------------------------------------------------------------------------

type logGater struct {
	e     *env
	g     int
	inner p2p.ConnGater
}

var _ connmgr.ConnectionGater = (*logGater)(nil)

func (l *logGater) rec(fn string, id peer.ID, res bool) bool {
	l.e.mu.Lock()
	i, ok := l.e.idx[id]
	l.e.mu.Unlock()
	if !ok {
		i = 99
	}
	l.e.log(drv.Step{"ev": "Gate", "g": l.g, "fn": fn, "id": i, "res": res}, nil)
	return res
}
func (l *logGater) InterceptPeerDial(p peer.ID) bool {
	return l.rec("peerdial", p, l.inner.InterceptPeerDial(p))
}
func (l *logGater) InterceptAddrDial(p peer.ID, a ma.Multiaddr) bool {
	return l.rec("addrdial", p, l.inner.InterceptAddrDial(p, a))
}
func (l *logGater) InterceptAccept(a network.ConnMultiaddrs) bool {
	return l.rec("accept", "", l.inner.InterceptAccept(a))
}
func (l *logGater) InterceptSecured(d network.Direction, p peer.ID, a network.ConnMultiaddrs) bool {
	return l.rec("secured", p, l.inner.InterceptSecured(d, p, a))
}
func (l *logGater) InterceptUpgraded(c network.Conn) (bool, control.DisconnectReason) {
	ok, r := l.inner.InterceptUpgraded(c)
	var p peer.ID
	if c != nil {
		p = c.RemotePeer()
	}
	return l.rec("upgraded", p, ok), r
}

// addrs is the pair of addresses libp2p hands to the gater.
type addrs struct{ l, r ma.Multiaddr }

func (a addrs) LocalMultiaddr() ma.Multiaddr  { return a.l }
func (a addrs) RemoteMultiaddr() ma.Multiaddr { return a.r }

// dialGate asks the gaters of both ends what libp2p's swarm / upgrader ask them when a connection is made (mocknet can only
// be given a gater through unexported options, and its rejection path leaves a goroutine blocked on a mutex for ever).
func (e *env) dialGate(from, to int) error {
	af, at := e.hosts[from].Addrs(), e.hosts[to].Addrs()
	var la, ra ma.Multiaddr
	if len(af) > 0 {
		la = af[0]
	}
	if len(at) > 0 {
		ra = at[0]
	}
	reject := func(who, what string) error {
		return fmt.Errorf("gater of host %s rejected the connection (%s)", who, what)
	}
	d, l := e.gaters[from], e.gaters[to]
	if d != nil && !d.InterceptPeerDial(e.ids[to]) {
		return reject("dialer", "peer dial")
	}
	if d != nil && !d.InterceptAddrDial(e.ids[to], ra) {
		return reject("dialer", "addr dial")
	}
	if l != nil && !l.InterceptAccept(addrs{ra, la}) {
		return reject("listener", "accept")
	}
	if d != nil && !d.InterceptSecured(network.DirOutbound, e.ids[to], addrs{la, ra}) {
		return reject("dialer", "secured")
	}
	if l != nil && !l.InterceptSecured(network.DirInbound, e.ids[from], addrs{ra, la}) {
		return reject("listener", "secured")
	}
	if d != nil {
		if ok, _ := d.InterceptUpgraded(nil); !ok {
			return reject("dialer", "upgraded")
		}
	}
	if l != nil {
		if ok, _ := l.InterceptUpgraded(nil); !ok {
			return reject("listener", "upgraded")
		}
	}
	return nil
}

// mockPtrs returns the address of the mocknet stream under s and of its remote end.
func mockPtrs(s network.Stream) (self, remote uintptr) {
	v := reflect.ValueOf(s)
	for range 8 {
		for v.Kind() == reflect.Interface {
			v = v.Elem()
		}
		if v.Kind() != reflect.Ptr || v.IsNil() {
			return 0, 0
		}
		if v.Elem().Kind() != reflect.Struct {
			return 0, 0
		}
		if f := v.Elem().FieldByName("rstream"); f.IsValid() {
			return v.Pointer(), f.Pointer()
		}
		f := v.Elem().FieldByName("Stream")
		if !f.IsValid() {
			return 0, 0
		}
		v = f
	}
	return 0, 0
}

// ---------------------------------------------------------------------------------------------------------------------
// the wrapped host
// ---------------------------------------------------------------------------------------------------------------------

type fhost struct {
	host.Host
	e  *env
	me int
}

func (h *fhost) NewStream(ctx context.Context, p peer.ID, pids ...protocol.ID) (network.Stream, error) {
	e := h.e
	cid := e.callOf(ctx)
	e.mu.Lock()
	c := e.calls[cid]
	a := 0
	if c != nil {
		c.attempts++
		a = c.attempts
	}
	to := e.idx[p]
	e.mu.Unlock()
	names := []string{}
	for _, id := range pids {
		names = append(names, protoName(id))
	}
	lim, _ := network.GetAllowLimitedConn(ctx)
	_, hasDL := ctx.Deadline()
	e.log(drv.Step{"ev": "NS", "c": cid, "a": a, "from": h.me, "to": to, "protos": names, "lim": lim, "cx": ctxState(ctx), "ctxdl": hasDL}, nil)
	if c == nil {
		return nil, errors.New("unknown call")
	}
	sc := c.att(a)
	if sc.ns != "" {
		err := injected(sc.ns)
		e.log(drv.Step{"ev": "NSRet", "c": cid, "a": a, "res": classify(err), "why": "inj", "proto": "-"}, nil)
		return nil, err
	}
	var inner network.Stream
	var err error
	if h.Host.Network().Connectedness(p) != network.Connected && len(e.mn.LinksBetweenPeers(h.Host.ID(), p)) > 0 {
		err = e.dialGate(h.me, to)
	}
	if err == nil {
		inner, err = h.Host.NewStream(ctx, p, pids...)
	}
	if err != nil {
		why := "other"
		switch txt := err.Error(); {
		case strings.Contains(txt, "cannot connect to"):
			why = "nolink"
		case strings.Contains(txt, "rejected") || strings.Contains(txt, "gater"):
			why = "gated"
		case strings.Contains(txt, "protocols not supported"):
			why = "unsupp"
		case ctx.Err() != nil:
			why = "ctx"
		}
		e.log(drv.Step{"ev": "NSRet", "c": cid, "a": a, "res": classify(err), "why": why, "proto": "-", "txt": err.Error()}, nil)
		return nil, err
	}
	ws := newWStream(e, inner, "c", h.me, c, a)
	self, _ := mockPtrs(inner)
	e.log(drv.Step{"ev": "NSRet", "c": cid, "a": a, "res": "ok", "why": "ok", "proto": protoName(inner.Protocol())}, func() {
		e.byInner[self] = ws
		e.cond.Broadcast()
	})
	return ws, nil
}

func (h *fhost) SetStreamHandlerMatch(pid protocol.ID, m func(protocol.ID) bool, handler network.StreamHandler) {
	h.e.log(drv.Step{"ev": "Reg", "p": h.me, "name": string(pid)}, nil)
	h.Host.SetStreamHandlerMatch(pid, m, func(s network.Stream) {
		e := h.e
		_, remote := mockPtrs(s)
		e.mu.Lock()
		var cl *wstream
		if remote != 0 {
			// the client's NewStream may not have returned yet (protocol negotiation in the same instant)
			stop := time.AfterFunc(time.Millisecond, func() { e.mu.Lock(); e.cond.Broadcast(); e.mu.Unlock() })
			deadline := time.Now().Add(time.Millisecond)
			for e.byInner[remote] == nil && time.Now().Before(deadline) {
				e.cond.Wait()
			}
			stop.Stop()
			cl = e.byInner[remote]
		}
		e.mu.Unlock()
		var ws *wstream
		if cl != nil {
			ws = newWStream(e, s, "s", h.me, cl.call, cl.a)
		} else {
			ws = newWStream(e, s, "s", h.me, &call{}, 0)
		}
		g := goid()
		e.log(drv.Step{"ev": "SAcc", "c": ws.c, "a": ws.a, "p": h.me, "proto": protoName(s.Protocol()), "from": e.idxOf(s.Conn().RemotePeer())}, func() { e.byGo[g] = ws })
		handler(ws)
		e.log(drv.Step{"ev": "SExit", "c": ws.c, "a": ws.a, "p": h.me}, func() { delete(e.byGo, g) })
	})
}

func (e *env) idxOf(p peer.ID) int {
	if i, ok := e.idx[p]; ok {
		return i
	}
	return 99
}

// ---------------------------------------------------------------------------------------------------------------------
// the wrapped stream: the network between the two ends
// ---------------------------------------------------------------------------------------------------------------------

type wstream struct {
	network.Stream
	e    *env
	side string // "c" client, "s" server
	host int
	call *call
	c, a int
	sc   attScript

	mu      sync.Mutex
	rdl     time.Time
	wdl     time.Time
	rbuf    []byte
	rerr    error
	rsig    chan struct{}
	seen    []byte // bytes handed to the reader so far (to recognise a complete message)
	seenMsg bool
	rfail   bool
	wbuf    []byte // bytes written and not yet sent
	wmsgs   int
	flushed bool
	closed  bool
}

func newWStream(e *env, inner network.Stream, side string, hostIdx int, c *call, a int) *wstream {
	ws := &wstream{Stream: inner, e: e, side: side, host: hostIdx, call: c, c: c.id, a: a, rsig: make(chan struct{}, 1)}
	if c.id != 0 {
		ws.sc = c.att(a)
	}
	go ws.pump()
	return ws
}

// pump moves what arrives on the mocknet stream into the wrapper's buffer, so that Read can honour the read deadline.
func (s *wstream) pump() {
	buf := make([]byte, 4096)
	for {
		n, err := s.Stream.Read(buf)
		s.mu.Lock()
		s.rbuf = append(s.rbuf, buf[:n]...)
		if err != nil {
			s.rerr = err
		}
		s.mu.Unlock()
		select {
		case s.rsig <- struct{}{}:
		default:
		}
		if err != nil {
			return
		}
	}
}

// decode returns the first delimited message in b, if complete: its payload.
func frame(b []byte) ([]byte, bool) {
	l, k, err := varint.FromUvarint(b)
	if err != nil || len(b) < k+int(l) {
		return nil, false
	}
	return b[k : k+int(l)], true
}

func slotOf(reqtype string, payload []byte) (string, int) {
	if len(payload) == 0 {
		return "empty", 0
	}
	var slot uint64
	if reqtype == "psx" {
		m := new(pbv1.ParSigExMsg)
		if proto.Unmarshal(payload, m) != nil {
			return "garbage", 0
		}
		slot = m.GetDuty().GetSlot()
	} else {
		m := new(pbv1.Duty)
		if proto.Unmarshal(payload, m) != nil {
			return "garbage", 0
		}
		slot = m.GetSlot()
	}
	if slot >= bigSlot {
		return "big", int(slot - bigSlot)
	}
	return "full", int(slot)
}

func (s *wstream) Read(b []byte) (int, error) {
	for {
		s.mu.Lock()
		if len(s.rbuf) > 0 {
			n := copy(b, s.rbuf)
			s.rbuf = s.rbuf[n:]
			s.seen = append(s.seen, b[:n]...)
			var ev drv.Step
			if payload, ok := frame(s.seen); ok && !s.seenMsg && s.side == "c" {
				s.seenMsg = true
				_, v := slotOf("duty", payload)
				ev = drv.Step{"ev": "CRd", "c": s.c, "a": s.a, "res": "ok", "v": v}
			}
			s.mu.Unlock()
			if ev != nil {
				s.e.log(ev, nil)
			}
			return n, nil
		}
		if s.rerr != nil {
			err := s.rerr
			first := !s.rfail
			s.rfail = true
			s.mu.Unlock()
			if first {
				s.readFailed(err)
			}
			return 0, err
		}
		dl := s.rdl
		s.mu.Unlock()
		var timer <-chan time.Time
		if !dl.IsZero() {
			d := time.Until(dl)
			if d <= 0 {
				s.mu.Lock()
				first := !s.rfail
				s.rfail = true
				s.mu.Unlock()
				if first {
					s.readFailed(timeoutErr{})
				}
				return 0, timeoutErr{}
			}
			t := time.NewTimer(d)
			defer t.Stop()
			timer = t.C
		}
		select {
		case <-s.rsig:
		case <-timer:
		}
	}
}

func (s *wstream) readFailed(err error) {
	res := classify(err)
	var ne net.Error
	if errors.As(err, &ne) && ne.Timeout() {
		res = "timeout"
	}
	name := "CRd"
	if s.side == "s" {
		name = "SRdErr"
	}
	s.e.log(drv.Step{"ev": name, "c": s.c, "a": s.a, "res": res, "v": 0, "txt": err.Error()}, nil)
}

func (s *wstream) Write(b []byte) (int, error) {
	kind := s.sc.w
	name, okName := "CWErr", "CW"
	if s.side == "s" {
		kind, name, okName = s.sc.sw, "SWErr", "SW"
	}
	switch kind {
	case "":
	case "stall":
		s.mu.Lock()
		dl := s.wdl
		s.mu.Unlock()
		if !dl.IsZero() {
			time.Sleep(time.Until(dl))
		} else {
			select {
			case <-s.e.quit:
			}
		}
		s.e.log(drv.Step{"ev": name, "c": s.c, "a": s.a, "res": "other", "how": "timeout"}, nil)
		return 0, timeoutErr{}
	default:
		err := injected(kind)
		s.e.log(drv.Step{"ev": name, "c": s.c, "a": s.a, "res": classify(err)}, nil)
		if classify(err) == "relay" {
			_ = s.Stream.Reset()
		}
		return 0, err
	}
	s.mu.Lock()
	s.wbuf = append(s.wbuf, b...)
	var evs []drv.Step
	for {
		rest := s.wbuf
		for range s.wmsgs { // skip the messages already reported
			l, k, _ := varint.FromUvarint(rest)
			rest = rest[k+int(l):]
		}
		payload, ok := frame(rest)
		if !ok {
			break
		}
		s.wmsgs++
		if s.side == "c" {
			shape, slot := slotOf(s.call.reqtype, payload)
			evs = append(evs, drv.Step{"ev": okName, "c": s.c, "a": s.a, "rq": drv.Step{"shape": shape, "slot": slot}, "n": len(payload)})
		} else {
			_, v := slotOf("duty", payload)
			evs = append(evs, drv.Step{"ev": okName, "c": s.c, "a": s.a, "v": v, "n": len(payload)})
		}
	}
	s.mu.Unlock()
	for _, ev := range evs {
		s.e.log(ev, nil)
	}
	return len(b), nil
}

// send puts the buffered bytes on the mocknet stream after the scripted delay, then does `after` (close / close-write).
func (s *wstream) send(delay time.Duration, fate string, after func()) {
	s.mu.Lock()
	raw := s.wbuf
	s.wbuf = nil
	s.wmsgs = 0
	s.flushed = true
	s.mu.Unlock()
	if fate == "lost" {
		delay = lostDelay
	}
	s.e.mu.Lock()
	s.e.flying++
	s.e.mu.Unlock()
	go func() {
		defer func() {
			s.e.mu.Lock()
			s.e.flying--
			s.e.mu.Unlock()
		}()
		if delay > 0 {
			t := time.NewTimer(delay)
			select {
			case <-t.C:
			case <-s.e.quit:
				t.Stop()
			}
		}
		switch fate {
		case "reset":
			_ = s.Stream.Reset()
			return
		case "drop", "lost":
		default:
			if len(raw) > 0 {
				_, _ = s.Stream.Write(raw)
			}
		}
		after()
	}()
}

func (s *wstream) CloseWrite() error {
	res := s.sc.cw
	if s.side == "s" {
		res = ""
	}
	cls := "ok"
	var err error
	if res != "" {
		err = injected(res)
		cls = classify(err)
		if res == "canceled" {
			cls = "canceled"
		}
	}
	s.e.log(drv.Step{"ev": "CCW", "c": s.c, "a": s.a, "side": s.side, "res": cls}, nil)
	switch cls {
	case "ok", "canceled":
		s.send(s.sc.reqd, s.sc.reqfate, func() { _ = s.Stream.CloseWrite() })
	case "relay":
		_ = s.Stream.Reset()
	}
	return err
}

func (s *wstream) Close() error {
	s.mu.Lock()
	again := s.closed
	s.closed = true
	pending := len(s.wbuf) > 0 && !s.flushed
	s.mu.Unlock()
	name := "CClose"
	if s.side == "s" {
		name = "SClose"
	}
	s.e.log(drv.Step{"ev": name, "c": s.c, "a": s.a, "again": again}, nil)
	if again {
		return nil
	}
	switch {
	case pending && s.side == "c": // p2p.Send: the message leaves with Close
		s.send(s.sc.reqd, s.sc.reqfate, func() { _ = s.Stream.Close() })
	case pending:
		s.send(s.sc.respd, s.sc.respfate, func() { _ = s.Stream.Close() })
	default:
		go func() { _ = s.Stream.Close() }()
	}
	return nil
}

func (s *wstream) Reset() error {
	s.e.log(drv.Step{"ev": "Reset_", "c": s.c, "a": s.a, "side": s.side}, nil)
	return s.Stream.Reset()
}

func (s *wstream) ResetWithError(c network.StreamErrorCode) error {
	s.e.log(drv.Step{"ev": "Reset_", "c": s.c, "a": s.a, "side": s.side}, nil)
	return s.Stream.ResetWithError(c)
}

func (s *wstream) dl(which string, t time.Time) error {
	d := -1
	if !t.IsZero() {
		d = int(t.Sub(s.e.genesis) / time.Microsecond)
	}
	s.e.log(drv.Step{"ev": "DL", "c": s.c, "a": s.a, "side": s.side, "which": which, "d": d}, nil)
	s.mu.Lock()
	if which != "w" {
		s.rdl = t
	}
	if which != "r" {
		s.wdl = t
	}
	s.mu.Unlock()
	return nil
}
func (s *wstream) SetDeadline(t time.Time) error      { return s.dl("rw", t) }
func (s *wstream) SetReadDeadline(t time.Time) error  { return s.dl("r", t) }
func (s *wstream) SetWriteDeadline(t time.Time) error { return s.dl("w", t) }

// ---------------------------------------------------------------------------------------------------------------------
// handlers
// ---------------------------------------------------------------------------------------------------------------------

func (e *env) register(p int) {
	sc := e.srv[p]
	zero := func() proto.Message {
		if sc.reqtype == "psx" {
			return new(pbv1.ParSigExMsg)
		}
		return new(pbv1.Duty)
	}
	var opts []p2p.SendRecvOption
	for _, d := range sc.delims {
		opts = append(opts, p2p.WithDelimitedProtocol(protoID(d)))
	}
	if sc.rto > 0 {
		opts = append(opts, p2p.WithReceiveTimeout(time.Duration(sc.rto)*time.Millisecond))
	}
	if sc.limit > 0 {
		opts = append(opts, p2p.WithReadLimit(sc.limit))
	}
	topic := fmt.Sprintf("srv%d", p)
	p2p.RegisterHandler(topic, e.fh[p], protoID(sc.base), zero, func(ctx context.Context, from peer.ID, req proto.Message) (proto.Message, bool, error) {
		g := goid()
		e.mu.Lock()
		ws := e.byGo[g]
		e.mu.Unlock()
		if ws == nil {
			e.log(drv.Step{"ev": "HStart", "c": 0, "a": 0, "p": p}, nil)
			return nil, false, nil
		}
		b, _ := proto.Marshal(req)
		shape, slot := slotOf(sc.reqtype, b)
		dl := -1
		if d, ok := ctx.Deadline(); ok {
			dl = int(d.Sub(e.genesis) / time.Microsecond)
		}
		e.log(drv.Step{"ev": "HStart", "c": ws.c, "a": ws.a, "p": p, "rq": drv.Step{"shape": shape, "slot": slot}, "from": e.idxOf(from), "dl": dl,
			"cx": ctxState(ctx)}, nil)
		res := ws.sc.hres
		timer := time.NewTimer(ws.sc.hlat)
		defer timer.Stop()
		var done <-chan struct{}
		if ws.sc.hon {
			done = ctx.Done()
		}
		select {
		case <-timer.C:
		case <-done:
			res = "err"
		case <-e.quit:
			res = "false"
		}
		v := 1000 + 10*ws.c + ws.a
		out := v
		if res == "nil" || res == "empty" || res == "false" || res == "err" {
			out = 0
		}
		e.log(drv.Step{"ev": "HEnd", "c": ws.c, "a": ws.a, "res": res, "v": out}, nil)
		herr := errors.New("handler failed")
		switch res {
		case "resp":
			return &pbv1.Duty{Slot: uint64(v)}, true, nil
		case "nil":
			return nil, true, nil
		case "empty":
			return new(pbv1.Duty), true, nil
		case "respfalse":
			return &pbv1.Duty{Slot: uint64(v)}, false, nil
		case "err":
			return nil, false, herr
		case "resperr":
			return &pbv1.Duty{Slot: uint64(v)}, true, herr
		}
		return nil, false, nil
	}, opts...)
}

// ---------------------------------------------------------------------------------------------------------------------
// the schedule
// ---------------------------------------------------------------------------------------------------------------------

func TestExec(t *testing.T) {
	scheds := drv.ReadSchedules(t)
	tr := drv.NewTracer(t)
	defer tr.Close()
	for i, s := range scheds {
		hung := false
		synctest.Test(t, func(t *testing.T) { hung = runOne(t, tr, i, s) })
		if hung {
			break
		}
	}
}

func ints(v any) []int {
	res := []int{}
	for _, x := range list(v) {
		res = append(res, drv.Num(x))
	}
	return res
}

func strs(v any) []string {
	res := []string{}
	for _, x := range list(v) {
		res = append(res, drv.Str(x))
	}
	return res
}

func runOne(t *testing.T, tr *drv.Tracer, sid int, sched []drv.Step) (hung bool) {
	cfg := sched[0]
	if drv.Str(cfg["ev"]) != "Cfg" {
		t.Fatalf("schedule %d does not start with Cfg", sid)
	}
	n := drv.Num(cfg["hosts"])
	e := &env{t: t, genesis: time.Now(), n: n, calls: map[int]*call{}, byInner: map[uintptr]*wstream{}, byGo: map[int64]*wstream{},
		idx: map[peer.ID]int{}, names: map[string]int{}, quit: make(chan struct{})}
	e.cond = sync.NewCond(&e.mu)
	e.hctx, e.hcancel = context.WithCancel(context.Background())
	log.InitJSONForT(t, zapcore.AddSync(logSink{e}))
	e.mn = mocknet.New()
	e.hosts, e.fh, e.ids, e.srv, e.senders, e.gaters = make([]host.Host, n+1), make([]*fhost, n+1), make([]peer.ID, n+1), make([]srvConf, n+1),
		make([]*p2p.Sender, n+1), make([]*logGater, n+1)
	for i := 1; i <= n; i++ {
		k := detKey(fmt.Sprintf("verif-p2psender-%d", i))
		a, _ := ma.NewMultiaddr(fmt.Sprintf("/ip4/10.0.0.%d/tcp/4242", i))
		h, err := e.mn.AddPeer((*libp2pcrypto.Secp256k1PrivateKey)(k), a)
		if err != nil {
			t.Fatal(err)
		}
		e.hosts[i], e.ids[i] = h, h.ID()
		e.idx[h.ID()] = i
		e.names[p2p.PeerName(h.ID())] = i
		e.fh[i] = &fhost{Host: h, e: e, me: i}
		e.senders[i] = new(p2p.Sender)
	}
	// gaters
	cluster := []peer.ID{}
	for _, i := range ints(cfg["cluster"]) {
		cluster = append(cluster, e.ids[i])
	}
	relay0 := ints(cfg["relays"])
	for _, id := range relay0 {
		if id > 0 {
			e.relays = append(e.relays, p2p.NewMutablePeer(p2p.Peer{ID: e.ids[id], Name: p2p.PeerName(e.ids[id])}))
		} else {
			e.relays = append(e.relays, new(p2p.MutablePeer))
		}
	}
	for _, g := range ints(cfg["gated"]) {
		cg, err := p2p.NewConnGater(cluster, e.relays)
		if err != nil {
			t.Fatal(err)
		}
		e.gaters[g] = &logGater{e: e, g: g, inner: cg}
	}
	for _, g := range ints(cfg["open"]) {
		e.gaters[g] = &logGater{e: e, g: g, inner: p2p.NewOpenGater()}
	}
	if err := e.mn.LinkAll(); err != nil {
		t.Fatal(err)
	}
	reset := drv.Step{"ev": "Reset", "sid": sid, "t": 0, "hosts": n, "cluster": ints(cfg["cluster"]), "gated": ints(cfg["gated"]), "relays": relay0}
	srvs := []any{}
	byHost := map[int]map[string]any{}
	for _, s := range list(cfg["srv"]) {
		byHost[drv.Num(obj(s)["host"])] = obj(s)
	}
	for i := 1; i <= n; i++ {
		s, ok := byHost[i]
		if !ok {
			srvs = append(srvs, drv.Step{"on": false, "protos": []string{}, "rto": 0, "reqtype": "-", "limit": 0})
			continue
		}
		sc := srvConf{on: true, base: drv.Str(s["base"]), delims: strs(s["delims"]), rto: drv.Num(s["rto"]), reqtype: str(s, "reqtype", "duty"), limit: drv.Num(s["limit"])}
		e.srv[i] = sc
		rto := sc.rto
		if rto == 0 {
			rto = 5000
		}
		srvs = append(srvs, drv.Step{"on": true, "protos": append([]string{sc.base}, sc.delims...), "rto": rto * 1000, "reqtype": sc.reqtype, "limit": sc.limit})
	}
	reset["srv"] = srvs
	e.events = append(e.events, reset)
	for i := 1; i <= n; i++ {
		if e.srv[i].on {
			e.register(i)
		}
	}
	synctest.Wait()

	for _, st := range sched[1:] {
		if d := time.Until(e.genesis.Add(ms(st["at"]))); d > 0 {
			time.Sleep(d)
		}
		synctest.Wait()
		switch drv.Str(st["ev"]) {
		case "Call":
			e.doCall(st)
		case "CtxCancel":
			c := e.calls[drv.Num(st["c"])]
			e.log(drv.Step{"ev": "CtxCancel", "c": c.id}, c.cancel)
		case "Link":
			a, b := drv.Num(st["a"]), drv.Num(st["b"])
			up := st["up"] == true
			e.log(drv.Step{"ev": "Link", "a": a, "b": b, "up": up}, nil)
			if up {
				_, _ = e.mn.LinkPeers(e.ids[a], e.ids[b])
			} else {
				_ = e.mn.UnlinkPeers(e.ids[a], e.ids[b])
				_ = e.mn.DisconnectPeers(e.ids[a], e.ids[b])
			}
		case "RelaySet":
			r, id := drv.Num(st["r"]), drv.Num(st["id"])
			e.log(drv.Step{"ev": "RelaySet", "r": r, "id": id}, nil)
			e.relays[r-1].Set(p2p.Peer{ID: e.ids[id], Name: p2p.PeerName(e.ids[id])})
		case "Gate":
			g, id := drv.Num(st["g"]), drv.Num(st["id"])
			pid := peer.ID(fmt.Sprintf("unknown-%d", id))
			if id >= 1 && id <= n {
				pid = e.ids[id]
			}
			lg := e.gaters[g]
			if lg == nil {
				break
			}
			switch drv.Str(st["fn"]) {
			case "secured":
				lg.InterceptSecured(network.Direction(drv.Num(st["dir"])), pid, nil)
			case "peerdial":
				lg.InterceptPeerDial(pid)
			case "addrdial":
				lg.InterceptAddrDial(pid, nil)
			case "accept":
				lg.InterceptAccept(nil)
			case "upgraded":
				lg.InterceptUpgraded(nil)
			}
		default:
			t.Fatalf("unknown step %v", st)
		}
		synctest.Wait()
	}
	// drain: virtual time goes on until every call has returned, no stream handler runs and nothing is in flight, then past
	// every time-out (a goroutine of SendAsync cannot be seen from outside), and again if that woke something up
	idle := func() bool {
		e.mu.Lock()
		defer e.mu.Unlock()
		return e.running == 0 && e.flying == 0 && len(e.byGo) == 0
	}
	for round := 0; round < 4; round++ {
		for k := 0; !idle() && k < 700; k++ {
			time.Sleep(time.Second)
			synctest.Wait()
		}
		time.Sleep(40 * time.Second)
		synctest.Wait()
		if idle() {
			break
		}
	}
	if idle() {
		streams := 0
		for i := 1; i <= n; i++ {
			for _, c := range e.hosts[i].Network().Conns() {
				for _, s := range c.GetStreams() {
					if strings.HasPrefix(string(s.Protocol()), protoPrefix) {
						streams++
					}
				}
			}
		}
		e.log(drv.Step{"ev": "End", "streams": streams, "gor": p2pGoroutines()}, nil)
	} else {
		e.log(drv.Step{"ev": "Hang"}, nil)
		hung = true
	}
	close(e.quit)
	e.hcancel()
	for _, c := range e.calls {
		c.cancel()
	}
	time.Sleep(10 * time.Second)
	synctest.Wait()
	_ = e.mn.Close()
	time.Sleep(10 * time.Second)
	synctest.Wait()
	for _, ev := range e.events {
		tr.Emit(ev)
	}
	return hung
}

// p2pGoroutines counts the goroutines that are inside package p2p (a SendAsync goroutine, a stream handler).
func p2pGoroutines() int {
	buf := make([]byte, 1<<22)
	n := runtime.Stack(buf, true)
	cnt := 0
	for _, g := range strings.Split(string(buf[:n]), "\n\n") {
		if strings.Contains(g, "github.com/obolnetwork/charon/p2p.") {
			cnt++
		}
	}
	return cnt
}

func (e *env) doCall(st drv.Step) {
	c := &call{id: drv.Num(st["c"]), kind: drv.Str(st["kind"]), from: drv.Num(st["from"]), to: drv.Num(st["peer"])}
	for _, a := range list(st["att"]) {
		c.script = append(c.script, parseAtt(obj(a)))
	}
	rq := obj(st["rq"])
	c.shape = str(rq, "shape", "full")
	c.reqtype = str(st, "reqtype", "")
	if c.reqtype == "" {
		c.reqtype = e.srv[c.to].reqtype
		if c.reqtype == "" {
			c.reqtype = "duty"
		}
	}
	slot := uint64(drv.Num(rq["slot"]))
	if c.shape == "big" {
		slot += bigSlot
	}
	var req proto.Message
	switch {
	case c.reqtype == "psx" && c.shape == "empty":
		req = new(pbv1.ParSigExMsg)
	case c.reqtype == "psx":
		req = &pbv1.ParSigExMsg{Duty: &pbv1.Duty{Slot: slot, Type: 1}, DataSet: &pbv1.ParSignedDataSet{}}
	case c.shape == "empty":
		req = new(pbv1.Duty)
	default:
		req = &pbv1.Duty{Slot: slot, Type: 1}
	}
	base := str(st, "base", "A")
	delims := strs(st["delims"])
	sto := drv.Num(st["sto"])
	nonzero := st["nonzero"] == true
	cstate := str(st, "ctx", "live")
	ctx, cancel := context.WithCancel(e.hctx)
	ctx = log.WithCtx(ctx, z.Int("vcall", c.id))
	c.ctx, c.cancel = ctx, cancel
	if cstate == "canceled" {
		cancel()
	}
	e.mu.Lock()
	e.calls[c.id] = c
	e.mu.Unlock()
	var opts []p2p.SendRecvOption
	for _, d := range delims {
		opts = append(opts, p2p.WithDelimitedProtocol(protoID(d)))
	}
	stous := 7000000
	if sto > 0 {
		opts = append(opts, p2p.WithSendTimeout(time.Duration(sto)*time.Millisecond))
		stous = sto * 1000
	}
	opts = append(opts, p2p.WithSendReceiveRTT(func(d time.Duration) {
		e.log(drv.Step{"ev": "RTT", "c": c.id, "d": int(d / time.Microsecond)}, nil)
	}))
	resp := new(pbv1.Duty)
	if nonzero {
		resp.Slot = 77
	}
	ev := drv.Step{"ev": "Call", "c": c.id, "kind": c.kind, "from": c.from, "peer": c.to, "rq": drv.Step{"shape": c.shape, "slot": drv.Num(rq["slot"])},
		"base": base, "delims": delims, "sto": stous, "nonzero": nonzero, "ctx": cstate}
	h, peerID := e.fh[c.from], e.ids[c.to]
	sync_ := c.kind != "async"
	e.log(ev, func() {
		if sync_ {
			e.running++
		}
	})
	ret := func(err error) {
		rv := int(resp.GetSlot())
		e.log(drv.Step{"ev": "Ret", "c": c.id, "err": classify(err), "rv": rv, "txt": fmt.Sprint(err)}, func() { e.running-- })
	}
	switch c.kind {
	case "sr":
		go func() { ret(e.senders[c.from].SendReceive(ctx, h, peerID, req, resp, protoID(base), opts...)) }()
	case "psr":
		go func() { ret(p2p.SendReceive(ctx, h, peerID, req, resp, protoID(base), opts...)) }()
	case "send":
		go func() { ret(p2p.Send(ctx, h, protoID(base), peerID, req, opts...)) }()
	case "async":
		err := e.senders[c.from].SendAsync(ctx, h, protoID(base), peerID, req, opts...)
		e.log(drv.Step{"ev": "ARet", "c": c.id, "err": classify(err)}, nil)
	default:
		e.t.Fatalf("unknown kind %q", c.kind)
	}
}

var _ = io.EOF
