package p2psender

import (
	"context"
	"crypto/sha256"
	"fmt"
	"testing"
	"testing/synctest"
	"time"

	k1 "github.com/decred/dcrd/dcrec/secp256k1/v4"
	libp2pcrypto "github.com/libp2p/go-libp2p/core/crypto"
	"github.com/libp2p/go-libp2p/core/host"
	"github.com/libp2p/go-libp2p/core/peer"
	mocknet "github.com/libp2p/go-libp2p/p2p/net/mock"
	ma "github.com/multiformats/go-multiaddr"
	"google.golang.org/protobuf/proto"

	pbv1 "github.com/obolnetwork/charon/core/corepb/v1"
	"github.com/obolnetwork/charon/p2p"
)

func detKey(label string) *k1.PrivateKey {
	h := sha256.Sum256([]byte(label))
	return k1.PrivKeyFromBytes(h[:])
}

func TestProto(t *testing.T) {
	t0 := time.Now()
	for i := 0; i < 20; i++ {
		synctest.Test(t, func(t *testing.T) { proto1(t) })
	}
	fmt.Println("wall", time.Since(t0))
}

func proto1(t *testing.T) {
	start := time.Now()
	mn := mocknet.New()
	var hosts []host.Host
	for i := 0; i < 3; i++ {
		k := detKey(fmt.Sprintf("k%d", i))
		a, _ := ma.NewMultiaddr(fmt.Sprintf("/ip4/10.0.0.%d/tcp/4242", i+1))
		h, err := mn.AddPeer((*libp2pcrypto.Secp256k1PrivateKey)(k), a)
		if err != nil {
			t.Fatal(err)
		}
		hosts = append(hosts, h)
	}
	mn.LinkAll()
	mn.ConnectAllButSelf()
	synctest.Wait()
	p2p.RegisterHandler("x", hosts[1], "/charon/test/1.0.0", func() proto.Message { return new(pbv1.Duty) },
		func(ctx context.Context, p peer.ID, req proto.Message) (proto.Message, bool, error) {
			d := req.(*pbv1.Duty)
			time.Sleep(time.Second)
			return &pbv1.Duty{Slot: d.Slot + 100}, true, nil
		})
	s := new(p2p.Sender)
	resp := new(pbv1.Duty)
	err := s.SendReceive(context.Background(), hosts[0], hosts[1].ID(), &pbv1.Duty{Slot: 7}, resp, "/charon/test/1.0.0",
		p2p.WithSendReceiveRTT(func(d time.Duration) { fmt.Println("rtt", d) }))
	fmt.Println("resp", resp, err, time.Since(start))
	err = s.SendReceive(context.Background(), hosts[0], hosts[2].ID(), &pbv1.Duty{Slot: 7}, new(pbv1.Duty), "/charon/test/1.0.0")
	fmt.Println("unsupported:", err, time.Since(start))
	mn.UnlinkPeers(hosts[0].ID(), hosts[1].ID())
	mn.DisconnectPeers(hosts[0].ID(), hosts[1].ID())
	synctest.Wait()
	err = s.SendReceive(context.Background(), hosts[0], hosts[1].ID(), &pbv1.Duty{Slot: 7}, new(pbv1.Duty), "/charon/test/1.0.0")
	fmt.Println("unlinked:", err, time.Since(start))
	time.Sleep(10 * time.Second)
	synctest.Wait()
	mn.Close()
	time.Sleep(10 * time.Second)
	synctest.Wait()
}
