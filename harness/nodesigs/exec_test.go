// Package nodesigs executes NodeSigs schedules: ceremony steps 2..6 of dkg.Run (deposit data, builder registrations,
// lock hash, node signatures, final verification) on n real nodes and records what every step function returned.
//
// Every node owns a go-libp2p mocknet host with its ENR key, a REAL exchanger (newExchanger: parsigex + parsigdb with
// the verifyPeerShareIdx gate), a REAL dkg/bcast component and a REAL nodeSigBcast (hook dkg/verif_export_nodesigs.go,
// build tag verif).  Keys, shares and the definition come from cluster.NewForT.  Honest nodes call the unmodified
// step functions in the order of Run (signAndAggDepositData -> signAndAggValidatorRegistrations -> signAndAggLockHash
// -> nodeSigBcast.exchange -> lock.VerifySignatures); the driver plays the step barrier (every runner finished a phase
// before the next one starts).  The faulty peer is driven piecewise through the same components: its exchanger's
// exchange() with an altered set (made by the real sign functions from altered inputs), forged extra messages handed
// to the receivers' real parsigex handler under ITS transport identity, its nodeSigBcast.exchange with another key /
// hash / nil key, or its bcast component's Broadcast with an altered MsgNodeSig.  Every altered input is logged with
// the abstract descriptor of specs/NodeSigs (partial = {val, idx, by:[peer,val], msg}, node signature = {idx, by,
// over}).  Nothing here knows an expected outcome: returns are classified from the error text / fields only.
//
// Schedule: [{"ev":"Cfg","n","V","f","plan":{phase:{kind,val,peer}}}, {"ev":"Run","ph","cancel"}...]: the phases the
// environment lets the ceremony enter; cancel = the operator cancels the contexts of a phase that is still running
// after a grace period (the schedule generator puts it where the model says the phase can never complete).  The
// exchanger's own timeout (30 s) and the 20 s hang watchdog are never reached by a conforming implementation.
package nodesigs

import (
	"context"
	"crypto/sha256"
	"encoding/hex"
	"fmt"
	"math/rand"
	"os"
	"strconv"
	"strings"
	"sync"
	"sync/atomic"
	"testing"
	"time"

	eth2p0 "github.com/attestantio/go-eth2-client/spec/phase0"
	k1 "github.com/decred/dcrd/dcrec/secp256k1/v4"
	libp2pcrypto "github.com/libp2p/go-libp2p/core/crypto"
	"github.com/libp2p/go-libp2p/core/host"
	"github.com/libp2p/go-libp2p/core/peer"
	mocknet "github.com/libp2p/go-libp2p/p2p/net/mock"
	ma "github.com/multiformats/go-multiaddr"
	"go.uber.org/zap"

	"github.com/obolnetwork/charon/app/k1util"
	"github.com/obolnetwork/charon/app/z"
	"github.com/obolnetwork/charon/cluster"
	"github.com/obolnetwork/charon/core"
	pbv1 "github.com/obolnetwork/charon/core/corepb/v1"
	"github.com/obolnetwork/charon/dkg"
	"github.com/obolnetwork/charon/dkg/bcast"
	dkgpb "github.com/obolnetwork/charon/dkg/dkgpb/v1"
	"github.com/obolnetwork/charon/dkg/share"
	"github.com/obolnetwork/charon/eth2util"
	"github.com/obolnetwork/charon/eth2util/deposit"
	"github.com/obolnetwork/charon/eth2util/registration"
	"github.com/obolnetwork/charon/p2p"
	"github.com/obolnetwork/charon/tbls"
	"github.com/obolnetwork/charon/tbls/tblsconv"

	"verifharness/drv"
)

const (
	exTimeout = 30 * time.Second // exchanger's own timeout: never decides anything here
	hangAfter = 20 * time.Second
	grace     = 400 * time.Millisecond
)

// ---------------------------------------------------------------------------------------------
// clusters (keys, shares, definition): one per (n, V), shared read-only by all schedules

type clusterData struct {
	def     cluster.Definition
	keys    []*k1.PrivateKey
	secrets [][]tbls.PrivateKey // [validator][peer]
	shares  [][]share.Share     // [peer][validator]
	peers   []p2p.Peer
	peerIDs []peer.ID
	peerMap map[peer.ID]cluster.NodeIdx
	network string
	amounts []eth2p0.Gwei
}

func makeCluster(t *testing.T, n, nv int) *clusterData {
	t.Helper()
	seed := 1000 + 10*n + nv
	lock, keys, secrets := cluster.NewForT(t, nv, cluster.Threshold(n), n, seed, rand.New(rand.NewSource(int64(seed))),
		func(d *cluster.Definition) { d.DepositAmounts = []eth2p0.Gwei{deposit.DefaultDepositAmount} })
	c := &clusterData{def: lock.Definition, keys: keys, secrets: secrets, peerMap: map[peer.ID]cluster.NodeIdx{}}
	var err error
	if c.peers, err = c.def.Peers(); err != nil {
		t.Fatal(err)
	}
	if c.peerIDs, err = c.def.PeerIDs(); err != nil {
		t.Fatal(err)
	}
	for _, p := range c.peers {
		idx, err := c.def.NodeIdx(p.ID)
		if err != nil {
			t.Fatal(err)
		}
		c.peerMap[p.ID] = idx
	}
	if c.network, err = eth2util.ForkVersionToNetwork(c.def.ForkVersion); err != nil {
		t.Fatal(err)
	}
	// as Run derives the deposit amounts
	c.amounts = c.def.DepositAmounts
	if len(c.amounts) == 0 {
		if cluster.SupportPartialDeposits(c.def.Version) {
			c.amounts = deposit.DefaultDepositAmounts(c.def.Compounding)
		} else {
			c.amounts = []eth2p0.Gwei{deposit.DefaultDepositAmount}
		}
	} else {
		c.amounts = deposit.DedupAmounts(c.amounts)
	}
	for i := 0; i < n; i++ {
		var shs []share.Share
		for v, val := range lock.Validators {
			sh := share.Share{PublicShares: map[int]tbls.PublicKey{}, SecretShare: secrets[v][i]}
			pk, err := tblsconv.PubkeyFromBytes(val.PubKey)
			if err != nil {
				t.Fatal(err)
			}
			sh.PubKey = pk
			for k, raw := range val.PubShares {
				ps, err := tblsconv.PubkeyFromBytes(raw)
				if err != nil {
					t.Fatal(err)
				}
				sh.PublicShares[k+1] = ps // share index of peer k is k+1
			}
			shs = append(shs, sh)
		}
		c.shares = append(c.shares, shs)
	}

	return c
}

// ---------------------------------------------------------------------------------------------

type node struct {
	i      int // 0-based peer index
	host   host.Host
	ex     *dkg.VerifExchanger
	caster *bcast.Component
	nsb    *dkg.VerifNodeSigBcast
	dd     [][]eth2p0.DepositData
	regs   []core.VersionedSignedValidatorRegistration
	lock   cluster.Lock
	hasLk  bool
}

type fault struct {
	kind string
	val  int // 1-based validator
	peer int // 1-based peer
}

type run struct {
	t      *testing.T
	sid    int
	c      *clusterData
	n, nv  int
	f      int // 1-based faulty peer, 0: none
	plan   map[string]fault
	nodes  []*node
	ctx    context.Context
	cancel context.CancelFunc
	mu     sync.Mutex
	evs    []drv.Step
	lhs    map[string]int
	// the faulty peer left the script in some phase
	offEver bool
	mn      mocknet.Mocknet
}

func (r *run) emit(e drv.Step) {
	r.mu.Lock()
	r.evs = append(r.evs, e)
	r.mu.Unlock()
}

func (r *run) lhClass(h []byte) int {
	r.mu.Lock()
	defer r.mu.Unlock()
	k := hex.EncodeToString(h)
	if _, ok := r.lhs[k]; !ok {
		r.lhs[k] = len(r.lhs) + 1
	}

	return r.lhs[k]
}

func part(val, idx, byPeer, byVal int, msg string) drv.Step {
	return drv.Step{"val": val, "idx": idx, "by": []int{byPeer, byVal}, "msg": msg}
}

func gasLimit(def cluster.Definition) uint64 {
	if def.TargetGasLimit == 0 {
		return registration.DefaultGasLimit
	}

	return uint64(def.TargetGasLimit)
}

// sigTypeOf returns the exchanger's numeric signature type of an exchange phase.
func sigTypeOf(ph string) int {
	lk, reg, dep := dkg.VerifSigTypes()
	switch ph {
	case "dep":
		return dep
	case "reg":
		return reg
	}

	return lk
}

// lockHashOf assembles the unsigned lock exactly as signAndAggLockHash does and returns its hash.
func (r *run) lockHashOf(nd *node) ([]byte, error) {
	vals, err := dkg.VerifCreateDistValidators(r.c.shares[nd.i], nd.dd, nd.regs)
	if err != nil {
		return nil, err
	}
	lk, err := cluster.Lock{Definition: r.c.def, Validators: vals}.SetLockHash()
	if err != nil {
		return nil, err
	}

	return lk.LockHash, nil
}

// signSet makes the partial signature set of phase ph with the REAL sign function from the given shares, claimed
// share index and message variant (other = TRUE: another deposit amount / gas limit / hash).
func (r *run) signSet(nd *node, ph string, shares []share.Share, shareIdx int, other bool) (core.ParSignedDataSet, error) {
	def := r.c.def
	switch ph {
	case "dep":
		amount := r.c.amounts[0]
		if other {
			amount -= deposit.OneEthInGwei
		}

		return dkg.VerifSignDepositMsgs(shares, shareIdx, def.WithdrawalAddresses(), r.c.network, amount, def.Compounding)
	case "reg":
		gl := gasLimit(def)
		if other {
			gl++
		}

		return dkg.VerifSignValidatorRegistrations(shares, shareIdx, def.FeeRecipientAddresses(), gl, def.ForkVersion)
	default:
		h, err := r.lockHashOf(nd)
		if err != nil {
			return nil, err
		}
		if other {
			x := sha256.Sum256(h)
			h = x[:]
		}

		return dkg.VerifSignLockHash(shareIdx, shares, h)
	}
}

func pubkeyOf(sh share.Share) core.PubKey {
	pk, _ := core.PubKeyFromBytes(sh.PubKey[:])
	return pk
}

// faultySet builds the faulty peer's set for an exchange phase and its descriptor.
func (r *run) faultySet(nd *node, ph string, flt fault) (core.ParSignedDataSet, []drv.Step, error) {
	f := r.f
	own := r.c.shares[nd.i]
	honest, err := r.signSet(nd, ph, own, f, false)
	if err != nil {
		return nil, nil, err
	}
	desc := map[int]drv.Step{}
	for v := 1; v <= r.nv; v++ {
		desc[v] = part(v, f, f, v, "right")
	}
	alt := func(v int, shares []share.Share, other bool) error { // entry v taken from a set signed with altered inputs
		s2, err := r.signSet(nd, ph, shares, f, other)
		if err != nil {
			return err
		}
		honest[pubkeyOf(own[v-1])] = s2[pubkeyOf(own[v-1])]

		return nil
	}
	withSecret := func(v int, sec tbls.PrivateKey) []share.Share {
		cp := append([]share.Share{}, own...)
		cp[v-1].SecretShare = sec

		return cp
	}
	otherVal := func(v int) int { return v%r.nv + 1 }
	switch flt.kind {
	case "swap":
		err = alt(flt.val, withSecret(flt.val, r.c.secrets[flt.val-1][flt.peer-1]), false)
		desc[flt.val] = part(flt.val, f, flt.peer, flt.val, "right")
	case "xval":
		err = alt(flt.val, withSecret(flt.val, r.c.secrets[otherVal(flt.val)-1][f-1]), false)
		desc[flt.val] = part(flt.val, f, f, otherVal(flt.val), "right")
	case "xvalall":
		for v := 1; v <= r.nv && err == nil; v++ {
			err = alt(v, withSecret(v, r.c.secrets[otherVal(v)-1][f-1]), false)
			desc[v] = part(v, f, f, otherVal(v), "right")
		}
	case "othermsg":
		err = alt(flt.val, own, true)
		desc[flt.val] = part(flt.val, f, f, flt.val, "other")
	case "claim":
		pk := pubkeyOf(own[flt.val-1])
		d := honest[pk]
		d.ShareIdx = flt.peer
		honest[pk] = d
		desc[flt.val] = part(flt.val, flt.peer, f, flt.val, "right")
	case "drop":
		delete(honest, pubkeyOf(own[flt.val-1]))
		delete(desc, flt.val)
	}
	var parts []drv.Step
	for v := 1; v <= r.nv; v++ {
		if d, ok := desc[v]; ok {
			parts = append(parts, d)
		}
	}
	if parts == nil {
		parts = []drv.Step{}
	}

	return honest, parts, err
}

// ---------------------------------------------------------------------------------------------
// what a step function returned, classified from the error only

type outcome struct {
	i   int
	ev  drv.Step
	ok  bool
	ctx bool
}

func fieldInt(err error, key string) (int, bool) {
	for _, f := range z.Fields(err) {
		var (
			v     int
			found bool
		)
		f(func(zf zap.Field) {
			if zf.Key == key {
				v, found = int(zf.Integer), true
			}
		})
		if found {
			return v, true
		}
	}

	return 0, false
}

func classify(ph string, err error) (st, class string, blame int) {
	if err == nil {
		return "ok", "", 0
	}
	msg := err.Error()
	switch {
	case strings.Contains(msg, "context canceled"):
		return "ctx", "ctx", 0
	case ph == "verify" && strings.Contains(msg, "invalid node signature count"):
		return "fail", "nsigcount", 0
	case ph == "verify" && strings.Contains(msg, "invalid node signature"):
		return "fail", "nsig", 0
	case ph == "verify" && strings.Contains(msg, "verify lock signature aggregate"):
		return "fail", "aggsig", 0
	case ph == "verify" && strings.Contains(msg, "builder registration"):
		return "fail", "breg", 0
	case ph == "verify":
		return "fail", "other", 0
	case strings.Contains(msg, "partial signature from peer"):
		if idx, ok := fieldInt(err, "peerIdx"); ok {
			return "abort", "partial", idx + 1
		}

		return "abort", "partial", 0
	case strings.Contains(msg, "aggregated signature"), strings.Contains(msg, "verify multisignature"):
		return "abort", "agg", 0
	case strings.Contains(msg, "mismatching partial signed data"):
		return "err", "mismatch", 0
	case strings.Contains(msg, "timed out waiting for peer signatures"):
		return "err", "timeout", 0
	}

	return "err", "other", 0
}

func (r *run) describeSigs(nd *node, sigs [][]byte) []int {
	out := []int{}
	for _, sig := range sigs {
		who := 0
		if len(sig) == 65 {
			for k, p := range r.c.peers {
				pub, err := p.PublicKey()
				if err != nil {
					continue
				}
				if ok, err := k1util.Verify65(pub, nd.lock.LockHash, sig); err == nil && ok {
					who = k + 1
					break
				}
			}
		}
		out = append(out, who)
	}

	return out
}

// step runs the REAL step function of phase ph at node nd.
func (r *run) step(nd *node, ph string) outcome {
	var (
		err  error
		def  = r.c.def
		nidx = r.c.peerMap[nd.host.ID()]
		ev   = drv.Step{"ev": "Phase", "i": nd.i + 1, "ph": ph, "lh": 0, "sigs": []int{}}
	)
	switch ph {
	case "dep":
		nd.dd, err = dkg.VerifSignAndAggDepositData(r.ctx, nd.ex, r.c.shares[nd.i], def.WithdrawalAddresses(), r.c.network, nidx, r.c.amounts, def.Compounding)
	case "reg":
		nd.regs, err = dkg.VerifSignAndAggValidatorRegistrations(r.ctx, nd.ex, r.c.shares[nd.i], def.FeeRecipientAddresses(), uint64(def.TargetGasLimit), nidx, def.ForkVersion)
	case "lock":
		nd.lock, err = dkg.VerifSignAndAggLockHash(r.ctx, r.c.shares[nd.i], def, nidx, nd.ex, nd.dd, nd.regs)
		if err == nil {
			nd.hasLk = true
			ev["lh"] = r.lhClass(nd.lock.LockHash)
		}
	case "nsig":
		var sigs [][]byte
		sigs, err = nd.nsb.VerifExchange(r.ctx, r.c.keys[nd.i], nd.lock.LockHash)
		if err == nil {
			nd.lock.NodeSignatures = sigs
			if !cluster.SupportNodeSignatures(nd.lock.Version) {
				nd.lock.NodeSignatures = nil
			}
			ev["sigs"] = r.describeSigs(nd, sigs)
		}
	case "verify":
		err = nd.lock.VerifySignatures(nil)
	}
	st, class, blame := classify(ph, err)
	if st == "err" && class == "other" && r.ctx.Err() != nil {
		st, class = "ctx", "ctx" // some transport error of a call that the operator's cancellation interrupted
	}
	ev["st"], ev["err"], ev["blame"] = st, class, blame
	if err != nil {
		m := err.Error()
		if len(m) > 160 {
			m = m[:160]
		}
		ev["msg"] = m
	}

	return outcome{i: nd.i, ev: ev, ok: err == nil, ctx: st == "ctx"}
}

// ---------------------------------------------------------------------------------------------

func (r *run) setup() error {
	mn := mocknet.New()
	r.mn = mn
	for i := 0; i < r.n; i++ {
		a, err := ma.NewMultiaddr(fmt.Sprintf("/ip4/10.%d.%d.%d/tcp/4242", (r.sid/250)%250, r.sid%250, i+1))
		if err != nil {
			return err
		}
		h, err := mn.AddPeer((*libp2pcrypto.Secp256k1PrivateKey)(r.c.keys[i]), a)
		if err != nil {
			return err
		}
		if h.ID() != r.c.peerIDs[i] {
			return fmt.Errorf("host id of peer %d differs from the definition", i)
		}
		r.nodes = append(r.nodes, &node{i: i, host: h})
	}
	if err := mn.LinkAll(); err != nil {
		return err
	}
	if err := mn.ConnectAllButSelf(); err != nil {
		return err
	}
	for _, nd := range r.nodes {
		ex, err := dkg.VerifNewExchanger(nd.host, nd.i, r.c.peerIDs, r.c.peerMap, exTimeout)
		if err != nil {
			return err
		}
		nd.ex = ex
		nd.caster = bcast.New(nd.host, r.c.peerIDs, r.c.keys[nd.i], r.c.def.DefinitionHash)
		nd.nsb = dkg.VerifNewNodeSigBcast(r.c.peers, r.c.peerMap[nd.host.ID()], nd.caster)
	}

	return nil
}

// offScript starts the faulty peer's altered behaviour in phase ph and logs it.
func (r *run) offScript(ph string, flt fault) error {
	nd := r.nodes[r.f-1]
	if flt.kind == "silent" {
		r.emit(drv.Step{"ev": "FQuit", "ph": ph})
		return nil
	}
	if ph != "nsig" {
		set, parts, err := r.faultySet(nd, ph, flt)
		if err != nil {
			return err
		}
		r.emit(drv.Step{"ev": "FSend", "ph": ph, "parts": parts})
		go func() { _, _ = nd.ex.VerifExchange(r.ctx, sigTypeOf(ph), set) }()

		return nil
	}
	f := r.f
	lh := nd.lock.LockHash
	switch flt.kind {
	case "otherkey":
		r.emit(drv.Step{"ev": "FNSig", "sig": drv.Step{"idx": f, "by": flt.peer, "over": "hash"}})
		go func() { _, _ = nd.nsb.VerifExchange(r.ctx, r.c.keys[flt.peer-1], lh) }()
	case "otherhash":
		x := sha256.Sum256(lh)
		r.emit(drv.Step{"ev": "FNSig", "sig": drv.Step{"idx": f, "by": f, "over": "other"}})
		go func() { _, _ = nd.nsb.VerifExchange(r.ctx, r.c.keys[f-1], x[:]) }()
	case "marker":
		r.emit(drv.Step{"ev": "FNSig", "sig": drv.Step{"idx": f, "by": 0, "over": "marker"}})
		go func() { _, _ = nd.nsb.VerifExchange(r.ctx, nil, nil) }()
	case "claim":
		sig, err := k1util.Sign(r.c.keys[f-1], lh)
		if err != nil {
			return err
		}
		r.emit(drv.Step{"ev": "FNSig", "sig": drv.Step{"idx": flt.peer, "by": f, "over": "hash"}})
		go func() {
			_ = nd.caster.Broadcast(r.ctx, dkg.VerifNodeSigMsgID(), &dkgpb.MsgNodeSig{Signature: sig, PeerIndex: uint32(flt.peer - 1)})
		}()
	default:
		return fmt.Errorf("unknown node signature fault %q", flt.kind)
	}

	return nil
}

// forge hands an extra message of the faulty peer (every validator, signed with its own shares, claiming share index
// flt.peer) to every honest receiver's real parsigex handler, under the faulty peer's transport identity.
func (r *run) forge(ph string, flt fault) error {
	nd := r.nodes[r.f-1]
	set, err := r.signSet(nd, ph, r.c.shares[nd.i], flt.peer, false)
	if err != nil {
		return err
	}
	pb, err := core.ParSignedDataSetToProto(set)
	if err != nil {
		return err
	}
	var parts []drv.Step
	for v := 1; v <= r.nv; v++ {
		parts = append(parts, part(v, flt.peer, r.f, v, "right"))
	}
	for _, to := range r.nodes {
		if to.i == nd.i {
			continue
		}
		msg := &pbv1.ParSigExMsg{Duty: core.DutyToProto(core.NewSignatureDuty(uint64(sigTypeOf(ph)))), DataSet: pb}
		_, _, herr := to.ex.VerifSigEx().VerifHandle(r.ctx, nd.host.ID(), msg)
		r.emit(drv.Step{"ev": "Forge", "ph": ph, "to": to.i + 1, "parts": parts, "admitted": herr == nil})
	}

	return nil
}

// phase plays one phase; it returns false when the ceremony cannot go on.
func (r *run) phase(ph string, cancelIt bool) (goOn, hang bool, err error) {
	flt := fault{kind: "honest"}
	if r.f > 0 && ph != "verify" {
		flt = r.plan[ph]
	}
	follows := flt.kind == "honest" || flt.kind == "forge"
	if flt.kind == "forge" {
		if err := r.forge(ph, flt); err != nil {
			return false, false, err
		}
	}
	var runners []*node
	for _, nd := range r.nodes {
		if nd.i+1 != r.f || (follows && !(ph == "verify" && r.offEver)) {
			runners = append(runners, nd)
		}
	}
	if ph != "verify" {
		for _, nd := range runners {
			r.emit(drv.Step{"ev": "Start", "i": nd.i + 1, "ph": ph})
		}
	}
	if !follows {
		r.offEver = true
		if err := r.offScript(ph, flt); err != nil {
			return false, false, err
		}
	}
	results := make(chan outcome, len(runners))
	for _, nd := range runners {
		go func(nd *node) { results <- r.step(nd, ph) }(nd)
	}
	allOK := true
	var graceC <-chan time.Time
	if cancelIt {
		graceC = time.After(grace)
	}
	watchdog := time.After(hangAfter)
	for pending := len(runners); pending > 0; {
		select {
		case o := <-results:
			r.emit(o.ev)
			allOK = allOK && o.ok
			pending--
		case <-graceC:
			r.emit(drv.Step{"ev": "Cancel"})
			r.cancel()
			graceC = nil
		case <-watchdog:
			r.emit(drv.Step{"ev": "Hang", "ph": ph})
			r.cancel()

			return false, true, nil
		}
	}

	return allOK, false, nil
}

func decodePlan(v any) map[string]fault {
	out := map[string]fault{}
	m, _ := v.(map[string]any)
	for ph, x := range m {
		o, _ := x.(map[string]any)
		out[ph] = fault{kind: drv.Str(o["kind"]), val: drv.Num(o["val"]), peer: drv.Num(o["peer"])}
	}
	for _, ph := range []string{"dep", "reg", "lock", "nsig"} {
		if _, ok := out[ph]; !ok {
			out[ph] = fault{kind: "honest"}
		}
	}

	return out
}

func runSchedule(t *testing.T, sid int, steps []drv.Step, clusters map[[2]int]*clusterData) (evs []drv.Step, hang bool) {
	cfg := steps[0]
	n, nv, f := drv.Num(cfg["n"]), drv.Num(cfg["V"]), drv.Num(cfg["f"])
	ctx, cancel := context.WithCancel(context.Background())
	defer cancel()
	r := &run{t: t, sid: sid, c: clusters[[2]int{n, nv}], n: n, nv: nv, f: f, plan: decodePlan(cfg["plan"]), ctx: ctx, cancel: cancel,
		lhs: map[string]int{}}
	r.emit(drv.Step{"ev": "Reset", "sid": sid, "n": n, "V": nv, "f": f, "plan": cfg["plan"]})
	defer func() {
		cancel()
		if r.mn != nil {
			_ = r.mn.Close()
		}
	}()
	if err := r.setup(); err != nil {
		t.Errorf("schedule %d: setup: %v", sid, err)
		return r.evs, false
	}
	first := true
	for _, s := range steps[1:] {
		if drv.Str(s["ev"]) != "Run" {
			continue
		}
		ph := drv.Str(s["ph"])
		if !first {
			r.emit(drv.Step{"ev": "Barrier", "ph": ph})
		}
		first = false
		cancelIt, _ := s["cancel"].(bool)
		goOn, hang, err := r.phase(ph, cancelIt)
		if err != nil {
			t.Errorf("schedule %d: phase %s: %v", sid, ph, err)
			return r.evs, false
		}
		if hang {
			return r.evs, true
		}
		if !goOn {
			break
		}
	}
	r.mu.Lock()
	defer r.mu.Unlock()

	return append([]drv.Step{}, r.evs...), false
}

func TestExec(t *testing.T) {
	drv.QuietLogs(t)
	scheds := drv.ReadSchedules(t)
	tr := drv.NewTracer(t)
	defer tr.Close()
	par := 8
	if v, err := strconv.Atoi(os.Getenv("VERIF_PAR")); err == nil && v > 0 {
		par = v
	}
	clusters := map[[2]int]*clusterData{}
	for _, s := range scheds {
		k := [2]int{drv.Num(s[0]["n"]), drv.Num(s[0]["V"])}
		if clusters[k] == nil {
			clusters[k] = makeCluster(t, k[0], k[1])
		}
	}
	var (
		out     = make([][]drv.Step, len(scheds))
		next    atomic.Int64
		stopped atomic.Bool
		wg      sync.WaitGroup
	)
	for w := 0; w < par; w++ {
		wg.Add(1)
		go func() {
			defer wg.Done()
			for !stopped.Load() {
				sid := int(next.Add(1)) - 1
				if sid >= len(scheds) {
					return
				}
				evs, hang := runSchedule(t, sid, scheds[sid], clusters)
				out[sid] = evs
				if hang {
					stopped.Store(true)
				}
			}
		}()
	}
	wg.Wait()
	for _, evs := range out {
		for _, e := range evs {
			tr.Emit(e)
		}
	}
}
