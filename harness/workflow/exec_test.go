// Package workflow is the executor of the growth family "Workflow": WHOLE-SYSTEM trace validation.  It runs a cluster of
// REAL, fully wired charon nodes (app.Run: scheduler, fetcher, QBFT consensus over libp2p on loopback, dutydb,
// validatorapi + validator mock over http, parsigdb, parsigex, sigagg, aggsigdb, broadcaster, tracker, retryer -- as
// testutil/integration/simnet_test.go does) in this process, records every call across every data-carrying edge of the
// core workflow on every node through core.VerifWithObserver (build tag verif, pending_hooks/core/verif_export_wire.go,
// installed through app.VerifNodeWireOpts) with one global atomic sequence number, and writes ONE interleaved cluster
// log per run.  The log holds no expected value: roots are computed with the real HashTreeRoot / MessageRoot functions,
// the `ok` flags with the real tbls verification under the lock's public shares / group keys.
//
// A schedule is ONE cluster run: [{"ev":"Cfg", ...}] (see cfgOf).  Environment / faults (none of them touches charon):
//   - mode "mem": app.TestConfig.ParSigExFunc = the in-memory exchange of this file: per link and message delay,
//     duplication, reordering, loss, a Broadcast that fails with a temporary error; deliveries are verified with the REAL
//     parsigex.NewEth2Verifier exactly as parsigex.handle does ("exverify", app.Run itself does NOT verify anything when
//     an in-memory exchange is configured) -- or not at all (exverify=false: the exchange of core/parsigex/memory.go).
//   - mode "p2p": no ParSigExFunc: the real parsigex over libp2p with its real verification; a Byzantine member sends
//     crafted ParSigExMsg protobufs from its own libp2p host (P2PNodeCallback).
//   - Byzantine member (<= f = 1): (a) its validator client signs OTHER data / signs with a key that is not its share
//     (a harness-driven testutil/validatormock in front of the node's real validator API), (b) injections through the
//     exchange: its own share over other data, another share index claimed, forged and garbage signatures, equivocation.
//   - beacon mock options per node: different nodes fetch DIFFERENT attestation data (head roots) for the same duty;
//     the synthetic proposals and the random default blocks differ per node anyway.
//   - late start of one node, one node stopped mid-run (its context is cancelled).
package workflow

import (
	"context"
	"crypto/sha256"
	"encoding/hex"
	"encoding/json"
	"fmt"
	"math/rand"
	"net"
	"os"
	"reflect"
	"sort"
	"strings"
	"sync"
	"testing"
	"time"

	"github.com/OffchainLabs/go-bitfield"
	eth2client "github.com/attestantio/go-eth2-client"
	eth2api "github.com/attestantio/go-eth2-client/api"
	eth2http "github.com/attestantio/go-eth2-client/http"
	eth2spec "github.com/attestantio/go-eth2-client/spec"
	"github.com/attestantio/go-eth2-client/spec/altair"
	"github.com/attestantio/go-eth2-client/spec/electra"
	eth2p0 "github.com/attestantio/go-eth2-client/spec/phase0"
	"github.com/libp2p/go-libp2p/core/host"
	"github.com/libp2p/go-libp2p/core/peer"

	"github.com/obolnetwork/charon/app"
	"github.com/obolnetwork/charon/app/eth2wrap"
	"github.com/obolnetwork/charon/app/featureset"
	"github.com/obolnetwork/charon/app/log"
	"github.com/obolnetwork/charon/cluster"
	"github.com/obolnetwork/charon/core"
	pbv1 "github.com/obolnetwork/charon/core/corepb/v1"
	"github.com/obolnetwork/charon/core/parsigex"
	"github.com/obolnetwork/charon/eth2util"
	"github.com/obolnetwork/charon/eth2util/signing"
	"github.com/obolnetwork/charon/p2p"
	"github.com/obolnetwork/charon/tbls"
	"github.com/obolnetwork/charon/tbls/tblsconv"
	"github.com/obolnetwork/charon/testutil"
	"github.com/obolnetwork/charon/testutil/beaconmock"
	"github.com/obolnetwork/charon/testutil/relay"
	"github.com/obolnetwork/charon/testutil/validatormock"

	"verifharness/drv"
)

const parsigexProto = "/charon/parsigex/2.0.0"

// ---------------------------------------------------------------------------------------------------------------------
// configuration of one cluster run
// ---------------------------------------------------------------------------------------------------------------------
type cfg struct {
	N, T, NV   int
	Kind       string // attester | proposer | sync | all
	Mode       string // mem | p2p
	Secs       int
	Seed       int64
	SPE        int
	Diverge    int      // number of attestation-data variants the beacon mocks hand out (0/1: all nodes fetch the same)
	Byz        int      // share index of the Byzantine member, 0 = none
	ByzVC      string   // "" | otherdata | badsig
	Inject     []string // claim | otherdata | forge | garbage | equiv
	InjectP    float64
	ExVerify   bool
	LateN      int
	LateMS     int
	StopN      int
	StopMS     int
	Drop, Dup  float64
	MaxDelayMS int
	FailP      float64
	BNFailP    float64 // the first submission of a (node, duty) to the beacon mock fails with a retryable error
	Cut        [][2]int
	Script     []scriptEntry // per slot (slot mod len): scripted deliveries / Byzantine messages (from a WorkflowGen history)
}

// scriptEntry is the exchange's plan for the duties of one slot: how many copies of node from's message reach node to
// (default 1), and what the Byzantine member sends to whom.
type scriptEntry struct {
	Deliver map[[2]int]int
	Byz     [][2]string // [to, what]
}

func cfgOf(s drv.Step) cfg {
	f := func(k string, d float64) float64 {
		if v, ok := s[k].(float64); ok {
			return v
		}

		return d
	}
	c := cfg{N: int(f("n", 3)), T: int(f("t", 2)), NV: int(f("nv", 1)), Kind: drv.Str(s["kind"]), Mode: drv.Str(s["mode"]),
		Secs: int(f("secs", 12)), Seed: int64(f("seed", 1)), SPE: int(f("spe", 4)), Diverge: int(f("diverge", 0)),
		Byz: int(f("byz", 0)), ByzVC: drv.Str(s["byzvc"]), InjectP: f("injectp", 0.5), ExVerify: true,
		LateN: int(f("late_n", 0)), LateMS: int(f("late_ms", 0)), StopN: int(f("stop_n", 0)), StopMS: int(f("stop_ms", 0)),
		Drop: f("drop", 0), Dup: f("dup", 0), MaxDelayMS: int(f("maxdelay", 0)), FailP: f("failp", 0), BNFailP: f("bnfailp", 0)}
	if v, ok := s["exverify"].(bool); ok {
		c.ExVerify = v
	}
	if c.Kind == "" {
		c.Kind = "attester"
	}
	if c.Mode == "" {
		c.Mode = "mem"
	}
	if xs, ok := s["inject"].([]any); ok {
		for _, x := range xs {
			c.Inject = append(c.Inject, drv.Str(x))
		}
	}
	if xs, ok := s["script"].([]any); ok {
		for _, x := range xs {
			m, ok := x.(map[string]any)
			if !ok {
				continue
			}
			e := scriptEntry{Deliver: map[[2]int]int{}}
			if ds, ok := m["deliver"].([]any); ok {
				for _, d := range ds {
					if t, ok := d.([]any); ok && len(t) == 3 {
						e.Deliver[[2]int{drv.Num(t[0]), drv.Num(t[1])}] = drv.Num(t[2])
					}
				}
			}
			if bs, ok := m["byz"].([]any); ok {
				for _, b := range bs {
					if t, ok := b.([]any); ok && len(t) == 2 {
						e.Byz = append(e.Byz, [2]string{fmt.Sprint(drv.Num(t[0])), drv.Str(t[1])})
					}
				}
			}
			c.Script = append(c.Script, e)
		}
	}
	if xs, ok := s["cut"].([]any); ok {
		for _, x := range xs {
			if p, ok := x.([]any); ok && len(p) == 2 {
				c.Cut = append(c.Cut, [2]int{drv.Num(p[0]), drv.Num(p[1])})
			}
		}
	}

	return c
}

// ---------------------------------------------------------------------------------------------------------------------
// recorder: the one global order of everything that is observed
// ---------------------------------------------------------------------------------------------------------------------
type rawEv struct {
	seq  int64
	node int // share index (1-based)
	edge string
	call bool
	id   int64
	duty core.Duty
	arg  any
	err  error
	step drv.Step // events that originate in the harness: fields that need no conversion
}

type corrKey struct {
	node int
	edge string
	duty core.Duty
	ptr  uintptr
}

type recorder struct {
	mu     sync.Mutex
	seq    int64
	nextID int64
	evs    []rawEv
	open   map[corrKey][]int64
	onCall func(node int, edge string, duty core.Duty, arg any) // called outside the lock, with the clone
	// a mis-wired composition may flood (every received partial re-broadcast ...): the recording stops at maxEvents
	// and the cluster is stopped; the log then ends with an Overflow event that no spec step matches
	overflow   bool
	onOverflow func()
}

const maxEvents = 150000

func (r *recorder) full() bool {
	if r.overflow {
		return true
	}
	if len(r.evs) >= maxEvents {
		r.overflow = true
		if r.onOverflow != nil {
			go r.onOverflow()
		}

		return true
	}

	return false
}

func ptrOf(arg any) uintptr {
	if arg == nil {
		return 0
	}
	v := reflect.ValueOf(arg)
	if v.Kind() == reflect.Map && !v.IsNil() {
		return v.Pointer()
	}

	return 0
}

func cloneArg(arg any) any {
	switch a := arg.(type) {
	case core.DutyDefinitionSet:
		keys := make([]core.PubKey, 0, len(a))
		for k := range a {
			keys = append(keys, k)
		}

		return keys
	case core.UnsignedDataSet:
		c, err := a.Clone()
		if err != nil {
			return a
		}

		return c
	case core.ParSignedDataSet:
		c, err := a.Clone()
		if err != nil {
			return a
		}

		return c
	case core.SignedDataSet:
		c, err := a.Clone()
		if err != nil {
			return a
		}

		return c
	case map[core.PubKey][]core.ParSignedData:
		c := make(map[core.PubKey][]core.ParSignedData, len(a))
		for k, ps := range a {
			for _, p := range ps {
				if pc, err := p.Clone(); err == nil {
					c[k] = append(c[k], pc)
				} else {
					c[k] = append(c[k], p)
				}
			}
		}

		return c
	case core.VerifQuery:
		q := a
		switch r := a.Result.(type) { // results are pointers into the databases: keep a deep copy
		case *eth2p0.AttestationData:
			if r != nil {
				b, _ := r.MarshalSSZ()
				d := new(eth2p0.AttestationData)
				_ = d.UnmarshalSSZ(b)
				q.Result = d
			}
		case *altair.SyncCommitteeContribution:
			if r != nil {
				b, _ := r.MarshalSSZ()
				d := new(altair.SyncCommitteeContribution)
				_ = d.UnmarshalSSZ(b)
				q.Result = d
			}
		case *eth2api.VersionedProposal:
			if r != nil {
				if root, err := r.Root(); err == nil {
					q.Result = root
				}
			}
		case *eth2spec.VersionedAttestation:
			if r != nil {
				if va, err := core.NewVersionedAggregatedAttestation(r); err == nil {
					if root, err := va.HashTreeRoot(); err == nil {
						q.Result = eth2p0.Root(root)
					}
				}
			}
		case core.SignedData:
			if r != nil {
				if c, err := r.Clone(); err == nil {
					q.Result = c
				}
			}
		}

		return q
	}

	return arg
}

func (r *recorder) observer(node int) func(string, core.Duty, any, error) {
	return func(edge string, duty core.Duty, arg any, err error) {
		call := strings.HasSuffix(edge, core.VerifCallSuffix)
		name := strings.TrimSuffix(edge, core.VerifCallSuffix)
		_, query := arg.(core.VerifQuery)
		key := corrKey{node: node, edge: name, duty: duty, ptr: ptrOf(arg)}
		var keep any
		if call || query {
			keep = cloneArg(arg)
		}
		r.mu.Lock()
		if r.full() {
			r.mu.Unlock()

			return
		}
		r.seq++
		ev := rawEv{seq: r.seq, node: node, edge: name, call: call, duty: duty, arg: keep, err: err}
		switch {
		case query:
		case call:
			r.nextID++
			ev.id = r.nextID
			r.open[key] = append(r.open[key], ev.id)
		default:
			if ids := r.open[key]; len(ids) > 0 {
				ev.id = ids[0]
				if len(ids) == 1 {
					delete(r.open, key)
				} else {
					r.open[key] = ids[1:]
				}
			}
		}
		r.evs = append(r.evs, ev)
		r.mu.Unlock()
		if call && r.onCall != nil {
			r.onCall(node, name, duty, keep)
		}
	}
}

// custom records an event that originates in the harness (exchange, beacon mock, life cycle).
func (r *recorder) custom(node int, edge string, duty core.Duty, arg any, step drv.Step) {
	r.mu.Lock()
	defer r.mu.Unlock()
	if edge != "End" && r.full() {
		return
	}
	r.seq++
	r.evs = append(r.evs, rawEv{seq: r.seq, node: node, edge: edge, duty: duty, arg: arg, step: step})
}

// ---------------------------------------------------------------------------------------------------------------------
// one cluster run
// ---------------------------------------------------------------------------------------------------------------------
type run struct {
	t        *testing.T
	c        cfg
	ctx      context.Context
	bctx     context.Context // the harness's own beacon mock and every verification (outlives the cluster)
	rec      *recorder
	lock     cluster.Lock
	shares   [][]tbls.PrivateKey // [validator][peer]
	vidx     map[core.PubKey]int // 1-based validator index
	group    map[core.PubKey]tbls.PublicKey
	pubs     map[core.PubKey]map[int]tbls.PublicKey
	bmock    beaconmock.Mock // the harness's own: domains, epochs (same static configuration as the nodes' mocks)
	verify   func(context.Context, peer.ID, core.Duty, core.PubKey, core.ParSignedData) error
	genesis  time.Time
	slotDur  time.Duration
	ex       *exchange
	hostsMu  sync.Mutex
	hosts    map[int]host.Host
	peerIDs  []peer.ID
	nodeCtx  []context.Context
	attMu    sync.Mutex
	attStore map[eth2p0.Root]*eth2p0.AttestationData
	rngMu    sync.Mutex
	rng      *rand.Rand
	okMu     sync.Mutex
	okCache  map[string]bool
	bnMu     sync.Mutex
	bnSeen   map[string]bool
}

func (r *run) rnd() float64 {
	r.rngMu.Lock()
	defer r.rngMu.Unlock()

	return r.rng.Float64()
}

func (r *run) rndN(n int) int {
	r.rngMu.Lock()
	defer r.rngMu.Unlock()
	if n <= 0 {
		return 0
	}

	return r.rng.Intn(n)
}

func short(b []byte) string { return hex.EncodeToString(b)[:12] }

func dutyStr(d core.Duty) string { return fmt.Sprintf("%d/%s", d.Slot, d.Type) }

// variantRoot is the head root node `node` sees for `slot`.
func (r *run) variantRoot(node int, slot eth2p0.Slot) (eth2p0.Root, bool) {
	if r.c.Diverge <= 1 {
		return eth2p0.Root{}, false
	}
	h := sha256.Sum256([]byte(fmt.Sprintf("pick/%d/%d/%d", r.c.Seed, node, slot)))
	k := int(h[0]) % r.c.Diverge
	if k == 0 {
		return eth2p0.Root{}, false // the mock's own head
	}

	return eth2p0.Root(sha256.Sum256([]byte(fmt.Sprintf("head/%d/%d", slot, k)))), true
}

func cloneAttData(d *eth2p0.AttestationData) *eth2p0.AttestationData {
	b, _ := d.MarshalSSZ()
	c := new(eth2p0.AttestationData)
	_ = c.UnmarshalSSZ(b)

	return c
}

// bmockOpts are the beacon mock options of node `node` (peer index + 1).
func (r *run) bmockOpts(node int) []beaconmock.Option {
	opts := []beaconmock.Option{beaconmock.WithSlotsPerEpoch(r.c.SPE)}
	if r.c.Kind != "attester" && r.c.Kind != "all" {
		opts = append(opts, beaconmock.WithNoAttesterDuties())
	}
	opts = append(opts, beaconmock.WithNoProposerDuties()) // proposals are synthetic (as in the simnet test)
	if r.c.Kind == "sync" || r.c.Kind == "all" {
		opts = append(opts, beaconmock.WithDeterministicSyncCommDuties(2, 2))
	} else {
		opts = append(opts, beaconmock.WithNoSyncCommitteeDuties())
	}
	opts = append(opts, func(m *beaconmock.Mock) {
		prev := m.AttestationDataFunc
		m.AttestationDataFunc = func(ctx context.Context, slot eth2p0.Slot, idx eth2p0.CommitteeIndex) (*eth2p0.AttestationData, error) {
			d, err := prev(ctx, slot, idx)
			if err != nil {
				return nil, err
			}
			d = cloneAttData(d)
			if root, ok := r.variantRoot(node, slot); ok {
				d.BeaconBlockRoot = root
			}
			h, err := d.HashTreeRoot()
			if err != nil {
				return nil, err
			}
			r.attMu.Lock()
			r.attStore[h] = cloneAttData(d)
			r.attMu.Unlock()
			r.rec.custom(node, "BNAtt", core.NewAttesterDuty(uint64(slot)), nil, drv.Step{"u": short(h[:])})

			return d, nil
		}
		m.SubmitAttestationsFunc = func(_ context.Context, opts *eth2api.SubmitAttestationsOpts) error {
			var sds []core.SignedData
			var slot uint64
			for _, a := range opts.Attestations {
				sd, err := core.NewVersionedAttestation(a)
				if err != nil {
					continue
				}
				if d, err := a.Data(); err == nil {
					slot = uint64(d.Slot)
				}
				sds = append(sds, sd)
			}

			return r.bnSubmit(node, core.NewAttesterDuty(slot), sds)
		}
		m.SubmitSyncCommitteeMessagesFunc = func(_ context.Context, msgs []*altair.SyncCommitteeMessage) error {
			var sds []core.SignedData
			var slot uint64
			for _, a := range msgs {
				slot = uint64(a.Slot)
				sds = append(sds, core.NewSignedSyncMessage(a))
			}

			return r.bnSubmit(node, core.NewSyncMessageDuty(slot), sds)
		}
		m.SubmitProposalFunc = func(_ context.Context, opts *eth2api.SubmitProposalOpts) error {
			sd, err := core.NewVersionedSignedProposal(opts.Proposal)
			if err != nil {
				return nil
			}
			slot, _ := opts.Proposal.Slot()

			return r.bnSubmit(node, core.NewProposerDuty(uint64(slot)), []core.SignedData{sd})
		}
		m.SubmitAggregateAttestationsFunc = func(_ context.Context, opts *eth2api.SubmitAggregateAttestationsOpts) error {
			var sds []core.SignedData
			var slot uint64
			for _, a := range opts.SignedAggregateAndProofs {
				if sl, err := a.Slot(); err == nil {
					slot = uint64(sl)
				}
				sds = append(sds, core.NewVersionedSignedAggregateAndProof(a))
			}

			return r.bnSubmit(node, core.NewAggregatorDuty(slot), sds)
		}
		m.SubmitSyncCommitteeContributionsFunc = func(_ context.Context, cs []*altair.SignedContributionAndProof) error {
			var sds []core.SignedData
			var slot uint64
			for _, a := range cs {
				slot = uint64(a.Message.Contribution.Slot)
				sds = append(sds, core.NewSignedSyncContributionAndProof(a))
			}

			return r.bnSubmit(node, core.NewSyncContributionDuty(slot), sds)
		}
		prevAgg := m.AggregateAttestationFunc
		m.AggregateAttestationFunc = func(ctx context.Context, slot eth2p0.Slot, root eth2p0.Root) (*eth2spec.VersionedAttestation, error) {
			r.attMu.Lock()
			d, ok := r.attStore[root]
			r.attMu.Unlock()
			if !ok {
				return prevAgg(ctx, slot, root)
			}
			// the data may have been handed out by ANOTHER node's mock (consensus decided that node's candidate): the same
			// shape as the default mock's aggregate, around the cluster-wide data
			valIdx := eth2p0.ValidatorIndex(0)
			commBits := bitfield.NewBitvector64()
			commBits.SetBitAt(0, true)

			return &eth2spec.VersionedAttestation{
				Version:        eth2spec.DataVersionFulu,
				ValidatorIndex: &valIdx,
				Fulu:           &electra.Attestation{AggregationBits: bitfield.NewBitlist(0), Data: cloneAttData(d), CommitteeBits: commBits},
			}, nil
		}
	})

	return opts
}

// bnSubmit records what a node's Broadcaster hands to its beacon node (the emission in the sense of C01).
func (r *run) bnSubmit(node int, duty core.Duty, sds []core.SignedData) error {
	if len(sds) == 0 {
		return nil
	}
	set := bnSet(sds)
	k := fmt.Sprintf("%d/%s", node, dutyStr(duty))
	r.bnMu.Lock()
	first := !r.bnSeen[k]
	r.bnSeen[k] = true
	r.bnMu.Unlock()
	if first && r.c.BNFailP > 0 && r.rnd() < r.c.BNFailP {
		r.rec.custom(node, "BNFail", duty, set, nil)

		return fmt.Errorf("verif: retryable beacon node error") // isTemporaryBeaconErr: the retryer tries again
	}
	r.rec.custom(node, "BNSub", duty, set, nil)

	return nil
}

// bnSet is a list of signed objects as a beacon node receives them (no validator attribution).
type bnSet []core.SignedData

func (r *run) nodeConf(i int, relayAddr string) app.Config {
	node := i + 1
	conf := app.Config{
		Log:              log.DefaultConfig(),
		Feature:          featureset.DefaultConfig(),
		SimnetBMock:      true,
		SimnetVMock:      !(r.c.Byz == node && r.c.ByzVC != ""),
		MonitoringAddr:   testutil.AvailableAddr(r.t).String(),
		ValidatorAPIAddr: testutil.AvailableAddr(r.t).String(),
		TestConfig: app.TestConfig{
			Lock:            &r.lock,
			P2PKey:          nil,
			TestPingConfig:  p2p.TestPingConfig{MaxBackoff: time.Second},
			SimnetBMockOpts: r.bmockOpts(node),
			P2PNodeCallback: func(h host.Host) {
				r.hostsMu.Lock()
				r.hosts[node] = h
				r.hostsMu.Unlock()
			},
		},
		P2P:                     p2p.Config{TCPAddrs: []string{testutil.AvailableAddr(r.t).String()}, Relays: []string{relayAddr}},
		SyntheticBlockProposals: r.c.Kind == "proposer" || r.c.Kind == "all",
	}
	var keys []tbls.PrivateKey
	for v := range r.shares {
		keys = append(keys, r.shares[v][i])
	}
	conf.TestConfig.SimnetKeys = keys
	if r.c.Mode == "mem" {
		conf.TestConfig.ParSigExFunc = func() core.ParSigEx { return r.ex.forNode(node) }
	}

	return conf
}

// ---------------------------------------------------------------------------------------------------------------------
// the in-memory exchange with faults
// ---------------------------------------------------------------------------------------------------------------------
type exSub func(context.Context, core.Duty, core.ParSignedDataSet) error

type exchange struct {
	r    *run
	mu   sync.Mutex
	subs map[int][]exSub
	sent map[string]bool // first Broadcast of a (node, duty) may fail
}

type exNode struct {
	x    *exchange
	node int
}

func (x *exchange) forNode(node int) core.ParSigEx { return exNode{x: x, node: node} }

func (e exNode) Subscribe(fn func(context.Context, core.Duty, core.ParSignedDataSet) error) {
	e.x.mu.Lock()
	defer e.x.mu.Unlock()
	e.x.subs[e.node] = append(e.x.subs[e.node], fn)
}

type tempErr struct{}

func (tempErr) Error() string   { return "verif: link down (temporary)" }
func (tempErr) Timeout() bool   { return true }
func (tempErr) Temporary() bool { return true }

var _ net.Error = tempErr{}

func (e exNode) Broadcast(ctx context.Context, duty core.Duty, set core.ParSignedDataSet) error {
	r := e.x.r
	c, err := set.Clone()
	if err != nil {
		return err
	}
	e.x.mu.Lock()
	k := fmt.Sprintf("%d/%s", e.node, dutyStr(duty))
	first := !e.x.sent[k]
	e.x.sent[k] = true
	e.x.mu.Unlock()
	if first && r.c.FailP > 0 && r.rnd() < r.c.FailP {
		r.rec.custom(e.node, "ExFail", duty, c, nil)

		return tempErr{} // a net.Error: the retryer tries again
	}
	r.rec.custom(e.node, "ExSend", duty, c, nil)
	for to := 1; to <= r.c.N; to++ {
		if to == e.node {
			continue
		}
		e.x.deliver(e.node, to, duty, c, true)
	}

	return nil
}

func (x *exchange) cut(from, to int) bool {
	for _, p := range x.r.c.Cut {
		if (p[0] == from && p[1] == to) || (p[0] == to && p[1] == from) {
			return true
		}
	}

	return false
}

// deliver hands one message to node `to`, subject to the link faults when faulty is set.
func (x *exchange) deliver(from, to int, duty core.Duty, set core.ParSignedDataSet, faulty bool) {
	r := x.r
	copies := 1
	if faulty {
		if x.cut(from, to) || (r.c.Drop > 0 && r.rnd() < r.c.Drop) {
			return
		}
		if r.c.Dup > 0 && r.rnd() < r.c.Dup {
			copies = 2
		}
		if e := r.script(duty); e != nil {
			if k, ok := e.Deliver[[2]int{from, to}]; ok {
				copies = k
			}
		}
	}
	for k := 0; k < copies; k++ {
		delay := time.Duration(0)
		if r.c.MaxDelayMS > 0 {
			delay = time.Duration(r.rndN(r.c.MaxDelayMS)) * time.Millisecond
		}
		go func() {
			nctx := r.nodeCtx[to-1]
			select {
			case <-nctx.Done():
				return
			case <-time.After(delay):
			}
			c, err := set.Clone()
			if err != nil {
				return
			}
			if r.c.ExVerify { // what parsigex.handle does: every entry, one failure drops the message
				for pk, d := range c {
					if err := r.verify(r.bctx, "", duty, pk, d); err != nil {
						return
					}
				}
			}
			x.mu.Lock()
			subs := append([]exSub(nil), x.subs[to]...)
			x.mu.Unlock()
			for _, s := range subs {
				if nctx.Err() != nil {
					return
				}
				_ = s(nctx, duty, c)
			}
		}()
	}
}

// ---------------------------------------------------------------------------------------------------------------------
// Byzantine member
// ---------------------------------------------------------------------------------------------------------------------
// mutate returns "other data" for a signed object of the Byzantine member (nil: type not supported).
func mutate(sd core.SignedData, salt string) core.SignedData {
	h := eth2p0.Root(sha256.Sum256([]byte("byz/" + salt)))
	c, err := sd.Clone()
	if err != nil {
		return nil
	}
	switch d := c.(type) {
	case core.VersionedAttestation:
		data, err := d.VersionedAttestation.Data()
		if err != nil || data == nil {
			return nil
		}
		data.BeaconBlockRoot = h

		return d
	case core.SignedSyncMessage:
		d.BeaconBlockRoot = h

		return d
	case core.SignedRandao:
		d.SignedEpoch.Epoch += 7

		return d
	}

	return nil
}

// resign signs sd with key (the proper domain and epoch of its type).
func (r *run) resign(sd core.SignedData, key tbls.PrivateKey) (core.SignedData, error) {
	e2, ok := sd.(core.Eth2SignedData)
	if !ok {
		return nil, fmt.Errorf("not eth2 signed data")
	}
	epoch, err := e2.Epoch(r.bctx, r.bmock)
	if err != nil {
		return nil, err
	}
	root, err := e2.MessageRoot()
	if err != nil {
		return nil, err
	}
	sr, err := signing.GetDataRoot(r.bctx, r.bmock, e2.DomainName(), epoch, root)
	if err != nil {
		return nil, err
	}
	sig, err := tbls.Sign(key, sr[:])
	if err != nil {
		return nil, err
	}

	return sd.SetSignature(tblsconv.SigToCore(sig))
}

// craft builds one Byzantine message from what the member's own node just broadcast.
func (r *run) craft(kind string, duty core.Duty, set core.ParSignedDataSet) core.ParSignedDataSet {
	out := core.ParSignedDataSet{}
	other := r.c.Byz%r.c.N + 1
	for pk, p := range set {
		v := r.vidx[pk]
		if v == 0 {
			continue
		}
		key := r.shares[v-1][r.c.Byz-1]
		switch kind {
		case "claim": // its own partial signature, another share index claimed
			c, err := p.Clone()
			if err != nil {
				continue
			}
			c.ShareIdx = other
			out[pk] = c
		case "otherdata", "equiv", "forge": // its own share over other data (forge: claiming another index)
			m := mutate(p.SignedData, fmt.Sprintf("%s/%d", dutyStr(duty), v))
			if m == nil {
				continue
			}
			s, err := r.resign(m, key)
			if err != nil {
				continue
			}
			idx := r.c.Byz
			if kind == "forge" {
				idx = other
			}
			out[pk] = core.ParSignedData{SignedData: s, ShareIdx: idx}
		case "garbage": // the agreed data under a key that is no share at all
			wrong, err := tbls.GenerateSecretKey()
			if err != nil {
				continue
			}
			s, err := r.resign(p.SignedData, wrong)
			if err != nil {
				continue
			}
			out[pk] = core.ParSignedData{SignedData: s, ShareIdx: r.c.Byz}
		}
	}

	return out
}

func (r *run) script(duty core.Duty) *scriptEntry {
	if len(r.c.Script) == 0 {
		return nil
	}

	return &r.c.Script[int(duty.Slot%uint64(len(r.c.Script)))]
}

func (r *run) byzSendTo(to int, kind string, duty core.Duty, msg core.ParSignedDataSet) {
	c, err := msg.Clone()
	if err != nil {
		return
	}
	r.rec.custom(r.c.Byz, "ByzSend", duty, c, drv.Step{"to": to, "what": kind})
	if r.c.Mode == "mem" {
		r.ex.deliver(r.c.Byz, to, duty, c, false)

		return
	}
	r.hostsMu.Lock()
	h := r.hosts[r.c.Byz]
	r.hostsMu.Unlock()
	if h == nil {
		return
	}
	pb, err := core.ParSignedDataSetToProto(c)
	if err != nil {
		return
	}
	m := &pbv1.ParSigExMsg{Duty: core.DutyToProto(duty), DataSet: pb}
	go func() {
		ctx, cancel := context.WithTimeout(r.ctx, 2*time.Second)
		defer cancel()
		_ = p2p.Send(ctx, h, parsigexProto, r.peerIDs[to-1], m)
	}()
}

// byzantine is called (outside the recorder's lock) when the Byzantine member's node hands a set to ParSigEx.Broadcast.
func (r *run) byzantine(duty core.Duty, set core.ParSignedDataSet) {
	if e := r.script(duty); e != nil {
		for _, b := range e.Byz {
			to := 0
			fmt.Sscan(b[0], &to)
			if to < 1 || to > r.c.N || to == r.c.Byz {
				continue
			}
			if msg := r.craft(b[1], duty, set); len(msg) > 0 {
				r.byzSendTo(to, b[1], duty, msg)
			}
		}

		return
	}
	if len(r.c.Inject) == 0 || r.rnd() >= r.c.InjectP {
		return
	}
	kind := r.c.Inject[r.rndN(len(r.c.Inject))]
	msg := r.craft(kind, duty, set)
	if len(msg) == 0 {
		return
	}
	for to := 1; to <= r.c.N; to++ {
		if to == r.c.Byz || (kind == "equiv" && to%2 == 0) || (kind != "equiv" && r.rnd() < 0.3) {
			continue
		}
		r.byzSendTo(to, kind, duty, msg)
	}
}

// byzClient is what the Byzantine member's validator client talks to: the node's real validator API, but the
// attestation data it is served is replaced by other data before it signs.
type byzClient struct {
	eth2wrap.Client
}

func (b byzClient) AttestationData(ctx context.Context, opts *eth2api.AttestationDataOpts) (*eth2api.Response[*eth2p0.AttestationData], error) {
	resp, err := b.Client.AttestationData(ctx, opts)
	if err != nil {
		return nil, err
	}
	d := cloneAttData(resp.Data)
	d.BeaconBlockRoot = eth2p0.Root(sha256.Sum256([]byte(fmt.Sprintf("byzvc/%d", opts.Slot))))
	resp.Data = d

	return resp, nil
}

// vcClient is the eth2 client of a validator client in front of a node's validator API (as app/vmock.go builds it).
func vcClient(addr string, pubshares []eth2p0.BLSPubKey) (eth2wrap.Client, error) {
	const timeout = 10 * time.Second
	var (
		svc eth2client.Service
		err error
	)
	for range 30 {
		svc, err = eth2http.New(context.Background(), eth2http.WithLogLevel(1), eth2http.WithAddress("http://"+addr),
			eth2http.WithTimeout(timeout))
		if err == nil {
			break
		}
		time.Sleep(100 * time.Millisecond)
	}
	if err != nil {
		return nil, err
	}
	h, ok := svc.(*eth2http.Service)
	if !ok {
		return nil, fmt.Errorf("invalid eth2 http service")
	}
	cl := eth2wrap.AdaptEth2HTTP(h, nil, timeout)
	vc := eth2wrap.NewValidatorCache(cl, pubshares)
	cl.SetValidatorCache(vc.GetByHead)
	dc := eth2wrap.NewDutiesCache(cl, []eth2p0.ValidatorIndex{})
	cl.SetDutiesCache(dc.ProposerDutiesCache, dc.AttesterDutiesCache, dc.SyncCommDutiesCache)

	return cl, nil
}

// byzVC runs a validator client for the Byzantine member's node (which was started without its own mock).
func (r *run) byzVC(ctx context.Context, conf app.Config, i int) {
	var pubshares []eth2p0.BLSPubKey
	var keys []tbls.PrivateKey
	for v, val := range r.lock.Validators {
		ps, err := val.PublicShare(i)
		if err != nil {
			return
		}
		pubshares = append(pubshares, eth2p0.BLSPubKey(ps))
		keys = append(keys, r.shares[v][i])
	}
	signer, err := validatormock.NewSigner(keys...)
	if err != nil {
		return
	}
	if r.c.ByzVC == "badsig" { // every signature is made with a key that is not the share
		signer = func(_ eth2p0.BLSPubKey, data []byte) (eth2p0.BLSSignature, error) {
			wrong, err := tbls.GenerateSecretKey()
			if err != nil {
				return eth2p0.BLSSignature{}, err
			}
			sig, err := tbls.Sign(wrong, data)

			return eth2p0.BLSSignature(sig), err
		}
	}
	var (
		mu     sync.Mutex
		cached eth2wrap.Client
	)
	provider := func() (eth2wrap.Client, error) {
		mu.Lock()
		defer mu.Unlock()
		if cached != nil {
			return cached, nil
		}
		cl, err := vcClient(conf.ValidatorAPIAddr, pubshares)
		if err != nil {
			return nil, err
		}
		if r.c.ByzVC == "otherdata" {
			cl = byzClient{Client: cl}
		}
		cached = cl

		return cached, nil
	}
	vm := validatormock.New(ctx, provider, signer, pubshares, r.genesis, r.slotDur, uint64(r.c.SPE), false)
	go func() {
		for ctx.Err() == nil {
			now := time.Now()
			slot := uint64(now.Sub(r.genesis)/r.slotDur) + 1
			start := r.genesis.Add(time.Duration(slot) * r.slotDur)
			select {
			case <-ctx.Done():
				return
			case <-time.After(time.Until(start)):
			}
			go func() {
				_ = vm.SlotTicked(ctx, core.Slot{Slot: slot, Time: start, SlotDuration: r.slotDur, SlotsPerEpoch: uint64(r.c.SPE)})
			}()
		}
	}()
}

// ---------------------------------------------------------------------------------------------------------------------
// conversion of the raw observations into trace events
// ---------------------------------------------------------------------------------------------------------------------
func unsignedRoots(d core.UnsignedData) []string {
	switch u := d.(type) {
	case core.AttestationData:
		if h, err := u.Data.HashTreeRoot(); err == nil {
			return []string{short(h[:])}
		}
	case core.VersionedAggregatedAttestation:
		if h, err := u.HashTreeRoot(); err == nil {
			return []string{short(h[:])}
		}
	case core.VersionedProposal:
		if h, err := u.VersionedProposal.Root(); err == nil {
			return []string{short(h[:])}
		}
	case core.SyncContribution:
		if h, err := u.SyncCommitteeContribution.HashTreeRoot(); err == nil {
			return []string{short(h[:])}
		}
	case core.SyncContributions:
		var out []string
		for _, c := range u {
			if h, err := c.SyncCommitteeContribution.HashTreeRoot(); err == nil {
				out = append(out, short(h[:]))
			}
		}

		return out
	}

	return []string{"?"}
}

// signedRoots returns the message root (what is signed) and the root of the unsigned duty data embedded in it ("" when
// the duty has no unsigned data: randao, selections, sync messages).
func signedRoots(d core.SignedData) (string, string) {
	mr, err := d.MessageRoot()
	if err != nil {
		return "?", ""
	}
	r := short(mr[:])
	switch s := d.(type) {
	case core.VersionedAttestation, core.VersionedSignedProposal:
		return r, r
	case core.VersionedSignedAggregateAndProof:
		var h [32]byte
		var err error
		switch {
		case s.Fulu != nil:
			h, err = s.Fulu.Message.Aggregate.HashTreeRoot()
		case s.Electra != nil:
			h, err = s.Electra.Message.Aggregate.HashTreeRoot()
		case s.Deneb != nil:
			h, err = s.Deneb.Message.Aggregate.HashTreeRoot()
		case s.Capella != nil:
			h, err = s.Capella.Message.Aggregate.HashTreeRoot()
		case s.Bellatrix != nil:
			h, err = s.Bellatrix.Message.Aggregate.HashTreeRoot()
		case s.Altair != nil:
			h, err = s.Altair.Message.Aggregate.HashTreeRoot()
		case s.Phase0 != nil:
			h, err = s.Phase0.Message.Aggregate.HashTreeRoot()
		default:
			return r, "?"
		}
		if err != nil {
			return r, "?"
		}

		return r, short(h[:])
	case core.SignedSyncContributionAndProof:
		if s.Message == nil || s.Message.Contribution == nil {
			return r, "?"
		}
		h, err := s.Message.Contribution.HashTreeRoot()
		if err != nil {
			return r, "?"
		}

		return r, short(h[:])
	}

	return r, ""
}

// verifies: the signature of d verifies under pub for d's own domain, epoch and message root (real tbls).
func (r *run) verifies(d core.SignedData, pub tbls.PublicKey) bool {
	e2, ok := d.(core.Eth2SignedData)
	if !ok {
		return false
	}
	mr, err := d.MessageRoot()
	if err != nil {
		return false
	}
	key := string(pub[:]) + string(mr[:]) + string(d.Signature())
	r.okMu.Lock()
	v, hit := r.okCache[key]
	r.okMu.Unlock()
	if hit {
		return v
	}
	v = core.VerifyEth2SignedData(r.bctx, r.bmock, e2, pub) == nil
	r.okMu.Lock()
	r.okCache[key] = v
	r.okMu.Unlock()

	return v
}

func subIdx(typ core.DutyType, d core.SignedData) int {
	k, err := core.SyncSubcommitteeIndex(typ, d)
	if err != nil {
		return -1
	}

	return int(k)
}

func (r *run) part(typ core.DutyType, pk core.PubKey, p core.ParSignedData) drv.Step {
	mr, u := signedRoots(p.SignedData)
	ok := false
	if pub, have := r.pubs[pk][p.ShareIdx]; have {
		ok = r.verifies(p.SignedData, pub)
	}

	return drv.Step{"v": r.vidx[pk], "k": subIdx(typ, p.SignedData), "sh": p.ShareIdx, "r": mr, "u": u, "ok": ok}
}

func sortSteps(xs []any) []any {
	sort.Slice(xs, func(i, j int) bool {
		a, _ := json.Marshal(xs[i])
		b, _ := json.Marshal(xs[j])

		return string(a) < string(b)
	})

	return xs
}

func (r *run) argFields(e rawEv, out drv.Step) {
	switch a := e.arg.(type) {
	case []core.PubKey:
		var vs []any
		for _, pk := range a {
			vs = append(vs, r.vidx[pk])
		}
		sort.Slice(vs, func(i, j int) bool { return vs[i].(int) < vs[j].(int) })
		out["vs"] = vs
	case core.UnsignedDataSet:
		set := []any{}
		for pk, d := range a {
			for _, u := range unsignedRoots(d) {
				set = append(set, drv.Step{"v": r.vidx[pk], "u": u})
			}
		}
		out["set"] = sortSteps(set)
	case core.ParSignedDataSet:
		parts := []any{}
		for pk, p := range a {
			parts = append(parts, r.part(e.duty.Type, pk, p))
		}
		out["parts"] = sortSteps(parts)
	case map[core.PubKey][]core.ParSignedData:
		parts := []any{}
		for pk, ps := range a {
			for _, p := range ps {
				parts = append(parts, r.part(e.duty.Type, pk, p))
			}
		}
		out["parts"] = sortSteps(parts)
	case core.SignedDataSet:
		set := []any{}
		for pk, d := range a {
			mr, u := signedRoots(d)
			set = append(set, drv.Step{"v": r.vidx[pk], "k": subIdx(e.duty.Type, d), "r": mr, "u": u, "ok": r.verifies(d, r.group[pk])})
		}
		out["set"] = sortSteps(set)
	case bnSet:
		set := []any{}
		for _, d := range a {
			mr, _ := signedRoots(d)
			ok := false
			for _, g := range r.group { // a beacon node is not told the validator: some group key must verify it
				ok = ok || r.verifies(d, g)
			}
			set = append(set, drv.Step{"r": mr, "ok": ok})
		}
		out["set"] = sortSteps(set)
	case core.VerifQuery:
		out["u"] = ""
		switch q := a.Result.(type) {
		case *eth2p0.AttestationData:
			if q != nil {
				if h, err := q.HashTreeRoot(); err == nil {
					out["u"] = short(h[:])
				}
			}
		case *altair.SyncCommitteeContribution:
			if q != nil {
				if h, err := q.HashTreeRoot(); err == nil {
					out["u"] = short(h[:])
				}
			}
		case eth2p0.Root:
			out["u"] = short(q[:])
		case core.SignedData:
			if q != nil {
				mr, _ := signedRoots(q)
				out["u"] = mr
				out["ok"] = r.verifies(q, r.group[a.PubKey])
			}
		}
		if a.PubKey != "" {
			out["v"] = r.vidx[a.PubKey]
		}
	}
}

var edgeNames = map[string]string{
	"FetcherFetch": "Fetch", "ConsensusParticipate": "Part", "ConsensusPropose": "Prop", "DutyDBStore": "Store",
	"ParSigDBStoreInternal": "SInt", "ParSigExBroadcast": "PBc", "ParSigDBStoreExternal": "SExt",
	"SigAggAggregate": "Agg", "AggSigDBStore": "ADB", "BroadcasterBroadcast": "Bc",
}

var queryKinds = map[string]string{
	"DutyDBAwaitProposal": "prop", "DutyDBAwaitAttestation": "att", "DutyDBAwaitAggAttestation": "agg",
	"DutyDBAwaitSyncContribution": "contrib", "FetcherAwaitAttData": "fatt", "VAPIAggSigDBAwait": "vsig",
	"FetcherAggSigDBAwait": "fsig",
}

// events converts the raw observations from position `from` on.
func (r *run) events(from int) ([]drv.Step, int) {
	r.rec.mu.Lock()
	evs := append([]rawEv(nil), r.rec.evs[from:]...)
	r.rec.mu.Unlock()
	var out []drv.Step
	for _, e := range evs {
		s := drv.Step{"n": e.node, "d": dutyStr(e.duty), "ty": e.duty.Type.String()}
		for k, v := range e.step {
			s[k] = v
		}
		if short, ok := edgeNames[e.edge]; ok {
			s["c"] = e.id
			if e.call {
				s["ev"] = short + "C"
				r.argFields(e, s)
			} else {
				s["ev"] = short + "R"
				s["err"] = e.err != nil
				if e.id == 0 {
					continue // the call was made before the recording started
				}
			}
		} else if k, ok := queryKinds[e.edge]; ok {
			s["ev"] = "Await"
			s["k"] = k
			s["err"] = e.err != nil
			r.argFields(e, s)
			if e.err != nil {
				s["u"] = ""
			}
		} else {
			s["ev"] = e.edge
			if e.duty.Type == core.DutyUnknown {
				delete(s, "d")
				delete(s, "ty")
			}
			if e.arg != nil {
				r.argFields(e, s)
			}
		}
		out = append(out, s)
	}

	return out, from + len(evs)
}

// stream writes the log while the cluster runs (a mis-wired or mutated composition may crash the process: what was
// observed until then is on disk and is validated as far as it goes).
type stream struct {
	mu sync.Mutex
	f  *os.File
}

func (w *stream) emit(evs []drv.Step) {
	w.mu.Lock()
	defer w.mu.Unlock()
	for _, e := range evs {
		b, err := json.Marshal(e)
		if err != nil {
			panic(err)
		}
		w.f.Write(append(b, '\n'))
	}
}

// ---------------------------------------------------------------------------------------------------------------------
func runCluster(t *testing.T, sid int, c cfg, out *stream) {
	ctx, cancel := context.WithCancel(context.Background())
	defer cancel()
	random := rand.New(rand.NewSource(c.Seed))
	lock, p2pKeys, shares := cluster.NewForT(t, c.NV, c.T, c.N, int(c.Seed%200)+1, random, func(d *cluster.Definition) {
		d.ForkVersion = []byte{0x90, 0x00, 0x00, 0x69}
	})
	r := &run{t: t, c: c, ctx: ctx, lock: lock, shares: shares, vidx: map[core.PubKey]int{}, group: map[core.PubKey]tbls.PublicKey{},
		pubs: map[core.PubKey]map[int]tbls.PublicKey{}, hosts: map[int]host.Host{}, attStore: map[eth2p0.Root]*eth2p0.AttestationData{},
		rng: rand.New(rand.NewSource(c.Seed * 7919)), okCache: map[string]bool{}, bnSeen: map[string]bool{}, slotDur: time.Second}
	r.rec = &recorder{open: map[corrKey][]int64{}, onOverflow: cancel}
	r.ex = &exchange{r: r, subs: map[int][]exSub{}, sent: map[string]bool{}}
	for v, val := range lock.Validators {
		pk, err := core.PubKeyFromBytes(val.PubKey)
		if err != nil {
			t.Fatal(err)
		}
		r.vidx[pk] = v + 1
		g, err := tblsconv.PubkeyFromBytes(val.PubKey)
		if err != nil {
			t.Fatal(err)
		}
		r.group[pk] = g
		r.pubs[pk] = map[int]tbls.PublicKey{}
		for i, b := range val.PubShares {
			ps, err := tblsconv.PubkeyFromBytes(b)
			if err != nil {
				t.Fatal(err)
			}
			r.pubs[pk][i+1] = ps
		}
	}
	var err error
	if r.peerIDs, err = lock.PeerIDs(); err != nil {
		t.Fatal(err)
	}
	if r.genesis, err = eth2util.ForkVersionToGenesisTime(lock.ForkVersion); err != nil {
		t.Fatal(err)
	}
	bctx, bcancel := context.WithCancel(context.Background())
	defer bcancel()
	r.bctx = bctx
	if r.bmock, err = beaconmock.New(bctx, beaconmock.WithSlotDuration(r.slotDur), beaconmock.WithGenesisTime(r.genesis),
		beaconmock.WithSlotsPerEpoch(c.SPE)); err != nil {
		t.Fatal(err)
	}
	defer r.bmock.Close()
	if r.verify, err = parsigex.NewEth2Verifier(r.bmock, r.pubs); err != nil {
		t.Fatal(err)
	}
	if c.Byz != 0 {
		r.rec.onCall = func(node int, edge string, duty core.Duty, arg any) {
			if node == c.Byz && edge == "ParSigExBroadcast" {
				if set, ok := arg.(core.ParSignedDataSet); ok {
					go r.byzantine(duty, set)
				}
			}
		}
	}
	app.VerifNodeWireOpts = func(peerIdx int) []core.WireOption {
		return []core.WireOption{core.VerifWithObserver(r.rec.observer(peerIdx + 1))}
	}
	defer func() { app.VerifNodeWireOpts = nil }()

	byzs := []any{}
	if c.Byz != 0 {
		byzs = append(byzs, c.Byz)
	}
	out.emit([]drv.Step{{"ev": "Reset", "sid": sid, "n": c.N, "t": lock.Threshold, "nv": c.NV, "byz": byzs, "exverify": c.ExVerify || c.Mode == "p2p",
		"mode": c.Mode, "kind": c.Kind, "seed": c.Seed}})
	streamed := make(chan struct{})
	stopStream := make(chan struct{})
	go func() {
		defer close(streamed)
		pos := 0
		for {
			var evs []drv.Step
			evs, pos = r.events(pos)
			out.emit(evs)
			select {
			case <-stopStream:
				evs, _ = r.events(pos)
				out.emit(evs)

				return
			case <-time.After(150 * time.Millisecond):
			}
		}
	}()

	relayAddr := relay.StartRelay(ctx, t)
	var wg sync.WaitGroup
	cancels := make([]context.CancelFunc, c.N)
	r.nodeCtx = make([]context.Context, c.N)
	for i := 0; i < c.N; i++ {
		r.nodeCtx[i], cancels[i] = context.WithCancel(ctx)
	}
	t0 := time.Now()
	for i := 0; i < c.N; i++ {
		conf := r.nodeConf(i, relayAddr)
		conf.TestConfig.P2PKey = p2pKeys[i]
		node := i + 1
		wg.Add(1)
		go func() {
			defer wg.Done()
			if c.LateN == node && c.LateMS > 0 {
				select {
				case <-ctx.Done():
					return
				case <-time.After(time.Duration(c.LateMS) * time.Millisecond):
				}
			}
			r.rec.custom(node, "Start", core.Duty{}, nil, nil)
			if c.Byz == node && c.ByzVC != "" {
				r.byzVC(r.nodeCtx[i], conf, i)
			}
			if err := app.Run(r.nodeCtx[i], conf); err != nil && r.nodeCtx[i].Err() == nil {
				t.Logf("node %d: app.Run: %v", node, err)
				r.rec.custom(node, "RunErr", core.Duty{}, nil, drv.Step{"msg": err.Error()})
			}
		}()
	}
	if c.StopN > 0 && c.StopMS > 0 {
		go func() {
			select {
			case <-ctx.Done():
			case <-time.After(time.Duration(c.StopMS) * time.Millisecond):
				r.rec.custom(c.StopN, "Stop", core.Duty{}, nil, nil)
				cancels[c.StopN-1]()
			}
		}()
	}
	select {
	case <-time.After(time.Duration(c.Secs) * time.Second):
	case <-ctx.Done():
	}
	r.rec.mu.Lock()
	over := r.rec.overflow
	r.rec.mu.Unlock()
	if over {
		r.rec.mu.Lock()
		r.rec.seq++
		r.rec.evs = append(r.rec.evs, rawEv{seq: r.rec.seq, edge: "Overflow"})
		r.rec.mu.Unlock()
	}
	r.rec.custom(0, "End", core.Duty{}, nil, drv.Step{"ms": time.Since(t0).Milliseconds()})
	cancel()
	done := make(chan struct{})
	go func() { wg.Wait(); close(done) }()
	select {
	case <-done:
	case <-time.After(20 * time.Second):
		t.Logf("nodes did not shut down in 20 s")
	}
	close(stopStream)
	<-streamed
}

func TestExec(t *testing.T) {
	scheds := drv.ReadSchedules(t)
	path := os.Getenv("VERIF_OUT")
	if path == "" {
		t.Skip("VERIF_OUT not set")
	}
	f, err := os.Create(path)
	if err != nil {
		t.Fatal(err)
	}
	defer f.Close()
	out := &stream{f: f}
	if os.Getenv("VERIF_WF_LOGS") == "" {
		drv.QuietLogs(t)
	}
	for sid, sched := range scheds {
		if len(sched) == 0 {
			continue
		}
		if v, ok := sched[0]["sid"]; ok {
			sid = drv.Num(v)
		}
		runCluster(t, sid, cfgOf(sched[0]), out)
	}
}
