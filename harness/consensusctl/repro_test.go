package consensusctl

// Stand-alone reproductions of the two named deviations of the ConsensusCtl family (run with the `verif` build tag and the
// hook core/consensus/verif_export.go).  They print what happens and never fail: they document the behaviour, the family's
// directed probes judge it.

import (
	"context"
	"fmt"
	"testing"
	"testing/synctest"
	"time"

	eth2api "github.com/attestantio/go-eth2-client/api"
	eth2v1 "github.com/attestantio/go-eth2-client/api/v1"
	libp2pcrypto "github.com/libp2p/go-libp2p/core/crypto"
	"github.com/libp2p/go-libp2p/core/protocol"
	mocknet "github.com/libp2p/go-libp2p/p2p/net/mock"
	ma "github.com/multiformats/go-multiaddr"
	"go.uber.org/zap/zapcore"

	"github.com/obolnetwork/charon/app/log"
	"github.com/obolnetwork/charon/core"
	"github.com/obolnetwork/charon/core/consensus"
	cqbft "github.com/obolnetwork/charon/core/consensus/qbft"
	pbv1 "github.com/obolnetwork/charon/core/corepb/v1"
	"github.com/obolnetwork/charon/p2p"
	"github.com/obolnetwork/charon/testutil"
)

type reproImpl struct {
	id   protocol.ID
	subs []func(context.Context, core.Duty, core.UnsignedDataSet) error
}

func (r *reproImpl) ProtocolID() protocol.ID                                        { return r.id }
func (r *reproImpl) Start(context.Context)                                          {}
func (r *reproImpl) Participate(context.Context, core.Duty) error                   { return nil }
func (r *reproImpl) Propose(context.Context, core.Duty, core.UnsignedDataSet) error { return nil }
func (r *reproImpl) Subscribe(fn func(context.Context, core.Duty, core.UnsignedDataSet) error) {
	r.subs = append(r.subs, fn)
}

// GROW-CONSENSUSCTL-F1: core.Wire subscribes ONCE to the handle CurrentConsensus() returns; the wrapper forwards that
// subscription to the implementation that is current at that moment only.
func TestReproSubscriberLostOnSwitch(t *testing.T) {
	d, x := &reproImpl{id: "/charon/consensus/qbft/2.0.0"}, &reproImpl{id: "/charon/consensus/x/1.0.0"}
	ctrl, setImpl, _ := consensus.VerifNewController(d, consensus.NewDebugger())
	ctrl.CurrentConsensus().Subscribe(func(context.Context, core.Duty, core.UnsignedDataSet) error { return nil })
	setImpl(x) // what a switch to protocol x does
	fmt.Printf("current protocol %s: subscribers of the current implementation: %d, of the previous one: %d\n",
		ctrl.CurrentConsensus().ProtocolID(), len(x.subs), len(d.subs))
}

type reproGate struct{ hold, reached chan struct{} }

func (g reproGate) Write(b []byte) (int, error) {
	if bytesContains(b, "QBFT consensus instance starting") {
		close(g.reached)
		<-g.hold
	}

	return len(b), nil
}
func (reproGate) Sync() error { return nil }

func bytesContains(b []byte, s string) bool {
	for i := 0; i+len(s) <= len(b); i++ {
		if string(b[i:i+len(s)]) == s {
			return true
		}
	}

	return false
}

type reproDL struct {
	expired *bool
	c       chan core.Duty
}

func (d reproDL) Add(core.Duty) core.DeadlineStatus {
	if *d.expired {
		return core.DeadlineExpired
	}

	return core.DeadlineScheduled
}
func (d reproDL) C() <-chan core.Duty { return d.c }

// GROW-CONSENSUSCTL-F2: the duty's instance IO is deleted (deadline) between getInstanceIO of Participate and the second
// getInstanceIO inside runInstance: the error is sent to a fresh IO's ErrCh, the Propose that waits on the first IO's
// ErrCh (without a ctx alternative) never returns.
func TestReproRelookup(t *testing.T) {
	defer func() { fmt.Println("synctest:", recover()) }()
	synctest.Test(t, func(t *testing.T) {
		ctx, cancel := context.WithCancel(context.Background())
		mn := mocknet.New()
		k := detKey("x")
		id, _ := p2p.PeerIDFromKey(k.PubKey())
		peers := []p2p.Peer{{ID: id, Index: 0, Name: p2p.PeerName(id)}}
		a, _ := ma.NewMultiaddr("/ip4/10.0.0.1/tcp/4242")
		h, err := mn.AddPeer((*libp2pcrypto.Secp256k1PrivateKey)(k), a)
		if err != nil {
			t.Fatal(err)
		}
		synctest.Wait()
		sink := reproGate{hold: make(chan struct{}), reached: make(chan struct{})}
		log.InitJSONForT(t, zapcore.AddSync(sink))
		bc := bclient{spec: map[string]any{"SECONDS_PER_SLOT": 12 * time.Second, "SLOTS_PER_EPOCH": uint64(32)}}
		gen := time.Now()
		bc.GenesisFunc = func(context.Context, *eth2api.GenesisOpts) (*eth2v1.Genesis, error) {
			return &eth2v1.Genesis{GenesisTime: gen}, nil
		}
		expired := false
		dl := reproDL{expired: &expired, c: make(chan core.Duty)}
		c, err := cqbft.NewConsensus(ctx, bc, h, new(p2p.Sender), peers, k, dl, func(core.Duty) bool { return true },
			func(*pbv1.SniffedConsensusInstance) {}, false)
		if err != nil {
			t.Fatal(err)
		}
		c.Start(ctx)
		duty := core.NewAttesterDuty(5)
		pctx, pcancel := context.WithCancel(ctx)
		qctx, qcancel := context.WithCancel(ctx)
		go func() { fmt.Println("Participate ->", c.Participate(pctx, duty)) }()
		<-sink.reached // the starter is between MaybeStart and runInstance's own lookup
		set := core.UnsignedDataSet{testutil.RandomCorePubKey(t): testutil.RandomCoreAttestationData(t)}
		returned := make(chan error, 1)
		go func() { err := c.Propose(qctx, duty, set); fmt.Println("Propose ->", err); returned <- err }()
		synctest.Wait()
		expired = true
		dl.c <- duty // the duty's deadline: Start's loop deletes the instance IO
		synctest.Wait()
		close(sink.hold)
		synctest.Wait()
		pcancel()
		qcancel()
		time.Sleep(time.Hour)
		synctest.Wait()
		select {
		case <-returned:
			fmt.Println("Propose returned")
		default:
			fmt.Println("Propose is STILL BLOCKED an hour after its context was cancelled and the instance ended")
		}
		cancel()
		_ = mn.Close()
		time.Sleep(10 * time.Second)
	})
}
