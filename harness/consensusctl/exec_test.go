// Package consensusctl executes ConsensusCtl schedules on the REAL core/consensus code and records what it did
// (growth family "ConsensusCtl", oracle: specs/ConsensusCtl/ConsensusCtlTrace.tla).
//
// A schedule is [Cfg, stimulus*]; Cfg.mode selects what is driven:
//
//	ctl    consensus.VerifNewController (build-tag hook: the real consensusController and consensusWrapper, nothing else)
//	       around STUB implementations D (default), X, X2, Y.  Every call of the wrapper / controller runs in its own
//	       goroutine; stub Participate / Propose block until the schedule says what they return.  No testing/synctest
//	       here: a goroutine that waits for the wrapper's sync.RWMutex is not "durably blocked".  After a stimulus the
//	       driver waits until nothing has been logged for a millisecond -- that only decides which interleaving is
//	       explored, never a verdict: the trace spec accepts every interleaving the lock allows.
//	io     the REAL qbft.Consensus (a cluster of one node -- it decides alone -- or of two) behind the real wrapper and
//	       controller, real instance IO, real debugger as sniffer target, a stub core.Deadliner (the schedule says when
//	       a duty's deadline passes), inside a testing/synctest bubble; synctest.Wait() after every stimulus.  Gates
//	       ("log": the component's "instance starting" log line, "add": deadliner.Add called by runInstance, "dlv": a
//	       subscriber callback, "sniff": snifferFunc) hold a goroutine at that point until released.
//	dbg    consensus.NewDebugger(): AddInstance with instances of an exact protobuf size (payload shared), ServeHTTP
//	       decoded (gunzip, unmarshal) into the list of instance ids; Par runs operations concurrently.
//	proto  protocols.MostPreferredConsensusProtocol / IsSupportedProtocolName / PrioritizeProtocolsByName / Protocols.
//
// The executor contains no expected value: it records calls, returns and what the stubs / callbacks saw.
package consensusctl

import (
	"bytes"
	"compress/gzip"
	"context"
	"crypto/sha256"
	"errors"
	"fmt"
	"io"
	"net/http/httptest"
	"runtime"
	"strings"
	"sync"
	"sync/atomic"
	"testing"
	"testing/synctest"
	"time"

	eth2api "github.com/attestantio/go-eth2-client/api"
	eth2v1 "github.com/attestantio/go-eth2-client/api/v1"
	k1 "github.com/decred/dcrd/dcrec/secp256k1/v4"
	libp2pcrypto "github.com/libp2p/go-libp2p/core/crypto"
	"github.com/libp2p/go-libp2p/core/protocol"
	mocknet "github.com/libp2p/go-libp2p/p2p/net/mock"
	ma "github.com/multiformats/go-multiaddr"
	"google.golang.org/protobuf/proto"
	"google.golang.org/protobuf/types/known/anypb"

	"github.com/obolnetwork/charon/app/k1util"
	"github.com/obolnetwork/charon/core"
	"github.com/obolnetwork/charon/core/consensus"
	"github.com/obolnetwork/charon/core/consensus/protocols"
	cqbft "github.com/obolnetwork/charon/core/consensus/qbft"
	pbv1 "github.com/obolnetwork/charon/core/corepb/v1"
	"github.com/obolnetwork/charon/p2p"
	"github.com/obolnetwork/charon/testutil"
	"github.com/obolnetwork/charon/testutil/beaconmock"

	"verifharness/drv"
)

const consPrefix = "/charon/consensus/"

func num(m map[string]any, k string) int { return drv.Num(m[k]) }
func str(m map[string]any, k string) string {
	if s, ok := m[k].(string); ok {
		return s
	}
	return "-"
}
func obj(v any) map[string]any { m, _ := v.(map[string]any); return m }
func list(v any) []any         { l, _ := v.([]any); return l }

// pidString builds the protocol id string of a structured id {k, n, v}.
func pidString(p map[string]any) string {
	if drv.Str(p["k"]) == "cons" {
		return consPrefix + drv.Str(p["n"]) + "/" + drv.Str(p["v"])
	}

	return drv.Str(p["n"])
}

func pidRec(k, n, v string) drv.Step { return drv.Step{"k": k, "n": n, "v": v} }

var noPid = pidRec("other", "-", "")

// recorder is the event log of one schedule: a linearisation (events are appended under one mutex).
type recorder struct {
	mu       sync.Mutex
	events   []drv.Step
	progress chan struct{}
}

func newRecorder() *recorder { return &recorder{progress: make(chan struct{}, 1)} }

func (r *recorder) log(ev drv.Step, f func()) {
	r.mu.Lock()
	if f != nil {
		f()
	}
	r.events = append(r.events, ev)
	r.mu.Unlock()
	select {
	case r.progress <- struct{}{}:
	default:
	}
}

// settle waits until nothing was logged for a millisecond (at most 30 ms): which interleaving is explored, not a verdict.
func (r *recorder) settle() {
	deadline := time.After(30 * time.Millisecond)
	for {
		select {
		case <-r.progress:
		case <-time.After(time.Millisecond):
			return
		case <-deadline:
			return
		}
	}
}

// guarded runs fn; a panic of the code under test is recorded (no step of the specification matches a Panic event)
// instead of killing the executor.
func (r *recorder) guarded(what string, fn func()) {
	defer func() {
		if p := recover(); p != nil {
			r.log(drv.Step{"ev": "Panic", "in": what, "what": fmt.Sprint(p)}, nil)
		}
	}()
	fn()
}

func TestExec(t *testing.T) {
	drv.QuietLogs(t)
	scheds := drv.ReadSchedules(t)
	tr := drv.NewTracer(t)
	defer tr.Close()
	for sid, s := range scheds {
		if len(s) == 0 || drv.Str(s[0]["ev"]) != "Cfg" {
			t.Fatalf("schedule %d does not start with Cfg", sid)
		}
		var hung bool
		switch mode := drv.Str(s[0]["mode"]); mode {
		case "ctl":
			hung = runCtl(t, tr, sid, s)
		case "io":
			hung = runIoBubble(t, tr, sid, s)
		case "dbg":
			hung = runDbg(t, tr, sid, s)
		case "proto":
			runProto(tr, sid, s)
		default:
			t.Fatalf("schedule %d: unknown mode %q", sid, mode)
		}
		if hung && s[0]["hangok"] != true {
			break // a hung component: the remaining schedules would wait for the same timeouts
		}
	}
}

// ---------------------------------------------------------------------------------------------------------------------
// ctl: real controller + wrapper around stubs
// ---------------------------------------------------------------------------------------------------------------------

type (
	tKey   struct{}
	cKey   struct{}
	colKey struct{}
)

type thread struct {
	id   int
	gate chan string // what the stub returns (buffered: may be armed before the stub is entered)
	done chan struct{}
}

type stub struct {
	e     *ctlEnv
	name  string
	proto protocol.ID

	mu   sync.Mutex
	subs []func(context.Context, core.Duty, core.UnsignedDataSet) error
}

type errSub struct{ s string }

func (e errSub) Error() string { return "subscriber " + e.s }

func (s *stub) ProtocolID() protocol.ID {
	s.e.r.log(drv.Step{"ev": "PIDRead", "i": s.name}, nil)
	return s.proto
}

func (s *stub) Start(ctx context.Context) {
	name, _ := ctx.Value(cKey{}).(string)
	if name == "" {
		name = "?"
	}
	s.e.r.log(drv.Step{"ev": "ImplStart", "i": s.name, "ctx": name}, nil)
}

func (s *stub) enter(ctx context.Context, op string, duty core.Duty, v int) error {
	t, _ := ctx.Value(tKey{}).(int)
	th := s.e.thread(t)
	s.e.r.log(drv.Step{"ev": "Enter", "t": t, "i": s.name, "op": op, "d": int(duty.Slot), "v": v}, nil)
	var res string
	select {
	case res = <-th.gate:
	case <-s.e.quit:
		res = "nil"
	}
	s.e.r.log(drv.Step{"ev": "Exit", "t": t, "i": s.name, "res": res}, nil)
	if res == "nil" {
		return nil
	}

	return errors.New(res)
}

func (s *stub) Participate(ctx context.Context, duty core.Duty) error {
	return s.enter(ctx, "part", duty, 0)
}

func (s *stub) Propose(ctx context.Context, duty core.Duty, set core.UnsignedDataSet) error {
	v := -1
	for k := range set {
		fmt.Sscanf(string(k), "v%d", &v)
	}

	return s.enter(ctx, "prop", duty, v)
}

func (s *stub) Subscribe(fn func(context.Context, core.Duty, core.UnsignedDataSet) error) {
	id := "?"
	var es errSub
	if err := fn(context.WithValue(context.Background(), colKey{}, "probe"), core.Duty{}, nil); errors.As(err, &es) {
		id = es.s
	}
	s.mu.Lock()
	s.subs = append(s.subs, fn)
	s.mu.Unlock()
	s.e.r.log(drv.Step{"ev": "ImplSub", "i": s.name, "s": id}, nil)
}

type ctlEnv struct {
	t         *testing.T
	r         *recorder
	stubs     map[string]*stub
	ctrl      core.ConsensusController
	wrapper   core.Consensus
	setImpl   func(core.Consensus)
	setCancel func(context.CancelFunc)
	quit      chan struct{}

	mu        sync.Mutex
	threads   map[int]*thread
	installed bool
	started   bool
	cancelled chan struct{}
}

func (e *ctlEnv) thread(id int) *thread {
	e.mu.Lock()
	defer e.mu.Unlock()
	th, ok := e.threads[id]
	if !ok {
		th = &thread{id: id, gate: make(chan string, 4), done: make(chan struct{})}
		e.threads[id] = th
	}

	return th
}

var stubProtos = map[string]drv.Step{
	"D": pidRec("cons", "qbft", "2.0.0"), "X": pidRec("cons", "x", "1.0.0"), "X2": pidRec("cons", "x", "1.0.0"),
	"Y": pidRec("cons", "y", "1.0.0"),
}

// structured returns the structured form of a protocol id string the stubs can return.
func structured(id string) drv.Step {
	for _, p := range stubProtos {
		if pidString(p) == id {
			return p
		}
	}

	return pidRec("other", id, "")
}

// subscriber s: answers the identification probe of the stubs, otherwise notes that it was called.
func subscriber(s string) func(context.Context, core.Duty, core.UnsignedDataSet) error {
	return func(ctx context.Context, _ core.Duty, _ core.UnsignedDataSet) error {
		switch c := ctx.Value(colKey{}).(type) {
		case string:
			return errSub{s}
		case *[]any:
			*c = append(*c, s)
		}

		return nil
	}
}

func runCtl(t *testing.T, tr *drv.Tracer, sid int, sched []drv.Step) (hung bool) {
	e := &ctlEnv{t: t, r: newRecorder(), stubs: map[string]*stub{}, quit: make(chan struct{}), threads: map[int]*thread{},
		cancelled: make(chan struct{}, 16)}
	for name, p := range stubProtos {
		e.stubs[name] = &stub{e: e, name: name, proto: protocol.ID(pidString(p))}
	}
	e.ctrl, e.setImpl, e.setCancel = consensus.VerifNewController(e.stubs["D"], consensus.NewDebugger())
	e.wrapper = e.ctrl.CurrentConsensus()
	appCtx, appCancel := context.WithCancel(context.WithValue(context.Background(), cKey{}, "app"))
	defer appCancel()
	e.r.events = append(e.r.events, drv.Step{"ev": "Reset", "sid": sid, "mode": "ctl"})

	call := func(st drv.Step) {
		id := num(st, "t")
		th := e.thread(id)
		op := drv.Str(st["op"])
		pid := noPid
		if p := obj(st["pid"]); p != nil {
			pid = pidRec(drv.Str(p["k"]), drv.Str(p["n"]), drv.Str(p["v"]))
		}
		ev := drv.Step{"ev": "Call", "t": id, "op": op, "d": num(st, "d"), "v": num(st, "v"), "sub": str(st, "sub"),
			"ctx": str(st, "ctx"), "impl": str(st, "impl"), "pid": pid}
		ctx := context.WithValue(context.Background(), tKey{}, id)
		duty := core.NewAttesterDuty(uint64(num(st, "d")))
		go func() {
			defer close(th.done)
			ret := drv.Step{"ev": "Ret", "t": id, "res": "-", "pid": noPid}
			e.r.log(ev, nil)
			e.r.guarded(op, func() {
				switch op {
				case "part":
					ret["res"] = errText(e.wrapper.Participate(ctx, duty))
				case "prop":
					set := core.UnsignedDataSet{core.PubKey(fmt.Sprintf("v%d", num(st, "v"))): nil}
					ret["res"] = errText(e.wrapper.Propose(ctx, duty, set))
				case "sub":
					e.wrapper.Subscribe(subscriber(str(st, "sub")))
				case "pid":
					ret["pid"] = structured(string(e.wrapper.ProtocolID()))
				case "wstart":
					e.wrapper.Start(context.WithValue(context.Background(), cKey{}, str(st, "ctx")))
				case "setimpl":
					e.setImpl(e.stubs[str(st, "impl")])
				case "set":
					if err := e.ctrl.SetCurrentConsensusForProtocol(ctx, protocol.ID(pidString(pid))); err != nil {
						ret["res"], ret["errtxt"] = "err", err.Error()
					} else {
						ret["res"] = "ok"
					}
				default:
					ret["res"] = "unknown op"
				}
			})
			e.r.log(ret, nil)
		}()
	}

	for _, st := range sched[1:] {
		switch drv.Str(st["ev"]) {
		case "Call":
			call(st)
		case "Exit":
			select {
			case e.thread(num(st, "t")).gate <- drv.Str(st["res"]):
			default:
			}
		case "CtlStart":
			e.r.log(drv.Step{"ev": "CtlStart"}, nil)
			e.ctrl.Start(appCtx)
			e.started = true
		case "AppCancel":
			e.r.log(drv.Step{"ev": "AppCancel"}, appCancel)
			e.mu.Lock()
			inst := e.installed
			e.mu.Unlock()
			if inst && e.started { // a cancel function is installed: the controller's goroutine has something to do
				select {
				case <-e.cancelled:
				case <-time.After(5 * time.Second):
				}
			}
		case "SetCancel":
			k := drv.Str(st["k"])
			e.r.log(drv.Step{"ev": "SetCancel", "k": k}, func() {
				e.setCancel(func() {
					e.r.log(drv.Step{"ev": "Cancelled", "k": k}, nil)
					select {
					case e.cancelled <- struct{}{}:
					default:
					}
				})
			})
			e.mu.Lock()
			e.installed = true
			e.mu.Unlock()
		case "Decide":
			s := e.stubs[drv.Str(st["i"])]
			s.mu.Lock()
			subs := append([]func(context.Context, core.Duty, core.UnsignedDataSet) error{}, s.subs...)
			s.mu.Unlock()
			got := []any{}
			ctx := context.WithValue(context.Background(), colKey{}, &got)
			for _, fn := range subs {
				_ = fn(ctx, core.NewAttesterDuty(uint64(num(st, "d"))), nil)
			}
			e.r.log(drv.Step{"ev": "Decide", "i": s.name, "d": num(st, "d"), "got": got}, nil)
		case "Ident":
			d1, d2 := e.ctrl.DefaultConsensus(), e.ctrl.DefaultConsensus()
			c1, c2 := e.ctrl.CurrentConsensus(), e.ctrl.CurrentConsensus()
			e.r.log(drv.Step{"ev": "Ident", "defsame": d1 == d2 && d1 == core.Consensus(e.stubs["D"]),
				"cursame": c1 == c2 && c1 == e.wrapper, "curisdef": c1 == d1}, nil)
		case "Prio": // what app.go does with a priority result: most preferred consensus protocol -> SetCurrentConsensusForProtocol
			var ids []string
			for _, p := range list(st["l"]) {
				ids = append(ids, pidString(obj(p)))
			}
			out := protocols.MostPreferredConsensusProtocol(ids)
			idx, pid := indexOf(ids, out), any(nil)
			if idx > 0 {
				pid = list(st["l"])[idx-1]
			} else if out == protocols.QBFTv2ProtocolID {
				pid = map[string]any{"k": "cons", "n": "qbft", "v": "2.0.0"}
			} else {
				idx, pid = -1, map[string]any{"k": "other", "n": out, "v": ""}
			}
			e.r.log(drv.Step{"ev": "Most", "l": st["l"], "out": idx}, nil)
			call(drv.Step{"t": st["t"], "op": "set", "pid": pid})
		default:
			t.Fatalf("schedule %d: unknown ctl step %v", sid, st)
		}
		e.r.settle()
	}
	// drain: whatever is still inside a stub returns nil, everything that was called returns
	close(e.quit)
	e.mu.Lock()
	ths := make([]*thread, 0, len(e.threads))
	for _, th := range e.threads {
		ths = append(ths, th)
	}
	e.mu.Unlock()
	timeout := time.After(10 * time.Second)
	for _, th := range ths {
		select {
		case <-th.done:
		case <-timeout:
			hung = true
		}
	}
	e.r.settle()
	if hung {
		e.r.log(drv.Step{"ev": "Hang"}, nil)
	} else {
		e.r.log(drv.Step{"ev": "End"}, nil)
	}
	e.r.mu.Lock()
	for _, ev := range e.r.events {
		tr.Emit(ev)
	}
	e.r.mu.Unlock()

	return hung
}

func errText(err error) string {
	if err == nil {
		return "nil"
	}

	return err.Error()
}

// indexOf returns the 1-based index of the first element equal to s, or 0.
func indexOf(l []string, s string) int {
	for i, x := range l {
		if x == s {
			return i + 1
		}
	}

	return 0
}

// ---------------------------------------------------------------------------------------------------------------------
// io: real qbft component behind the real wrapper
// ---------------------------------------------------------------------------------------------------------------------

type bclient struct {
	beaconmock.Mock
	spec map[string]any
}

func (c bclient) Spec(context.Context, *eth2api.SpecOpts) (*eth2api.Response[map[string]any], error) {
	return &eth2api.Response[map[string]any]{Data: c.spec, Metadata: map[string]any{}}, nil
}

func detKey(label string) *k1.PrivateKey {
	h := sha256.Sum256([]byte(label))
	return k1.PrivKeyFromBytes(h[:])
}

type ioEnv struct {
	t     *testing.T
	r     *recorder
	quit  chan struct{}
	keys  []*k1.PrivateKey
	comp  *cqbft.Consensus
	cur   core.Consensus
	dbg   consensus.Debugger
	dutyT map[int]core.Duty // model duty -> duty

	mu       sync.Mutex
	gates    map[string]chan struct{}
	expired  map[core.Duty]bool
	sched    map[core.Duty]bool
	dlC      chan core.Duty
	calls    map[int]*ioCall
	values   map[[32]byte]int // hash of a proposed set -> v
	msgSeq   int
	returned map[int]bool
}

type ioCall struct {
	id     int
	d      int
	cancel context.CancelFunc
}

func (e *ioEnv) hold(g string) {
	e.mu.Lock()
	ch := e.gates[g]
	e.mu.Unlock()
	if ch != nil {
		select {
		case <-ch:
		case <-e.quit:
		}
	}
}

func (e *ioEnv) model(d core.Duty) int {
	for k, v := range e.dutyT {
		if v == d {
			return k
		}
	}

	return 0
}

// ---- stub deadliner

func addCaller() string {
	pcs := make([]uintptr, 16)
	n := runtime.Callers(3, pcs)
	frames := runtime.CallersFrames(pcs[:n])
	for {
		f, more := frames.Next()
		if strings.HasSuffix(f.Function, ".runInstance") {
			return "run"
		}
		if strings.HasSuffix(f.Function, ".handle") {
			return "handle"
		}
		if !more {
			return "?"
		}
	}
}

type dlStub struct{ e *ioEnv }

func (d dlStub) Add(duty core.Duty) core.DeadlineStatus {
	e := d.e
	by := addCaller()
	st, name := core.DeadlineScheduled, "sched"
	ev := drv.Step{"ev": "DlAdd", "d": e.model(duty)}
	f := func() {
		e.mu.Lock()
		if e.expired[duty] {
			st, name = core.DeadlineExpired, "expired"
		} else {
			e.sched[duty] = true
		}
		e.mu.Unlock()
		ev["st"] = name
	}
	if by != "run" {
		f()
		return st
	}
	e.r.log(ev, f)
	e.hold("add")

	return st
}

func (d dlStub) C() <-chan core.Duty { return d.e.dlC }

// ---- the context handed to Participate / Propose: its Value method notices the first lookup that comes from inside
// runInstance (log.WithTopic, the first statement that touches the context -- after MaybeStart, before runInstance looks
// the instance IO up again); that is where the "log" gate holds the starter.  No lock of the code under test is held there.

type callCtx struct {
	context.Context

	e    *ioEnv
	c, d int
	seen atomic.Bool
}

func inRunInstance() bool {
	pcs := make([]uintptr, 24)
	n := runtime.Callers(3, pcs)
	frames := runtime.CallersFrames(pcs[:n])
	for {
		f, more := frames.Next()
		if strings.HasSuffix(f.Function, ".runInstance") {
			return true
		}
		if !more {
			return false
		}
	}
}

func (c *callCtx) Value(key any) any {
	if !c.seen.Load() && inRunInstance() && c.seen.CompareAndSwap(false, true) {
		c.e.r.log(drv.Step{"ev": "RunLog", "c": c.c, "d": c.d}, nil)
		c.e.hold("log")
	}

	return c.Context.Value(key)
}

func classify(err error) string {
	switch {
	case err == nil:
		return "nil"
	case strings.Contains(err.Error(), "already participated"), strings.Contains(err.Error(), "already proposed"):
		return "already"
	case strings.Contains(err.Error(), "consensus timeout"):
		return "timeout"
	case strings.Contains(err.Error(), "input channel full"):
		return "full"
	case strings.Contains(err.Error(), "duty expired or exempt"):
		return "expired"
	default:
		return "other:" + err.Error()
	}
}

// runIoBubble runs one io schedule inside a synctest bubble.  When a call of the component never returns, goroutines stay
// blocked in the bubble and synctest.Test panics once the bubble's root returns: that panic is expected then (the Hang
// event has been recorded) and is swallowed here.
func runIoBubble(t *testing.T, tr *drv.Tracer, sid int, sched []drv.Step) (hung bool) {
	defer func() {
		if p := recover(); p != nil {
			if !hung {
				panic(p)
			}
		}
	}()
	synctest.Test(t, func(t *testing.T) { hung = runIo(t, tr, sid, sched) })

	return hung
}

func runIo(t *testing.T, tr *drv.Tracer, sid int, sched []drv.Step) (hung bool) {
	cfg := sched[0]
	solo := cfg["solo"] == true
	n := 2
	if solo {
		n = 1
	}
	e := &ioEnv{t: t, r: newRecorder(), quit: make(chan struct{}), gates: map[string]chan struct{}{}, expired: map[core.Duty]bool{},
		sched: map[core.Duty]bool{}, dlC: make(chan core.Duty), calls: map[int]*ioCall{}, values: map[[32]byte]int{},
		returned: map[int]bool{},
		dutyT:    map[int]core.Duty{1: core.NewAttesterDuty(1), 2: core.NewAttesterDuty(2), 3: core.NewAggregatorDuty(3)}}
	ctx, cancel := context.WithCancel(context.Background())
	var subs []any
	for _, s := range list(cfg["subs"]) {
		subs = append(subs, s)
	}
	if subs == nil {
		subs = []any{}
	}
	e.r.events = append(e.r.events, drv.Step{"ev": "Reset", "sid": sid, "mode": "io", "solo": solo, "subs": subs})

	mn := mocknet.New()
	var peers []p2p.Peer
	for i := 0; i < n; i++ {
		k := detKey(fmt.Sprintf("verif-consensusctl-%d", i))
		e.keys = append(e.keys, k)
		id, err := p2p.PeerIDFromKey(k.PubKey())
		if err != nil {
			t.Fatal(err)
		}
		peers = append(peers, p2p.Peer{ID: id, Index: i, Name: p2p.PeerName(id)})
	}
	addr, err := ma.NewMultiaddr("/ip4/10.0.0.1/tcp/4242")
	if err != nil {
		t.Fatal(err)
	}
	h, err := mn.AddPeer((*libp2pcrypto.Secp256k1PrivateKey)(e.keys[0]), addr)
	if err != nil {
		t.Fatal(err)
	}
	synctest.Wait()

	genesis := time.Now()
	bc := bclient{spec: map[string]any{"SECONDS_PER_SLOT": 12 * time.Second, "SLOTS_PER_EPOCH": uint64(32)}}
	bc.GenesisFunc = func(context.Context, *eth2api.GenesisOpts) (*eth2v1.Genesis, error) {
		return &eth2v1.Genesis{GenesisTime: genesis}, nil
	}
	e.dbg = consensus.NewDebugger()
	e.comp, err = cqbft.NewConsensus(ctx, bc, h, new(p2p.Sender), peers, e.keys[0], dlStub{e}, func(core.Duty) bool { return true },
		func(inst *pbv1.SniffedConsensusInstance) {
			d, others := 0, 0
			for _, m := range inst.GetMsgs() {
				q := m.GetMsg().GetMsg()
				d = e.model(core.DutyFromProto(q.GetDuty()))
				if q.GetPeerIdx() != inst.GetPeerIdx() {
					others++
				}
			}
			e.dbg.AddInstance(inst)
			e.r.log(drv.Step{"ev": "Sniff", "d": d, "n": others}, nil)
			e.hold("sniff")
		}, false)
	if err != nil {
		t.Fatal(err)
	}
	ctrl, _, _ := consensus.VerifNewController(e.comp, e.dbg)
	e.cur = ctrl.CurrentConsensus()
	for _, s := range subs {
		s := drv.Str(s)
		e.cur.Subscribe(func(_ context.Context, duty core.Duty, set core.UnsignedDataSet) error {
			v := -1
			if pb, err := core.UnsignedDataSetToProto(set); err == nil {
				if hash, err := cqbft.VerifHashProto(pb); err == nil {
					e.mu.Lock()
					if x, ok := e.values[hash]; ok {
						v = x
					}
					e.mu.Unlock()
				}
			}
			e.r.log(drv.Step{"ev": "Deliver", "s": s, "d": e.model(duty), "v": v}, nil)
			e.hold("dlv")

			return nil
		})
	}
	ctrl.Start(ctx)
	synctest.Wait()

	var wg sync.WaitGroup
	do := func(st drv.Step, q bool) {
		switch drv.Str(st["ev"]) {
		case "QCall":
			c, d, v, kind := num(st, "c"), num(st, "d"), num(st, "v"), drv.Str(st["kind"])
			duty := e.dutyT[d]
			inner, ccancel := context.WithCancel(ctx)
			cctx := &callCtx{Context: inner, e: e, c: c, d: d}
			e.mu.Lock()
			e.calls[c] = &ioCall{id: c, d: d, cancel: ccancel}
			e.mu.Unlock()
			var set core.UnsignedDataSet
			if kind == "prop" {
				set = e.proposal(duty, v)
			}
			e.r.log(drv.Step{"ev": "QCall", "c": c, "kind": kind, "d": d, "v": v, "q": q}, nil)
			wg.Add(1)
			go func() {
				defer wg.Done()
				var err error
				e.r.guarded(kind, func() {
					if kind == "part" {
						err = e.cur.Participate(cctx, duty)
					} else {
						err = e.cur.Propose(cctx, duty, set)
					}
				})
				e.r.log(drv.Step{"ev": "QRet", "c": c, "res": classify(err)}, func() { e.returned[c] = true })
			}()
		case "Msg":
			d := num(st, "d")
			e.mu.Lock()
			e.msgSeq++
			seq := e.msgSeq
			e.mu.Unlock()
			msg, err := e.peerMsg(e.dutyT[d], seq)
			if err != nil {
				t.Fatal(err)
			}
			mctx, mcancel := context.WithTimeout(ctx, 5*time.Second)
			_, _, herr := e.comp.VerifHandle(mctx, peers[n-1].ID, msg)
			mcancel()
			res := classify(herr)
			if res == "nil" {
				res = "ok"
			}
			e.r.log(drv.Step{"ev": "Msg", "d": d, "res": res, "q": q}, nil)
		case "Expire":
			duty := e.dutyT[num(st, "d")]
			var emit bool
			e.r.log(drv.Step{"ev": "Expire", "d": num(st, "d"), "q": q}, func() {
				e.mu.Lock()
				emit = e.sched[duty] && !e.expired[duty]
				e.expired[duty] = true
				e.mu.Unlock()
			})
			if emit { // the deadliner's channel is read by the loop of Start (if that loop does not run, nobody deletes the IO)
				go func() {
					select {
					case e.dlC <- duty:
					case <-e.quit:
					}
				}()
			}
		case "Cancel":
			e.mu.Lock()
			cl := e.calls[num(st, "c")]
			e.mu.Unlock()
			if cl != nil {
				e.r.log(drv.Step{"ev": "Cancel", "c": cl.id, "q": q}, cl.cancel)
			}
		case "Hold":
			g := drv.Str(st["g"])
			e.mu.Lock()
			ok := e.gates[g] == nil
			e.mu.Unlock()
			if ok {
				e.r.log(drv.Step{"ev": "Hold", "g": g, "q": q}, func() { e.mu.Lock(); e.gates[g] = make(chan struct{}); e.mu.Unlock() })
			}
		case "Release":
			g := drv.Str(st["g"])
			e.mu.Lock()
			ch := e.gates[g]
			e.mu.Unlock()
			if ch != nil {
				e.r.log(drv.Step{"ev": "Release", "g": g, "q": q}, func() { e.mu.Lock(); e.gates[g] = nil; e.mu.Unlock(); close(ch) })
			}
		case "Inst":
			e.r.log(drv.Step{"ev": "Inst", "n": e.comp.VerifInstanceCount(), "q": q}, nil)
		default:
			t.Fatalf("schedule %d: unknown io step %v", sid, st)
		}
	}
	for _, st := range sched[1:] {
		if drv.Str(st["ev"]) == "Par" { // several stimuli at once: the goroutines race
			for k, op := range list(st["ops"]) {
				do(obj(op), k == 0)
			}
		} else {
			do(st, true)
		}
		synctest.Wait()
	}
	// drain: open every gate, end every context, let an hour pass
	for _, g := range []string{"log", "add", "dlv", "sniff"} {
		do(drv.Step{"ev": "Release", "g": g}, true)
		synctest.Wait()
	}
	e.r.log(drv.Step{"ev": "CancelAll", "q": true}, func() {
		e.mu.Lock()
		for _, cl := range e.calls {
			cl.cancel()
		}
		e.mu.Unlock()
	})
	synctest.Wait()
	time.Sleep(time.Hour)
	synctest.Wait()
	e.r.mu.Lock()
	stuck := []any{}
	for c := range e.calls {
		if !e.returned[c] {
			stuck = append(stuck, c)
		}
	}
	e.r.mu.Unlock()
	// what the debugger serves: one instance per run that reached the sniffer
	rec := httptest.NewRecorder()
	e.dbg.ServeHTTP(rec, httptest.NewRequest("GET", "/debug/consensus", nil))
	e.r.log(drv.Step{"ev": "DbgCount", "n": len(decodeServed(rec.Body.Bytes())), "q": true}, nil)
	if len(stuck) > 0 {
		hung = true
		e.r.log(drv.Step{"ev": "Hang", "stuck": stuck}, nil)
	} else {
		e.r.log(drv.Step{"ev": "End"}, nil)
	}
	close(e.quit)
	cancel()
	synctest.Wait()
	_ = mn.Close()
	time.Sleep(10 * time.Second)
	synctest.Wait()
	if !hung {
		wg.Wait()
	}
	e.r.mu.Lock()
	for _, ev := range e.r.events {
		tr.Emit(ev)
	}
	e.r.mu.Unlock()

	return hung
}

// proposal returns the data set that stands for value v of the duty (remembered by hash so that a subscriber's set can
// be mapped back).
func (e *ioEnv) proposal(duty core.Duty, v int) core.UnsignedDataSet {
	pk := core.PubKey(fmt.Sprintf("0x%096x", v))
	var set core.UnsignedDataSet
	if duty.Type == core.DutyAggregator {
		set = core.UnsignedDataSet{pk: testutil.RandomDenebCoreVersionedAggregateAttestation()}
	} else {
		set = core.UnsignedDataSet{pk: testutil.RandomCoreAttestationData(e.t)}
	}
	pb, err := core.UnsignedDataSetToProto(set)
	if err != nil {
		e.t.Fatal(err)
	}
	hash, err := cqbft.VerifHashProto(pb)
	if err != nil {
		e.t.Fatal(err)
	}
	e.mu.Lock()
	e.values[hash] = v
	e.mu.Unlock()

	return set
}

// peerMsg returns a valid ROUND-CHANGE of the other peer for the duty (no value: it cannot complete a quorum of anything).
func (e *ioEnv) peerMsg(duty core.Duty, seq int) (*pbv1.QBFTConsensusMsg, error) {
	q := &pbv1.QBFTMsg{Type: 4, Duty: core.DutyToProto(duty), PeerIdx: int64(len(e.keys) - 1), Round: int64(seq + 1)}
	h, err := cqbft.VerifHashProto(q)
	if err != nil {
		return nil, err
	}
	sig, err := k1util.Sign(e.keys[len(e.keys)-1], h[:])
	if err != nil {
		return nil, err
	}
	q.Signature = sig

	return &pbv1.QBFTConsensusMsg{Msg: q}, nil
}

// ---------------------------------------------------------------------------------------------------------------------
// dbg
// ---------------------------------------------------------------------------------------------------------------------

var payload = make([]byte, 72<<20)

// mkInstance returns an instance with id `id` whose protobuf size is sz (or the smallest possible if sz is too small).
func mkInstance(id, sz int) *pbv1.SniffedConsensusInstance {
	inst := &pbv1.SniffedConsensusInstance{Nodes: int64(id)}
	if proto.Size(inst) >= sz {
		return inst
	}
	anyv := &anypb.Any{}
	inst.Msgs = []*pbv1.SniffedConsensusMsg{{Msg: &pbv1.QBFTConsensusMsg{Values: []*anypb.Any{anyv}}}}
	n := 0
	for i := 0; i < 12; i++ {
		anyv.Value = payload[:n]
		diff := sz - proto.Size(inst)
		if diff == 0 {
			return inst
		}
		n += diff
		if n < 0 {
			n = 0
		}
		if n > len(payload) {
			n = len(payload)
		}
	}
	anyv.Value = payload[:n]

	return inst
}

func decodeServed(b []byte) []any {
	ids := []any{}
	zr, err := gzip.NewReader(bytes.NewReader(b))
	if err != nil {
		return []any{-1}
	}
	raw, err := io.ReadAll(zr)
	if err != nil {
		return []any{-2}
	}
	resp := new(pbv1.SniffedConsensusInstances)
	if err := proto.Unmarshal(raw, resp); err != nil {
		return []any{-3}
	}
	for _, inst := range resp.GetInstances() {
		ids = append(ids, int(inst.GetNodes()))
	}

	return ids
}

func runDbg(t *testing.T, tr *drv.Tracer, sid int, sched []drv.Step) (hung bool) {
	r := newRecorder()
	r.events = append(r.events, drv.Step{"ev": "Reset", "sid": sid, "mode": "dbg"})
	dbg := consensus.NewDebugger()
	do := func(st drv.Step) {
		th, op := num(st, "t"), drv.Str(st["op"])
		switch op {
		case "add":
			inst := mkInstance(num(st, "id"), num(st, "sz"))
			r.log(drv.Step{"ev": "DCall", "t": th, "op": "add", "id": num(st, "id"), "sz": proto.Size(inst)}, nil)
			r.guarded("AddInstance", func() { dbg.AddInstance(inst) })
			r.log(drv.Step{"ev": "DRet", "t": th, "ids": []any{}}, nil)
		case "serve":
			r.log(drv.Step{"ev": "DCall", "t": th, "op": "serve", "id": 0, "sz": 0}, nil)
			rec := httptest.NewRecorder()
			r.guarded("ServeHTTP", func() { dbg.ServeHTTP(rec, httptest.NewRequest("GET", "/debug/consensus", nil)) })
			ids := decodeServed(rec.Body.Bytes())
			if rec.Code != 200 {
				ids = []any{-rec.Code}
			}
			r.log(drv.Step{"ev": "DRet", "t": th, "ids": ids}, nil)
		default:
			t.Fatalf("schedule %d: unknown dbg op %v", sid, st)
		}
	}
	for _, st := range sched[1:] {
		if drv.Str(st["ev"]) == "Par" {
			var wg sync.WaitGroup
			for _, op := range list(st["ops"]) {
				wg.Add(1)
				go func() { defer wg.Done(); do(obj(op)) }()
			}
			wg.Wait()
		} else {
			do(st)
		}
	}
	r.log(drv.Step{"ev": "End"}, nil)
	for _, ev := range r.events {
		tr.Emit(ev)
	}

	return false
}

// ---------------------------------------------------------------------------------------------------------------------
// proto
// ---------------------------------------------------------------------------------------------------------------------

func runProto(tr *drv.Tracer, sid int, sched []drv.Step) {
	tr.Emit(drv.Step{"ev": "Reset", "sid": sid, "mode": "proto"})
	for _, st := range sched[1:] {
		var ids []string
		for _, p := range list(st["l"]) {
			ids = append(ids, pidString(obj(p)))
		}
		l := st["l"]
		if l == nil {
			l = []any{}
		}
		switch drv.Str(st["ev"]) {
		case "Most":
			out := protocols.MostPreferredConsensusProtocol(ids)
			idx := indexOf(ids, out)
			if idx == 0 && out != protocols.QBFTv2ProtocolID {
				idx = -1
			}
			tr.Emit(drv.Step{"ev": "Most", "l": l, "out": idx})
		case "Supp":
			tr.Emit(drv.Step{"ev": "Supp", "name": st["name"], "out": protocols.IsSupportedProtocolName(drv.Str(st["name"]))})
		case "Prio":
			var in []protocol.ID
			for _, s := range ids {
				in = append(in, protocol.ID(s))
			}
			res := protocols.PrioritizeProtocolsByName(drv.Str(st["name"]), in)
			used := make([]bool, len(ids))
			out := []any{}
			for _, p := range res { // the permutation: equal strings are matched in order
				k := -1
				for i, s := range ids {
					if !used[i] && s == string(p) {
						k = i
						break
					}
				}
				if k >= 0 {
					used[k] = true
				}
				out = append(out, k+1)
			}
			tr.Emit(drv.Step{"ev": "Prio", "name": st["name"], "l": l, "out": out})
		case "Protos":
			out := []any{}
			for _, p := range protocols.Protocols() {
				s := string(p)
				if rest, ok := strings.CutPrefix(s, consPrefix); ok {
					n, v, _ := strings.Cut(rest, "/")
					out = append(out, pidRec("cons", n, v))
				} else {
					out = append(out, pidRec("other", s, ""))
				}
			}
			tr.Emit(drv.Step{"ev": "Protos", "out": out})
		}
	}
	tr.Emit(drv.Step{"ev": "End"})
}
