package consensusctl

import (
	"strings"
	"sync"
	"context"
	"crypto/sha256"
	"fmt"
	"testing"
	"testing/synctest"
	"time"

	eth2api "github.com/attestantio/go-eth2-client/api"
	eth2v1 "github.com/attestantio/go-eth2-client/api/v1"
	k1 "github.com/decred/dcrd/dcrec/secp256k1/v4"
	libp2pcrypto "github.com/libp2p/go-libp2p/core/crypto"
	mocknet "github.com/libp2p/go-libp2p/p2p/net/mock"
	ma "github.com/multiformats/go-multiaddr"

	"github.com/obolnetwork/charon/app/log"
	"github.com/obolnetwork/charon/core"
	"github.com/obolnetwork/charon/core/consensus"
	cqbft "github.com/obolnetwork/charon/core/consensus/qbft"
	pbv1 "github.com/obolnetwork/charon/core/corepb/v1"
	"github.com/obolnetwork/charon/p2p"
	"github.com/obolnetwork/charon/testutil"
	"github.com/obolnetwork/charon/testutil/beaconmock"
)

type bclient struct {
	beaconmock.Mock
	spec map[string]any
}

func (c bclient) Spec(context.Context, *eth2api.SpecOpts) (*eth2api.Response[map[string]any], error) {
	return &eth2api.Response[map[string]any]{Data: c.spec, Metadata: map[string]any{}}, nil
}

func detKey(label string) *k1.PrivateKey {
	h := sha256.Sum256([]byte(label))
	return k1.PrivKeyFromBytes(h[:])
}

type stubDL struct{ c chan core.Duty }

func (d stubDL) Add(core.Duty) core.DeadlineStatus { return core.DeadlineScheduled }
func (d stubDL) C() <-chan core.Duty              { return d.c }


type gateSink struct {
	hold    chan struct{}
	reached chan struct{}
}

func (g *gateSink) Write(b []byte) (int, error) {
	if strings.Contains(string(b), "QBFT consensus instance starting") && g.hold != nil {
		close(g.reached)
		<-g.hold
	}
	return len(b), nil
}
func (g *gateSink) Sync() error { return nil }

type dlStub struct {
	mu      sync.Mutex
	expired bool
	c       chan core.Duty
}

func (d *dlStub) Add(core.Duty) core.DeadlineStatus {
	d.mu.Lock()
	defer d.mu.Unlock()
	if d.expired {
		return core.DeadlineExpired
	}
	return core.DeadlineScheduled
}
func (d *dlStub) C() <-chan core.Duty { return d.c }

// The instance is deleted (duty deadline) between the starter's two getInstanceIO lookups: Propose waits for ever.
func TestReproRelookup(t *testing.T) {
	defer func() { fmt.Println("recovered:", recover()) }()
	synctest.Test(t, func(t *testing.T) {
		ctx, cancel := context.WithCancel(context.Background())
		mn := mocknet.New()
		k := detKey("x")
		id, _ := p2p.PeerIDFromKey(k.PubKey())
		peers := []p2p.Peer{{ID: id, Index: 0, Name: p2p.PeerName(id)}}
		a, _ := ma.NewMultiaddr("/ip4/10.0.0.1/tcp/4242")
		h, err := mn.AddPeer((*libp2pcrypto.Secp256k1PrivateKey)(k), a)
		if err != nil {
			t.Fatal(err)
		}
		synctest.Wait()
		sink := &gateSink{hold: make(chan struct{}), reached: make(chan struct{})}
		log.InitJSONForT(t, sink)
		bc := bclient{spec: map[string]any{"SECONDS_PER_SLOT": 12 * time.Second, "SLOTS_PER_EPOCH": uint64(32)}}
		gen := time.Now()
		bc.GenesisFunc = func(context.Context, *eth2api.GenesisOpts) (*eth2v1.Genesis, error) {
			return &eth2v1.Genesis{GenesisTime: gen}, nil
		}
		dl := &dlStub{c: make(chan core.Duty)}
		c, err := cqbft.NewConsensus(ctx, bc, h, new(p2p.Sender), peers, k, dl, func(core.Duty) bool { return true },
			func(i *pbv1.SniffedConsensusInstance) { fmt.Println("sniff", len(i.GetMsgs())) }, false)
		if err != nil {
			t.Fatal(err)
		}
		c.Start(ctx)
		duty := core.NewAttesterDuty(5)
		pctx, pcancel := context.WithCancel(ctx)
		qctx, qcancel := context.WithCancel(ctx)
		go func() { fmt.Println("participate ->", c.Participate(pctx, duty)) }()
		<-sink.reached // the starter is between MaybeStart and runInstance's own lookup
		set := core.UnsignedDataSet{testutil.RandomCorePubKey(t): testutil.RandomCoreAttestationData(t)}
		returned := make(chan error, 1)
		go func() { err := c.Propose(qctx, duty, set); fmt.Println("propose ->", err); returned <- err }()
		synctest.Wait()
		dl.mu.Lock()
		dl.expired = true
		dl.mu.Unlock()
		dl.c <- duty // the duty's deadline: Start's loop deletes the instance
		synctest.Wait()
		close(sink.hold)
		synctest.Wait()
		pcancel()
		qcancel()
		time.Sleep(time.Hour)
		synctest.Wait()
		select {
		case <-returned:
			fmt.Println("Propose returned")
		default:
			fmt.Println("Propose is STILL BLOCKED an hour after its context was cancelled and the instance ended")
		}
		cancel()
		_ = mn.Close()
		time.Sleep(10 * time.Second)
	})
}

func TestProbe(t *testing.T) {
	synctest.Test(t, func(t *testing.T) {
		ctx, cancel := context.WithCancel(context.Background())
		mn := mocknet.New()
		k := detKey("x")
		id, _ := p2p.PeerIDFromKey(k.PubKey())
		peers := []p2p.Peer{{ID: id, Index: 0, Name: p2p.PeerName(id)}}
		a, _ := ma.NewMultiaddr("/ip4/10.0.0.1/tcp/4242")
		h, err := mn.AddPeer((*libp2pcrypto.Secp256k1PrivateKey)(k), a)
		if err != nil {
			t.Fatal(err)
		}
		synctest.Wait()
		dbg := consensus.NewDebugger()
		bc := bclient{spec: map[string]any{"SECONDS_PER_SLOT": 12 * time.Second, "SLOTS_PER_EPOCH": uint64(32)}}
		gen := time.Now()
		bc.GenesisFunc = func(context.Context, *eth2api.GenesisOpts) (*eth2v1.Genesis, error) {
			return &eth2v1.Genesis{GenesisTime: gen}, nil
		}
		c, err := cqbft.NewConsensus(ctx, bc, h, new(p2p.Sender), peers, k, stubDL{make(chan core.Duty)}, func(core.Duty) bool { return true },
			func(i *pbv1.SniffedConsensusInstance) { fmt.Println("sniff", len(i.GetMsgs())); dbg.AddInstance(i) }, false)
		if err != nil {
			t.Fatal(err)
		}
		ctrl, setImpl, _ := consensus.VerifNewController(c, dbg)
		_ = setImpl
		cur := ctrl.CurrentConsensus()
		cur.Subscribe(func(_ context.Context, d core.Duty, set core.UnsignedDataSet) error {
			fmt.Println("decided", d, len(set), time.Now())
			return nil
		})
		ctrl.Start(ctx)
		duty := core.NewAttesterDuty(5)
		go func() { fmt.Println("participate ->", cur.Participate(ctx, duty)) }()
		synctest.Wait()
		time.Sleep(100 * time.Millisecond)
		pk := testutil.RandomCorePubKey(t)
		set := core.UnsignedDataSet{pk: testutil.RandomCoreAttestationData(t)}
		go func() { fmt.Println("propose ->", cur.Propose(ctx, duty, set)) }()
		synctest.Wait()
		fmt.Println("after", time.Now())
		cancel()
		synctest.Wait()
		_ = mn.Close()
		time.Sleep(10 * time.Second)
	})
}
