package consensusctl

import (
	"context"
	"crypto/sha256"
	"fmt"
	"testing"
	"testing/synctest"
	"time"

	eth2api "github.com/attestantio/go-eth2-client/api"
	k1 "github.com/decred/dcrd/dcrec/secp256k1/v4"
	libp2pcrypto "github.com/libp2p/go-libp2p/core/crypto"
	mocknet "github.com/libp2p/go-libp2p/p2p/net/mock"
	ma "github.com/multiformats/go-multiaddr"

	"github.com/obolnetwork/charon/core"
	"github.com/obolnetwork/charon/core/consensus"
	cqbft "github.com/obolnetwork/charon/core/consensus/qbft"
	pbv1 "github.com/obolnetwork/charon/core/corepb/v1"
	"github.com/obolnetwork/charon/p2p"
	"github.com/obolnetwork/charon/testutil"
	"github.com/obolnetwork/charon/testutil/beaconmock"
)

type bclient struct {
	beaconmock.Mock
	spec map[string]any
}

func (c bclient) Spec(context.Context, *eth2api.SpecOpts) (*eth2api.Response[map[string]any], error) {
	return &eth2api.Response[map[string]any]{Data: c.spec, Metadata: map[string]any{}}, nil
}

func detKey(label string) *k1.PrivateKey {
	h := sha256.Sum256([]byte(label))
	return k1.PrivKeyFromBytes(h[:])
}

type stubDL struct{ c chan core.Duty }

func (d stubDL) Add(core.Duty) core.DeadlineStatus { return core.DeadlineScheduled }
func (d stubDL) C() <-chan core.Duty              { return d.c }

func TestProbe(t *testing.T) {
	synctest.Test(t, func(t *testing.T) {
		ctx, cancel := context.WithCancel(context.Background())
		bm, err := beaconmock.New(ctx)
		_ = bm
		_ = err
		mn := mocknet.New()
		k := detKey("x")
		id, _ := p2p.PeerIDFromKey(k.PubKey())
		peers := []p2p.Peer{{ID: id, Index: 0, Name: p2p.PeerName(id)}}
		a, _ := ma.NewMultiaddr("/ip4/10.0.0.1/tcp/4242")
		h, err := mn.AddPeer((*libp2pcrypto.Secp256k1PrivateKey)(k), a)
		if err != nil {
			t.Fatal(err)
		}
		synctest.Wait()
		dbg := consensus.NewDebugger()
		bc := bclient{Mock: beaconmock.Mock{}, spec: map[string]any{"SECONDS_PER_SLOT": 12 * time.Second, "SLOTS_PER_EPOCH": uint64(32)}}
		bc.GenesisFunc = nil
		c, err := cqbft.NewConsensus(ctx, bm, h, new(p2p.Sender), peers, k, stubDL{make(chan core.Duty)}, func(core.Duty) bool { return true },
			func(i *pbv1.SniffedConsensusInstance) { fmt.Println("sniff", len(i.GetMsgs())); dbg.AddInstance(i) }, false)
		if err != nil {
			t.Fatal(err)
		}
		ctrl, setImpl, _ := consensus.VerifNewController(c, dbg)
		_ = setImpl
		cur := ctrl.CurrentConsensus()
		cur.Subscribe(func(_ context.Context, d core.Duty, set core.UnsignedDataSet) error {
			fmt.Println("decided", d, len(set), time.Now())
			return nil
		})
		ctrl.Start(ctx)
		duty := core.NewAttesterDuty(5)
		go func() { fmt.Println("participate ->", cur.Participate(ctx, duty)) }()
		synctest.Wait()
		time.Sleep(100 * time.Millisecond)
		pk := testutil.RandomCorePubKey(t)
		set := core.UnsignedDataSet{pk: testutil.RandomCoreAttestationData(t)}
		go func() { fmt.Println("propose ->", cur.Propose(ctx, duty, set)) }()
		synctest.Wait()
		fmt.Println("after", time.Now())
		cancel()
		synctest.Wait()
		_ = mn.Close()
		time.Sleep(10 * time.Second)
	})
}
