// Package feerecipientexec executes FeeRecipient schedules on the real code of the fee-recipient / builder-registration
// override flow and records what happened on the wire, on disk and in the node's answers.
//
// What is real: the charon CLI (`cmd.New()` with `feerecipient sign | fetch | list` and their flags, i.e. cmd/feerecipient*.go
// and app/obolapi.Client), the key material on disk (cluster lock, ENR key, EIP-2335 key shares of a cluster.NewForT
// cluster), the node's builder registration service (app.NewBuilderRegistrationService + Run, wired as app/app.go wires
// it: base registrations from DistValidator.Eth2Registration, fee recipients from Lock.FeeRecipientAddresses), the
// overrides files, fsnotify (mode A), testutil/obolapimock as the API's store.
//
// What is the environment (this file): http.DefaultTransport is replaced by an in-process round tripper that hands every
// request of the Obol API client to a FRONT.  The front stops every request of an operator's command and of a node at a
// gate until the schedule releases it, so the interleaving at request granularity is the schedule's and is deterministic.
// On release the schedule may fail the request before it reaches the server ("pre"), let the server handle it but tell
// the client it failed ("post"), or -- fetch responses -- tamper with the answer (the API's aggregation behaviour is the
// environment's).  A Byzantine operator posts directly.  Files are planted into the operators' directories.
//
// Two modes.  "A": real time, the node watches its overrides file with fsnotify; after every answered fetch of a node the
// executor rewrites the file with identical content (a file event), which makes the Run loop reload the file and fetch
// again at once: the arrival of that next fetch at the gate is the barrier (no sleeping, no polling).  `sign` always gets
// --timestamp.  "B": the whole schedule runs in a testing/synctest bubble: time.Now() of `sign` and the fetch timer of
// the Run loop are virtual, Tick steps advance the clock; fsnotify cannot live in a bubble (its reader blocks in the
// netpoller), so the overrides directory is made unwatchable while Run starts (the code logs "file watching disabled") and
// the node reads its file at start only.
//
// Nothing here knows what should happen.  Everything is recorded in ABSTRACT terms by observation functions that do not
// use the code under test: own SSZ merkleisation of the registration message and the builder domain, tbls.Verify against
// the lock's public shares / group keys to name who signed what.  FeeRecipientTrace.tla decides.
package feerecipientexec

import (
	"bytes"
	"context"
	"crypto/sha256"
	"encoding/binary"
	"encoding/hex"
	"encoding/json"
	"fmt"
	"io"
	"math/rand"
	"net/http"
	"net/http/httptest"
	"os"
	"path/filepath"
	"sort"
	"strconv"
	"strings"
	"sync"
	"testing"
	"testing/synctest"
	"time"

	eth2api "github.com/attestantio/go-eth2-client/api"
	eth2p0 "github.com/attestantio/go-eth2-client/spec/phase0"
	k1 "github.com/decred/dcrd/dcrec/secp256k1/v4"
	"github.com/fsnotify/fsnotify"
	"go.uber.org/zap"
	"go.uber.org/zap/zapcore"
	"go.uber.org/zap/zaptest/observer"

	"github.com/obolnetwork/charon/app"
	"github.com/obolnetwork/charon/app/k1util"
	"github.com/obolnetwork/charon/app/log"
	"github.com/obolnetwork/charon/app/obolapi"
	"github.com/obolnetwork/charon/cluster"
	"github.com/obolnetwork/charon/cmd"
	"github.com/obolnetwork/charon/core"
	"github.com/obolnetwork/charon/eth2util"
	"github.com/obolnetwork/charon/eth2util/keystore"
	"github.com/obolnetwork/charon/tbls"
	"github.com/obolnetwork/charon/testutil/obolapimock"

	"verifharness/drv"
)

// ----------------------------------------------------------------------------------------------------------------------
// independent SSZ merkleisation
// ----------------------------------------------------------------------------------------------------------------------

type chunk = [32]byte

func hash2(a, b chunk) chunk { return sha256.Sum256(append(a[:], b[:]...)) }

func u64(v uint64) chunk {
	var c chunk
	binary.LittleEndian.PutUint64(c[:], v)

	return c
}

func pad(b []byte) chunk {
	var c chunk
	copy(c[:], b)

	return c
}

// merkle4 is the root of a container of four leaves; merkle2 of two.
func merkle2(a, b chunk) chunk       { return hash2(a, b) }
func merkle4(a, b, c, d chunk) chunk { return hash2(hash2(a, b), hash2(c, d)) }

// regRoot: ValidatorRegistrationV1 = Container{fee_recipient: Bytes20, gas_limit: uint64, timestamp: uint64, pubkey: Bytes48}.
func regRoot(fr []byte, gl, ts uint64, pk []byte) chunk {
	var pk2 [64]byte
	copy(pk2[:], pk)

	return merkle4(pad(fr), u64(gl), u64(ts), merkle2(pad(pk2[:32]), pad(pk2[32:])))
}

// builderDomain: compute_domain(DOMAIN_APPLICATION_BUILDER, fork_version, genesis_validators_root = 0).
func builderDomain(forkVersion []byte) chunk {
	fd := merkle2(pad(forkVersion), chunk{})
	var d chunk
	copy(d[:4], []byte{0, 0, 0, 1})
	copy(d[4:], fd[:28])

	return d
}

// ----------------------------------------------------------------------------------------------------------------------
// the concrete values behind the abstract ones
// ----------------------------------------------------------------------------------------------------------------------

var (
	gasReal  = map[int]uint64{1: 30000000, 2: 36000000, 3: 45000000}
	addrReal = map[int]string{1: "0xabcdef0123456789abcdef0123456789abcdef01", 2: "0x00000000000000000000000000000000000000b2",
		3: "0x1111111111111111111111111111111111111c33"}
)

const bigTimeout = "1000000h"

type material struct {
	n, t, nv   int
	lock       cluster.Lock
	lockHashHx string
	shares     [][]tbls.PrivateKey // [validator][operator]
	pubShares  [][]tbls.PublicKey
	groupPub   []tbls.PublicKey
	pkHex      []string // lower case, no 0x
	lockAddr   []string // lower case with 0x
	lockTS     int64
	foreignSK  tbls.PrivateKey
	foreignPK  tbls.PublicKey
	foreignHex string
	domain     chunk
	root       string
}

func (m *material) opDir(op int) string { return filepath.Join(m.root, fmt.Sprintf("op%d", op)) }

type world struct {
	t    *testing.T
	mu   sync.Mutex
	mats map[string]*material
	tmp  string
}

func (w *world) material(n, t, nv int) *material {
	w.mu.Lock()
	defer w.mu.Unlock()
	key := fmt.Sprintf("%d/%d/%d", n, t, nv)
	if m, ok := w.mats[key]; ok {
		return m
	}
	seed := 20 + 7*n + t
	lock, enrs, shares := cluster.NewForT(w.t, nv, t, n, seed, rand.New(rand.NewSource(int64(seed))))
	m := &material{n: n, t: t, nv: nv, lock: lock, lockHashHx: "0x" + hex.EncodeToString(lock.LockHash), shares: shares,
		root: filepath.Join(w.tmp, strings.ReplaceAll(key, "/", "_"))}
	for v, dv := range lock.Validators {
		m.groupPub = append(m.groupPub, tbls.PublicKey(dv.PubKey))
		m.pkHex = append(m.pkHex, hex.EncodeToString(dv.PubKey))
		m.lockAddr = append(m.lockAddr, "0x"+hex.EncodeToString(dv.BuilderRegistration.Message.FeeRecipient))
		var ps []tbls.PublicKey
		for _, b := range dv.PubShares {
			ps = append(ps, tbls.PublicKey(b))
		}
		m.pubShares = append(m.pubShares, ps)
		ts := dv.BuilderRegistration.Message.Timestamp.Unix()
		if v > 0 && ts != m.lockTS {
			w.t.Fatalf("lock registrations with different timestamps")
		}
		m.lockTS = ts
	}
	var err error
	if m.foreignSK, err = tbls.GenerateSecretKey(); err != nil {
		w.t.Fatal(err)
	}
	if m.foreignPK, err = tbls.SecretToPublicKey(m.foreignSK); err != nil {
		w.t.Fatal(err)
	}
	m.foreignHex = hex.EncodeToString(m.foreignPK[:])
	m.domain = builderDomain(lock.ForkVersion)
	// the observation function is checked against the lock itself: its registrations verify under the group keys
	for v, dv := range lock.Validators {
		br := dv.BuilderRegistration
		root := merkle2(regRoot(br.Message.FeeRecipient, uint64(br.Message.GasLimit), uint64(br.Message.Timestamp.Unix()), br.Message.PubKey), m.domain)
		if tbls.Verify(m.groupPub[v], root[:], tbls.Signature(br.Signature)) != nil {
			w.t.Fatalf("own signing root does not verify the lock's registration of validator %d", v+1)
		}
		if uint64(br.Message.GasLimit) != gasReal[1] {
			w.t.Fatalf("unexpected gas limit in the lock: %d", br.Message.GasLimit)
		}
	}
	lockJSON, err := json.Marshal(lock)
	if err != nil {
		w.t.Fatal(err)
	}
	for op := range n {
		d := m.opDir(op + 1)
		kd := filepath.Join(d, "validator_keys")
		if err := os.MkdirAll(kd, 0o755); err != nil {
			w.t.Fatal(err)
		}
		if err := k1util.Save(enrs[op], filepath.Join(d, "charon-enr-private-key")); err != nil {
			w.t.Fatal(err)
		}
		var mine []tbls.PrivateKey
		for v := range nv {
			mine = append(mine, shares[v][op])
		}
		if err := keystore.StoreKeysInsecure(mine, kd, keystore.ConfirmInsecureKeys); err != nil {
			w.t.Fatal(err)
		}
		if err := os.WriteFile(filepath.Join(d, "cluster-lock.json"), lockJSON, 0o644); err != nil {
			w.t.Fatal(err)
		}
	}
	w.mats[key] = m

	return m
}

var _ = k1.PrivKeyBytesLen

// ----------------------------------------------------------------------------------------------------------------------
// wire formats (own structs: what is on the wire and on disk is read independently of charon's types)
// ----------------------------------------------------------------------------------------------------------------------

type wireMsg struct {
	FeeRecipient string `json:"fee_recipient"`
	GasLimit     string `json:"gas_limit"`
	Timestamp    string `json:"timestamp"`
	Pubkey       string `json:"pubkey"`
}

type wirePartial struct {
	Message   *wireMsg `json:"message"`
	Signature string   `json:"signature"`
}

type wirePost struct {
	Partials []wirePartial `json:"partial_registrations"`
}

type wireFetchReq struct {
	Pubkeys []string `json:"pubkeys"`
}

type wireSig struct {
	ShareIndex int    `json:"share_index"`
	Signature  string `json:"signature"`
}

type wireGroup struct {
	Message *wireMsg  `json:"message"`
	Sigs    []wireSig `json:"partial_signatures"`
	Quorum  bool      `json:"quorum"`
}

type wireVal struct {
	Pubkey string      `json:"pubkey"`
	Groups []wireGroup `json:"builder_registrations"`
}

type wireResp struct {
	Validators []wireVal `json:"validators"`
}

type wireSigned struct {
	Message   *wireMsg `json:"message"`
	Signature string   `json:"signature"`
}

type wireReg struct {
	Version json.RawMessage `json:"version"`
	Data    *wireSigned     `json:"v1"`
}

func unhex(s string) []byte {
	b, err := hex.DecodeString(strings.TrimPrefix(strings.TrimPrefix(s, "0x"), "0X"))
	if err != nil {
		return nil
	}

	return b
}

func norm(pk string) string { return strings.ToLower(strings.TrimPrefix(pk, "0x")) }

// ----------------------------------------------------------------------------------------------------------------------
// one schedule
// ----------------------------------------------------------------------------------------------------------------------

type absMsg struct{ v, fr, gl, ts int }

func (a absMsg) step() drv.Step { return drv.Step{"v": a.v, "fr": a.fr, "gl": a.gl, "ts": a.ts} }

var noMsg = absMsg{-2, -2, -2, -2}

type token struct {
	sv, sk int
	m      absMsg
}

type instr struct {
	fault  string // none | pre | post
	code   int
	tamper string
}

type gate struct{ release chan instr }

type arrival struct {
	who string // "cmd-<op>" | "node-<op>"
	g   *gate  // nil: the command has returned
}

type posted struct {
	msg    wireMsg
	shares map[int]string // share index -> signature hex
}

type nodeH struct {
	svc    app.BuilderRegistrationService
	cancel context.CancelFunc
	done   chan struct{}
	api    bool
}

type run struct {
	w        *world
	m        *material
	sid      int
	mode     string
	mu       sync.Mutex
	events   []drv.Step
	api      http.Handler
	arrivals chan arrival
	pending  map[string]*gate
	cmdOp    map[int]int
	running  map[int]int // op -> running command
	ovrDir   map[int]string
	nodes    map[int]*nodeH
	sigs     map[string]token
	store    map[int]map[string]*posted // validator -> message key -> what the server accepted
	hung     bool
	hangWait time.Duration
}

func (r *run) log(ev drv.Step) {
	r.mu.Lock()
	defer r.mu.Unlock()
	r.events = append(r.events, ev)
}

func (r *run) ovrFile(op int) string {
	return filepath.Join(r.ovrDir[op], "builder_registrations_overrides.json")
}

// --- observation functions --------------------------------------------------------------------------------------------

func (r *run) valOf(pk string) int {
	p := norm(pk)
	for v, h := range r.m.pkHex {
		if p == h {
			return v + 1
		}
	}
	if p == r.m.foreignHex {
		return 0
	}

	return -1
}

func (r *run) pk(v int) string {
	if v >= 1 && v <= r.m.nv {
		return "0x" + r.m.pkHex[v-1]
	}

	return "0x" + r.m.foreignHex
}

func (r *run) absFr(addr string, v int) int {
	a := strings.ToLower(addr)
	if v >= 1 && v <= r.m.nv && a == r.m.lockAddr[v-1] {
		return 0
	}
	for c, s := range addrReal {
		if a == s {
			return c
		}
	}

	return 99
}

func (r *run) abs(wm *wireMsg) absMsg {
	if wm == nil {
		return noMsg
	}
	v := r.valOf(wm.Pubkey)
	gl, err1 := strconv.ParseUint(wm.GasLimit, 10, 64)
	ts, err2 := strconv.ParseInt(wm.Timestamp, 10, 64)
	if err1 != nil || err2 != nil {
		return absMsg{v, 99, 99, -99}
	}
	g := 99
	for c, x := range gasReal {
		if x == gl {
			g = c
		}
	}

	return absMsg{v, r.absFr(wm.FeeRecipient, v), g, int(ts - r.m.lockTS)}
}

func (r *run) real(a absMsg) wireMsg {
	fr := addrReal[1]
	switch {
	case a.fr == 0 && a.v >= 1 && a.v <= r.m.nv:
		fr = r.m.lockAddr[a.v-1]
	case a.fr >= 1 && a.fr <= 3:
		fr = addrReal[a.fr]
	}
	gl := gasReal[1]
	if g, ok := gasReal[a.gl]; ok {
		gl = g
	}

	return wireMsg{FeeRecipient: fr, GasLimit: strconv.FormatUint(gl, 10), Timestamp: strconv.FormatInt(r.m.lockTS+int64(a.ts), 10), Pubkey: r.pk(a.v)}
}

func (r *run) sigRoot(wm *wireMsg) (chunk, bool) {
	if wm == nil {
		return chunk{}, false
	}
	gl, err1 := strconv.ParseUint(wm.GasLimit, 10, 64)
	ts, err2 := strconv.ParseInt(wm.Timestamp, 10, 64)
	fr, pk := unhex(wm.FeeRecipient), unhex(wm.Pubkey)
	if err1 != nil || err2 != nil || len(fr) != 20 || len(pk) != 48 {
		return chunk{}, false
	}

	return merkle2(regRoot(fr, gl, uint64(ts), pk), r.m.domain), true
}

// tokenOf names a partial signature: which share of which validator made it over which message.
func (r *run) tokenOf(wm *wireMsg, sigHex string) token {
	key := strings.ToLower(sigHex)
	r.mu.Lock()
	t, ok := r.sigs[key]
	r.mu.Unlock()
	if ok {
		return t
	}
	t = token{-1, -1, noMsg}
	sig := unhex(sigHex)
	if root, ok := r.sigRoot(wm); ok && len(sig) == 96 {
	search:
		for v := range r.m.pubShares {
			for k, ps := range r.m.pubShares[v] {
				if tbls.Verify(ps, root[:], tbls.Signature(sig)) == nil {
					t = token{v + 1, k + 1, r.abs(wm)}

					break search
				}
			}
		}
	}
	if t.sv != -1 {
		r.mu.Lock()
		r.sigs[key] = t
		r.mu.Unlock()
	}

	return t
}

// regBy names the validator whose group key verifies the signature over the message (0: the foreign validator, -1: nobody).
func (r *run) regBy(wm *wireMsg, sigHex string) int {
	sig := unhex(sigHex)
	root, ok := r.sigRoot(wm)
	if !ok || len(sig) != 96 {
		return -1
	}
	for v, pk := range r.m.groupPub {
		if tbls.Verify(pk, root[:], tbls.Signature(sig)) == nil {
			return v + 1
		}
	}
	if tbls.Verify(r.m.foreignPK, root[:], tbls.Signature(sig)) == nil {
		return 0
	}

	return -1
}

func (r *run) absResp(resp wireResp) []drv.Step {
	out := []drv.Step{}
	for _, val := range resp.Validators {
		groups := []drv.Step{}
		for _, g := range val.Groups {
			sigs := []drv.Step{}
			for _, s := range g.Sigs {
				t := r.tokenOf(g.Message, s.Signature)
				sigs = append(sigs, drv.Step{"idx": s.ShareIndex, "sv": t.sv, "sk": t.sk, "m": t.m.step()})
			}
			groups = append(groups, drv.Step{"m": r.abs(g.Message).step(), "sigs": sigs, "q": g.Quorum})
		}
		out = append(out, drv.Step{"v": r.valOf(val.Pubkey), "groups": groups})
	}

	return out
}

// fileState reads an operator's overrides file in abstract terms.
func (r *run) fileState(op int) drv.Step {
	b, err := os.ReadFile(r.ovrFile(op))
	if err != nil {
		return drv.Step{"st": "absent", "regs": []drv.Step{}}
	}
	var regs []*wireReg
	if err := json.Unmarshal(b, &regs); err != nil {
		return drv.Step{"st": "junk", "regs": []drv.Step{}}
	}
	out := []drv.Step{}
	for _, x := range regs {
		if x == nil || x.Data == nil || x.Data.Message == nil {
			return drv.Step{"st": "junk", "regs": []drv.Step{}}
		}
		out = append(out, drv.Step{"m": r.abs(x.Data.Message).step(), "by": r.regBy(x.Data.Message, x.Data.Signature)})
	}

	return drv.Step{"st": "ok", "regs": out}
}

// --- the API front --------------------------------------------------------------------------------------------------------

func (r *run) wait(ctx context.Context, who string) (instr, error) {
	g := &gate{release: make(chan instr, 1)}
	r.arrivals <- arrival{who: who, g: g}
	select {
	case in := <-g.release:
		return in, nil
	case <-ctx.Done():
		return instr{}, ctx.Err()
	}
}

func msgKey(m wireMsg) string {
	return strings.ToLower(m.FeeRecipient) + "|" + m.Timestamp + "|" + m.GasLimit
}

// serve handles one request of `who` ("cmd" | "node" | "byz") of operator op.
func (r *run) serve(req *http.Request, who string, op int) (*http.Response, error) {
	body, _ := io.ReadAll(req.Body)
	parts := strings.Split(strings.Trim(req.URL.Path, "/"), "/")
	ev := drv.Step{"ev": "Api", "who": who, "op": op}
	isPost := len(parts) == 4 && parts[0] == "fee_recipient" && parts[1] == "partial"
	isFetch := len(parts) == 2 && parts[0] == "fee_recipient"
	var post wirePost
	switch {
	case req.Method == http.MethodPost && isPost:
		ev["kind"] = "post"
		ev["lock"] = parts[2] == r.m.lockHashHx
		share, err := strconv.Atoi(parts[3])
		if err != nil {
			share = -1
		}
		ev["share"] = share
		ps := []drv.Step{}
		if json.Unmarshal(body, &post) == nil {
			for _, p := range post.Partials {
				t := r.tokenOf(p.Message, p.Signature)
				ps = append(ps, drv.Step{"sv": t.sv, "sk": t.sk, "m": r.abs(p.Message).step()})
			}
		} else {
			ev["malformed"] = true
		}
		ev["parts"] = ps
	case req.Method == http.MethodPost && isFetch:
		ev["kind"] = "fetch"
		ev["lock"] = parts[1] == r.m.lockHashHx
		var fr wireFetchReq
		filter := []int{}
		if json.Unmarshal(body, &fr) == nil {
			for _, pk := range fr.Pubkeys {
				filter = append(filter, r.valOf(pk))
			}
		} else {
			ev["malformed"] = true
		}
		ev["filter"] = filter
	default:
		ev["kind"] = "?" + req.Method + " " + req.URL.Path
	}
	if who == "node" && r.mode == "B" {
		ev["at"] = int(time.Now().Unix() - r.m.lockTS)
	}
	in := instr{fault: "none", code: 200}
	if who != "byz" {
		var err error
		if in, err = r.wait(req.Context(), fmt.Sprintf("%s-%d", who, op)); err != nil {
			return nil, err
		}
	}
	ev["f"] = in.fault
	rec := httptest.NewRecorder()
	if in.fault == "pre" {
		rec.WriteHeader(in.code)
		ev["status"] = 0
	} else {
		fwd := req.Clone(context.Background())
		fwd.Body = io.NopCloser(bytes.NewReader(body))
		fwd.RequestURI = ""
		r.api.ServeHTTP(rec, fwd)
		ev["status"] = rec.Code
		if ev["kind"] == "post" && rec.Code == http.StatusOK {
			r.remember(post)
		}
	}
	out := rec.Body.Bytes()
	code := rec.Code
	bodyKind := "other"
	if ev["kind"] == "fetch" && in.fault == "none" && rec.Code == http.StatusOK {
		var resp wireResp
		if err := json.Unmarshal(out, &resp); err == nil {
			switch in.tamper {
			case "nopart":
				code, out, bodyKind = http.StatusNotFound, []byte(`{"Message":"no partial registrations found"}`), "nopart"
			case "nolock":
				code, out, bodyKind = http.StatusNotFound, []byte(`{"Message":"lock not found"}`), "nolock"
			default:
				if in.tamper != "" {
					resp = r.tamper(resp, in.tamper, ev["filter"].([]int))
					out, _ = json.Marshal(resp)
				}
				bodyKind = "json"
				ev["resp"] = r.absResp(resp)
			}
		}
	}
	if in.fault != "none" {
		code, out = in.code, []byte(`{"Message":"injected"}`)
	}
	ev["code"] = code
	ev["body"] = bodyKind
	r.log(ev)
	res := &http.Response{StatusCode: code, Status: http.StatusText(code), Proto: "HTTP/1.1", ProtoMajor: 1, ProtoMinor: 1,
		Header: http.Header{"Content-Type": []string{"application/json"}}, Body: io.NopCloser(bytes.NewReader(out)),
		ContentLength: int64(len(out)), Request: req}

	return res, nil
}

// remember keeps what the server accepted (the front's own books: the material for answers the mock would not give).
func (r *run) remember(p wirePost) {
	for _, x := range p.Partials {
		if x.Message == nil {
			continue
		}
		t := r.tokenOf(x.Message, x.Signature)
		if t.sv < 1 {
			continue
		}
		r.mu.Lock()
		if r.store[t.sv] == nil {
			r.store[t.sv] = map[string]*posted{}
		}
		k := msgKey(*x.Message)
		if r.store[t.sv][k] == nil {
			r.store[t.sv][k] = &posted{msg: *x.Message, shares: map[int]string{}}
		}
		r.store[t.sv][k].shares[t.sk] = x.Signature
		r.mu.Unlock()
	}
}

// allGroups: every group the server holds for validator v, oldest first.
func (r *run) allGroups(v int) []wireGroup {
	r.mu.Lock()
	defer r.mu.Unlock()
	var ps []*posted
	for _, p := range r.store[v] {
		ps = append(ps, p)
	}
	sort.Slice(ps, func(i, j int) bool {
		a, b := r.absLocked(ps[i].msg), r.absLocked(ps[j].msg)
		if a.ts != b.ts {
			return a.ts < b.ts
		}
		if a.fr != b.fr {
			return a.fr < b.fr
		}

		return a.gl < b.gl
	})
	var out []wireGroup
	for _, p := range ps {
		m := p.msg
		g := wireGroup{Message: &m, Quorum: len(p.shares) >= r.m.t}
		var ks []int
		for k := range p.shares {
			ks = append(ks, k)
		}
		sort.Ints(ks)
		for _, k := range ks {
			g.Sigs = append(g.Sigs, wireSig{ShareIndex: k, Signature: p.shares[k]})
		}
		out = append(out, g)
	}

	return out
}

func (r *run) absLocked(m wireMsg) absMsg { return r.abs(&m) }

// tamper: what a faulty API could answer instead (the kinds of FeeRecipientMC.Tamper and a few more).
func (r *run) tamper(resp wireResp, kind string, filter []int) wireResp {
	each := func(f func(g *wireGroup)) {
		for i := range resp.Validators {
			for j := range resp.Validators[i].Groups {
				f(&resp.Validators[i].Groups[j])
			}
		}
	}
	regroup := func(f func(v int, all []wireGroup) []wireGroup) {
		for i := range resp.Validators {
			v := r.valOf(resp.Validators[i].Pubkey)
			resp.Validators[i].Groups = f(v, r.allGroups(v))
		}
	}
	switch kind {
	case "dropsig":
		each(func(g *wireGroup) {
			if g.Quorum && len(g.Sigs) > 0 {
				g.Sigs = g.Sigs[1:]
			}
		})
	case "flipq":
		each(func(g *wireGroup) { g.Quorum = true })
	case "unq":
		each(func(g *wireGroup) { g.Quorum = false })
	case "emptyq":
		each(func(g *wireGroup) {
			if g.Quorum {
				g.Sigs = []wireSig{}
			}
		})
	case "shift":
		each(func(g *wireGroup) {
			for k := range g.Sigs {
				g.Sigs[k].ShareIndex = g.Sigs[k].ShareIndex%r.m.n + 1
			}
		})
	case "rev":
		for i := range resp.Validators {
			gs := resp.Validators[i].Groups
			for a, b := 0, len(gs)-1; a < b; a, b = a+1, b-1 {
				gs[a], gs[b] = gs[b], gs[a]
			}
		}
	case "all":
		regroup(func(_ int, all []wireGroup) []wireGroup { return all })
	case "alldesc":
		regroup(func(_ int, all []wireGroup) []wireGroup {
			for a, b := 0, len(all)-1; a < b; a, b = a+1, b-1 {
				all[a], all[b] = all[b], all[a]
			}

			return all
		})
	case "older":
		regroup(func(_ int, all []wireGroup) []wireGroup {
			for _, g := range all {
				if g.Quorum {
					return []wireGroup{g}
				}
			}

			return []wireGroup{}
		})
	case "empty":
		resp.Validators = []wireVal{}
	case "nullmsg": // a malformed answer: the groups carry no message
		each(func(g *wireGroup) { g.Message = nil })
	case "swapsig": // the first signature of a quorum group is replaced by the same share's signature over ANOTHER message
		for i := range resp.Validators {
			v := r.valOf(resp.Validators[i].Pubkey)
			all := r.allGroups(v)
			for j := range resp.Validators[i].Groups {
				g := &resp.Validators[i].Groups[j]
				if !g.Quorum || len(g.Sigs) == 0 || g.Message == nil {
					continue
				}
			find:
				for _, o := range all {
					if msgKey(*o.Message) == msgKey(*g.Message) {
						continue
					}
					for _, s := range o.Sigs {
						if s.ShareIndex == g.Sigs[0].ShareIndex {
							g.Sigs[0].Signature = s.Signature

							break find
						}
					}
				}
			}
		}
	case "dupval": // every validator is listed twice: first all its groups newest first, then the regular entry
		var vs []wireVal
		for _, val := range resp.Validators {
			all := r.allGroups(r.valOf(val.Pubkey))
			for a, b := 0, len(all)-1; a < b; a, b = a+1, b-1 {
				all[a], all[b] = all[b], all[a]
			}
			vs = append(vs, wireVal{Pubkey: val.Pubkey, Groups: all}, val)
		}
		resp.Validators = vs
	case "othermsg": // the message of every quorum group is replaced by the message of the oldest group of the validator
		for i := range resp.Validators {
			all := r.allGroups(r.valOf(resp.Validators[i].Pubkey))
			for j := range resp.Validators[i].Groups {
				if g := &resp.Validators[i].Groups[j]; g.Quorum && len(all) > 0 {
					m := *all[0].Message
					g.Message = &m
				}
			}
		}
	case "twoq": // the two newest quorum groups of a validator, the OLDER one last
		regroup(func(_ int, all []wireGroup) []wireGroup {
			var qs []wireGroup
			for _, g := range all {
				if g.Quorum {
					qs = append(qs, g)
				}
			}
			if len(qs) > 2 {
				qs = qs[len(qs)-2:]
			}
			for a, b := 0, len(qs)-1; a < b; a, b = a+1, b-1 {
				qs[a], qs[b] = qs[b], qs[a]
			}

			return qs
		})
	}
	if resp.Validators == nil {
		resp.Validators = []wireVal{}
	}
	for i := range resp.Validators {
		if resp.Validators[i].Groups == nil {
			resp.Validators[i].Groups = []wireGroup{}
		}
		for j := range resp.Validators[i].Groups {
			if resp.Validators[i].Groups[j].Sigs == nil {
				resp.Validators[i].Groups[j].Sigs = []wireSig{}
			}
		}
	}
	_ = filter

	return resp
}

// --- the round tripper ---------------------------------------------------------------------------------------------------

var runs sync.Map // sid -> *run

type frontRT struct{}

// RoundTrip routes http://<who>-<op>.s<sid>.verif/... to the front of schedule sid.
func (frontRT) RoundTrip(req *http.Request) (*http.Response, error) {
	host := req.URL.Hostname()
	p := strings.Split(host, ".")
	if len(p) != 3 || p[2] != "verif" {
		return nil, fmt.Errorf("unexpected request to %s", req.URL)
	}
	sid, _ := strconv.Atoi(strings.TrimPrefix(p[1], "s"))
	who, ops, _ := strings.Cut(p[0], "-")
	op, _ := strconv.Atoi(ops)
	x, ok := runs.Load(sid)
	if !ok {
		return nil, fmt.Errorf("no schedule %d", sid)
	}

	return x.(*run).serve(req, who, op)
}

// --- commands -----------------------------------------------------------------------------------------------------------

func (r *run) frFlag(code int) string {
	switch code {
	case 1, 2, 3:
		return addrReal[code]
	case 4:
		s, err := eth2util.ChecksumAddress(addrReal[1])
		if err != nil {
			r.w.t.Fatal(err)
		}

		return s
	case 90:
		return "0x0000000000000000000000000000000000000000"
	case 91: // mixed case that is not the checksum
		s, _ := eth2util.ChecksumAddress(addrReal[1])
		b := []byte(s)
		for i := 2; i < len(b); i++ {
			if b[i] >= 'a' && b[i] <= 'f' {
				b[i] -= 32

				break
			} else if b[i] >= 'A' && b[i] <= 'F' {
				b[i] += 32

				break
			}
		}

		return string(b)
	default:
		return "0x1234"
	}
}

func (r *run) pkFlag(v, style int) string {
	h := r.m.foreignHex
	if v >= 1 && v <= r.m.nv {
		h = r.m.pkHex[v-1]
	}
	switch style % 3 {
	case 1:
		return h
	case 2:
		return "0x" + strings.ToUpper(h)
	default:
		return "0x" + h
	}
}

func ints(x any) []int {
	out := []int{}
	if a, ok := x.([]any); ok {
		for _, e := range a {
			out = append(out, drv.Num(e))
		}
	}

	return out
}

func (r *run) start(st drv.Step) {
	c, op, kind := drv.Num(st["c"]), drv.Num(st["op"]), drv.Str(st["kind"])
	vs, fr, gl, ts := ints(st["vs"]), drv.Num(st["fr"]), drv.Num(st["gl"]), drv.Num(st["ts"])
	if kind == "sign" && ts == -1 && r.mode == "A" {
		return // time.Now() is the wall clock's in mode A: `sign` without --timestamp belongs to mode B
	}
	d := r.m.opDir(op)
	args := []string{"feerecipient", kind, "--lock-file", filepath.Join(d, "cluster-lock.json"), "--overrides-file", r.ovrFile(op),
		"--publish-address", fmt.Sprintf("http://cmd-%d.s%d.verif", op, r.sid), "--publish-timeout", bigTimeout}
	var pks []string
	for i, v := range vs {
		pks = append(pks, r.pkFlag(v, c+i))
	}
	if len(pks) > 0 {
		args = append(args, "--validator-public-keys", strings.Join(pks, ","))
	}
	if kind == "sign" {
		args = append(args, "--private-key-file", filepath.Join(d, "charon-enr-private-key"), "--validator-keys-dir", filepath.Join(d, "validator_keys"),
			"--fee-recipient", r.frFlag(fr))
		if gl != 0 {
			args = append(args, "--gas-limit", strconv.FormatUint(gasReal[gl], 10))
		}
		if ts != -1 {
			args = append(args, "--timestamp", strconv.FormatInt(r.m.lockTS+int64(ts), 10))
		}
	}
	r.log(drv.Step{"ev": "Start", "c": c, "op": op, "kind": kind, "vs": vs, "fr": fr, "gl": gl, "ts": ts})
	r.cmdOp[c] = op
	r.running[op] = c
	who := fmt.Sprintf("cmd-%d", op)
	go func() {
		core, logs := observer.New(zapcore.InfoLevel)
		ctx := log.WithLogger(context.Background(), zap.New(core))
		err := runCLI(ctx, args)
		done := drv.Step{"ev": "Done", "c": c, "ok": err == nil, "file": r.fileState(op)}
		if err != nil {
			done["err"] = err.Error()
			if strings.HasPrefix(err.Error(), "PANIC") {
				done["panic"] = true
			}
		}
		if kind == "list" {
			done["printed"] = r.printed(logs)
		}
		r.log(done)
		r.arrivals <- arrival{who: who}
	}()
	r.await(who)
}

func runCLI(ctx context.Context, args []string) (err error) {
	defer func() {
		if p := recover(); p != nil {
			err = fmt.Errorf("PANIC: %v", p)
		}
	}()
	root := cmd.New()
	root.SetArgs(args)
	root.SetOut(io.Discard)
	root.SetErr(io.Discard)

	return root.ExecuteContext(ctx)
}

// printed: what `feerecipient list` reported, in abstract terms.
func (r *run) printed(logs *observer.ObservedLogs) []drv.Step {
	out := []drv.Step{}
	const pre = "Builder registration for "
	for _, e := range logs.All() {
		if !strings.HasPrefix(e.Message, pre) {
			continue
		}
		v := r.valOf(strings.TrimPrefix(e.Message, pre))
		f := e.ContextMap()
		src := fmt.Sprint(f["source"])
		has := func(s string) bool {
			for _, x := range strings.Split(src, "+") {
				if x == s {
					return true
				}
			}

			return false
		}
		gl := 99
		for c, x := range gasReal {
			if fmt.Sprint(f["gas_limit"]) == strconv.FormatUint(x, 10) {
				gl = c
			}
		}
		ts, _ := strconv.ParseInt(fmt.Sprint(f["timestamp"]), 10, 64)
		out = append(out, drv.Step{"v": v, "fr": r.absFr(fmt.Sprint(f["fee_recipient"]), v), "gl": gl, "ts": int(ts - r.m.lockTS),
			"lock": has("lock"), "ovr": has("overrides"), "remote": has("remote")})
	}

	return out
}

// await blocks until `who` is at its next gate or has returned.
func (r *run) await(who string) {
	for {
		select {
		case a := <-r.arrivals:
			r.arrived(a)
			if a.who == who {
				return
			}
		case <-time.After(r.hangWait):
			r.log(drv.Step{"ev": "Hang", "who": who})
			r.hung = true

			return
		}
	}
}

func (r *run) arrived(a arrival) {
	if a.g != nil {
		r.pending[a.who] = a.g

		return
	}
	delete(r.pending, a.who)
	if op, err := strconv.Atoi(strings.TrimPrefix(a.who, "cmd-")); err == nil {
		delete(r.running, op)
	}
}

// drain takes what has arrived without waiting (mode B: after synctest.Wait everything that could arrive has).
func (r *run) drain() {
	for {
		select {
		case a := <-r.arrivals:
			r.arrived(a)
		default:
			return
		}
	}
}

func instrOf(st drv.Step) instr {
	in := instr{fault: "none", code: 200}
	if f := drv.Str(st["f"]); f != "" {
		in.fault = f
	}
	if in.fault != "none" {
		in.code = drv.Num(st["code"])
	}
	in.tamper = drv.Str(st["tamper"])

	return in
}

func (r *run) step(c int, in instr) {
	op, ok := r.cmdOp[c]
	who := fmt.Sprintf("cmd-%d", op)
	g := r.pending[who]
	if !ok || g == nil || r.running[op] != c {
		return // the command has returned (or was never started): nothing to let through
	}
	delete(r.pending, who)
	g.release <- in
	r.await(who)
}

// --- the Byzantine operator and planted files ---------------------------------------------------------------------------

func (r *run) msgOf(x any) absMsg {
	m, _ := x.(map[string]any)

	return absMsg{drv.Num(m["v"]), drv.Num(m["fr"]), drv.Num(m["gl"]), drv.Num(m["ts"])}
}

func (r *run) sign(sk tbls.PrivateKey, wm wireMsg) string {
	root, ok := r.sigRoot(&wm)
	if !ok {
		r.w.t.Fatalf("bad message %v", wm)
	}
	s, err := tbls.Sign(sk, root[:])
	if err != nil {
		r.w.t.Fatal(err)
	}

	return "0x" + hex.EncodeToString(s[:])
}

func (r *run) byz(st drv.Step) {
	share := drv.Num(st["share"])
	var post wirePost
	for _, a := range st["parts"].([]any) {
		p := a.(map[string]any)
		wm := r.real(r.msgOf(p["m"]))
		sv, sk := drv.Num(p["sv"]), drv.Num(p["sk"])
		var key tbls.PrivateKey
		if sv >= 1 && sv <= r.m.nv && sk >= 1 && sk <= r.m.n {
			key = r.m.shares[sv-1][sk-1]
		} else {
			key, _ = tbls.GenerateSecretKey()
		}
		post.Partials = append(post.Partials, wirePartial{Message: &wm, Signature: r.sign(key, wm)})
	}
	lock := r.m.lockHashHx
	if st["lock"] == false {
		lock = "0x" + strings.Repeat("ab", 32)
	}
	body, _ := json.Marshal(post)
	req, _ := http.NewRequest(http.MethodPost, fmt.Sprintf("http://byz-0.s%d.verif/fee_recipient/partial/%s/%d", r.sid, lock, share), bytes.NewReader(body))
	req.Header.Set("Content-Type", "application/json")
	if _, err := r.serve(req, "byz", 0); err != nil {
		r.w.t.Fatal(err)
	}
}

func writeAtomic(path string, data []byte) error {
	tmp := path + ".verif-tmp"
	if err := os.WriteFile(tmp, data, 0o644); err != nil {
		return err
	}

	return os.Rename(tmp, path)
}

// plant puts an overrides file into an operator's directory: per entry the aggregate of the named shares of the validator
// in the message (no shares: a signature by a key nobody knows; the foreign validator signs with its own key).
func (r *run) plant(st drv.Step) {
	op := drv.Num(st["op"])
	shares := [][]int{}
	switch drv.Str(st["st"]) {
	case "absent":
		_ = os.Remove(r.ovrFile(op))
	case "junk":
		if err := writeAtomic(r.ovrFile(op), []byte(`[{"version":"v1","v1":`)); err != nil {
			r.w.t.Fatal(err)
		}
	default:
		regs := []wireReg{}
		for _, a := range st["regs"].([]any) {
			e := a.(map[string]any)
			am := r.msgOf(e["m"])
			wm := r.real(am)
			ks := ints(e["shares"])
			var sig string
			switch {
			case am.v == 0:
				sig = r.sign(r.m.foreignSK, wm)
				ks = []int{}
			case len(ks) == 0 || am.v < 1 || am.v > r.m.nv:
				k, _ := tbls.GenerateSecretKey()
				sig = r.sign(k, wm)
				ks = []int{}
			default:
				ps := map[int]tbls.Signature{}
				for _, k := range ks {
					ps[k] = tbls.Signature(unhex(r.sign(r.m.shares[am.v-1][k-1], wm)))
				}
				full, err := tbls.ThresholdAggregate(ps)
				if err != nil {
					r.w.t.Fatal(err)
				}
				sig = "0x" + hex.EncodeToString(full[:])
			}
			shares = append(shares, ks)
			regs = append(regs, wireReg{Version: json.RawMessage(`"v1"`), Data: &wireSigned{Message: &wm, Signature: sig}})
		}
		b, _ := json.MarshalIndent(regs, "", "  ")
		if err := writeAtomic(r.ovrFile(op), b); err != nil {
			r.w.t.Fatal(err)
		}
	}
	r.log(drv.Step{"ev": "Plant", "op": op, "file": r.fileState(op), "shares": shares})
}

// --- the node -----------------------------------------------------------------------------------------------------------

func (r *run) view(op int) {
	n := r.nodes[op]
	regs := n.svc.Registrations()
	out := []drv.Step{}
	for v := 1; v <= r.m.nv; v++ {
		e := drv.Step{"m": noMsg.step(), "by": -1, "fr": 99}
		if v-1 < len(regs) && regs[v-1] != nil {
			b, err := json.Marshal(regs[v-1])
			var x wireReg
			if err == nil && json.Unmarshal(b, &x) == nil && x.Data != nil {
				e["m"] = r.abs(x.Data.Message).step()
				e["by"] = r.regBy(x.Data.Message, x.Data.Signature)
			}
		}
		pk, err := core.PubKeyFromBytes(r.m.lock.Validators[v-1].PubKey)
		if err == nil {
			e["fr"] = r.absFr(n.svc.FeeRecipient(pk), v)
		}
		out = append(out, e)
	}
	r.log(drv.Step{"ev": "View", "op": op, "view": out})
}

func (r *run) nodeStart(st drv.Step) {
	op := drv.Num(st["op"])
	if r.nodes[op] != nil {
		return
	}
	withAPI := st["api"] != false || r.mode == "A"
	var regs []*eth2api.VersionedSignedValidatorRegistration
	frs := map[core.PubKey]string{}
	addrs := r.m.lock.FeeRecipientAddresses()
	for vi, val := range r.m.lock.Validators {
		pk, err := core.PubKeyFromBytes(val.PubKey)
		if err != nil {
			r.w.t.Fatal(err)
		}
		frs[pk] = addrs[vi]
		reg, err := val.Eth2Registration()
		if err != nil {
			r.w.t.Fatal(err)
		}
		regs = append(regs, reg)
	}
	var cl *obolapi.Client
	if withAPI {
		c, err := obolapi.New(fmt.Sprintf("http://node-%d.s%d.verif", op, r.sid), obolapi.WithTimeout(time.Duration(1<<60)))
		if err != nil {
			r.w.t.Fatal(err)
		}
		cl = &c
	}
	ctx, cancel := context.WithCancel(log.WithLogger(context.Background(), zap.NewNop()))
	svc, err := app.NewBuilderRegistrationService(ctx, r.ovrFile(op), eth2p0.Version(r.m.lock.ForkVersion), regs, frs, cl, r.m.lock.LockHash)
	ev := drv.Step{"ev": "Node", "op": op, "act": "start", "api": withAPI, "watch": r.mode == "A", "ok": err == nil}
	if err != nil {
		ev["err"] = err.Error()
		cancel()
		r.log(ev)

		return
	}
	n := &nodeH{svc: svc, cancel: cancel, done: make(chan struct{}), api: withAPI}
	r.nodes[op] = n
	r.log(ev)
	who := fmt.Sprintf("node-%d", op)
	if r.mode == "A" {
		// no inotify instance left on this machine is the executor's trouble, not the node's
		if fw, err := fsnotify.NewWatcher(); err != nil {
			r.w.t.Fatalf("cannot create a file watcher: %v", err)
		} else {
			fw.Close()
		}
		go func() { svc.Run(ctx); close(n.done) }()
		r.await(who)
	} else {
		// fsnotify cannot live in a bubble: the directory is away while Run sets up its watcher
		away := r.ovrDir[op] + ".away"
		if err := os.Rename(r.ovrDir[op], away); err != nil {
			r.w.t.Fatal(err)
		}
		go func() { svc.Run(ctx); close(n.done) }()
		synctest.Wait()
		if err := os.Rename(away, r.ovrDir[op]); err != nil {
			r.w.t.Fatal(err)
		}
		r.drain()
	}
	r.view(op)
}

func (r *run) nodeStop(op int) {
	n := r.nodes[op]
	if n == nil {
		return
	}
	n.cancel()
	select {
	case <-n.done:
	case <-time.After(r.hangWait):
		r.log(drv.Step{"ev": "Hang", "who": "nodestop"})
		r.hung = true
	}
	r.drain()
	delete(r.pending, fmt.Sprintf("node-%d", op))
	delete(r.nodes, op)
	r.log(drv.Step{"ev": "Node", "op": op, "act": "stop"})
}

func (r *run) nodeStep(op int, in instr) {
	n := r.nodes[op]
	who := fmt.Sprintf("node-%d", op)
	g := r.pending[who]
	if n == nil || g == nil {
		return // no fetch of this node is waiting for its answer
	}
	delete(r.pending, who)
	g.release <- in
	if r.mode == "A" {
		// a file event: the same content again (an absent file: created empty, removed once the node has read it)
		b, err := os.ReadFile(r.ovrFile(op))
		absent := err != nil
		if absent {
			b = []byte("[]")
		}
		if err := writeAtomic(r.ovrFile(op), b); err != nil {
			r.w.t.Fatal(err)
		}
		r.await(who)
		if absent {
			_ = os.Remove(r.ovrFile(op))
		}
		r.log(drv.Step{"ev": "Reload", "op": op})
	} else {
		synctest.Wait()
		r.drain()
	}
	r.view(op)
}

func (r *run) tick(d int) {
	time.Sleep(time.Duration(d) * time.Second)
	synctest.Wait()
	r.drain()
	r.log(drv.Step{"ev": "Tick", "d": d})
}

// --- a schedule -----------------------------------------------------------------------------------------------------------

func (w *world) exec(sid int, sched []drv.Step) []drv.Step {
	cfg := sched[0]
	m := w.material(drv.Num(cfg["n"]), drv.Num(cfg["t"]), drv.Num(cfg["nv"]))
	r := &run{w: w, m: m, sid: sid, mode: drv.Str(cfg["mode"]), arrivals: make(chan arrival, 256), pending: map[string]*gate{}, cmdOp: map[int]int{},
		running: map[int]int{}, ovrDir: map[int]string{}, nodes: map[int]*nodeH{}, sigs: map[string]token{}, store: map[int]map[string]*posted{},
		hangWait: 90 * time.Second}
	if r.mode == "B" {
		r.hangWait = time.Duration(1 << 61)
		// the clock starts 1000 s after the timestamp of the lock's registrations
		time.Sleep(time.Until(time.Unix(m.lockTS+1000, 0)))
	}
	h, addLock := obolapimock.MockServer(false, nil)
	addLock(m.lock)
	r.api = h
	runs.Store(sid, r)
	defer runs.Delete(sid)
	for op := 1; op <= m.n; op++ {
		d, err := os.MkdirTemp(w.tmp, fmt.Sprintf("ovr_%d_op%d_", sid, op))
		if err != nil {
			w.t.Fatal(err)
		}
		r.ovrDir[op] = d
	}
	r.events = append(r.events, drv.Step{"ev": "Reset", "sid": sid, "mode": r.mode, "n": m.n, "t": m.t, "nv": m.nv})
	for _, st := range sched[1:] {
		if r.hung {
			break
		}
		switch drv.Str(st["ev"]) {
		case "Start":
			if _, busy := r.running[drv.Num(st["op"])]; busy {
				continue // the operator's previous command is still running: not started
			}
			r.start(st)
		case "Step":
			r.step(drv.Num(st["c"]), instrOf(st))
		case "Byz":
			r.byz(st)
		case "Plant":
			r.plant(st)
		case "NodeStart":
			r.nodeStart(st)
		case "NodeStop":
			r.nodeStop(drv.Num(st["op"]))
		case "NodeStep":
			r.nodeStep(drv.Num(st["op"]), instrOf(st))
		case "Tick":
			if r.mode == "B" {
				r.tick(drv.Num(st["d"]))
			}
		default:
			w.t.Fatalf("unknown step %v", st)
		}
	}
	// let every running command finish, lowest operator first, no faults
	for k := 0; !r.hung && len(r.running) > 0 && k < 200; k++ {
		ops := []int{}
		for op := range r.running {
			ops = append(ops, op)
		}
		sort.Ints(ops)
		r.step(r.running[ops[0]], instr{fault: "none", code: 200})
	}
	ops := []int{}
	for op := range r.nodes {
		ops = append(ops, op)
	}
	sort.Ints(ops)
	for _, op := range ops {
		if !r.hung {
			r.nodeStop(op)
		}
	}
	if !r.hung && len(r.running) == 0 {
		r.log(drv.Step{"ev": "End"})
	}
	// after a hang: whatever is still blocked at a gate is refused, the nodes are cancelled
	for _, n := range r.nodes {
		n.cancel()
	}
	for k := 0; len(r.running) > 0 && k < 400; k++ {
		for who, g := range r.pending {
			delete(r.pending, who)
			g.release <- instr{fault: "pre", code: 500}
		}
		select {
		case a := <-r.arrivals:
			r.arrived(a)
		case <-time.After(30 * time.Second):
			k = 400
		}
	}
	for _, d := range r.ovrDir {
		os.RemoveAll(d)
	}

	return r.events
}

// TestExec runs the schedules (VERIF_SCHED) and writes the traces (VERIF_OUT).
func TestExec(t *testing.T) {
	scheds := drv.ReadSchedules(t)
	tr := drv.NewTracer(t)
	defer tr.Close()
	drv.QuietLogs(t)
	http.DefaultTransport = frontRT{}
	w := &world{t: t, mats: map[string]*material{}, tmp: t.TempDir()}
	for _, s := range scheds {
		w.material(drv.Num(s[0]["n"]), drv.Num(s[0]["t"]), drv.Num(s[0]["nv"]))
	}
	par, _ := strconv.Atoi(os.Getenv("VERIF_FEEREC_PAR"))
	if par <= 0 {
		par = 4
	}
	out := make([][]drv.Step, len(scheds))
	var wg sync.WaitGroup
	var stop sync.Once
	stopped := make(chan struct{})
	jobs := make(chan int)
	for range par {
		wg.Add(1)
		go func() {
			defer wg.Done()
			for sid := range jobs {
				select {
				case <-stopped:
					continue
				default:
				}
				if drv.Str(scheds[sid][0]["mode"]) == "B" {
					synctest.Test(t, func(*testing.T) { out[sid] = w.exec(sid, scheds[sid]) })
				} else {
					out[sid] = w.exec(sid, scheds[sid])
				}
				for _, e := range out[sid] {
					if e["ev"] == "Hang" {
						stop.Do(func() { close(stopped) })
					}
				}
			}
		}()
	}
	for sid := range scheds {
		jobs <- sid
	}
	close(jobs)
	wg.Wait()
	for _, evs := range out {
		for _, e := range evs {
			tr.Emit(e)
		}
	}
}
