package feerecipientexec

import (
	"context"
	"os"
	"path/filepath"
	"testing"
	"testing/synctest"
	"time"

	"github.com/fsnotify/fsnotify"
)

func TestProbeSynctestFsnotify(t *testing.T) {
	dir := t.TempDir()
	synctest.Test(t, func(t *testing.T) {
		w, err := fsnotify.NewWatcher()
		if err != nil {
			t.Fatal(err)
		}
		if err := w.Add(dir); err != nil {
			t.Fatal(err)
		}
		ctx, cancel := context.WithCancel(context.Background())
		got := make(chan string, 10)
		go func() {
			for {
				select {
				case <-ctx.Done():
					return
				case ev := <-w.Events:
					got <- ev.String()
				}
			}
		}()
		t0 := time.Now()
		done := make(chan struct{})
		go func() { time.Sleep(time.Hour); close(done) }()
		_ = os.WriteFile(filepath.Join(dir, "x.json"), []byte("1"), 0o644)
		select {
		case s := <-got:
			t.Log("event", s, time.Since(t0))
		}
		realT := time.AfterFunc(0, func() {})
		_ = realT
		<-done
		t.Log("slept an hour of virtual time", time.Since(t0))
		cancel()
		w.Close()
	})
}
