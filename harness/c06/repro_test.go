package c06

import (
	"context"
	"testing"

	"github.com/obolnetwork/charon/core"
	"github.com/obolnetwork/charon/core/dutydb"
)

// TestReproAggReplace is the standalone reproduction of known finding C06-agg-replace (not part of the check, it
// only prints): two aggregates with the same attestation data root (hence the same DutyDB key) but different
// aggregation bits are stored one after the other; the second Store returns nil and REPLACES the first, so the two
// answers for one key differ. Run: go test -tags verif -run TestReproAggReplace -v ./c06
func TestReproAggReplace(t *testing.T) {
	ctx := context.Background()
	db := dutydb.NewMemDB(newStub())
	duty := core.NewAggregatorDuty(1)
	root, err := aggDataOf(1, 1).HashTreeRoot()
	if err != nil {
		t.Fatal(err)
	}
	for _, bits := range []int{5, 7} {
		err := db.Store(ctx, duty, core.UnsignedDataSet{corePK("A"): aggOf(1, 1, 1, bits)})
		got, aerr := db.AwaitAggAttestation(ctx, 1, root, 1)
		if aerr != nil {
			t.Fatal(aerr)
		}
		t.Logf("Store(bits=%d) err=%v; AwaitAggAttestation -> aggregation bits %x", bits, err, []byte(got.Electra.AggregationBits))
	}
}
