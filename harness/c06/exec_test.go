// Package c06 executes DutyDB schedules on the real core/dutydb.MemDB (with a scripted core.Deadliner) and records
// what it did. It contains no expected values: the only oracle is specs/DutyDB/DutyDBTrace.tla.
package c06

import (
	"context"
	"crypto/sha256"
	"encoding/hex"
	"encoding/json"
	"errors"
	"fmt"
	"os"
	"runtime"
	"sort"
	"strconv"
	"sync"
	"sync/atomic"
	"testing"
	"time"

	"github.com/OffchainLabs/go-bitfield"
	eth2api "github.com/attestantio/go-eth2-client/api"
	eth2v1 "github.com/attestantio/go-eth2-client/api/v1"
	eth2deneb "github.com/attestantio/go-eth2-client/api/v1/deneb"
	eth2spec "github.com/attestantio/go-eth2-client/spec"
	"github.com/attestantio/go-eth2-client/spec/altair"
	"github.com/attestantio/go-eth2-client/spec/deneb"
	"github.com/attestantio/go-eth2-client/spec/electra"
	eth2p0 "github.com/attestantio/go-eth2-client/spec/phase0"

	"github.com/obolnetwork/charon/core"
	"github.com/obolnetwork/charon/core/dutydb"
	"github.com/obolnetwork/charon/testutil"

	"verifharness/drv"
)

const (
	mustWait     = 5 * time.Second        // generous "must have returned by now" wait: only exhausted by a real hang
	courtesyWait = 20 * time.Millisecond  // only influences WHERE a Return is logged, never a verdict
	maxBlocked   = 4                      // stop the run after this many expired generous waits
	graceWait    = 100 * time.Millisecond // gate tier: how long a background Store may take before the gate is released
	shortCtx     = 60 * time.Millisecond  // gate tier: lifetime of the context of an AwaitShort
)

// ---------------------------------------------------------------------------------------------------------------
// scripted deadliner
// ---------------------------------------------------------------------------------------------------------------

type stubDL struct {
	mu      sync.Mutex
	exp     map[core.Duty]bool
	sch     map[core.Duty]bool
	ch      chan core.Duty
	lastAdd string
	// gate tier: the next Add of gateDuty has its answer computed and then BLOCKS until the driver releases it
	gateDuty *core.Duty
	inAdd    chan struct{}
	gate     chan struct{}
}

// arm: the next Add(d) blocks (after its answer has been decided) until release is called.
func (s *stubDL) arm(d core.Duty) {
	s.mu.Lock()
	defer s.mu.Unlock()
	s.gateDuty, s.inAdd, s.gate = &d, make(chan struct{}), make(chan struct{})
}

func (s *stubDL) release() {
	s.mu.Lock()
	defer s.mu.Unlock()
	if s.gate != nil {
		close(s.gate)
		s.gate, s.gateDuty = nil, nil
	}
}

// hold blocks the calling Add at the gate if it is armed for this duty (called WITHOUT the stub mutex).
func (s *stubDL) hold(d core.Duty) {
	s.mu.Lock()
	var in, g chan struct{}
	if s.gateDuty != nil && *s.gateDuty == d {
		in, g = s.inAdd, s.gate
		s.gateDuty = nil // only one Add is held
	}
	s.mu.Unlock()
	if g != nil {
		close(in)
		<-g
	}
}

func newStub() *stubDL {
	return &stubDL{exp: map[core.Duty]bool{}, sch: map[core.Duty]bool{}, ch: make(chan core.Duty, 1024), lastAdd: "none"}
}

func (s *stubDL) Add(d core.Duty) core.DeadlineStatus {
	st := s.add(d)
	s.hold(d)

	return st
}

func (s *stubDL) add(d core.Duty) core.DeadlineStatus {
	s.mu.Lock()
	defer s.mu.Unlock()
	switch {
	case d.Type == core.DutyExit || d.Type == core.DutyBuilderRegistration:
		s.lastAdd = "Exempt"
		return core.DeadlineExempt
	case s.exp[d]:
		s.lastAdd = "Expired"
		return core.DeadlineExpired
	}
	s.sch[d] = true
	s.lastAdd = "Scheduled"

	return core.DeadlineScheduled
}

func (s *stubDL) C() <-chan core.Duty { return s.ch }

// expire: from now on Add answers Expired; the duty is put on C() if it was scheduled. Returns whether it was.
func (s *stubDL) expire(d core.Duty) bool {
	s.mu.Lock()
	defer s.mu.Unlock()
	if s.exp[d] {
		return false
	}
	s.exp[d] = true
	if !s.sch[d] {
		return false
	}
	delete(s.sch, d)
	select {
	case s.ch <- d:
	default:
		panic("stub deadliner channel full")
	}

	return true
}

// ---------------------------------------------------------------------------------------------------------------
// model data <-> real objects
// ---------------------------------------------------------------------------------------------------------------

func rootOf(n int) eth2p0.Root {
	var r eth2p0.Root
	r[0] = byte(n)
	r[31] = 0x5a

	return r
}

func sigOf(n int) eth2p0.BLSSignature {
	var s eth2p0.BLSSignature
	s[0] = byte(n)
	s[95] = 0x77

	return s
}

func pkBytes(name string) (b [48]byte) {
	copy(b[:], name)
	b[47] = 0x11

	return b
}

func corePK(name string) core.PubKey {
	b := pkBytes(name)
	pk, err := core.PubKeyFromBytes(b[:])
	if err != nil {
		panic(err)
	}

	return pk
}

func dutyOf(m map[string]any) core.Duty {
	slot := uint64(drv.Num(m["slot"]))
	switch drv.Str(m["type"]) {
	case "att":
		return core.NewAttesterDuty(slot)
	case "pro":
		return core.NewProposerDuty(slot)
	case "agg":
		return core.NewAggregatorDuty(slot)
	case "con":
		return core.NewSyncContributionDuty(slot)
	case "exit":
		return core.NewVoluntaryExit(slot)
	case "randao":
		return core.NewRandaoDuty(slot)
	}
	panic("unknown duty type " + drv.Str(m["type"]))
}

func attDataOf(slot, head, src, tgt int) eth2p0.AttestationData {
	return eth2p0.AttestationData{
		Slot:            eth2p0.Slot(slot),
		Index:           0,
		BeaconBlockRoot: rootOf(head),
		Source:          &eth2p0.Checkpoint{Epoch: eth2p0.Epoch(src), Root: rootOf(100 + src)},
		Target:          &eth2p0.Checkpoint{Epoch: eth2p0.Epoch(tgt), Root: rootOf(200 + tgt)},
	}
}

func attOf(pk string, d map[string]any) core.AttestationData {
	slot, comm, val := drv.Num(d["slot"]), drv.Num(d["comm"]), drv.Num(d["val"])

	return core.AttestationData{
		Data: attDataOf(slot, drv.Num(d["head"]), drv.Num(d["src"]), drv.Num(d["tgt"])),
		Duty: eth2v1.AttesterDuty{
			PubKey:                  eth2p0.BLSPubKey(pkBytes(pk)),
			Slot:                    eth2p0.Slot(slot),
			ValidatorIndex:          eth2p0.ValidatorIndex(val),
			CommitteeIndex:          eth2p0.CommitteeIndex(comm),
			CommitteeLength:         8,
			CommitteesAtSlot:        4,
			ValidatorCommitteeIndex: uint64(val),
		},
	}
}

// the one base block all proposals are variations of (random content, fixed for the run)
var (
	baseOnce  sync.Once
	baseBlock []byte
)

func proOf(slot, root, extra int) core.VersionedProposal {
	baseOnce.Do(func() {
		b, err := testutil.RandomDenebBeaconBlock().MarshalJSON()
		if err != nil {
			panic(err)
		}
		baseBlock = b
	})
	blk := new(deneb.BeaconBlock)
	if err := blk.UnmarshalJSON(baseBlock); err != nil {
		panic(err)
	}
	blk.Slot = eth2p0.Slot(slot)
	blk.ParentRoot = rootOf(root)
	proofs := []deneb.KZGProof{}
	for i := 0; i < extra; i++ {
		var p deneb.KZGProof
		p[0] = byte(i + 1)
		proofs = append(proofs, p)
	}
	p, err := core.NewVersionedProposal(&eth2api.VersionedProposal{
		Version: eth2spec.DataVersionDeneb,
		Deneb:   &eth2deneb.BlockContents{Block: blk, KZGProofs: proofs, Blobs: []deneb.Blob{}},
	})
	if err != nil {
		panic(err)
	}

	return p
}

func aggDataOf(slot, root int) *eth2p0.AttestationData {
	d := attDataOf(slot, root, 1, 1)
	return &d
}

func aggOf(slot, root, comm, bits int) core.VersionedAggregatedAttestation {
	cb := bitfield.NewBitvector64()
	cb.SetBitAt(uint64(comm), true)
	ab := bitfield.NewBitlist(16)
	for i := 0; i < 16; i++ {
		if bits&(1<<i) != 0 {
			ab.SetBitAt(uint64(i), true)
		}
	}

	return core.VersionedAggregatedAttestation{VersionedAttestation: eth2spec.VersionedAttestation{
		Version: eth2spec.DataVersionElectra,
		Electra: &electra.Attestation{AggregationBits: ab, Data: aggDataOf(slot, root), Signature: sigOf(bits), CommitteeBits: cb},
	}}
}

func conOf(slot, sub, bbr, bits int) core.SyncContribution {
	ab := bitfield.NewBitvector128()
	for i := 0; i < 16; i++ {
		if bits&(1<<i) != 0 {
			ab.SetBitAt(uint64(i), true)
		}
	}

	return core.NewSyncContribution(&altair.SyncCommitteeContribution{
		Slot: eth2p0.Slot(slot), BeaconBlockRoot: rootOf(bbr), SubcommitteeIndex: uint64(sub),
		AggregationBits: ab, Signature: sigOf(bits),
	})
}

func num(d map[string]any, k string) int { return drv.Num(d[k]) }

// unsignedOf builds one entry of the UnsignedDataSet.
func unsignedOf(kind, pk string, data []any, single bool) core.UnsignedData {
	d0 := data[0].(map[string]any)
	switch kind {
	case "att":
		return attOf(pk, d0)
	case "pro":
		return proOf(num(d0, "slot"), num(d0, "root"), num(d0, "extra"))
	case "agg":
		return aggOf(num(d0, "slot"), num(d0, "root"), num(d0, "comm"), num(d0, "bits"))
	case "con":
		if len(data) == 1 && single {
			return conOf(num(d0, "slot"), num(d0, "sub"), num(d0, "bbr"), num(d0, "bits")) // legacy singular form
		}
		var cs core.SyncContributions
		for _, x := range data {
			d := x.(map[string]any)
			cs = append(cs, conOf(num(d, "slot"), num(d, "sub"), num(d, "bbr"), num(d, "bits")))
		}

		return cs
	}
	panic("unknown kind " + kind)
}

func jsonOf(v any) string {
	b, err := json.Marshal(v)
	if err != nil {
		return "ERR:" + err.Error()
	}

	return string(b)
}

func unknown(v any) drv.Step {
	h := sha256.Sum256([]byte(fmt.Sprintf("%T:%s", v, jsonOf(v))))
	return drv.Step{"unknown": hex.EncodeToString(h[:6])}
}

func firstBit(bits interface{ BitAt(uint64) bool }, n int) int {
	for i := 0; i < n; i++ {
		if bits.BitAt(uint64(i)) {
			return i
		}
	}

	return -1
}

func bitsID(bits interface{ BitAt(uint64) bool }) int {
	id := 0
	for i := 0; i < 16; i++ {
		if bits.BitAt(uint64(i)) {
			id |= 1 << i
		}
	}

	return id
}

// contentOf names a returned object by its model content: the fields are decoded, the canonical object for them is
// rebuilt and must be identical to what was returned (otherwise the object is "unknown").
func contentOf(v any) (res drv.Step) {
	defer func() {
		if r := recover(); r != nil {
			res = drv.Step{"unknown": fmt.Sprint("panic:", r)}
		}
	}()
	switch x := v.(type) {
	case *eth2p0.AttestationData:
		if x == nil || x.Source == nil || x.Target == nil {
			return drv.Step{"unknown": "nil"}
		}
		slot, head, src, tgt := int(x.Slot), int(x.BeaconBlockRoot[0]), int(x.Source.Epoch), int(x.Target.Epoch)
		canon := attDataOf(slot, head, src, tgt)
		if canon.String() != x.String() {
			return unknown(x)
		}

		return drv.Step{"slot": slot, "head": head, "src": src, "tgt": tgt}
	case *eth2api.VersionedProposal:
		if x == nil || x.Deneb == nil || x.Deneb.Block == nil {
			return drv.Step{"unknown": "nil"}
		}
		slot, root, extra := int(x.Deneb.Block.Slot), int(x.Deneb.Block.ParentRoot[0]), len(x.Deneb.KZGProofs)
		canon := proOf(slot, root, extra)
		if jsonOf(canon.VersionedProposal) != jsonOf(*x) {
			return unknown(x)
		}

		return drv.Step{"slot": slot, "root": root, "extra": extra}
	case *eth2spec.VersionedAttestation:
		if x == nil || x.Electra == nil || x.Electra.Data == nil {
			return drv.Step{"unknown": "nil"}
		}
		a := x.Electra
		slot, root, comm, bits := int(a.Data.Slot), int(a.Data.BeaconBlockRoot[0]), firstBit(a.CommitteeBits, 64), bitsID(a.AggregationBits)
		canon := aggOf(slot, root, comm, bits)
		if jsonOf(canon.VersionedAttestation) != jsonOf(*x) {
			return unknown(x)
		}

		return drv.Step{"slot": slot, "root": root, "comm": comm, "bits": bits}
	case *altair.SyncCommitteeContribution:
		if x == nil {
			return drv.Step{"unknown": "nil"}
		}
		slot, sub, bbr, bits := int(x.Slot), int(x.SubcommitteeIndex), int(x.BeaconBlockRoot[0]), bitsID(x.AggregationBits)
		canon := conOf(slot, sub, bbr, bits)
		if jsonOf(canon.SyncCommitteeContribution) != jsonOf(*x) {
			return unknown(x)
		}

		return drv.Step{"slot": slot, "sub": sub, "bbr": bbr, "bits": bits}
	}

	return unknown(v)
}

// ---------------------------------------------------------------------------------------------------------------
// one run (= one trace)
// ---------------------------------------------------------------------------------------------------------------

// hookCtx signals when the Await* call reaches its select: ctx.Done() is evaluated there, i.e. after the query has
// been registered and db.mu released. No hook in the repository is needed.
type hookCtx struct {
	context.Context
	once  sync.Once
	reach func()
}

func (h *hookCtx) Done() <-chan struct{} {
	h.once.Do(h.reach)
	return h.Context.Done()
}

type query struct {
	id       int
	kind     string
	key      string // canonical key string (driver-side bookkeeping only)
	cancel   context.CancelFunc
	reached  chan struct{}
	returned chan struct{}
	waited   bool // a generous wait for it has expired once
	courtesy int
}

type run struct {
	t    *testing.T
	db   *dutydb.MemDB
	dl   *stubDL
	mu   sync.Mutex
	evs  []drv.Step
	qs   map[int]*query
	qmu  sync.Mutex
	nop  int
	pkOf map[core.PubKey]string
	// driver-side bookkeeping that only decides how long to WAIT for a return, never what is correct
	have       map[string]int // kind|key -> slot: provided by a Store that returned nil (and not expired+drained since)
	maybe      map[string]int // kind|key -> slot: contained in some Store
	pendingDel []drv.Step
	blocked    int
	bg         []chan struct{} // gate tier: Stores running in the background
	hung       atomic.Bool
}

func newRun(t *testing.T) *run {
	dl := newStub()
	return &run{t: t, dl: dl, db: dutydb.NewMemDB(dl), qs: map[int]*query{}, pkOf: map[core.PubKey]string{},
		have: map[string]int{}, maybe: map[string]int{}}
}

func (r *run) emit(ev drv.Step) {
	r.mu.Lock()
	ev["seq"] = len(r.evs)
	r.evs = append(r.evs, ev)
	r.mu.Unlock()
}

func (r *run) newOp() int {
	r.mu.Lock()
	defer r.mu.Unlock()
	r.nop++

	return r.nop
}

func keyStr(kind string, key map[string]any) string {
	ks := make([]string, 0, len(key))
	for k := range key {
		ks = append(ks, k)
	}
	sort.Strings(ks)
	s := kind
	for _, k := range ks {
		s += fmt.Sprintf("|%s=%d", k, drv.Num(key[k]))
	}

	return s
}

func slotKeyStr(kind string, slot int) string { return fmt.Sprintf("%s@%d", kind, slot) }

// keysOf: the query keys a datum provides (driver-side bookkeeping).
func keysOf(kind string, d map[string]any) []map[string]any {
	switch kind {
	case "att":
		return []map[string]any{{"slot": d["slot"], "comm": d["comm"]}, {"slot": d["slot"], "comm": 0}}
	case "pro":
		return []map[string]any{{"slot": d["slot"]}}
	case "agg":
		return []map[string]any{{"slot": d["slot"], "root": d["root"], "comm": d["comm"]}}
	case "con":
		return []map[string]any{{"slot": d["slot"], "sub": d["sub"], "bbr": d["bbr"]}}
	}

	return nil
}

// buildSet turns the entries of a Store step into the real UnsignedDataSet (and the query keys it provides).
func (r *run) buildSet(st drv.Step) (dm map[string]any, duty core.Duty, set core.UnsignedDataSet, entries []any, provided []string) {
	dm = st["duty"].(map[string]any)
	kind := drv.Str(dm["type"])
	duty = dutyOf(dm)
	set = core.UnsignedDataSet{}
	entries, _ = st["set"].([]any)
	for _, e := range entries {
		em := e.(map[string]any)
		pk := drv.Str(em["pk"])
		data := em["data"].([]any)
		cpk := corePK(pk)
		r.mu.Lock()
		r.pkOf[cpk] = pk
		r.mu.Unlock()
		set[cpk] = unsignedOf(kind, pk, data, drv.Num(em["single"]) == 1)
		for _, x := range data {
			for _, k := range keysOf(kind, x.(map[string]any)) {
				provided = append(provided, keyStr(kind, k))
			}
		}
	}

	return dm, duty, set, entries, provided
}

// storeAsync (gate tier): the Store runs in its own goroutine, which logs the return itself. gated: the deadliner's
// Add for this duty is held at the gate and the driver waits until the call sits there (or has returned);
// otherwise the call gets a grace period to return, which only decides when the driver goes on, never a verdict.
func (r *run) storeAsync(st drv.Step, gated bool) {
	dm, duty, set, entries, _ := r.buildSet(st)
	if gated {
		r.dl.arm(duty)
	}
	r.dl.mu.Lock()
	inAdd := r.dl.inAdd
	r.dl.mu.Unlock()
	op := r.newOp()
	done := make(chan struct{})
	r.bg = append(r.bg, done)
	r.emit(drv.Step{"ev": "StoreCall", "op": op, "duty": dm, "set": entries})
	go func() {
		err := r.db.Store(context.Background(), duty, set)
		res := "ok"
		if err != nil {
			res = "err"
		}
		r.emit(drv.Step{"ev": "StoreRet", "op": op, "res": res})
		close(done)
	}()
	if gated {
		select {
		case <-inAdd:
		case <-done:
		case <-time.After(2 * mustWait):
			r.hung.Store(true)
		}

		return
	}
	select {
	case <-done:
	case <-time.After(graceWait):
	}
}

// releaseGate lets the held Add return and waits for every background Store.
func (r *run) releaseGate() {
	r.dl.release()
	for _, d := range r.bg {
		select {
		case <-d:
		case <-time.After(2 * mustWait):
			r.hung.Store(true)
			return
		}
	}
	r.bg = nil
}

// awaitShort (gate tier): an Await* with a short-lived context: it returns what is there, or the context error.
func (r *run) awaitShort(st drv.Step) {
	r.await(st, false)
	r.qmu.Lock()
	q := r.qs[drv.Num(st["q"])]
	r.qmu.Unlock()
	select {
	case <-q.returned:
		return
	case <-time.After(shortCtx):
	}
	r.cancelQ(q.id, true)
}

func (r *run) store(st drv.Step) {
	dm, duty, set, entries, provided := r.buildSet(st)
	kind := drv.Str(dm["type"])
	op := r.newOp()
	r.emit(drv.Step{"ev": "StoreCall", "op": op, "duty": dm, "set": entries})
	r.dl.mu.Lock()
	r.dl.lastAdd = "none"
	r.dl.mu.Unlock()
	errCh := make(chan error, 1)
	go func() { errCh <- r.db.Store(context.Background(), duty, set) }()
	var err error
	select {
	case err = <-errCh:
	case <-time.After(2 * mustWait):
		r.hung.Store(true)
		return
	}
	res := "ok"
	if err != nil {
		res = "err"
	}
	ev := drv.Step{"ev": "StoreRet", "op": op, "res": res}
	if st["conc"] == nil {
		r.dl.mu.Lock()
		ev["dl"] = r.dl.lastAdd
		r.dl.mu.Unlock()
	}
	r.emit(ev)
	if st["conc"] != nil {
		return
	}
	// sequential driver: how long to look for returns
	slot := drv.Num(dm["slot"])
	for _, k := range provided {
		r.maybe[k] = slot
	}
	if err != nil {
		return // a failed Store resolves nobody
	}
	for _, k := range provided {
		r.have[k] = slot
	}
	r.observe(kind)
	for _, d := range r.pendingDel { // a successful Store has drained the deadliner channel
		pre, dslot := drv.Str(d["type"])+"|", drv.Num(d["slot"])
		for _, m := range []map[string]int{r.have, r.maybe} {
			for k, s := range m {
				if s == dslot && len(k) >= len(pre) && k[:len(pre)] == pre {
					delete(m, k)
				}
			}
		}
	}
	r.pendingDel = nil
}

// observe waits for the outstanding queries of one kind that the bookkeeping expects to return.
func (r *run) observe(kind string) {
	r.qmu.Lock()
	var qs []*query
	for _, q := range r.qs {
		if q.kind == kind {
			qs = append(qs, q)
		}
	}
	r.qmu.Unlock()
	sort.Slice(qs, func(i, j int) bool { return qs[i].id < qs[j].id })
	for _, q := range qs {
		r.waitFor(q)
	}
}

func has(m map[string]int, k string) bool {
	_, ok := m[k]
	return ok
}

func isDone(ch chan struct{}) bool {
	select {
	case <-ch:
		return true
	default:
		return false
	}
}

// waitFor: a query whose key a successful Store has provided gets the generous wait (once); one whose key was only
// part of a failed Store gets a short courtesy wait (twice at most), which only influences where its Return is logged.
func (r *run) waitFor(q *query) {
	if isDone(q.returned) || r.hung.Load() {
		return
	}
	k := q.kind + "|" + q.key
	switch {
	case has(r.have, k) && !q.waited:
		select {
		case <-q.returned:
		case <-time.After(mustWait):
			q.waited = true
			r.blocked++
			r.emit(drv.Step{"ev": "Blocked", "q": q.id})
		}
	case has(r.maybe, k) && q.courtesy < 2:
		q.courtesy++
		select {
		case <-q.returned:
		case <-time.After(courtesyWait):
		}
	}
}

func (r *run) await(st drv.Step, seqMode bool) {
	id := drv.Num(st["q"])
	kind := drv.Str(st["kind"])
	key := st["key"].(map[string]any)
	ctx, cancel := context.WithCancel(context.Background())
	q := &query{id: id, kind: kind, key: keyStr(kind, key)[len(kind)+1:], cancel: cancel,
		reached: make(chan struct{}), returned: make(chan struct{})}
	r.emit(drv.Step{"ev": "AwaitCall", "q": id, "kind": kind, "key": key})
	r.qmu.Lock()
	r.qs[id] = q
	r.qmu.Unlock()
	hc := &hookCtx{Context: ctx, reach: func() {
		r.emit(drv.Step{"ev": "AwaitReg", "q": id})
		close(q.reached)
	}}
	slot := uint64(drv.Num(key["slot"]))
	go func() {
		var (
			v   any
			err error
		)
		switch kind {
		case "att":
			v, err = r.db.AwaitAttestation(hc, slot, uint64(drv.Num(key["comm"])))
		case "pro":
			v, err = r.db.AwaitProposal(hc, slot)
		case "agg":
			root, herr := aggDataOf(int(slot), drv.Num(key["root"])).HashTreeRoot()
			if herr != nil {
				panic(herr)
			}
			v, err = r.db.AwaitAggAttestation(hc, slot, root, eth2p0.CommitteeIndex(drv.Num(key["comm"])))
		case "con":
			v, err = r.db.AwaitSyncContribution(hc, slot, uint64(drv.Num(key["sub"])), rootOf(drv.Num(key["bbr"])))
		}
		var res drv.Step
		switch {
		case err == nil:
			res = contentOf(v)
		case errors.Is(err, context.Canceled):
			res = drv.Step{"err": "ctx"}
		default:
			res = drv.Step{"err": "other: " + err.Error()}
		}
		r.emit(drv.Step{"ev": "Return", "q": id, "res": res})
		close(q.returned)
	}()
	if !seqMode {
		return
	}
	select {
	case <-q.reached:
	case <-q.returned: // returned without ever evaluating ctx.Done(): the trace shows it
	case <-time.After(2 * mustWait):
		r.hung.Store(true)
		return
	}
	r.waitFor(q)
}

func (r *run) cancelQ(id int, seqMode bool) {
	r.qmu.Lock()
	q := r.qs[id]
	r.qmu.Unlock()
	if q == nil {
		return
	}
	r.emit(drv.Step{"ev": "Cancel", "q": id})
	q.cancel()
	if !seqMode {
		return
	}
	select { // a cancelled query must return
	case <-q.returned:
	case <-time.After(2 * mustWait):
		r.hung.Store(true)
	}
}

func (r *run) expire(st drv.Step, seqMode bool) {
	dm := st["duty"].(map[string]any)
	op := r.newOp()
	r.emit(drv.Step{"ev": "ExpireCall", "op": op, "duty": dm})
	pushed := r.dl.expire(dutyOf(dm))
	r.emit(drv.Step{"ev": "ExpireRet", "op": op})
	if seqMode && pushed {
		r.pendingDel = append(r.pendingDel, dm)
	}
}

func (r *run) pubkey(st drv.Step) {
	key := st["key"].(map[string]any)
	op := r.newOp()
	r.emit(drv.Step{"ev": "PubKeyCall", "op": op, "key": key})
	pk, err := r.db.PubKeyByAttestation(context.Background(), uint64(drv.Num(key["slot"])), uint64(drv.Num(key["comm"])), uint64(drv.Num(key["val"])))
	res := "notfound"
	if err == nil {
		r.mu.Lock()
		name, ok := r.pkOf[pk]
		r.mu.Unlock()
		if ok {
			res = name
		} else {
			res = "unknown:" + string(pk)
		}
	}
	r.emit(drv.Step{"ev": "PubKeyRet", "op": op, "res": res})
}

func (r *run) step(st drv.Step, seqMode bool) {
	switch drv.Str(st["op"]) {
	case "Store":
		if !seqMode {
			st["conc"] = true
		}
		r.store(st)
	case "Await":
		r.await(st, seqMode)
	case "Cancel":
		r.cancelQ(drv.Num(st["q"]), seqMode)
	case "Expire":
		r.expire(st, seqMode)
	case "PubKey":
		r.pubkey(st)
	case "StoreGated":
		r.storeAsync(st, true)
	case "StoreBg":
		r.storeAsync(st, false)
	case "Release":
		r.releaseGate()
	case "AwaitShort":
		r.awaitShort(st)
	case "Yield":
		runtime.Gosched()
	default:
		r.t.Fatalf("unknown step %v", st)
	}
}

// finish: every query still outstanding is cancelled and must return.
func (r *run) finish() {
	r.releaseGate()
	r.qmu.Lock()
	var qs []*query
	for _, q := range r.qs {
		qs = append(qs, q)
	}
	r.qmu.Unlock()
	sort.Slice(qs, func(i, j int) bool { return qs[i].id < qs[j].id })
	for _, q := range qs {
		if r.hung.Load() {
			break
		}
		if isDone(q.returned) {
			continue
		}
		r.emit(drv.Step{"ev": "Cancel", "q": q.id})
		q.cancel()
		select {
		case <-q.returned:
		case <-time.After(2 * mustWait):
			r.hung.Store(true)
		}
	}
	for _, q := range qs {
		q.cancel()
	}
}

// concurrent tier: several goroutines drive the object; at the end (all Stores have returned) the queries whose key
// was provided by a successful Store of a duty that the schedule never expires are given the generous wait.
func (r *run) concurrent(st drv.Step) {
	threads := st["threads"].([]any)
	var wg sync.WaitGroup
	start := make(chan struct{})
	for _, th := range threads {
		steps := th.([]any)
		wg.Add(1)
		go func() {
			defer wg.Done()
			<-start
			for _, s := range steps {
				if r.hung.Load() {
					return
				}
				r.step(s.(map[string]any), false)
			}
		}()
	}
	close(start)
	wg.Wait()
	if r.hung.Load() {
		return
	}
	// bookkeeping from what was observed
	expired := map[string]bool{}
	r.mu.Lock()
	calls := map[int]drv.Step{}
	for _, e := range r.evs {
		switch drv.Str(e["ev"]) {
		case "ExpireCall":
			d := e["duty"].(map[string]any)
			expired[slotKeyStr(drv.Str(d["type"]), drv.Num(d["slot"]))] = true
		case "StoreCall":
			calls[drv.Num(e["op"])] = e
		}
	}
	for _, e := range r.evs {
		if drv.Str(e["ev"]) != "StoreRet" || drv.Str(e["res"]) != "ok" {
			continue
		}
		c := calls[drv.Num(e["op"])]
		d := c["duty"].(map[string]any)
		kind := drv.Str(d["type"])
		if expired[slotKeyStr(kind, drv.Num(d["slot"]))] {
			continue
		}
		for _, en := range c["set"].([]any) {
			for _, x := range en.(map[string]any)["data"].([]any) {
				for _, k := range keysOf(kind, x.(map[string]any)) {
					r.have[keyStr(kind, k)] = drv.Num(d["slot"])
				}
			}
		}
	}
	r.mu.Unlock()
	r.qmu.Lock()
	var qs []*query
	for _, q := range r.qs {
		qs = append(qs, q)
	}
	r.qmu.Unlock()
	sort.Slice(qs, func(i, j int) bool { return qs[i].id < qs[j].id })
	for _, q := range qs {
		select {
		case <-q.reached:
		case <-q.returned:
		case <-time.After(2 * mustWait):
			r.hung.Store(true)
			return
		}
		r.waitFor(q)
	}
}

func runOne(t *testing.T, tr *drv.Tracer, sid int, sched []drv.Step) *run {
	r := newRun(t)
	mode := "seq"
	if len(sched) > 0 && drv.Str(sched[0]["op"]) == "Conc" {
		mode = "conc"
	}
	for _, st := range sched {
		if drv.Str(st["op"]) == "StoreGated" {
			mode = "gate"
		}
	}
	r.emit(drv.Step{"ev": "Reset", "sid": sid, "mode": mode})
	for _, st := range sched {
		if r.hung.Load() {
			break
		}
		if mode == "conc" {
			r.concurrent(st)
		} else {
			r.step(st, true)
		}
	}
	r.finish()
	if r.hung.Load() {
		r.emit(drv.Step{"ev": "Hang"})
	}
	r.mu.Lock()
	evs := append([]drv.Step(nil), r.evs...)
	r.mu.Unlock()
	for _, e := range evs {
		tr.Emit(e)
	}

	return r
}

func TestExec(t *testing.T) {
	drv.QuietLogs(t)
	scheds := drv.ReadSchedules(t)
	tr := drv.NewTracer(t)
	defer tr.Close()
	rep, _ := strconv.Atoi(os.Getenv("C06_REPEAT")) // concurrent schedules are executed this often (default once)
	blocked := 0
	for i, s := range scheds {
		n := 1
		if len(s) > 0 && drv.Str(s[0]["op"]) == "Conc" && rep > 1 {
			n = rep
		}
		if len(scheds) == 1 {
			n = 4 // a single schedule is a re-execution or a replay: give the unlogged Go map orders a chance to recur
		}
		for k := 0; k < n; k++ {
			r := runOne(t, tr, i, s)
			blocked += r.blocked
			if r.hung.Load() || blocked >= maxBlocked {
				return // a hung or repeatedly blocking component: stop here, every further schedule would wait again
			}
		}
	}
}
