package c20

// Standalone reproductions of the two C20 defects found on the pinned tree (not run by ./check; run with
// `go test -tags verif -run TestRepro ./c20` in /verif/harness). They FAIL on a tree without
// pending_fixes/C20-shared-slices.diff resp. C20-straddling-fetch.diff and pass with them.

import (
	"context"
	"sync/atomic"
	"testing"

	eth2v1 "github.com/attestantio/go-eth2-client/api/v1"
	eth2p0 "github.com/attestantio/go-eth2-client/spec/phase0"

	"github.com/obolnetwork/charon/app/eth2wrap"
	"github.com/obolnetwork/charon/testutil/beaconmock"
)

func TestReproSharedSlices(t *testing.T) {
	ctx := context.Background()
	bmock, err := beaconmock.New(ctx)
	if err != nil {
		t.Fatal(err)
	}
	defer bmock.Close()
	bmock.SyncCommitteeDutiesFunc = func(context.Context, eth2p0.Epoch, []eth2p0.ValidatorIndex) ([]*eth2v1.SyncCommitteeDuty, error) {
		return []*eth2v1.SyncCommitteeDuty{{ValidatorIndex: 1, ValidatorSyncCommitteeIndices: []eth2p0.CommitteeIndex{10, 20}}}, nil
	}
	bmock.AttesterDutiesFunc = func(context.Context, eth2p0.Epoch, []eth2p0.ValidatorIndex) ([]*eth2v1.AttesterDuty, error) {
		return []*eth2v1.AttesterDuty{{ValidatorIndex: 1, Slot: 160}}, nil
	}
	c := eth2wrap.NewDutiesCache(bmock, nil)
	idx := []eth2p0.ValidatorIndex{1}

	r1, _ := c.SyncCommDutiesCache(ctx, 5, idx)
	r1.Duties[0].ValidatorSyncCommitteeIndices[0] = 999 // the first caller writes to ITS answer
	r2, _ := c.SyncCommDutiesCache(ctx, 5, idx)
	if got := r2.Duties[0].ValidatorSyncCommitteeIndices[0]; got != 10 {
		t.Errorf("second caller sees the first caller's write: ValidatorSyncCommitteeIndices[0]=%d, beacon node says 10", got)
	}
	r2.Duties[0].ValidatorSyncCommitteeIndices[1] = 888 // a cache-hit answer is written to
	r3, _ := c.SyncCommDutiesCache(ctx, 5, idx)
	if got := r3.Duties[0].ValidatorSyncCommitteeIndices[1]; got != 20 {
		t.Errorf("third caller sees the second caller's write: ValidatorSyncCommitteeIndices[1]=%d, beacon node says 20", got)
	}

	a1, _ := c.AttesterDutiesCache(ctx, 5, idx)
	a1.Metadata["written_by_caller_1"] = true
	a2, _ := c.AttesterDutiesCache(ctx, 5, idx)
	if _, ok := a2.Metadata["written_by_caller_1"]; ok {
		t.Errorf("second caller's Metadata contains the first caller's write: %v", a2.Metadata)
	}
}

func TestReproStraddlingFetch(t *testing.T) {
	ctx := context.Background()
	bmock, err := beaconmock.New(ctx)
	if err != nil {
		t.Fatal(err)
	}
	defer bmock.Close()
	var (
		ver     atomic.Int64 // chain version: bumped by the "reorg"
		calls   atomic.Int64
		entered = make(chan struct{})
		gate    = make(chan struct{})
	)
	bmock.AttesterDutiesFunc = func(context.Context, eth2p0.Epoch, []eth2p0.ValidatorIndex) ([]*eth2v1.AttesterDuty, error) {
		d := []*eth2v1.AttesterDuty{{ValidatorIndex: 1, Slot: eth2p0.Slot(160 + ver.Load())}} // answer computed now
		if calls.Add(1) == 1 {
			close(entered)
			<-gate // ... and delivered later
		}
		return d, nil
	}
	c := eth2wrap.NewDutiesCache(bmock, nil)
	idx := []eth2p0.ValidatorIndex{1}
	done := make(chan struct{})
	go func() {
		_, _ = c.AttesterDutiesCache(ctx, 5, idx)
		close(done)
	}()
	<-entered
	ver.Store(1)              // reorg back to epoch 4: duties of epoch 5 change
	c.InvalidateCache(ctx, 4) // ... and the cache is told so; the call returns
	close(gate)               // now the pre-reorg answer reaches the cache
	<-done
	r, _ := c.AttesterDutiesCache(ctx, 5, idx) // a request that starts strictly after InvalidateCache returned
	if got := r.Duties[0].Slot; got != 161 {
		t.Errorf("request started after InvalidateCache returned is served pre-reorg duty: slot %d, beacon node says 161 (beacon calls: %d)", got, calls.Load())
	}
}
