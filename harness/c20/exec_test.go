// Package c20 executes DutiesCache schedules on the real eth2wrap.DutiesCache over a gated beacon mock and
// records what happened. It contains no expected values: the TLA+ trace spec is the only oracle.
package c20

import (
	"context"
	"errors"
	"sync"
	"testing"
	"time"

	eth2api "github.com/attestantio/go-eth2-client/api"
	eth2v1 "github.com/attestantio/go-eth2-client/api/v1"
	eth2p0 "github.com/attestantio/go-eth2-client/spec/phase0"

	"github.com/obolnetwork/charon/app/eth2wrap"
	"github.com/obolnetwork/charon/testutil/beaconmock"

	"verifharness/drv"
)

const (
	wait    = 10 * time.Second // "must have happened" wait: only exhausted by a real hang
	corrupt = -1               // model version of a value that does not decode (e.g. written to by another caller)
)

// ---- model <-> real values -------------------------------------------------------------------

func pk(x int) (k eth2p0.BLSPubKey) {
	for i := range k {
		k[i] = byte(x)
	}
	return k
}

type mduty struct{ X, J, V int }

func propDuty(e, x, j, v int) *eth2v1.ProposerDuty {
	return &eth2v1.ProposerDuty{PubKey: pk(x), Slot: eth2p0.Slot(e*32 + (j-1)*8 + v), ValidatorIndex: eth2p0.ValidatorIndex(x)}
}

func decProp(e int, d *eth2v1.ProposerDuty) mduty {
	x, s := int(d.ValidatorIndex), int(d.Slot)
	m := mduty{X: x, J: (s%32)/8 + 1, V: s % 8}
	if d.PubKey != pk(x) || s/32 != e {
		m.V = corrupt
	}
	return m
}

func attDuty(e, x, j, v int) *eth2v1.AttesterDuty {
	return &eth2v1.AttesterDuty{
		PubKey: pk(x), Slot: eth2p0.Slot(e*32 + (j-1)*8 + v), ValidatorIndex: eth2p0.ValidatorIndex(x),
		CommitteeIndex: eth2p0.CommitteeIndex(v + 1), CommitteeLength: 128, CommitteesAtSlot: 4, ValidatorCommitteeIndex: uint64(x),
	}
}

func decAtt(e int, d *eth2v1.AttesterDuty) mduty {
	x, s := int(d.ValidatorIndex), int(d.Slot)
	m := mduty{X: x, J: (s%32)/8 + 1, V: s % 8}
	if d.PubKey != pk(x) || s/32 != e || int(d.CommitteeIndex) != m.V+1 || d.CommitteeLength != 128 ||
		d.CommitteesAtSlot != 4 || d.ValidatorCommitteeIndex != uint64(x) {
		m.V = corrupt
	}
	return m
}

func syncDuty(e, x, j, v int) *eth2v1.SyncCommitteeDuty {
	a := e*1000 + x*10 + v
	return &eth2v1.SyncCommitteeDuty{
		PubKey: pk(x), ValidatorIndex: eth2p0.ValidatorIndex(x),
		ValidatorSyncCommitteeIndices: []eth2p0.CommitteeIndex{eth2p0.CommitteeIndex(a), eth2p0.CommitteeIndex(a + 500*j)},
	}
}

func decSync(e int, d *eth2v1.SyncCommitteeDuty) mduty {
	x := int(d.ValidatorIndex)
	m := mduty{X: x, J: 1, V: corrupt}
	idx := d.ValidatorSyncCommitteeIndices
	if d.PubKey != pk(x) || len(idx) != 2 {
		return m
	}
	a, b := int(idx[0]), int(idx[1])
	if a/1000 != e || (a/10)%100 != x || b <= a || (b-a)%500 != 0 {
		return m
	}
	m.J, m.V = (b-a)/500, a%10
	return m
}

func mkMeta(e, v int) map[string]any {
	var root eth2p0.Root
	root[0], root[1] = byte(e), byte(v)
	return map[string]any{"execution_optimistic": false, "dependent_root": root}
}

func decMeta(e int, m map[string]any) int {
	if m == nil {
		return -2
	}
	root, ok1 := m["dependent_root"].(eth2p0.Root)
	opt, ok2 := m["execution_optimistic"].(bool)
	if len(m) != 2 || !ok1 || !ok2 || opt || int(root[0]) != e {
		return corrupt
	}
	return int(root[1])
}

// ---- gated beacon node -----------------------------------------------------------------------

type reqKey struct{}

type request struct {
	id       int
	kind     string
	epoch    int
	arrive   chan struct{} // mock -> driver: the beacon call arrived (FetchCall logged)
	gateA    chan struct{} // driver -> mock: compute the answer now
	computed chan struct{} // mock -> driver: answer computed (Compute logged)
	gateB    chan struct{} // driver -> mock: return to the cache code
	done     chan struct{} // goroutine -> driver: call returned (Ret logged)
	phase    string        // driver's view: "run" | "atA" | "computed" | "done"
	fail     bool          // driver -> mock (written before gateA is opened): fail this beacon call
}

// errBN is what the mock returns for a beacon call the schedule lets fail.
var errBN = errors.New("beacon node unavailable (scheduled failure)")

type asgKey struct {
	k       string
	e, x, v int
}

// gatedBN is the real beaconmock.Mock with the three duty endpoints replaced by a versioned truth table whose
// calls block until the driver releases them.
type gatedBN struct {
	beaconmock.Mock

	tr  *drv.Tracer
	mu  sync.Mutex
	tv  map[int]int // truth version per epoch (default 0)
	asg map[asgKey]int
}

func (g *gatedBN) gate(ctx context.Context, kind string, epoch eth2p0.Epoch, idxs []eth2p0.ValidatorIndex) (*request, int) {
	rq, _ := ctx.Value(reqKey{}).(*request)
	if rq == nil {
		panic("beacon call without request")
	}
	l := make([]int, 0, len(idxs))
	for _, i := range idxs {
		l = append(l, int(i))
	}
	g.tr.Emit(drv.Step{"ev": "FetchCall", "r": rq.id, "k": kind, "e": int(epoch), "idxs": l})
	rq.arrive <- struct{}{}
	<-rq.gateA
	g.mu.Lock()
	v := g.tv[int(epoch)]
	g.mu.Unlock()
	return rq, v
}

func (g *gatedBN) release(rq *request, v int) {
	g.tr.Emit(drv.Step{"ev": "Compute", "r": rq.id, "v": v})
	rq.computed <- struct{}{}
	<-rq.gateB
}

// releaseFail is release for a call the schedule lets fail: no answer is computed.
func (g *gatedBN) releaseFail(rq *request) {
	g.tr.Emit(drv.Step{"ev": "Fail", "r": rq.id})
	rq.computed <- struct{}{}
	<-rq.gateB
}

func (g *gatedBN) ProposerDuties(ctx context.Context, opts *eth2api.ProposerDutiesOpts) (*eth2api.Response[[]*eth2v1.ProposerDuty], error) {
	rq, v := g.gate(ctx, "prop", opts.Epoch, opts.Indices)
	if rq.fail {
		g.releaseFail(rq)
		return nil, errBN
	}
	e := int(opts.Epoch)
	data := []*eth2v1.ProposerDuty{}
	for _, i := range opts.Indices {
		for j := 1; j <= g.asg[asgKey{"prop", e, int(i), v}]; j++ {
			data = append(data, propDuty(e, int(i), j, v))
		}
	}
	g.release(rq, v)
	return &eth2api.Response[[]*eth2v1.ProposerDuty]{Data: data, Metadata: mkMeta(e, v)}, nil
}

func (g *gatedBN) AttesterDuties(ctx context.Context, opts *eth2api.AttesterDutiesOpts) (*eth2api.Response[[]*eth2v1.AttesterDuty], error) {
	rq, v := g.gate(ctx, "att", opts.Epoch, opts.Indices)
	if rq.fail {
		g.releaseFail(rq)
		return nil, errBN
	}
	e := int(opts.Epoch)
	data := []*eth2v1.AttesterDuty{}
	for _, i := range opts.Indices {
		for j := 1; j <= g.asg[asgKey{"att", e, int(i), v}]; j++ {
			data = append(data, attDuty(e, int(i), j, v))
		}
	}
	g.release(rq, v)
	return &eth2api.Response[[]*eth2v1.AttesterDuty]{Data: data, Metadata: mkMeta(e, v)}, nil
}

func (g *gatedBN) SyncCommitteeDuties(ctx context.Context, opts *eth2api.SyncCommitteeDutiesOpts) (*eth2api.Response[[]*eth2v1.SyncCommitteeDuty], error) {
	rq, v := g.gate(ctx, "sync", opts.Epoch, opts.Indices)
	if rq.fail {
		g.releaseFail(rq)
		return nil, errBN
	}
	e := int(opts.Epoch)
	data := []*eth2v1.SyncCommitteeDuty{}
	for _, i := range opts.Indices {
		for j := 1; j <= g.asg[asgKey{"sync", e, int(i), v}]; j++ {
			data = append(data, syncDuty(e, int(i), j, v))
		}
	}
	g.release(rq, v)
	return &eth2api.Response[[]*eth2v1.SyncCommitteeDuty]{Data: data, Metadata: mkMeta(e, v)}, nil
}

// ---- answers (kept so that a later Mutate step can write to them) ----------------------------------

type answer struct {
	prop *eth2wrap.ProposerDutyWithMeta
	att  *eth2wrap.AttesterDutyWithMeta
	sync *eth2wrap.SyncDutyWithMeta
}

func scribbleMeta(m map[string]any) {
	for k := range m {
		m[k] = "MUTATED"
	}
	if m != nil {
		m["mutated"] = true
	}
}

// mutate writes to every struct, slice and map reachable from the answer, as a caller is free to do
// (validatorapi replaces PubKey in place).
func (a answer) mutate() {
	switch {
	case a.prop != nil:
		for _, d := range a.prop.Duties {
			d.PubKey, d.Slot, d.ValidatorIndex = pk(0xEE), d.Slot+7777, d.ValidatorIndex+1000
		}
		scribbleMeta(a.prop.Metadata)
	case a.att != nil:
		for _, d := range a.att.Duties {
			d.PubKey, d.Slot, d.ValidatorIndex, d.CommitteeIndex = pk(0xEE), d.Slot+7777, d.ValidatorIndex+1000, 99
		}
		scribbleMeta(a.att.Metadata)
	case a.sync != nil:
		for _, d := range a.sync.Duties {
			d.PubKey, d.ValidatorIndex = pk(0xEE), d.ValidatorIndex+1000
			for i := range d.ValidatorSyncCommitteeIndices {
				d.ValidatorSyncCommitteeIndices[i] = 77777
			}
		}
		scribbleMeta(a.sync.Metadata)
	}
}

// ---- driver ----------------------------------------------------------------------------------

type driver struct {
	t       *testing.T
	tr      *drv.Tracer
	bn      *gatedBN
	cache   *eth2wrap.DutiesCache
	ctx     context.Context
	reqs    map[int]*request
	mu      sync.Mutex
	answers []answer
	hung    bool
}

// toIdx builds the caller's index slice; like any append-built slice it has spare capacity.
func toIdx(v any) []eth2p0.ValidatorIndex {
	l := v.([]any)
	out := make([]eth2p0.ValidatorIndex, 0, len(l)+3)
	for _, x := range l {
		out = append(out, eth2p0.ValidatorIndex(drv.Num(x)))
	}
	return out
}

// reuseArg is what a caller is free to do with ITS index slice once the call has returned: overwrite the whole
// backing array (e.g. to build the next request in place). The cache must not have kept a reference to it.
func reuseArg(idxs []eth2p0.ValidatorIndex) {
	full := idxs[:cap(idxs)]
	for i := range full {
		full[i] = eth2p0.ValidatorIndex(9000 + i)
	}
}

// startCall logs the Call event and returns the function that performs the call (and logs Ret).
func (d *driver) startCall(st drv.Step) (*request, func()) {
	id, kind, e := drv.Num(st["r"]), drv.Str(st["k"]), drv.Num(st["e"])
	if old, ok := d.reqs[id]; ok && old.phase != "done" {
		return nil, nil // request id still in flight: step not applicable
	}
	idxs := toIdx(st["S"])
	rq := &request{
		id: id, kind: kind, epoch: e, phase: "run",
		arrive: make(chan struct{}, 8), gateA: make(chan struct{}), computed: make(chan struct{}, 8),
		gateB: make(chan struct{}), done: make(chan struct{}, 1),
	}
	d.reqs[id] = rq
	d.tr.Emit(drv.Step{"ev": "Call", "r": id, "k": kind, "e": e, "S": st["S"]})
	ctx := context.WithValue(d.ctx, reqKey{}, rq)
	return rq, func() {
		var (
			ans  answer
			out  = []drv.Step{}
			mv   int
			errs string
		)
		switch kind {
		case "prop":
			r, err := d.cache.ProposerDutiesCache(ctx, eth2p0.Epoch(e), idxs)
			if err != nil {
				errs = err.Error()
			}
			for _, x := range r.Duties {
				m := decProp(e, x)
				out = append(out, drv.Step{"x": m.X, "j": m.J, "v": m.V})
			}
			mv, ans.prop = decMeta(e, r.Metadata), &r
		case "att":
			r, err := d.cache.AttesterDutiesCache(ctx, eth2p0.Epoch(e), idxs)
			if err != nil {
				errs = err.Error()
			}
			for _, x := range r.Duties {
				m := decAtt(e, x)
				out = append(out, drv.Step{"x": m.X, "j": m.J, "v": m.V})
			}
			mv, ans.att = decMeta(e, r.Metadata), &r
		case "sync":
			r, err := d.cache.SyncCommDutiesCache(ctx, eth2p0.Epoch(e), idxs)
			if err != nil {
				errs = err.Error()
			}
			for _, x := range r.Duties {
				m := decSync(e, x)
				out = append(out, drv.Step{"x": m.X, "j": m.J, "v": m.V})
			}
			mv, ans.sync = decMeta(e, r.Metadata), &r
		}
		d.mu.Lock()
		d.answers = append(d.answers, ans)
		d.mu.Unlock()
		ev := drv.Step{"ev": "Ret", "r": id, "ans": out, "mv": mv}
		if errs != "" {
			ev["err"] = errs
		}
		d.tr.Emit(ev)
		reuseArg(idxs) // after the return (and after the answer was decoded and logged), before the next stimulus
		rq.done <- struct{}{}
	}
}

// settleCall waits until the request returned or is blocked in its beacon call.
func (d *driver) settleCall(rq *request) {
	select {
	case <-rq.done:
		rq.phase = "done"
	case <-rq.arrive:
		rq.phase = "atA"
	case <-time.After(wait):
		d.hung = true
	}
}

func (d *driver) settleComputed(rq *request) {
	select {
	case <-rq.computed:
		rq.phase = "computed"
	case <-time.After(wait):
		d.hung = true
	}
}

// op is one prepared stimulus: fire starts it (non-blocking), settle waits for its quiescence.
type op struct{ fire, settle func() }

func (d *driver) prepare(st drv.Step) *op {
	switch drv.Str(st["ev"]) {
	case "Call":
		rq, run := d.startCall(st)
		if rq == nil {
			return nil
		}
		return &op{fire: func() { go run() }, settle: func() { d.settleCall(rq) }}
	case "Compute":
		rq := d.reqs[drv.Num(st["r"])]
		if rq == nil || rq.phase != "atA" {
			return nil
		}
		rq.phase = "run"
		rq.fail = st["fail"] == true // the schedule's choice: the node fails this call instead of answering
		return &op{
			fire: func() {
				go func() {
					select {
					case rq.gateA <- struct{}{}:
					case <-time.After(wait):
					}
				}()
			},
			settle: func() { d.settleComputed(rq) },
		}
	case "Deliver":
		rq := d.reqs[drv.Num(st["r"])]
		if rq == nil || rq.phase != "computed" {
			return nil
		}
		rq.phase = "run"
		d.tr.Emit(drv.Step{"ev": "Deliver", "r": rq.id})
		return &op{
			fire: func() {
				go func() {
					select {
					case rq.gateB <- struct{}{}:
					case <-time.After(wait):
					}
				}()
			},
			settle: func() { d.settleCall(rq) }, // a second beacon call would show up as FetchCall (no spec step)
		}
	case "Invalidate":
		e0 := drv.Num(st["e0"])
		done := make(chan struct{})
		d.tr.Emit(drv.Step{"ev": "InvCall", "e0": e0})
		return &op{
			fire: func() {
				go func() {
					d.cache.InvalidateCache(d.ctx, eth2p0.Epoch(e0))
					d.tr.Emit(drv.Step{"ev": "InvRet"})
					close(done)
				}()
			},
			settle: func() { d.await(done) },
		}
	case "Trim":
		ep := drv.Num(st["ep"])
		done := make(chan struct{})
		d.tr.Emit(drv.Step{"ev": "TrimCall", "ep": ep})
		return &op{
			fire: func() {
				go func() {
					d.cache.Trim(eth2p0.Epoch(ep))
					d.tr.Emit(drv.Step{"ev": "TrimRet"})
					close(done)
				}()
			},
			settle: func() { d.await(done) },
		}
	}
	d.t.Fatalf("unknown step %v", st)
	return nil
}

func (d *driver) await(ch chan struct{}) {
	select {
	case <-ch:
	case <-time.After(wait):
		d.hung = true
	}
}

func (d *driver) step(st drv.Step) {
	switch drv.Str(st["ev"]) {
	case "Config":
	case "SetActive":
		if l, ok := st["idxs"].([]any); ok {
			d.cache.UpdateActiveValIndices(toIdx(l))
			d.tr.Emit(drv.Step{"ev": "SetActive", "n": len(l)})
		}
	case "Reorg":
		e0 := drv.Num(st["e0"])
		d.bn.mu.Lock()
		for e := e0 + 1; e <= 64; e++ {
			d.bn.tv[e]++
		}
		d.bn.mu.Unlock()
		d.tr.Emit(drv.Step{"ev": "Reorg", "e0": e0})
	case "Mutate":
		d.mu.Lock()
		i := len(d.answers) - 1 - drv.Num(st["a"])
		d.mu.Unlock()
		if i < 0 {
			return
		}
		d.answers[i].mutate()
		d.tr.Emit(drv.Step{"ev": "Mutate", "a": drv.Num(st["a"])})
	case "Par":
		// all call-type events are logged first, then the operations run concurrently; return-type events are
		// logged by the operations themselves as they complete
		var ops []*op
		for _, s := range st["steps"].([]any) {
			if o := d.prepare(s.(map[string]any)); o != nil {
				ops = append(ops, o)
			}
		}
		start := make(chan struct{})
		var wg sync.WaitGroup
		for _, o := range ops {
			wg.Add(1)
			go func() {
				defer wg.Done()
				<-start
				o.fire()
			}()
		}
		close(start)
		wg.Wait()
		for _, o := range ops {
			o.settle()
		}
	default:
		if o := d.prepare(st); o != nil {
			o.fire()
			o.settle()
		}
	}
}

func TestExec(t *testing.T) {
	drv.QuietLogs(t)
	scheds := drv.ReadSchedules(t)
	tr := drv.NewTracer(t)
	defer tr.Close()
	ctx, cancel := context.WithCancel(context.Background())
	defer cancel()
	mock, err := beaconmock.New(ctx)
	if err != nil {
		t.Fatal(err)
	}
	defer mock.Close()
	for i, s := range scheds {
		if hung := runOne(ctx, t, tr, mock, i, s); hung {
			break // a hung cache: stop here, the trace ends with a Hang event no spec step matches
		}
	}
}

func runOne(ctx context.Context, t *testing.T, tr *drv.Tracer, mock beaconmock.Mock, sid int, sched []drv.Step) bool {
	bn := &gatedBN{Mock: mock, tr: tr, tv: map[int]int{}, asg: map[asgKey]int{}}
	var table any = []any{}
	if len(sched) > 0 && drv.Str(sched[0]["ev"]) == "Config" {
		table = sched[0]["asg"]
		for _, a := range table.([]any) {
			m := a.(map[string]any)
			bn.asg[asgKey{drv.Str(m["k"]), drv.Num(m["e"]), drv.Num(m["x"]), drv.Num(m["v"])}] = drv.Num(m["n"])
		}
	}
	d := &driver{t: t, tr: tr, bn: bn, ctx: ctx, reqs: map[int]*request{}}
	// the node's ACTIVE validator set (what an index-less request stands for): the statement is about requests that name their
	// indices, so nothing an answer says may depend on it - the schedule sets and changes it freely (Config.active, SetActive)
	active := []eth2p0.ValidatorIndex{}
	if len(sched) > 0 && drv.Str(sched[0]["ev"]) == "Config" {
		if l, ok := sched[0]["active"].([]any); ok {
			active = toIdx(l)
		}
	}
	d.cache = eth2wrap.NewDutiesCache(bn, active)
	tr.Emit(drv.Step{"ev": "Reset", "sid": sid, "asg": table})
	for _, st := range sched {
		d.step(st)
		if d.hung {
			tr.Emit(drv.Step{"ev": "Hang"})
			return true
		}
	}
	// let every request still in flight finish (logged like any other step)
	for id := 1; id <= 64 && !d.hung; id++ {
		rq := d.reqs[id]
		if rq == nil {
			continue
		}
		if rq.phase == "atA" {
			d.step(drv.Step{"ev": "Compute", "r": id})
		}
		if rq.phase == "computed" && !d.hung {
			d.step(drv.Step{"ev": "Deliver", "r": id})
		}
	}
	if d.hung {
		tr.Emit(drv.Step{"ev": "Hang"})
	}
	return d.hung
}
