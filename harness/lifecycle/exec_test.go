// Package lifecycle executes Lifecycle schedules on the real app/lifecycle.Manager and records what happened.
//
// One schedule = one life cycle: hooks are registered (RegisterStart / RegisterStop) in the scheduled order, Run is
// called at time 0, the application context is cancelled at the scheduled time, late registrations are attempted at
// their times.  Every hook function follows the script of its schedule step (sleep / wait for its context / whichever
// comes first, then return nil / an error of its own / a wrapped context.Canceled) and records when it was entered
// (with which context: derived from the application context? which deadline?) and when and with what it returned.
//
// Everything runs inside a testing/synctest bubble: the clock is virtual (it moves only when every goroutine is
// blocked), so the recorded times are exact and the 10 s shutdown timeout costs nothing.  Events of different
// goroutines are serialised by one mutex; the cancel of the application context happens under that mutex together with
// its event, so that whatever is recorded later has really happened later.
//
// The executor holds no expectation: which hook may run when, and what Run has to return, is decided by
// specs/Lifecycle/LifecycleTrace.tla.
package lifecycle

import (
	"context"
	"errors"
	"fmt"
	"strings"
	"sync"
	"testing"
	"testing/synctest"
	"time"

	"github.com/obolnetwork/charon/app/lifecycle"
	"github.com/obolnetwork/charon/app/z"

	"verifharness/drv"
)

type appKey struct{}

// hookErr is the error of its own a scripted hook returns.
type hookErr struct {
	kind string
	id   int
}

func (e *hookErr) Error() string { return fmt.Sprintf("scripted failure of %s hook %d", e.kind, e.id) }

type script struct {
	ord  int
	typ  string
	wait string
	d    time.Duration
	res  string
	late string
}

func parse(h map[string]any) script {
	return script{ord: drv.Num(h["ord"]), typ: drv.Str(h["typ"]), wait: drv.Str(h["wait"]),
		d: time.Duration(drv.Num(h["d"])) * time.Millisecond, res: drv.Str(h["res"]), late: drv.Str(h["late"])}
}

func model(kind string, s script) drv.Step {
	typ := s.typ
	if kind == "stop" {
		typ = "stop"
	}

	return drv.Step{"ord": s.ord, "typ": typ, "wait": s.wait, "d": int(s.d / time.Millisecond), "res": s.res, "late": s.late}
}

func startType(typ string) lifecycle.HookStartType {
	switch typ {
	case "sync":
		return lifecycle.SyncBackground
	case "async_app":
		return lifecycle.AsyncAppCtx
	case "async_bg":
		return lifecycle.AsyncBackground
	default:
		return lifecycle.HookStartType(7) // not a declared type: RegisterStart takes it
	}
}

// run is one life cycle under observation.
type run struct {
	mu      sync.Mutex // serialises events (and the cancel of the application context with its event)
	tr      *drv.Tracer
	ended   bool
	genesis time.Time
	quit    chan struct{} // closed after End: releases whatever still sleeps or waits
	m       *lifecycle.Manager
}

func (x *run) ms() int { return int(time.Since(x.genesis) / time.Millisecond) }

// emit records one event; `now` (state that other goroutines change) is read inside the critical section, so that it
// is consistent with the position of the event in the trace.
func (x *run) emit(ev drv.Step, now ...func(drv.Step)) {
	x.mu.Lock()
	defer x.mu.Unlock()
	if x.ended {
		return
	}
	ev["t"] = x.ms()
	for _, f := range now {
		f(ev)
	}
	x.tr.Emit(ev)
}

// tryRegister attempts a registration on the manager and reports whether it panicked.
func (x *run) tryRegister(what string) (panicked bool) {
	defer func() {
		if recover() != nil {
			panicked = true
		}
	}()
	noop := lifecycle.HookFuncMin(func() {})
	if what == "start" {
		x.m.RegisterStart(lifecycle.AsyncAppCtx, lifecycle.OrderStart(0), noop)
	} else {
		x.m.RegisterStop(lifecycle.OrderStop(0), noop)
	}

	return false
}

// sleep returns false when the run was wound up meanwhile.
func (x *run) sleep(d time.Duration) bool {
	if d <= 0 {
		return true
	}
	tm := time.NewTimer(d)
	defer tm.Stop()
	select {
	case <-tm.C:
		return true
	case <-x.quit:
		return false
	}
}

func ctxErr(ctx context.Context) string {
	switch err := ctx.Err(); {
	case err == nil:
		return ""
	case errors.Is(err, context.Canceled):
		return "canceled"
	case errors.Is(err, context.DeadlineExceeded):
		return "deadline"
	default:
		return err.Error()
	}
}

// hook builds the scripted, recording hook function.
func (x *run) hook(kind string, id int, s script) lifecycle.IHookFunc {
	return lifecycle.HookFunc(func(ctx context.Context) error {
		enter := drv.Step{"ev": "Enter", "kind": kind, "id": id, "app": ctx.Value(appKey{}) != nil, "dl": -1,
			"late": s.late, "panicked": false}
		if dl, ok := ctx.Deadline(); ok {
			enter["dl"] = int(dl.Sub(x.genesis) / time.Millisecond)
		}
		if s.late != "none" {
			enter["panicked"] = x.tryRegister(s.late)
		}
		x.emit(enter)

		res := s.res
		switch s.wait {
		case "time":
			if !x.sleep(s.d) {
				return nil
			}
		case "ctx":
			select {
			case <-ctx.Done():
			case <-x.quit:
				return nil
			}
			if !x.sleep(s.d) {
				return nil
			}
		default: // "either"
			tm := time.NewTimer(s.d)
			select {
			case <-ctx.Done():
				res = "ctxerr"
			case <-tm.C:
			case <-x.quit:
				tm.Stop()
				return nil
			}
			tm.Stop()
		}
		x.emit(drv.Step{"ev": "Exit", "kind": kind, "id": id, "res": res}, func(ev drv.Step) { ev["cerr"] = ctxErr(ctx) })
		switch res {
		case "err":
			return &hookErr{kind, id}
		case "canceled":
			return fmt.Errorf("hook %s %d gave up: %w", kind, id, context.Canceled)
		case "ctxerr":
			return ctx.Err()
		default:
			return nil
		}
	})
}

func TestExec(t *testing.T) {
	drv.QuietLogs(t)
	scheds := drv.ReadSchedules(t)
	tr := drv.NewTracer(t)
	defer tr.Close()
	for i, s := range scheds {
		hung := false
		synctest.Test(t, func(t *testing.T) { hung = runOne(t, tr, i, s) })
		if hung {
			break // every further schedule would wait for the horizon again
		}
	}
}

func runOne(t *testing.T, tr *drv.Tracer, sid int, sched []drv.Step) (hung bool) {
	x := &run{tr: tr, genesis: time.Now(), quit: make(chan struct{}), m: new(lifecycle.Manager)}
	var (
		starts, stops []any
		startOrds     = map[int]bool{}
		stopOrds      = map[int]bool{}
		cancelAt      = -2
		lates         []any
		tail          = 1000
		horizon       = 30 * time.Second
	)
	type late struct {
		at   int
		what string
	}
	var lateList []late
	for _, st := range sched {
		switch drv.Str(st["ev"]) {
		case "Reg":
			s := parse(st["hook"].(map[string]any))
			kind := drv.Str(st["kind"])
			horizon += s.d
			if kind == "start" {
				starts = append(starts, model(kind, s))
				startOrds[s.ord] = true
				x.m.RegisterStart(startType(s.typ), lifecycle.OrderStart(s.ord), x.hook(kind, len(starts), s))
			} else {
				stops = append(stops, model(kind, s))
				stopOrds[s.ord] = true
				x.m.RegisterStop(lifecycle.OrderStop(s.ord), x.hook(kind, len(stops), s))
			}
		case "Cancel":
			cancelAt = drv.Num(st["at"])
			if cancelAt > 0 {
				horizon += time.Duration(cancelAt) * time.Millisecond
			}
		case "Late":
			lateList = append(lateList, late{drv.Num(st["at"]), drv.Str(st["what"])})
			lates = append(lates, drv.Step{"at": drv.Num(st["at"]), "what": drv.Str(st["what"])})
		case "Opt":
			tail = drv.Num(st["tail"])
		default:
			t.Fatalf("schedule %d: unknown step %v", sid, st)
		}
	}
	if starts == nil {
		starts = []any{}
	}
	if stops == nil {
		stops = []any{}
	}
	if lates == nil {
		lates = []any{}
	}
	tr.Emit(drv.Step{"ev": "Reset", "sid": sid, "starts": starts, "stops": stops, "cancelAt": cancelAt, "lates": lates})

	appCtx, cancel := context.WithCancel(context.WithValue(context.Background(), appKey{}, true))
	doCancel := func() {
		x.mu.Lock()
		defer x.mu.Unlock()
		if !x.ended {
			tr.Emit(drv.Step{"ev": "Cancel", "t": x.ms()})
		}
		cancel()
	}
	if cancelAt == -1 {
		doCancel()
	} else if cancelAt >= 0 {
		go func() {
			if x.sleep(time.Until(x.genesis.Add(time.Duration(cancelAt) * time.Millisecond))) {
				doCancel()
			}
		}()
	}
	for _, l := range lateList {
		go func() {
			if x.sleep(time.Until(x.genesis.Add(time.Duration(l.at) * time.Millisecond))) {
				x.emit(drv.Step{"ev": "Late", "what": l.what, "panicked": x.tryRegister(l.what)})
			}
		}()
	}

	done := make(chan struct{})
	go func() {
		defer close(done)
		x.emit(drv.Step{"ev": "Run"})
		var (
			err      error
			panicked any
		)
		func() {
			defer func() { panicked = recover() }()
			err = x.m.Run(appCtx)
		}()
		if panicked != nil {
			x.emit(drv.Step{"ev": "Panic", "what": fmt.Sprint(panicked)})
			return
		}
		x.emit(classify(err, startOrds, stopOrds))
	}()

	select {
	case <-done:
		// watch what the hooks that are still running do; End lies between two milliseconds: no event ties with it
		time.Sleep(time.Duration(tail)*time.Millisecond + 500*time.Microsecond)
	case <-time.After(horizon):
		hung = true
		x.emit(drv.Step{"ev": "Hang"})
	}
	x.mu.Lock()
	if !hung {
		tr.Emit(drv.Step{"ev": "End", "t": x.ms()})
	}
	x.ended = true
	x.mu.Unlock()
	cancel()
	close(x.quit)
	<-done

	return hung
}

// classify translates the error Run returned into an event: which kind of error, of which hook.
func classify(err error, startOrds, stopOrds map[int]bool) drv.Step {
	ev := drv.Step{"ev": "Ret", "kind": "none", "id": 0, "hk": "", "ord": -1, "text": ""}
	if err == nil {
		return ev
	}
	text := err.Error()
	ev["text"] = text
	if len(text) > 160 {
		ev["text"] = text[:160]
	}
	label := func(ords map[int]bool, name func(int) string) {
		for o := range ords {
			if z.ContainsField(err, z.Str("hook", name(o))) {
				ev["ord"] = o
			}
		}
	}
	startName := func(o int) string { return lifecycle.OrderStart(o).String() }
	stopName := func(o int) string { return lifecycle.OrderStop(o).String() }
	var he *hookErr
	if errors.As(err, &he) {
		ev["id"], ev["hk"] = he.id, he.kind
	}
	switch {
	case strings.HasPrefix(text, "start hook"):
		ev["kind"] = "start"
		label(startOrds, startName)
	case strings.HasPrefix(text, "stop hook"):
		ev["kind"] = "stop"
		label(stopOrds, stopName)
	case strings.HasPrefix(text, "shutdown timeout"):
		ev["kind"] = "timeout"
		label(stopOrds, stopName)
	case strings.HasPrefix(text, "unexpected hook type"):
		ev["kind"] = "type"
	default:
		ev["kind"] = "other"
	}

	return ev
}
