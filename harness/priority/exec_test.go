// Package priority executes Priority schedules on REAL core/priority.Component + core/infosync.Component stacks and
// records what they did (growth family "Priority", oracle: specs/Priority/PriorityTrace.tla).
//
// A schedule is [Cfg, stimulus*].  Cfg: n peers (model index = rank of the libp2p peer id string, which is the order
// calculateResult's sortInput uses), the subset that is real (priority.NewComponent + infosync.New each, wired to the
// driver through the injectable sendFunc / registerHandlerFunc / Consensus), minRequired, exchange timeout, deadlines,
// gated slots and the local version/protocol/proposal lists.  The other peers are scripted by the schedule: whatever
// they "send" is produced by a shadow REAL component of that identity (so it is signed exactly as a peer would), and
// optionally corrupted afterwards.
//
// Stimuli (logged before they are applied; a stimulus that does not apply to the driver's bookkeeping -- e.g. a response
// for a send that is not pending -- is skipped and not logged):
//
//	Trigger{i,s}                 infosync.Trigger(slot) on node i                    Prioritise{i,s,topics}  Component.Prioritise
//	DeliverReq{from,to,s}        a real node's pending request reaches the real destination's handler
//	DeliverResp{from,to,s}       the destination's answer goes back to the requester `from`
//	SendFail{from,to,s}          the requester's send returns an error
//	InjectReq{rid,as,to,msg,valid}   a scripted peer `as` sends msg to node `to`
//	InjectResp{from,to,s,msg,valid}  scripted peer `to` answers `from`'s pending request with msg
//	Advance{by}                  virtual time passes (testing/synctest)
//	Decide{i,s,by}               the consensus stub hands the proposal of `by` (first choice per slot sticks) to node i
//	Query{i,slot}                infosync.Protocols/Proposals/SyncContributionsSupported (logged with the answers)
//
// Effects, logged by the hooks when they happen: Send (sendFunc invoked), Handled (handler returned), Propose
// (Consensus.ProposePriority invoked), Output (Component subscriber called), Return (Trigger/Prioritise returned).
// Every schedule runs inside a testing/synctest bubble; synctest.Wait() after each stimulus is the quiescence barrier.
// The executor contains no expected values.
package priority

import (
	"context"
	"errors"
	"sort"
	"strings"
	"sync"
	"testing"
	"testing/synctest"
	"time"

	k1 "github.com/decred/dcrd/dcrec/secp256k1/v4"
	"github.com/libp2p/go-libp2p/core/host"
	"github.com/libp2p/go-libp2p/core/peer"
	"github.com/libp2p/go-libp2p/core/protocol"
	"google.golang.org/protobuf/proto"
	"google.golang.org/protobuf/types/known/anypb"
	"google.golang.org/protobuf/types/known/structpb"

	"github.com/obolnetwork/charon/app/version"
	"github.com/obolnetwork/charon/core"
	pbv1 "github.com/obolnetwork/charon/core/corepb/v1"
	"github.com/obolnetwork/charon/core/infosync"
	"github.com/obolnetwork/charon/core/priority"
	"github.com/obolnetwork/charon/p2p"
	"github.com/obolnetwork/charon/testutil"

	"verifharness/drv"
)

const tick = time.Second

type stubHost struct {
	host.Host

	id peer.ID
}

func (h stubHost) ID() peer.ID { return h.id }

type consStub struct {
	e    *env
	i    int
	subs []func(context.Context, core.Duty, *pbv1.PriorityResult) error
}

func (c *consStub) ProposePriority(_ context.Context, duty core.Duty, res *pbv1.PriorityResult) error {
	c.e.mu.Lock()
	if c.e.props[c.i] == nil {
		c.e.props[c.i] = map[int]*pbv1.PriorityResult{}
	}
	if _, ok := c.e.props[c.i][int(duty.Slot)]; !ok {
		c.e.props[c.i][int(duty.Slot)] = res
	}
	c.e.mu.Unlock()
	c.e.emit(drv.Step{"ev": "Propose", "i": c.i, "s": int(duty.Slot), "msgs": c.e.decodeMsgs(res.GetMsgs()),
		"topics": decodeTopicResults(res.GetTopics())})

	return nil
}

func (c *consStub) SubscribePriority(fn func(context.Context, core.Duty, *pbv1.PriorityResult) error) {
	c.subs = append(c.subs, fn)
}

type nopCons struct{}

func (nopCons) ProposePriority(context.Context, core.Duty, *pbv1.PriorityResult) error { return nil }
func (nopCons) SubscribePriority(func(context.Context, core.Duty, *pbv1.PriorityResult) error) {
}

type node struct {
	idx     int
	key     *k1.PrivateKey
	id      peer.ID
	real    bool
	comp    *priority.Component
	isync   *infosync.Component
	handler p2p.HandlerFunc
	cons    *consStub
	shadow  *priority.Component // produces signed messages of this identity for scripted sends
	capture chan *pbv1.PriorityMsg
}

type release struct {
	msg *pbv1.PriorityMsg
	err error
}

type sendRec struct {
	from, to, slot int
	req            *pbv1.PriorityMsg
	ch             chan release
	delivered      bool              // handed to the destination's handler
	resp           *pbv1.PriorityMsg // the handler's answer
	herr           bool              // the handler answered with an error
	done           bool              // sendFunc has returned
}

type env struct {
	t      *testing.T
	tr     *drv.Tracer
	mu     sync.Mutex
	closed bool
	ctx    context.Context
	t0     time.Time
	n      int
	nodes  []*node // index 1..n
	idxOf  map[string]int
	sends  map[[3]int]*sendRec
	props  map[int]map[int]*pbv1.PriorityResult
	dec    map[int]*pbv1.PriorityResult
	decBy  map[int]int
	slotLn int
	dlOff  int
	gated  map[int]bool
	trig   map[[2]int]bool
}

func (e *env) emit(ev drv.Step) {
	e.mu.Lock()
	closed := e.closed
	e.mu.Unlock()
	if closed {
		return
	}
	e.tr.Emit(ev)
}

func anyString(a *anypb.Any) string {
	v := new(structpb.Value)
	if err := a.UnmarshalTo(v); err != nil {
		return "?" + a.GetTypeUrl()
	}
	s, ok := v.AsInterface().(string)
	if !ok {
		return "?nonstring"
	}

	return s
}

func (e *env) decodeMsg(m *pbv1.PriorityMsg) drv.Step {
	topics := []any{}
	for _, tp := range m.GetTopics() {
		prios := []any{}
		for _, p := range tp.GetPriorities() {
			prios = append(prios, anyString(p))
		}
		topics = append(topics, drv.Step{"topic": anyString(tp.GetTopic()), "prios": prios})
	}

	return drv.Step{"peer": e.idxOf[m.GetPeerId()], "slot": int(m.GetDuty().GetSlot()), "topics": topics}
}

func (e *env) decodeMsgs(ms []*pbv1.PriorityMsg) []any {
	out := []any{}
	for _, m := range ms {
		out = append(out, e.decodeMsg(m))
	}

	return out
}

func decodeTopicResults(ts []*pbv1.PriorityTopicResult) []any {
	out := []any{}
	for _, tr := range ts {
		prios := []any{}
		for _, p := range tr.GetPriorities() {
			prios = append(prios, drv.Step{"p": anyString(p.GetPriority()), "score": int(p.GetScore())})
		}
		out = append(out, drv.Step{"topic": anyString(tr.GetTopic()), "prios": prios})
	}

	return out
}

// errText picks one segment of charon's wrapped error text "a: b: c" (k < 0: the innermost one).
func errText(err error, k int) string {
	if err == nil {
		return "nil"
	}
	segs := strings.Split(err.Error(), ": ")
	if k < 0 || k >= len(segs) {
		return segs[len(segs)-1]
	}

	return segs[k]
}

func strs(v any) []string {
	var out []string
	l, _ := v.([]any)
	for _, x := range l {
		out = append(out, drv.Str(x))
	}

	return out
}

func parseTopics(v any) []priority.TopicProposal {
	var out []priority.TopicProposal
	l, _ := v.([]any)
	for _, x := range l {
		m := x.(map[string]any)
		out = append(out, priority.TopicProposal{Topic: drv.Str(m["topic"]), Priorities: strs(m["prios"])})
	}

	return out
}

func (e *env) deadline(slot int) time.Time {
	// half a tick before the model's integer deadline: never at the same instant as a stimulus or an exchange timeout
	return e.t0.Add(time.Duration(slot*e.slotLn+e.dlOff)*tick - tick/2)
}

// forge returns a message of identity `as` for (slot, topics), signed by the real Component code of that identity.
func (e *env) forge(as, slot int, topics []priority.TopicProposal) *pbv1.PriorityMsg {
	nd := e.nodes[as]
	if nd.shadow == nil {
		nd.capture = make(chan *pbv1.PriorityMsg, 4*e.n)
		send := func(_ context.Context, _ host.Host, _ peer.ID, req, _ proto.Message, _ protocol.ID, _ ...p2p.SendRecvOption) error {
			nd.capture <- proto.Clone(req).(*pbv1.PriorityMsg)
			return errors.New("shadow")
		}
		reg := func(string, host.Host, protocol.ID, func() proto.Message, p2p.HandlerFunc, ...p2p.SendRecvOption) {}
		var peers []peer.ID
		for _, x := range e.nodes[1:] {
			peers = append(peers, x.id)
		}
		far := func(core.Duty) (time.Time, bool) { return e.t0.Add(1000 * time.Hour), true }
		sh, err := priority.NewComponent(e.ctx, stubHost{id: nd.id}, peers, 1, send, reg, nopCons{}, 1000*time.Hour, nd.key, far,
			func(core.Duty) bool { return true })
		if err != nil {
			e.t.Fatalf("shadow component: %v", err)
		}
		nd.shadow = sh
	}
	sctx, cancel := context.WithCancel(e.ctx)
	go func() { _ = nd.shadow.Prioritise(sctx, core.NewInfoSyncDuty(uint64(slot)), topics...) }()
	synctest.Wait()
	var got *pbv1.PriorityMsg
	for len(nd.capture) > 0 {
		got = <-nd.capture
	}
	cancel()
	synctest.Wait()
	if got == nil {
		e.t.Fatalf("shadow component of %d produced no message", as)
	}

	return got
}

func (e *env) scripted(m map[string]any, valid bool) *pbv1.PriorityMsg {
	msg := e.forge(drv.Num(m["peer"]), drv.Num(m["slot"]), parseTopics(m["topics"]))
	if !valid { // a signature that does not match the content
		msg.Signature[7] ^= 0x55
	}

	return msg
}

func TestExec(t *testing.T) {
	drv.QuietLogs(t)
	scheds := drv.ReadSchedules(t)
	tr := drv.NewTracer(t)
	defer tr.Close()
	for i, s := range scheds {
		hung := false
		synctest.Test(t, func(t *testing.T) { hung = runOne(t, tr, i, s) })
		if hung {
			break
		}
	}
}

func runOne(t *testing.T, tr *drv.Tracer, sid int, sched []drv.Step) bool {
	cfg := sched[0]
	if drv.Str(cfg["ev"]) != "Cfg" {
		t.Fatalf("schedule %d does not start with Cfg", sid)
	}
	ctx, cancel := context.WithCancel(context.Background())
	n := drv.Num(cfg["n"])
	e := &env{t: t, tr: tr, ctx: ctx, t0: time.Now(), n: n, idxOf: map[string]int{}, sends: map[[3]int]*sendRec{},
		props: map[int]map[int]*pbv1.PriorityResult{}, dec: map[int]*pbv1.PriorityResult{}, decBy: map[int]int{},
		slotLn: drv.Num(cfg["slotlen"]), dlOff: drv.Num(cfg["dloff"]), gated: map[int]bool{}, trig: map[[2]int]bool{}}
	for _, s := range cfg["slots"].([]any) {
		e.gated[drv.Num(s)] = true
	}
	// identities: model index = rank of the peer id string
	var ids []*node
	for k := 0; k < n; k++ {
		key := testutil.GenerateInsecureK1Key(t, 100+k)
		id, err := p2p.PeerIDFromKey(key.PubKey())
		if err != nil {
			t.Fatalf("peer id: %v", err)
		}
		ids = append(ids, &node{key: key, id: id})
	}
	sort.Slice(ids, func(a, b int) bool { return ids[a].id.String() < ids[b].id.String() })
	e.nodes = append([]*node{nil}, ids...)
	var peers []peer.ID
	for k := 1; k <= n; k++ {
		e.nodes[k].idx = k
		e.idxOf[e.nodes[k].id.String()] = k
		peers = append(peers, e.nodes[k].id)
	}
	minReq := drv.Num(cfg["minreq"])
	exT := time.Duration(drv.Num(cfg["ext"])) * tick
	local := cfg["local"].(map[string]any)
	for _, r := range cfg["real"].([]any) {
		i := drv.Num(r)
		nd := e.nodes[i]
		nd.real = true
		nd.cons = &consStub{e: e, i: i}
		send := func(sctx context.Context, _ host.Host, to peer.ID, req, resp proto.Message, _ protocol.ID, _ ...p2p.SendRecvOption) error {
			m := proto.Clone(req).(*pbv1.PriorityMsg)
			rec := &sendRec{from: i, to: e.idxOf[to.String()], slot: int(m.GetDuty().GetSlot()), req: m, ch: make(chan release, 1)}
			e.mu.Lock()
			e.sends[[3]int{rec.from, rec.to, rec.slot}] = rec
			e.mu.Unlock()
			e.emit(drv.Step{"ev": "Send", "from": rec.from, "to": rec.to, "s": rec.slot, "msg": e.decodeMsg(m)})
			defer func() {
				e.mu.Lock()
				rec.done = true
				e.mu.Unlock()
			}()
			select {
			case rel := <-rec.ch:
				if rel.err != nil {
					return rel.err
				}
				proto.Merge(resp, rel.msg)

				return nil
			case <-sctx.Done():
				return sctx.Err()
			}
		}
		reg := func(_ string, _ host.Host, _ protocol.ID, _ func() proto.Message, h p2p.HandlerFunc, _ ...p2p.SendRecvOption) {
			nd.handler = h
		}
		comp, err := priority.NewComponent(ctx, stubHost{id: nd.id}, peers, minReq, send, reg, nd.cons, exT, nd.key,
			func(d core.Duty) (time.Time, bool) { return e.deadline(int(d.Slot)), true },
			func(d core.Duty) bool { return e.gated[int(d.Slot)] })
		if err != nil {
			t.Fatalf("NewComponent: %v", err)
		}
		lc := local[itoa(i)].(map[string]any)
		var vers []version.SemVer
		for _, v := range strs(lc["versions"]) {
			sv, err := version.Parse(v)
			if err != nil {
				t.Fatalf("local version %q: %v", v, err)
			}
			vers = append(vers, sv)
		}
		var protos []protocol.ID
		for _, p := range strs(lc["protocols"]) {
			protos = append(protos, protocol.ID(p))
		}
		var props []core.ProposalType
		for _, p := range strs(lc["proposals"]) {
			props = append(props, core.ProposalType(p))
		}
		nd.comp = comp
		nd.isync = infosync.New(comp, vers, protos, props)
		comp.Subscribe(func(_ context.Context, d core.Duty, res []priority.TopicResult) error {
			topics := []any{}
			for _, r := range res {
				prios := []any{}
				for _, p := range r.Priorities {
					prios = append(prios, drv.Step{"p": p.Priority, "score": p.Score})
				}
				topics = append(topics, drv.Step{"topic": r.Topic, "prios": prios})
			}
			e.emit(drv.Step{"ev": "Output", "i": i, "s": int(d.Slot), "topics": topics})

			return nil
		})
		comp.Start(ctx)
	}
	reset := drv.Step{"ev": "Reset", "sid": sid}
	for k, v := range cfg {
		if k != "ev" {
			reset[k] = v
		}
	}
	tr.Emit(reset)
	synctest.Wait()

	hung := false
	for _, st := range sched[1:] {
		e.step(st)
		synctest.Wait()
	}
	e.mu.Lock()
	e.closed = true
	e.mu.Unlock()
	cancel()
	synctest.Wait()

	return hung
}

func itoa(i int) string { return string(rune('0' + i)) }

func (e *env) handle(rid []int, from, to int, msg *pbv1.PriorityMsg, rec *sendRec) {
	nd := e.nodes[to]
	go func() {
		resp, _, err := nd.handler(e.ctx, e.nodes[from].id, msg)
		ev := drv.Step{"ev": "Handled", "rid": rid, "to": to}
		if err != nil {
			ev["k"], ev["e"], ev["m"] = "err", errText(err, 1), drv.Step{"peer": 0, "slot": 0, "topics": []any{}}
		} else {
			pm, _ := resp.(*pbv1.PriorityMsg)
			ev["k"], ev["e"], ev["m"] = "resp", "none", e.decodeMsg(pm)
			if rec != nil {
				e.mu.Lock()
				rec.resp = proto.Clone(pm).(*pbv1.PriorityMsg)
				e.mu.Unlock()
			}
		}
		if err != nil && rec != nil {
			e.mu.Lock()
			rec.herr = true
			e.mu.Unlock()
		}
		if e.ctx.Err() == nil {
			e.emit(ev)
		}
	}()
}

func (e *env) step(st drv.Step) {
	switch drv.Str(st["ev"]) {
	case "Trigger", "Prioritise":
		i, s := drv.Num(st["i"]), drv.Num(st["s"])
		nd := e.nodes[i]
		if !nd.real || e.trig[[2]int{i, s}] {
			return // one instance per node and duty (a second Prioritise for a running duty is outside the model)
		}
		e.trig[[2]int{i, s}] = true
		e.emit(st)
		go func() {
			var err error
			if drv.Str(st["ev"]) == "Trigger" {
				err = nd.isync.Trigger(e.ctx, uint64(s))
			} else {
				err = nd.comp.Prioritise(e.ctx, core.NewInfoSyncDuty(uint64(s)), parseTopics(st["topics"])...)
			}
			if e.ctx.Err() == nil {
				e.emit(drv.Step{"ev": "Return", "i": i, "s": s, "err": errText(err, -1)})
			}
		}()
	case "DeliverReq":
		from, to, s := drv.Num(st["from"]), drv.Num(st["to"]), drv.Num(st["s"])
		e.mu.Lock()
		rec := e.sends[[3]int{from, to, s}]
		ok := rec != nil && !rec.done && !rec.delivered && e.nodes[to].real
		if ok {
			rec.delivered = true
		}
		e.mu.Unlock()
		if !ok {
			return
		}
		e.emit(st)
		e.handle([]int{from, to, s}, from, to, proto.Clone(rec.req).(*pbv1.PriorityMsg), rec)
	case "DeliverResp":
		from, to, s := drv.Num(st["from"]), drv.Num(st["to"]), drv.Num(st["s"])
		e.mu.Lock()
		rec := e.sends[[3]int{from, to, s}]
		ok := rec != nil && !rec.done && rec.resp != nil
		e.mu.Unlock()
		if !ok {
			return
		}
		e.emit(st)
		rec.ch <- release{msg: rec.resp}
	case "SendFail":
		from, to, s := drv.Num(st["from"]), drv.Num(st["to"]), drv.Num(st["s"])
		e.mu.Lock()
		rec := e.sends[[3]int{from, to, s}]
		ok := rec != nil && !rec.done
		e.mu.Unlock()
		if !ok {
			return
		}
		e.emit(st)
		rec.ch <- release{err: errors.New("stream reset")}
	case "InjectReq":
		as, to := drv.Num(st["as"]), drv.Num(st["to"])
		if !e.nodes[to].real || e.nodes[as].real {
			return
		}
		msg := e.scripted(st["msg"].(map[string]any), st["valid"] != false)
		e.emit(st)
		e.handle([]int{0, drv.Num(st["rid"]), 0}, as, to, msg, nil)
	case "InjectResp":
		from, to, s := drv.Num(st["from"]), drv.Num(st["to"]), drv.Num(st["s"])
		e.mu.Lock()
		rec := e.sends[[3]int{from, to, s}]
		ok := rec != nil && !rec.done && !e.nodes[to].real
		e.mu.Unlock()
		if !ok {
			return
		}
		msg := e.scripted(st["msg"].(map[string]any), st["valid"] != false)
		e.emit(st)
		rec.ch <- release{msg: msg}
	case "Advance":
		e.emit(st)
		time.Sleep(time.Duration(drv.Num(st["by"])) * tick)
	case "Decide":
		i, s, by := drv.Num(st["i"]), drv.Num(st["s"]), drv.Num(st["by"])
		if !e.nodes[i].real {
			return
		}
		e.mu.Lock()
		if e.dec[s] == nil && e.props[by] != nil && e.props[by][s] != nil {
			e.dec[s], e.decBy[s] = e.props[by][s], by
		}
		val, dby := e.dec[s], e.decBy[s]
		e.mu.Unlock()
		if val == nil {
			return
		}
		e.emit(drv.Step{"ev": "Decide", "i": i, "s": s, "by": dby})
		nd := e.nodes[i]
		go func() {
			for _, sub := range nd.cons.subs {
				if err := sub(e.ctx, core.NewInfoSyncDuty(uint64(s)), val); err != nil {
					e.emit(drv.Step{"ev": "SubErr", "i": i, "s": s, "err": errText(err, -1)})
				}
			}
		}()
	case "Query":
		i, q := drv.Num(st["i"]), drv.Num(st["slot"])
		nd := e.nodes[i]
		if !nd.real {
			return
		}
		protos := []any{}
		for _, p := range nd.isync.Protocols(uint64(q)) {
			protos = append(protos, string(p))
		}
		props := []any{}
		for _, p := range nd.isync.Proposals(uint64(q)) {
			props = append(props, string(p))
		}
		e.emit(drv.Step{"ev": "Query", "i": i, "slot": q, "protocols": protos, "proposals": props,
			"sync": nd.isync.SyncContributionsSupported(uint64(q))})
	default:
		e.t.Fatalf("unknown step %v", st)
	}
}
