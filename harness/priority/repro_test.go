package priority

// Standalone reproductions (no model, no schedule) of behaviour of core/priority that contradicts its documented
// contract.  Run:  cd /verif/harness && go test -tags verif -count=1 -vet=off -run TestRepro -v ./priority

import (
	"context"
	"fmt"
	"sync"
	"testing"
	"time"

	"github.com/libp2p/go-libp2p/core/host"
	"github.com/libp2p/go-libp2p/core/peer"
	"github.com/libp2p/go-libp2p/core/protocol"
	"google.golang.org/protobuf/proto"
	"google.golang.org/protobuf/types/known/anypb"
	"google.golang.org/protobuf/types/known/structpb"

	"github.com/obolnetwork/charon/app/version"
	"github.com/obolnetwork/charon/core"
	pbv1 "github.com/obolnetwork/charon/core/corepb/v1"
	"github.com/obolnetwork/charon/core/infosync"
	"github.com/obolnetwork/charon/core/priority"
	"github.com/obolnetwork/charon/p2p"
	"github.com/obolnetwork/charon/testutil"

	"verifharness/drv"
)

type capCons struct {
	mu  sync.Mutex
	res *pbv1.PriorityResult
	ch  chan struct{}
}

func (c *capCons) ProposePriority(_ context.Context, _ core.Duty, r *pbv1.PriorityResult) error {
	c.mu.Lock()
	c.res = r
	c.mu.Unlock()
	close(c.ch)

	return nil
}
func (*capCons) SubscribePriority(func(context.Context, core.Duty, *pbv1.PriorityResult) error) {}

func strAny(s string) *anypb.Any {
	a, err := anypb.New(structpb.NewStringValue(s))
	if err != nil {
		panic(err)
	}

	return a
}

func pmsg(id peer.ID, slot uint64, prios []string) *pbv1.PriorityMsg {
	var ps []*anypb.Any
	for _, p := range prios {
		ps = append(ps, strAny(p))
	}

	return &pbv1.PriorityMsg{Duty: core.DutyToProto(core.NewInfoSyncDuty(slot)), PeerId: id.String(),
		Topics: []*pbv1.PriorityTopicProposal{{Topic: strAny("t"), Priorities: ps}}}
}

// runOnce runs one real prioritiser (peer 0 of n) whose peers answer with lists[1..]; returns the proposed result and
// the error Prioritise returned (nil while it is still running when the result came).
func runOnce(t *testing.T, n, minRequired int, lists [][]string) (*pbv1.PriorityResult, error) {
	t.Helper()
	ctx, cancel := context.WithCancel(context.Background())
	defer cancel()
	var ids []peer.ID
	for k := 0; k < n; k++ {
		id, err := p2p.PeerIDFromKey(testutil.GenerateInsecureK1Key(t, 200+k).PubKey())
		if err != nil {
			t.Fatal(err)
		}
		ids = append(ids, id)
	}
	idx := map[peer.ID]int{}
	for k, id := range ids {
		idx[id] = k
	}
	send := func(_ context.Context, _ host.Host, to peer.ID, _, resp proto.Message, _ protocol.ID, _ ...p2p.SendRecvOption) error {
		proto.Merge(resp, pmsg(to, 1, lists[idx[to]]))
		return nil
	}
	reg := func(string, host.Host, protocol.ID, func() proto.Message, p2p.HandlerFunc, ...p2p.SendRecvOption) {}
	cons := &capCons{ch: make(chan struct{})}
	dl := core.NewDeadliner(ctx, "", func(core.Duty) (time.Time, bool) { return time.Now().Add(time.Hour), true })
	prio := priority.NewForT(t, stubHost{id: ids[0]}, ids, minRequired, send, reg, cons,
		func(*pbv1.PriorityMsg) error { return nil }, time.Hour, dl, func(core.Duty) bool { return true })
	errCh := make(chan error, 1)
	go func() { errCh <- prio.Prioritise(ctx, pmsg(ids[0], 1, lists[0])) }()
	select {
	case <-cons.ch:
		return cons.res, nil
	case err := <-errCh:
		return nil, err
	case <-time.After(10 * time.Second):
		t.Fatal("neither a proposal nor a return")
		return nil, nil
	}
}

func resultPrios(r *pbv1.PriorityResult) []string {
	var out []string
	for _, p := range r.GetTopics()[0].GetPriorities() {
		out = append(out, fmt.Sprintf("%s:%d", anyString(p.GetPriority()), p.GetScore()))
	}

	return out
}

// calculateResult: "Priorities are included in the result if minRequired peers provided them and are ordered by number
// of peers then by overall priority." / "countWeight = maxPriorities // Weight count more than relative priority".
// validateMsgs accepts up to 999 priorities per topic, but the count only outweighs the order while the orders of one
// priority sum up to less than 1000.
func TestReproCountWeight(t *testing.T) {
	drv.QuietLogs(t)
	filler := func(tag string, k int) []string {
		var out []string
		for i := 0; i < k; i++ {
			out = append(out, fmt.Sprintf("%s%d", tag, i))
		}

		return out
	}
	// (a) X is provided by 3 = minRequired of 4 peers, each time at position 350: score 3*1000-1050 = 1950 <= 2000 -> dropped
	l := func(tag string) []string { return append(filler(tag, 350), "X") }
	res, err := runOnce(t, 4, 3, [][]string{l("a"), l("b"), l("c"), {"other"}})
	if err != nil {
		t.Fatal(err)
	}
	has := false
	for _, p := range resultPrios(res) {
		if len(p) > 2 && p[:2] == "X:" {
			has = true
		}
	}
	t.Logf("(a) 3 of 4 peers (minRequired 3) provide X at position 350: result = %v", resultPrios(res))
	if has {
		t.Fatalf("X included: the contract holds (not reproduced)")
	}
	t.Logf("(a) REPRODUCED: X was provided by minRequired peers and is NOT in the result")
	// (b) Y provided by 4 peers at position 300 (score 2800), Z by 3 peers at position 0 (score 3000): Z precedes Y
	ly := func(tag string, withZ bool) []string {
		out := []string{}
		if withZ {
			out = append(out, "Z")
		}
		out = append(out, filler(tag, 300-len(out))...)

		return append(out, "Y")
	}
	res, err = runOnce(t, 4, 3, [][]string{ly("a", true), ly("b", true), ly("c", true), ly("d", false)})
	if err != nil {
		t.Fatal(err)
	}
	got := resultPrios(res)
	t.Logf("(b) Y from 4 peers at position 300, Z from 3 peers at position 0: result = %v", got)
	if len(got) == 2 && got[0][:2] == "Z:" && got[1][:2] == "Y:" {
		t.Logf("(b) REPRODUCED: Z (3 peers) is ordered before Y (4 peers)")
	} else {
		t.Fatalf("ordered by number of peers: not reproduced")
	}
}

// validateMsgs: "individual topics contain more than 1000 priorities" is an error -- a topic with exactly 1000 is refused too.
func TestReproMaxPriorities(t *testing.T) {
	drv.QuietLogs(t)
	var l []string
	for i := 0; i < 1000; i++ {
		l = append(l, fmt.Sprintf("p%d", i))
	}
	_, err := runOnce(t, 2, 1, [][]string{l, {"p0"}})
	t.Logf("own topic with exactly 1000 priorities: Prioritise returned %v", err)
	if err == nil {
		t.Fatalf("accepted: not reproduced")
	}
}

// One peer's malformed (but well signed) answer ends the whole instance on the receiving node: nothing is proposed
// although the other peers' messages reach minRequired.  ("The exchange step is complete when the priorities of all peers
// have been received or on timeout.  Each peer calculates ... based on the priorities available to them at the point.")
func TestReproMalformedPeerAborts(t *testing.T) {
	drv.QuietLogs(t)
	res, err := runOnce(t, 4, 3, [][]string{{"v2", "v1"}, {"v2", "v1"}, {"v2", "v1"}, {"v1", "v1"}})
	t.Logf("3 well formed messages + 1 with a duplicate priority: proposal=%v, Prioritise returned: %v", res != nil, err)
	if res != nil || err == nil {
		t.Fatalf("not reproduced")
	}
}

type subCons struct {
	subs []func(context.Context, core.Duty, *pbv1.PriorityResult) error
}

func (*subCons) ProposePriority(context.Context, core.Duty, *pbv1.PriorityResult) error { return nil }
func (c *subCons) SubscribePriority(fn func(context.Context, core.Duty, *pbv1.PriorityResult) error) {
	c.subs = append(c.subs, fn)
}

// infosync.Protocols: "returns the latest cluster wide supported protocols before the slot" -- the stored results are
// scanned in the order the decisions ARRIVED and the scan stops at the first stored slot above the query; when the
// decision of an earlier slot arrives after the one of a later slot the answers are those of the wrong round.
// (Observation: info-sync rounds are an epoch apart and their duties expire in between, so this order needs a very late
// consensus decision.)
func TestReproInfosyncArrivalOrder(t *testing.T) {
	drv.QuietLogs(t)
	ctx, cancel := context.WithCancel(context.Background())
	defer cancel()
	key := testutil.GenerateInsecureK1Key(t, 300)
	id, _ := p2p.PeerIDFromKey(key.PubKey())
	cons := new(subCons)
	reg := func(string, host.Host, protocol.ID, func() proto.Message, p2p.HandlerFunc, ...p2p.SendRecvOption) {}
	comp, err := priority.NewComponent(ctx, stubHost{id: id}, []peer.ID{id}, 1, nil, reg, cons, time.Hour, key,
		func(core.Duty) (time.Time, bool) { return time.Now().Add(time.Hour), true }, func(core.Duty) bool { return true })
	if err != nil {
		t.Fatal(err)
	}
	v110, _ := version.Parse("v1.10")
	isync := infosync.New(comp, []version.SemVer{v110}, []protocol.ID{"/local"}, nil)
	res := func(proto string) *pbv1.PriorityResult {
		one := func(topic, p string) *pbv1.PriorityTopicResult {
			return &pbv1.PriorityTopicResult{Topic: strAny(topic), Priorities: []*pbv1.PriorityScoredResult{{Priority: strAny(p), Score: 1000}}}
		}

		return &pbv1.PriorityResult{Topics: []*pbv1.PriorityTopicResult{one("version", "v1.10"), one("protocol", proto)}}
	}
	decide := func(slot uint64, proto string) {
		if err := cons.subs[0](ctx, core.NewInfoSyncDuty(slot), res(proto)); err != nil {
			t.Fatal(err)
		}
	}
	decide(20, "/decided-at-20")
	decide(10, "/decided-at-10") // arrives late
	t.Logf("results decided for slots 10 and 20 (20 arrived first)")
	t.Logf("Protocols(10) = %v   (a result for slot 10 exists)", isync.Protocols(10))
	t.Logf("Protocols(25) = %v   (the latest round before 25 is slot 20)", isync.Protocols(25))
	if string(isync.Protocols(10)[0]) == "/decided-at-10" && string(isync.Protocols(25)[0]) == "/decided-at-20" {
		t.Fatalf("not reproduced")
	}
}
