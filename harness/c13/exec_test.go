// Package c13 executes BcastDKG schedules on real dkg/bcast components and records what they did.
//
// Every honest member runs one real bcast.Component per ceremony session (bcast.New on a listen-less libp2p host
// with a real secp256k1 identity).  Honest broadcasts run the unmodified client (Component.Broadcast) over a
// synchronous in-process transport that hands each request to the addressed member's real stream handler
// (hook dkg/bcast/verif_export.go, build tag verif).  Faulty members have no component: they call the handlers
// of honest members directly with crafted protobufs.  A signature is named by the descriptor
// {by, sess, id, pl} of the request that produced it; the faulty members can only use honest signatures the
// real code handed to them (answers to their own requests, BCastMessages addressed to them) -- anything else in
// a schedule is replaced by garbage and logged as what was actually sent.  Nothing here knows an expected
// outcome.
package c13

import (
	"context"
	"crypto/sha256"
	"encoding/hex"
	"encoding/json"
	"fmt"
	"strconv"
	"strings"
	"sync"
	"testing"
	"time"

	k1 "github.com/decred/dcrd/dcrec/secp256k1/v4"
	"github.com/libp2p/go-libp2p"
	"github.com/libp2p/go-libp2p/core/crypto"
	"github.com/libp2p/go-libp2p/core/host"
	"github.com/libp2p/go-libp2p/core/network"
	"github.com/libp2p/go-libp2p/core/peer"
	"github.com/libp2p/go-libp2p/core/protocol"
	"google.golang.org/protobuf/proto"
	"google.golang.org/protobuf/types/known/anypb"
	"google.golang.org/protobuf/types/known/wrapperspb"

	"github.com/obolnetwork/charon/app/errors"
	"github.com/obolnetwork/charon/app/k1util"
	"github.com/obolnetwork/charon/app/protonil"
	"github.com/obolnetwork/charon/dkg/bcast"
	pb "github.com/obolnetwork/charon/dkg/dkgpb/v1"
	"github.com/obolnetwork/charon/p2p"

	"verifharness/drv"
)

const maxN = 6

var (
	sessions = []string{"s1", "s2"}
	allowed  = []string{"a", "b"}
)

// ---------------------------------------------------------------------------------------------
// model values <-> real values

type payload struct {
	Origin int    `json:"origin"`
	Body   string `json:"body"`
	OK     bool   `json:"ok"`
	Enc    string `json:"enc,omitempty"` // schedule only: "p1" / "p2" = the framing twins (see twinAny); the spec sees origin/body/ok
}

type sigDesc struct {
	By   int     `json:"by"`
	Sess string  `json:"sess"`
	ID   string  `json:"id"`
	Pl   payload `json:"pl"`
	Kind string  `json:"kind,omitempty"` // schedule only: flavour of garbage ("short", "empty", default 65 bytes)
}

func (d sigDesc) key() string {
	return fmt.Sprintf("%d|%s|%s|%d|%s|%v", d.By, d.Sess, d.ID, d.Pl.Origin, d.Pl.Body, d.Pl.OK)
}

func (d sigDesc) step() drv.Step {
	return drv.Step{"by": d.By, "sess": d.Sess, "id": d.ID, "pl": d.Pl.step()}
}

func (p payload) step() drv.Step { return drv.Step{"origin": p.Origin, "body": p.Body, "ok": p.OK} }

var (
	noPl    = payload{}
	garbage = sigDesc{Pl: noPl}
)

func decode[T any](v any) T {
	var out T
	b, _ := json.Marshal(v)
	_ = json.Unmarshal(b, &out)

	return out
}

// toProto: a payload the registered checkMessage accepts is a MsgNodeSig (an in-tree payload type with an origin
// tag, dkg/nodesigs.go); one it refuses is another registered protobuf type.
func (p payload) toProto() proto.Message {
	if p.OK {
		return &pb.MsgNodeSig{Signature: []byte(p.Body), PeerIndex: uint32(p.Origin)}
	}

	return wrapperspb.String(strconv.Itoa(p.Origin) + "|" + p.Body)
}

// twinBody is the body of framing twin "p2"; twin "p1" has the empty body.
const twinBody = "tw2"

// twinAny builds two DIFFERENT well-formed any-wrapped MsgNodeSig payloads of the same origin whose type URL followed by
// the value is the same byte string (the boundary between the two fields is moved):
//
//	p1: TypeUrl = U,         Value = moved || X || Y   decodes to MsgNodeSig{unknown field 15, PeerIndex: origin}  (body "")
//	p2: TypeUrl = U + moved, Value = X || Y            decodes to MsgNodeSig{Signature: "tw2", PeerIndex: origin}
//
// with U = "type.googleapis.com/dkg.dkgpb.v1.MsgNodeSig", X = field 1 ("tw2"), Y = field 2 (origin) and
// moved = header of an unknown length-delimited field 15 + "/dkg.dkgpb.v1.MsgNodeSig" (a type URL is resolved by the text after
// its last '/').  A hash that does not delimit type URL and value cannot tell them apart.
func twinAny(origin int, which string) *anypb.Any {
	const suffix = "/dkg.dkgpb.v1.MsgNodeSig"
	x := append([]byte{1<<3 | 2, byte(len(twinBody))}, twinBody...)
	y := []byte{2<<3 | 0, byte(origin)}
	moved := append([]byte{15<<3 | 2, byte(len(suffix) + len(x))}, suffix...)
	if which == "p1" {
		return &anypb.Any{TypeUrl: "type.googleapis.com" + suffix, Value: append(append(append([]byte{}, moved...), x...), y...)}
	}

	return &anypb.Any{TypeUrl: "type.googleapis.com" + suffix + string(moved), Value: append(append([]byte{}, x...), y...)}
}

func (p payload) toAny() *anypb.Any {
	if p.Enc == "p1" || p.Enc == "p2" {
		return twinAny(p.Origin, p.Enc)
	}

	a, err := anypb.New(p.toProto())
	if err != nil {
		panic(err)
	}

	return a
}

func payloadFromProto(m proto.Message) payload {
	switch x := m.(type) {
	case *pb.MsgNodeSig:
		return payload{Origin: int(x.GetPeerIndex()), Body: string(x.GetSignature()), OK: true}
	case *wrapperspb.StringValue:
		parts := strings.SplitN(x.GetValue(), "|", 2)
		if len(parts) == 2 {
			o, _ := strconv.Atoi(parts[0])
			return payload{Origin: o, Body: parts[1]}
		}
	}

	return payload{Origin: -1, Body: "undecodable"}
}

func payloadFromAny(a *anypb.Any) payload {
	if a == nil {
		return payload{Origin: -1, Body: "nil"}
	}

	m, err := a.UnmarshalNew()
	if err != nil {
		return payload{Origin: -1, Body: "undecodable"}
	}

	return payloadFromProto(m)
}

// ---------------------------------------------------------------------------------------------
// the cluster

type world struct {
	t       *testing.T
	tr      *drv.Tracer
	n       int
	faulty  map[int]bool
	hosts   []host.Host
	keys    []*k1.PrivateKey
	peers   []peer.ID
	comps   map[string]*bcast.Component // honest member/session
	mu2     sync.Mutex                  // guards gates
	mu      sync.Mutex                  // serialises handler calls + their events
	last    *cbRecord                   // callback capture of the handler call in progress
	byBytes map[string]sigDesc          // signature bytes -> the request that produced them
	adv     map[string][]byte           // what the faulty members hold: descriptor -> bytes
	step    drv.Step                    // the Bcast step in progress (policies of the faulty members)
	flying  int
	idle    *sync.Cond
	gates   map[string]*gate // member/session -> gate of the concurrent step in progress
	calls   int              // SigCall ids
	turn    []chan struct{}  // signature requests of the running Broadcast are served in peer order
	served  int
	allDone chan struct{} // closed when every peer's request has been served
}

// gate forces the overlap of concurrent signature requests at one component without any timing: a request that
// reaches the signing step parks there until every request of the step is either parked too or has returned.
type gate struct {
	mu       sync.Mutex
	cond     *sync.Cond
	parked   int
	returned int
	open     bool
}

func newGate() *gate {
	g := &gate{}
	g.cond = sync.NewCond(&g.mu)

	return g
}

func (g *gate) park() {
	g.mu.Lock()
	g.parked++
	g.cond.Broadcast()
	for !g.open {
		g.cond.Wait()
	}
	g.mu.Unlock()
}

// settled waits until k requests are parked or have returned; false after a generous wait (a hang).
func (g *gate) settled(k int) bool {
	done := make(chan struct{})
	stop := false
	go func() {
		g.mu.Lock()
		for g.parked+g.returned < k && !stop {
			g.cond.Wait()
		}
		g.mu.Unlock()
		close(done)
	}()
	select {
	case <-done:
		return true
	case <-time.After(10 * time.Second):
		g.mu.Lock()
		stop = true
		g.cond.Broadcast()
		g.mu.Unlock()
		<-done

		return false
	}
}

type cbRecord struct {
	invoked  bool
	accepted bool
	from     int
	id       string
	pl       payload
}

func ck(m int, s string) string { return fmt.Sprintf("%d/%s", m, s) }

func (w *world) idx(p peer.ID) int {
	for i, q := range w.peers {
		if p == q {
			return i + 1
		}
	}

	return 0
}

func sessionHash(s string) []byte {
	h := sha256.Sum256([]byte("verif session " + s))
	return h[:]
}

// newWorld builds fresh components for every honest member and session on the shared hosts.
func newWorld(t *testing.T, tr *drv.Tracer, hosts []host.Host, keys []*k1.PrivateKey, n int, faulty map[int]bool) *world {
	t.Helper()
	w := &world{t: t, tr: tr, n: n, faulty: faulty, hosts: hosts, keys: keys,
		comps: map[string]*bcast.Component{}, byBytes: map[string]sigDesc{}, adv: map[string][]byte{},
		gates: map[string]*gate{}}
	w.idle = sync.NewCond(&w.mu)
	for i := 0; i < n; i++ {
		w.peers = append(w.peers, hosts[i].ID())
	}
	for m := 1; m <= n; m++ {
		if faulty[m] {
			continue
		}
		for _, s := range sessions {
			c := bcast.New(hosts[m-1], w.peers, keys[m-1], sessionHash(s))
			for _, id := range allowed {
				c.RegisterMessageIDFuncs(id, w.callback(m), checkMessage)
			}
			c.VerifUseTransport(hosts[m-1], w.sendRecv(m, s), w.send(m, s))
			key := ck(m, s)
			c.VerifWrapSignFunc(func(orig func(string, []byte) ([]byte, error)) func(string, []byte) ([]byte, error) {
				return func(id string, hash []byte) ([]byte, error) {
					w.mu2.Lock()
					g := w.gates[key]
					w.mu2.Unlock()
					if g != nil {
						g.park()
					}

					return orig(id, hash)
				}
			})
			w.comps[ck(m, s)] = c
		}
	}

	return w
}

// checkMessage mirrors (*nodeSigBcast).checkMessage.
func checkMessage(_ context.Context, _ peer.ID, msgAny *anypb.Any) error {
	var msg pb.MsgNodeSig
	if err := msgAny.UnmarshalTo(&msg); err != nil {
		return errors.Wrap(err, "node signature request malformed")
	}

	return nil
}

// callback mirrors the origin checks of (*nodeSigBcast).broadcastCallback (peer index in range, not the receiver
// itself, transport sender = claimed origin); the origin tag is 1-based here.
func (w *world) callback(self int) bcast.Callback {
	return func(_ context.Context, sender peer.ID, msgID string, msg proto.Message) error {
		rec := &cbRecord{invoked: true, from: w.idx(sender), id: msgID, pl: payloadFromProto(msg)}
		w.last = rec

		nodeSig, ok := msg.(*pb.MsgNodeSig)
		if !ok {
			return errors.New("invalid node sig type")
		}

		idx := int(nodeSig.GetPeerIndex()) - 1
		if idx < 0 || idx >= len(w.peers) {
			return errors.New("invalid peer index")
		}

		if idx == self-1 {
			return errors.New("invalid peer index")
		}

		if w.peers[idx] != sender {
			return errors.New("sender peer ID does not match claimed peer index")
		}

		rec.accepted = true

		return nil
	}
}

func (w *world) hash(s, id string, a *anypb.Any) []byte {
	for m := 1; m <= w.n; m++ {
		if c, ok := w.comps[ck(m, s)]; ok {
			h, err := c.VerifHash(id, a)
			if err != nil {
				panic(err)
			}

			return h
		}
	}

	panic("no honest member")
}

// resolve turns a descriptor of a schedule into the bytes the faulty members can really produce for it; returns
// the descriptor of what is actually sent.
func (w *world) resolve(d sigDesc) ([]byte, sigDesc) {
	if d.By >= 1 && d.By <= w.n && w.faulty[d.By] && (d.Sess == sessions[0] || d.Sess == sessions[1]) {
		sig, err := k1util.Sign(w.keys[d.By-1], w.hash(d.Sess, d.ID, d.Pl.toAny()))
		if err == nil {
			d.Kind = ""
			return sig, d
		}
	}

	if b, ok := w.adv[d.key0()]; ok {
		d.Kind = ""
		return b, d
	}

	switch d.Kind {
	case "short":
		return []byte{1, 2, 3, 4, 5, 6, 7, 8, 9, 10}, garbage
	case "empty":
		return nil, garbage
	default:
		g := make([]byte, 65)
		h := sha256.Sum256([]byte(d.key()))
		copy(g, h[:])
		copy(g[32:], h[:])
		g[64] = h[0] & 1

		return g, garbage
	}
}

func (d sigDesc) key0() string { d.Kind = ""; return d.key() }

func (w *world) describe(b []byte) sigDesc {
	if d, ok := w.byBytes[hex.EncodeToString(b)]; ok {
		return d
	}

	return garbage
}

func descSteps(ds []sigDesc) []drv.Step {
	out := make([]drv.Step, 0, len(ds))
	for _, d := range ds {
		out = append(out, d.step())
	}

	return out
}

// ---------------------------------------------------------------------------------------------
// handler calls (always under w.mu)

func (w *world) callSig(m int, s string, req int, id string, a *anypb.Any) (resp *pb.BCastSigResponse, err error) {
	pl := payloadFromAny(a)
	defer func() {
		if r := recover(); r != nil {
			w.tr.Emit(drv.Step{"ev": "Panic", "in": "Sig", "m": m, "what": fmt.Sprint(r)})
			err = errors.New("panic")
		}
	}()
	msg := &pb.BCastSigRequest{Id: id, Message: a}
	if perr := protonil.Check(msg); perr != nil { // the stream handler drops such requests before the handler
		return nil, perr
	}
	ctx, cancel := context.WithTimeout(context.Background(), time.Minute)
	defer cancel()
	resp, err = w.comps[ck(m, s)].VerifHandleSigRequest(ctx, w.peers[req-1], msg)
	ev := drv.Step{"ev": "Sig", "m": m, "sess": s, "req": req, "id": id, "pl": pl.step(), "ok": err == nil}
	if err != nil {
		ev["why"] = err.Error()
	} else {
		ev["rid"] = resp.GetId()
		d := sigDesc{By: m, Sess: s, ID: id, Pl: pl}
		k := hex.EncodeToString(resp.GetSignature())
		if _, dup := w.byBytes[k]; !dup {
			w.byBytes[k] = d
		}
	}
	w.tr.Emit(ev)

	return resp, err
}

func (w *world) callMsg(r int, s string, from int, msg *pb.BCastMessage, sigs []sigDesc) {
	defer func() {
		if rr := recover(); rr != nil {
			w.tr.Emit(drv.Step{"ev": "Panic", "in": "Msg", "r": r, "what": fmt.Sprint(rr)})
		}
	}()
	if perr := protonil.Check(msg); perr != nil {
		return
	}
	ctx, cancel := context.WithTimeout(context.Background(), time.Minute)
	defer cancel()
	w.last = &cbRecord{}
	err := w.comps[ck(r, s)].VerifHandleMessage(ctx, w.peers[from-1], msg)
	rec := w.last
	ev := drv.Step{"ev": "Msg", "r": r, "sess": s, "from": from, "id": msg.GetId(), "pl": payloadFromAny(msg.GetMessage()).step(),
		"sigs": descSteps(sigs), "invoked": rec.invoked, "accepted": rec.accepted, "err": err != nil,
		"sigset": sigSetTag(msg.GetSignatures()), "plset": anyTag(msg.GetMessage())}
	if rec.invoked {
		ev["cb"] = drv.Step{"from": rec.from, "id": rec.id, "pl": rec.pl.step()}
	}
	if err != nil {
		ev["why"] = err.Error()
	}
	w.tr.Emit(ev)
}

// sigSetTag / anyTag name the BYTES of a message's signature list and of its any-wrapped payload (information only, the
// trace spec does not read them): the check counts, as a vacuity guard, how often a signature list that a component had
// accepted was really presented to it again byte for byte with other payload bytes.
func sigSetTag(sigs [][]byte) string {
	h := sha256.New()
	for _, b := range sigs {
		_, _ = h.Write([]byte{byte(len(b) >> 8), byte(len(b))})
		_, _ = h.Write(b)
	}

	return hex.EncodeToString(h.Sum(nil)[:8])
}

func anyTag(a *anypb.Any) string {
	if a == nil {
		return "nil"
	}
	h := sha256.New()
	_, _ = h.Write([]byte{byte(len(a.GetTypeUrl()) >> 8), byte(len(a.GetTypeUrl()))})
	_, _ = h.Write([]byte(a.GetTypeUrl()))
	_, _ = h.Write(a.GetValue())

	return hex.EncodeToString(h.Sum(nil)[:8])
}

// concurrent issues the requests one after the other, each as soon as the previous one is parked in the signing
// step or has returned; when all are parked or have returned, the parked ones are let go.
func (w *world) concurrent(f, m int, s string, reqs []any) bool {
	g := newGate()
	w.mu2.Lock()
	w.gates[ck(m, s)] = g
	w.mu2.Unlock()
	defer func() {
		w.mu2.Lock()
		delete(w.gates, ck(m, s))
		w.mu2.Unlock()
	}()
	var wg sync.WaitGroup
	hung := false
	for j, x := range reqs {
		rq, _ := x.(map[string]any)
		id := drv.Str(rq["id"])
		pl := decode[payload](rq["pl"])
		w.mu.Lock()
		w.calls++
		k := w.calls
		w.tr.Emit(drv.Step{"ev": "SigCall", "k": k, "m": m, "sess": s, "req": f, "id": id, "pl": pl.step()})
		w.mu.Unlock()
		wg.Add(1)
		go func() {
			defer wg.Done()
			var (
				resp *pb.BCastSigResponse
				err  error
			)
			func() {
				defer func() {
					if r := recover(); r != nil {
						err = errors.New("panic: " + fmt.Sprint(r))
					}
				}()
				ctx, cancel := context.WithTimeout(context.Background(), time.Minute)
				defer cancel()
				resp, err = w.comps[ck(m, s)].VerifHandleSigRequest(ctx, w.peers[f-1], &pb.BCastSigRequest{Id: id, Message: pl.toAny()})
			}()
			w.mu.Lock()
			ev := drv.Step{"ev": "SigRet", "k": k, "ok": err == nil}
			if err != nil {
				ev["why"] = err.Error()
			} else {
				d := sigDesc{By: m, Sess: s, ID: id, Pl: pl}
				w.adv[d.key()] = resp.GetSignature()
				if _, dup := w.byBytes[hex.EncodeToString(resp.GetSignature())]; !dup {
					w.byBytes[hex.EncodeToString(resp.GetSignature())] = d
				}
			}
			w.tr.Emit(ev)
			g.mu.Lock()
			g.returned++
			g.cond.Broadcast()
			g.mu.Unlock()
			w.mu.Unlock()
		}()
		if !g.settled(j + 1) {
			hung = true
			break
		}
	}
	g.mu.Lock()
	g.open = true
	g.cond.Broadcast()
	g.mu.Unlock()
	if hung {
		return true
	}
	wg.Wait()

	return false
}

// ---------------------------------------------------------------------------------------------
// the synchronous in-process transport of honest member h's client (session s)

func (w *world) enter(ctx context.Context) bool {
	w.mu.Lock()
	if ctx.Err() != nil {
		w.mu.Unlock()
		return false
	}
	w.flying++

	return true
}

func (w *world) leave() {
	w.flying--
	w.idle.Broadcast()
	w.mu.Unlock()
}

// The client sends its signature requests concurrently and fails fast (forkjoin cancels what has not started yet),
// so which requests are served, and in which order, would depend on goroutine scheduling.  The transport removes
// that: requests are served in peer order and a failing answer is held back until every peer's request has been
// served.  (Time-outs only guard against a client that never sends some request.)
func (w *world) startRun(h int) {
	w.turn = make([]chan struct{}, w.n)
	for i := range w.turn {
		w.turn[i] = make(chan struct{})
	}
	close(w.turn[0])
	w.served = 0
	w.allDone = make(chan struct{})
}

func rank(h, t int) int { // position of peer t among the peers of h's client
	if t > h {
		return t - 2
	}

	return t - 1
}

func await(ctx context.Context, c chan struct{}) {
	select {
	case <-c:
	case <-ctx.Done():
	case <-time.After(2 * time.Second):
	}
}

// next passes the turn on; called with w.mu held.
func (w *world) next(r int) {
	select {
	case <-w.turn[r+1]:
	default:
		close(w.turn[r+1])
	}
	w.served++
	if w.served == w.n-1 {
		close(w.allDone)
	}
}

func (w *world) fail(ctx context.Context, err error) error {
	all := w.allDone
	w.mu.Unlock()
	await(ctx, all)
	w.mu.Lock()

	return err
}

func (w *world) sendRecv(h int, s string) p2p.SendReceiveFunc {
	return func(ctx context.Context, _ host.Host, to peer.ID, req, resp proto.Message, _ protocol.ID, _ ...p2p.SendRecvOption) error {
		t := w.idx(to)
		if t == 0 || t == h {
			return errors.New("transport: unexpected peer")
		}
		w.mu.Lock()
		turn := w.turn[rank(h, t)]
		w.mu.Unlock()
		await(ctx, turn)
		if !w.enter(ctx) {
			w.mu.Lock()
			w.next(rank(h, t))
			w.mu.Unlock()

			return ctx.Err()
		}
		defer w.leave()
		w.next(rank(h, t))
		sreq, ok := req.(*pb.BCastSigRequest)
		if !ok {
			return errors.New("transport: unexpected request")
		}
		if !w.faulty[t] {
			r, err := w.callSig(t, s, h, sreq.GetId(), sreq.GetMessage())
			if err != nil {
				return w.fail(ctx, errors.New("stream closed without response")) // the requester never sees the reason
			}
			proto.Merge(resp, r)

			return nil
		}
		// a faulty member answers according to the schedule
		pl := payloadFromAny(sreq.GetMessage())
		mode := drv.Str(w.step["freply"])
		var d sigDesc
		switch mode {
		case "err":
			w.tr.Emit(drv.Step{"ev": "FReply", "h": h, "sess": s, "f": t, "kind": "err", "sig": garbage.step()})
			return w.fail(ctx, errors.New("stream closed without response"))
		case "garbage":
			d = garbage
		case "short":
			d = sigDesc{Kind: "short"}
		case "replay":
			d = decode[sigDesc](w.step["fsig"])
		default:
			d = sigDesc{By: t, Sess: s, ID: sreq.GetId(), Pl: pl}
		}
		b, used := w.resolve(d)
		if used.By != 0 {
			k := hex.EncodeToString(b)
			if _, dup := w.byBytes[k]; !dup {
				w.byBytes[k] = used
			}
		}
		w.tr.Emit(drv.Step{"ev": "FReply", "h": h, "sess": s, "f": t, "kind": "sig", "sig": used.step()})
		proto.Merge(resp, &pb.BCastSigResponse{Id: sreq.GetId(), Signature: b})

		return nil
	}
}

func (w *world) send(h int, s string) p2p.SendFunc {
	return func(ctx context.Context, _ host.Host, _ protocol.ID, to peer.ID, m proto.Message, _ ...p2p.SendRecvOption) error {
		if !w.enter(ctx) {
			return ctx.Err()
		}
		defer w.leave()
		t := w.idx(to)
		msg, ok := m.(*pb.BCastMessage)
		if !ok || t == 0 {
			return errors.New("transport: unexpected message")
		}
		if lose, _ := w.step["lose"].([]any); lose != nil {
			for _, l := range lose {
				if drv.Num(l) == t {
					return errors.New("transport: connection lost")
				}
			}
		}
		// name the signatures: the sender's own signature is first seen here
		pl := payloadFromAny(msg.GetMessage())
		var ds []sigDesc
		for i, b := range msg.GetSignatures() {
			k := hex.EncodeToString(b)
			if _, seen := w.byBytes[k]; !seen && i == h-1 {
				w.byBytes[k] = sigDesc{By: h, Sess: s, ID: msg.GetId(), Pl: pl}
			}
			ds = append(ds, w.describe(b))
		}
		if w.faulty[t] {
			for i, d := range ds {
				if d.By != 0 {
					w.adv[d.key0()] = msg.GetSignatures()[i]
				}
			}
			w.tr.Emit(drv.Step{"ev": "FRecv", "h": h, "sess": s, "f": t, "id": msg.GetId(), "pl": pl.step(), "sigs": descSteps(ds)})

			return nil
		}
		w.callMsg(t, s, h, msg, ds)

		return nil // p2p.Send does not report what the receiving handler did
	}
}

// ---------------------------------------------------------------------------------------------

func TestExec(t *testing.T) {
	drv.QuietLogs(t)
	scheds := drv.ReadSchedules(t)
	tr := drv.NewTracer(t)
	defer tr.Close()

	var (
		hosts []host.Host
		keys  []*k1.PrivateKey
	)
	for i := 0; i < maxN; i++ {
		seed := sha256.Sum256([]byte(fmt.Sprintf("verif c13 member %d", i)))
		key := k1.PrivKeyFromBytes(seed[:])
		// loopback listeners: the members hold REAL connections to each other (the handlers are still driven through the
		// in-process transport), so that a member can drop all its connections and come back (schedule step Reconnect)
		h, err := libp2p.New(libp2p.Identity((*crypto.Secp256k1PrivateKey)(key)), libp2p.ListenAddrStrings("/ip4/127.0.0.1/tcp/0"))
		if err != nil {
			t.Fatalf("host: %v", err)
		}
		defer h.Close()
		hosts = append(hosts, h)
		keys = append(keys, key)
	}
	for i, a := range hosts {
		for _, b := range hosts[i+1:] {
			cctx, ccancel := context.WithTimeout(context.Background(), 10*time.Second)
			_ = a.Connect(cctx, peer.AddrInfo{ID: b.ID(), Addrs: b.Addrs()}) // coverage only: a failed dial leaves the pair unconnected
			ccancel()
		}
	}

	for i, s := range scheds {
		if hung := runOne(t, tr, hosts, keys, i, s); hung {
			break
		}
	}
}

func runOne(t *testing.T, tr *drv.Tracer, hosts []host.Host, keys []*k1.PrivateKey, sid int, sched []drv.Step) bool {
	t.Helper()
	n := 4
	faulty := map[int]bool{}
	var flist []int
	if len(sched) > 0 && drv.Str(sched[0]["ev"]) == "Cfg" {
		n = drv.Num(sched[0]["n"])
		if fl, ok := sched[0]["faulty"].([]any); ok {
			for _, f := range fl {
				faulty[drv.Num(f)] = true
				flist = append(flist, drv.Num(f))
			}
		}
		sched = sched[1:]
	}
	if n < 2 || n > maxN {
		t.Fatalf("bad cluster size %d", n)
	}
	if flist == nil {
		flist = []int{}
	}
	w := newWorld(t, tr, hosts, keys, n, faulty)
	tr.Emit(drv.Step{"ev": "Reset", "sid": sid, "n": n, "faulty": flist, "sessions": sessions, "allowed": allowed})
	honest := func(m int, s string) bool { _, ok := w.comps[ck(m, s)]; return ok }

	for _, st := range sched {
		s := drv.Str(st["sess"])
		id := drv.Str(st["id"])
		pl := decode[payload](st["pl"])
		switch drv.Str(st["ev"]) {
		case "Reconnect":
			// member m closes every connection it has and dials the others again: for the others it was gone and is back.
			// Nothing in the contract depends on connections, so the event changes nothing in the specification; the waits
			// only give the hosts' disconnect notifications time to be delivered (coverage, no verdict).
			m := drv.Num(st["m"])
			if m < 1 || m > len(hosts) {
				continue
			}
			me := hosts[m-1]
			for i, h := range hosts {
				if i != m-1 {
					_ = me.Network().ClosePeer(h.ID())
				}
			}
			for tries := 0; tries < 100; tries++ {
				gone := true
				for i, h := range hosts {
					if i != m-1 && h.Network().Connectedness(me.ID()) == network.Connected {
						gone = false
					}
				}
				if gone {
					break
				}
				time.Sleep(10 * time.Millisecond)
			}
			time.Sleep(50 * time.Millisecond)
			for i, h := range hosts {
				if i != m-1 {
					cctx, ccancel := context.WithTimeout(context.Background(), 5*time.Second)
					_ = me.Connect(cctx, peer.AddrInfo{ID: h.ID(), Addrs: h.Addrs()})
					ccancel()
				}
			}
			tr.Emit(drv.Step{"ev": "Reconnect", "m": m})
		case "Bcast":
			h := drv.Num(st["h"])
			if !honest(h, s) {
				continue
			}
			w.mu.Lock()
			w.step = st
			w.startRun(h)
			tr.Emit(drv.Step{"ev": "BStart", "h": h, "sess": s, "id": id, "pl": pl.step()})
			w.mu.Unlock()
			done := make(chan error, 1)
			go func() {
				ctx, cancel := context.WithTimeout(context.Background(), 30*time.Second)
				defer cancel()
				done <- w.comps[ck(h, s)].Broadcast(ctx, id, pl.toProto())
			}()
			var err error
			select {
			case err = <-done:
			case <-time.After(20 * time.Second):
				tr.Emit(drv.Step{"ev": "Hang"})
				return true
			}
			// requests still being served when Broadcast gave up (fail fast) finish before the run is closed
			w.mu.Lock()
			for w.flying > 0 {
				w.idle.Wait()
			}
			ev := drv.Step{"ev": "BEnd", "h": h, "sess": s, "err": err != nil}
			if err != nil {
				ev["why"] = err.Error()
			}
			tr.Emit(ev)
			w.step = nil
			w.mu.Unlock()
		case "FSig":
			f, m := drv.Num(st["f"]), drv.Num(st["m"])
			if !faulty[f] || f < 1 || f > n || !honest(m, s) {
				continue
			}
			w.mu.Lock()
			resp, err := w.callSig(m, s, f, id, pl.toAny())
			if err == nil {
				w.adv[sigDesc{By: m, Sess: s, ID: id, Pl: pl}.key()] = resp.GetSignature()
			}
			w.mu.Unlock()
		case "FSigC":
			// several requests of f are inside m's handler at the same time
			f, m := drv.Num(st["f"]), drv.Num(st["m"])
			reqs, _ := st["reqs"].([]any)
			if !faulty[f] || f < 1 || f > n || !honest(m, s) || len(reqs) == 0 {
				continue
			}
			if hung := w.concurrent(f, m, s, reqs); hung {
				tr.Emit(drv.Step{"ev": "Hang"})
				return true
			}
		case "FSend":
			f, r := drv.Num(st["f"]), drv.Num(st["r"])
			if !faulty[f] || f < 1 || f > n || !honest(r, s) {
				continue
			}
			w.mu.Lock()
			var (
				sigs [][]byte
				used []sigDesc
			)
			if l, ok := st["sigs"].([]any); ok {
				for _, x := range l {
					b, d := w.resolve(decode[sigDesc](x))
					sigs = append(sigs, b)
					used = append(used, d)
				}
			}
			w.callMsg(r, s, f, &pb.BCastMessage{Id: id, Message: pl.toAny(), Signatures: sigs}, used)
			w.mu.Unlock()
		default:
			t.Fatalf("unknown step %v", st)
		}
	}

	return false
}
