"""C04 - consensus termination under timely delivery with at most f crashed members; honest messages never unjust."""
import itertools, os, json, sys
import vlib, qbft_common as qc
from vlib import log

TT_TMPL = open(os.path.join(vlib.SPECS, qc.FAMILY, "QBFTTimedTrace.cfg.tmpl")).read()
RULE = ("fault enumeration around the real qbft.Run with the real round timers (core/consensus/timer: eager double-linear "
        "= default, increasing) on a fake clock: for n=4 every choice of crashed member x crash point (silent, or while "
        "performing its k-th broadcast) x recipient subset of that last broadcast x leader rotation, with start offsets < 1 "
        "round and per-link latencies < 1/3 of the shortest round timeout; sampled for n=5..7 with up to f crashes; every "
        "step validated against QBFT.tla, BoundedDecision / NoHonestUnjust evaluated by the trace spec; distinct = distinct traces")


def cfg_of(t, dev="FALSE", dev2="FALSE"):
    r = t[0]
    tag = ("e" if dev == "TRUE" else "") + ("i" if dev2 == "TRUE" else "")
    return ("tt%s_n%d_i%d.cfg" % ("dev" + tag if tag else "", r["n"], r["inst"]),
            TT_TMPL % {"N": r["n"], "Inst": r["inst"], "Dev": dev, "Dev2": dev2})


def cfg_of_dev(t):
    return cfg_of(t, dev="TRUE")


def cfg_of_dev_inc(t):
    return cfg_of(t, dev2="TRUE")


PROBES = [
    # (finding id, stored script, MC cfg whose counterexample it is, timer, deviation cfg, control text)
    ("C04-eager-timer-tie-desync", os.path.join(vlib.VERIF, "checks", "c04_probe_eager_tie.json"), "QBFTTimedMC_e4probe.cfg",
     "eager", cfg_of_dev, "QBFTTimedMC_e4probe (eager timer, zero-latency ties, one crash) violates BoundedRounds: counterexample replayed on the code"),
    ("C04-inc-timer-late-leader-desync", os.path.join(vlib.VERIF, "checks", "c04_probe_inc_late.json"), "QBFTTimedMC_i4lateprobe.cfg",
     "inc", cfg_of_dev_inc, "QBFTTimedMC_i4lateprobe (increasing timer, 250 ms latencies, one silent member, round-1 leader 750 ms late) violates NoRunaway: counterexample replayed on the code"),
]


def timed_probe(o, regenerate):
    """Known findings C04-eager-timer-tie-desync and C04-inc-timer-late-leader-desync: behaviours of the timed design model
    (QBFTTimed) in which the members decide later than one leader rotation after the last fault, inside the assumptions of
    the property.  eager: one member crashes inside its round-1 PRE-PREPARE broadcast, zero-latency same-instant ties, the
    members desynchronise through zero-length rounds.  inc: one member never starts, the round-1 leader starts 750 ms late,
    every message takes 250 ms; the window in which all three remaining members are in the same round stays shorter than
    the four message delays a decision needs until round 6.  Each behaviour is a TLC counterexample (regenerated from the
    model in the thorough tier, stored otherwise), replayed step by step on the real qbft.Run with the REAL round timers and
    validated by the trace spec: the strict cfg rejects it (BoundedDecision), the deviation cfg of that finding accepts it."""
    for fid, path, mccfg, timer, devcfg, text in PROBES:
        sched = json.load(open(path))
        if regenerate:
            d = vlib.scratch(o.pid, qc.FAMILY)
            dump = os.path.join(d, "probe.json")
            r = vlib.tlc(o.pid, qc.FAMILY, "QBFTTimedMC", mccfg, timeout=900, workers=1, sdir=d,
                         extra_args=["-dumpTrace", "json", dump])
            if r.violation and os.path.exists(dump):
                sys.path.insert(0, os.path.join(vlib.VERIF, "tools"))
                import tt2script
                sched = tt2script.convert(dump, 4, 0, timer)
                sched[0]["horizon"] = 60000
                o.selftests.append({"control": text, "rejected_as_required": True})
            else:
                o.notes.append("timed model no longer yields the counterexample of %s: %s" % (fid, r.summary()))
        vlib.conformance(o, qc.FAMILY, "QBFTTimedTrace", cfg_of, "c04", [sched], tag="probe_" + timer, dev_cfgs=[(fid, devcfg)])
        if not any(k == fid for k, _ in o.known):
            log("note: the %s probe no longer reproduces (the finding may have been repaired)" % fid)


def scenario(n, inst, timer, offsets, lat, crashes, tie=0, inputs=None):
    return [{"ev": "Scenario", "n": n, "inst": inst, "timer": timer, "offsets": offsets, "lat": lat, "crashes": crashes,
             "inputs": inputs or [1 + (i % 2) for i in range(n)], "horizon": 60000, "tie": tie}]


def uniform_lat(n, ms):
    return [[0 if i == j else ms for j in range(n)] for i in range(n)]


def enumerate_n4(seed, thorough):
    """n=4, f=1: every single crash point."""
    r = vlib.rng(seed, "c04/enum")
    out = []
    n = 4
    for inst in range(4):
        for p in range(4):
            others = [q for q in range(4) if q != p]
            for after in range(0, 8 if thorough else 6):
                subsets = [[]] if after == 0 else [list(s) for k in range(0, 4) for s in itertools.combinations(others, k)]
                for to in subsets:
                    for lat_ms in ([50, 300] if thorough else [r.choice([50, 300])]):
                        for timer in (["eager", "inc"] if thorough else ["eager"]):
                            out.append(scenario(n, inst, timer, [0] * n, uniform_lat(n, lat_ms),
                                                [{"p": p, "after": after, "to": to}], tie=r.randint(0, 1)))
    return out


def sampled(seed, count, thorough):
    r = vlib.rng(seed, "c04/sample")
    out = []
    for k in range(count):
        n = r.choice([4, 5, 6, 7])
        f = (n - 1) // 3
        inst = r.randrange(n)
        timer = r.choice(["eager", "eager", "eager", "inc"])
        offsets = [r.choice([0, 0, 50, 300, 600, 950]) for _ in range(n)]
        if r.random() < 0.3:
            offsets = [0] * n
        lat = [[0 if i == j else r.choice([0, 50, 100, 200, 300]) for j in range(n)] for i in range(n)]
        crashes = []
        for p in r.sample(range(n), r.randint(0, f)):
            crashes.append({"p": p, "after": r.randint(0, 8), "to": [q for q in range(n) if q != p and r.random() < 0.5]})
        inputs = [1 + r.randint(0, 1) for _ in range(n)]
        out.append(scenario(n, inst, timer, offsets, lat, crashes, tie=r.randint(0, 1), inputs=inputs))
    return out


def directed_inc(seed, count):
    """Around finding C04-inc-timer-late-leader-desync: increasing timer, f silent members, the round-1 leader (and possibly
    others) starting late, the same high latency on every link."""
    r = vlib.rng(seed, "c04/directed_inc")
    out = []
    for k in range(count):
        n = r.choice([4, 4, 5, 6, 7])
        f = (n - 1) // 3
        inst = r.randrange(n)
        ldr = (inst + 1) % n
        offsets = [r.choice([0, 0, 250, 500]) for _ in range(n)]
        offsets[ldr] = r.choice([500, 750, 750, 950])
        silent = r.sample([p for p in range(n) if p != ldr], r.randint(0 if k % 4 == 3 else 1, f))
        crashes = [{"p": p, "after": 0, "to": []} for p in silent]
        out.append(scenario(n, inst, "inc", offsets, uniform_lat(n, r.choice([200, 250, 250, 300])), crashes, tie=r.randint(0, 1)))
    return out


def lone_prepared(seed, count):
    """f >= 2 (n = 7): both tolerated faults used up - one member silent, the round-1 leader crashing in the middle of its
    PREPARE broadcast, which reaches ONE member - and one running member that started a round early, so that its round 1
    expires just before the PRE-PREPARE arrives: exactly one running member holds a prepared certificate, the other running
    members (a bare quorum together) none.  The next leaders must re-propose that value (justification J2 with a single
    prepared ROUND-CHANGE in the quorum)."""
    r = vlib.rng(seed, "c04/lone_prepared")
    out = []
    for k in range(count):
        n = 7
        inst = r.randrange(n)
        ldr = (inst + 1) % n
        rest = [p for p in range(n) if p != ldr]
        silent, early, lucky = r.sample(rest, 3)
        late = r.choice([850, 900, 900, 950])
        offsets = [late] * n
        offsets[early] = 0
        lat = uniform_lat(n, r.choice([100, 150, 150, 200]))
        crashes = [{"p": silent, "after": 0, "to": []}, {"p": ldr, "after": 2, "to": [lucky] if k % 5 else [lucky, early]}]
        out.append(scenario(n, inst, r.choice(["eager", "eager", "inc"]), offsets, lat, crashes, tie=r.randint(0, 1),
                            inputs=[1 + r.randint(0, 1) for _ in range(n)]))
    return out


def mutators():
    def late_decision(t):
        # pretend the last decision happened N+2 rounds later than it did
        for e in reversed(t):
            if e.get("ev") == "Deliver" and e.get("rule") in ("QC", "JD"):
                e["dround"] = e["dround"] + t[0]["n"] + 2
                return t
        return None

    def undecided(t):
        # cut the trace before the last member decides, keeping the End event
        idx = [i for i, e in enumerate(t) if e.get("ev") == "Deliver" and e.get("rule") in ("QC", "JD")]
        if not idx:
            return None
        return t[:idx[-1]] + [t[-1]]

    def time_backwards(t):
        for i, e in enumerate(t):
            if e.get("now", 0) > 0 and e.get("ev") == "Deliver":
                e["now"] = -1
                return t
        return None

    def honest_unjust(t):
        for e in t:
            if e.get("ev") == "Deliver" and not e.get("unjust") and e.get("rule") == "NONE" and e["m"]["type"] == "P":
                e["unjust"] = True
                return t
        return None
    return [("decision reported N+2 rounds later", late_decision), ("a running member left undecided at End", undecided),
            ("clock going backwards", time_backwards), ("honest PREPARE logged as unjust", honest_unjust)]


def run(tier, seed):
    pid = "C04"
    o = vlib.Outcome(pid, tier, seed)
    thorough = tier == "thorough"
    # design check: untimed micro-configuration with NoHonestUnjust (producer getJustifiedQrc vs verifier agree)
    r = vlib.tlc(pid, qc.FAMILY, "QBFTMC", "QBFTMC_H3s.cfg" if not thorough else "QBFTMC_H3r1.cfg", timeout=1500)
    vlib.require_mc_ok(r, "QBFTMC")
    o.add_mc("QBFTMC_H3s" if not thorough else "QBFTMC_H3r1", r)
    # design check of the timed model (QBFTTimed): configurations that hold, and (thorough) the control that must not
    # (policy x n x latency set x start offsets x f crashes; DecidedInTime = everybody has decided by MaxTime)
    timed = ["QBFTTimedMC_e4lat1.cfg", "QBFTTimedMC_e4nocrash.cfg", "QBFTTimedMC_i4late.cfg", "QBFTTimedMC_e4late.cfg",
             "QBFTTimedMC_e4lateldr.cfg", "QBFTTimedMC_i5.cfg"]
    if thorough:
        timed += ["QBFTTimedMC_i4.cfg", "QBFTTimedMC_i4late01.cfg", "QBFTTimedMC_i5lat01.cfg", "QBFTTimedMC_e5lateldr.cfg",
                  "QBFTTimedMC_i6.cfg", "QBFTTimedMC_i6late.cfg", "QBFTTimedMC_e5nocrash01.cfg"]
    for cfg in timed:
        r = vlib.tlc(pid, qc.FAMILY, "QBFTTimedMC", cfg, timeout=1500)
        vlib.require_mc_ok(r, cfg)
        o.add_mc(cfg, r)
    if thorough:
        # control / known finding at n=5: the increasing timer with a late round-1 leader and one silent member runs away
        r = vlib.tlc(pid, qc.FAMILY, "QBFTTimedMC", "QBFTTimedMC_i5lateprobe.cfg", timeout=1500)
        if not r.violation:
            raise vlib.Infra("QBFTTimedMC_i5lateprobe no longer violates NoRunaway: " + r.summary())
        o.selftests.append({"control": "QBFTTimedMC_i5lateprobe (inc timer, n=5, late round-1 leader, one silent member) violates NoRunaway (finding C04-inc-timer-late-leader-desync at n=5)",
                            "rejected_as_required": True})
    timed_probe(o, regenerate=thorough)
    en = enumerate_n4(seed, thorough)
    if not thorough:
        rr = vlib.rng(seed, "c04/pick")
        en = rr.sample(en, 360)
    sm = sampled(seed, 1500 if thorough else 140, thorough)
    devs = [("C04-inc-timer-late-leader-desync", cfg_of_dev_inc)]
    vlib.conformance(o, qc.FAMILY, "QBFTTimedTrace", cfg_of, "c04", en, tag="enum_n4", chunk=120, dev_cfgs=devs)
    vlib.conformance(o, qc.FAMILY, "QBFTTimedTrace", cfg_of, "c04", sm, tag="sampled", chunk=120, dev_cfgs=devs)
    # around the inc-timer finding: late round-1 leader, f silent members, one high latency on every link
    vlib.conformance(o, qc.FAMILY, "QBFTTimedTrace", cfg_of, "c04", directed_inc(seed, 400 if thorough else 60),
                     tag="directed_inc", chunk=120, dev_cfgs=devs)
    # f = 2: a single prepared member among a bare quorum of running members (J2 with one prepared ROUND-CHANGE)
    vlib.conformance(o, qc.FAMILY, "QBFTTimedTrace", cfg_of, "c04", lone_prepared(seed, 200 if thorough else 24),
                     tag="lone_prepared", chunk=120, dev_cfgs=devs)
    tr = vlib.split_traces(vlib.read_ndjson(vlib.workdir(pid) + "/trace_sampled.ndjson"))
    vlib.binding_selftest(o, qc.FAMILY, "QBFTTimedTrace", cfg_of, tr, mutators())
    drs = [e["dround"] for t in tr for e in t if e.get("ev") == "Deliver" and e.get("rule") in ("QC", "JD")]
    o.extra["max_decision_round_observed"] = max(drs) if drs else 0
    o.extra["enumeration_complete_for_n4"] = bool(thorough)
    # component tier: real core/consensus/qbft.Consensus clusters on in-memory libp2p (mocknet) inside testing/synctest
    # (virtual time), with crashes, loss, late starters and a Byzantine member; validated by QBFTClusterTrace (cluster-
    # level invariants incl. BoundedDecision) and QBFTNodeTrace (each member's sniffed transcript against QBFT.tla)
    import conscluster
    conscluster.stage(o, tier, seed)
    return vlib.finish(o, "model_checking", RULE,
                       ["time is virtual (clockwork.FakeClock, 50 ms ticks); timers are the real core/consensus/timer objects",
                        "latencies <= 300 ms < 1/3 of the shortest round timeout (1 s); start offsets <= 950 ms < one round",
                        "one full leader rotation is counted in rounds: decision round <= r0 + n, r0 = highest round of a running member at the last fault",
                        "Byzantine behaviour is out of scope of C04 (crash / silent / late-start faults only)"])


def replay(path):
    rp = json.load(open(path))
    o = vlib.Outcome("C04", "quick", 0)
    vlib.conformance(o, qc.FAMILY, "QBFTTimedTrace", cfg_of, "c04", [rp["schedule"]], tag="replay")
    for p, t in o.violations:
        log("replay: " + t)
    return 1 if o.violations else 0
