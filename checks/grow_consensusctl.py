"""GROWTH family "ConsensusCtl" - core/consensus: controller.go (DefaultConsensus / CurrentConsensus /
SetCurrentConsensusForProtocol / Start), wrapper.go (the consensusWrapper behind CurrentConsensus), debugger.go (the
byte-bounded fifo served over HTTP), instance/instance_io.go together with the start protocol core/consensus/qbft builds on
it (Participate / Propose / handle / runInstance / deleteInstanceIO), protocols/protocols.go and the way app/app.go turns a
priority result into SetCurrentConsensusForProtocol.

Not a registered check: `stage(o, tier, seed)` runs the family as a stage (the Outcome `o` collects coverage and
violations); `main(tier, seed)` is a stand-alone driver, `replay(path)` re-runs a replay file.

The executor needs the build-tag hook core/consensus/verif_export.go (VerifNewController).  While the hook only exists under
/verif/pending_hooks it is added to the build with `go test -overlay` (the tree under test is not touched)."""
import json, os, re, time
import vlib
from vlib import log

FAMILY = "ConsensusCtl"
PKG = "consensusctl"
TRACE = "ConsensusCtlTrace"
WORKERS = int(os.environ.get("VERIF_TLC_WORKERS", "0")) or None
HOOK = "core/consensus/verif_export.go"

RULE = ("ConsensusCtl family: (ctl) the real consensusController + consensusWrapper around stub implementations D/X/X2/Y: every "
        "wrapper / controller call in its own goroutine, stub Participate / Propose blocked until the schedule lets them return, "
        "SetImpl / SetCurrentConsensusForProtocol (current, default, other, unknown, malformed ids) while calls are in flight, "
        "Subscribe before and after switches, decisions of every implementation, controller.Start, the end of its context, an "
        "injected wrapped-context cancel function, app.go's composition MostPreferredConsensusProtocol -> Set; (io) the real qbft "
        "component (cluster of one / of two) behind the real wrapper with the real instance IO and debugger and a stub deadliner "
        "inside testing/synctest: Participate / Propose / peer messages / duty deadline / context cancellation in every order, "
        "racing batches, goroutines held at the 'instance starting' log line, at deadliner.Add, inside a subscriber and inside the "
        "sniffer; (dbg) the real debugger with instances of exact protobuf sizes around the 50 MiB budget, concurrent AddInstance "
        "and ServeHTTP; (proto) the protocol-id helpers on lists with near-miss ids.  Schedules by TLC simulation of "
        "ConsensusCtlGen (ctl, io) and by a seeded random generator; every trace validated by ConsensusCtlTrace.tla")
ASSUMPTIONS = [
    "only mutual exclusion is taken from sync.RWMutex (a waiting SetImpl may or may not hold back new readers)",
    "io part: the stub deadliner is consistent (a duty whose deadline passed stays expired; it is emitted once, and only if it "
    "was added before), the cluster has one node (decides alone as soon as a value is proposed) or two (never decides alone); "
    "peer messages are valid ROUND-CHANGEs of the other node",
    "the switch to a non-default protocol does not exist in the tree (TODO comment of controller.go): SetImpl is reached "
    "through the build-tag hook VerifNewController, the sketched switch is model-checked at design level only",
    "app.go's closure (priority result -> SetCurrentConsensusForProtocol) is not executed itself: the executor composes the "
    "same two exported calls (protocols.MostPreferredConsensusProtocol, controller.SetCurrentConsensusForProtocol)",
    "protocol names in the generators are drawn from the table Lower of ConsensusCtl.tla (TLC has no string functions)",
]

FINDINGS = {
    "F1": ("GROW-CONSENSUSCTL-F1", "Strict = FALSE",
           "consensusWrapper.Subscribe hands the callback to the implementation that is current at that moment only: after a "
           "switch (SetImpl) the new implementation has no subscribers, its decisions reach nobody (latent: the tree has one "
           "protocol; core.Wire subscribes once, to the wrapper)"),
    "F2": ("GROW-CONSENSUSCTL-F2", "Relookup = TRUE",
           "qbft runInstance looks the duty's instance IO up a second time: when the deadliner deletes it between Participate's "
           "getInstanceIO and that lookup, the result goes to a fresh IO's ErrCh and a Propose waiting on the first IO's ErrCh "
           "(no ctx alternative) never returns"),
}

Q = {"k": "cons", "n": "qbft", "v": "2.0.0"}
XP = {"k": "cons", "n": "x", "v": "1.0.0"}
YP = {"k": "cons", "n": "y", "v": "1.0.0"}
AB = {"k": "cons", "n": "abft", "v": "1.0.0"}
OTHER = [{"k": "other", "n": s, "v": ""} for s in
         ("/charon/parsigex/2.0.0", "/charon/priority/2.0.0", "/charon/consensus", "charon/consensus/qbft/2.0.0",
          "/Charon/consensus/qbft/2.0.0", "", " /charon/consensus/qbft/2.0.0", "/charon/peerinfo/1.0.0")]
CONSIDS = [Q, XP, YP, AB, {"k": "cons", "n": "qbft", "v": "3.0.0"}, {"k": "cons", "n": "QBFT", "v": "2.0.0"},
           {"k": "cons", "n": "", "v": ""}, {"k": "cons", "n": "qbft", "v": ""}, {"k": "cons", "n": "qbf", "v": "2.0.0"},
           {"k": "cons", "n": "abft", "v": "2.0.0"}]
NAMES = ["qbft", "QBFT", "Qbft", "qBFT", "abft", "ABFT", "x", "", "qbf", "y"]
MAXB = 50 * (1 << 20)


def env():
    """go test environment: adds the pending hook by overlay when the tree under test does not have it"""
    if os.path.exists(os.path.join(vlib.REPO, HOOK)):
        return {}
    src = os.path.join(vlib.VERIF, "pending_hooks", HOOK)
    if not os.path.exists(src):
        raise vlib.Infra("hook %s neither in %s nor in pending_hooks" % (HOOK, vlib.REPO))
    d = vlib.workdir("_go")
    p = os.path.join(d, "consensusctl_overlay_%d.json" % os.getpid())
    with open(p, "w") as f:
        json.dump({"Replace": {os.path.join(os.path.realpath(vlib.REPO), HOOK): src,
                               os.path.join(vlib.REPO, HOOK): src}}, f)
    return {"GOFLAGS": "-mod=mod -overlay=" + p}


# ----------------------------------------------------------------------------------------------------------------------
# trace configurations: the named deviations the probes confirmed are switched on
# ----------------------------------------------------------------------------------------------------------------------
_dev = {"flags": {"F1", "F2"}}


def cfg_text(flags, solo=True):
    return "\n".join([
        "SPECIFICATION TraceSpec", "CONSTANTS",
        " Threads = {1, 2, 3, 4, 5, 6, 7, 8}", ' Impls = {"D", "X", "Y", "X2"}',
        ' WrapperSubs = "%s"' % ("forward" if "F1" in flags else "replay"),
        " Template = FALSE", " TemplateFix = FALSE", " QCalls = {1, 2, 3, 4, 5, 6}", " Duties = {1, 2, 3}", " NoPart = {3}",
        " Solo = %s" % ("TRUE" if solo else "FALSE"), " Relookup = %s" % ("TRUE" if "F2" in flags else "FALSE"),
        " BufCap = 100", " DThreads = {1, 2, 3, 4}", " MaxBytes = %d" % MAXB, ' Defect = "none"',
        " Strict = %s" % ("FALSE" if "F1" in flags else "TRUE"),
        "CONSTRAINT Mark", "POSTCONDITION Report", "CHECK_DEADLOCK FALSE", ""])


def is_solo(t):
    return not (t and t[0].get("mode") == "io" and not t[0].get("solo"))


def cfg_for(flags):
    def f(t):
        solo = is_solo(t)
        return ("ConsensusCtlTrace_%s_%s.cfg" % ("".join(sorted(flags)) or "contract", "solo" if solo else "duo"), cfg_text(flags, solo))
    return f


def cfg_of(t):
    return cfg_for(_dev["flags"])(t)


# ----------------------------------------------------------------------------------------------------------------------
# directed probes: one per named deviation
# ----------------------------------------------------------------------------------------------------------------------
def probes():
    return {
        "F1": [{"ev": "Cfg", "mode": "ctl"}, {"ev": "Call", "t": 1, "op": "sub", "sub": "s1"},
               {"ev": "Call", "t": 2, "op": "setimpl", "impl": "X"}, {"ev": "Decide", "i": "X", "d": 1},
               {"ev": "Call", "t": 3, "op": "sub", "sub": "s2"}, {"ev": "Decide", "i": "X", "d": 2}],
        "F2": [{"ev": "Cfg", "mode": "io", "solo": False, "subs": ["s1"], "hangok": True}, {"ev": "Msg", "d": 1},
               {"ev": "Hold", "g": "log"}, {"ev": "QCall", "c": 1, "kind": "part", "d": 1, "v": 0},
               {"ev": "QCall", "c": 2, "kind": "prop", "d": 1, "v": 2}, {"ev": "Expire", "d": 1}, {"ev": "Release", "g": "log"}],
    }


def confirm_deviations(o):
    """Each directed probe is executed twice.  Rejected by the contract cfg and accepted by the cfg of its named deviation: the
    deviation is in the tree -> KNOWN-FINDING, and it is switched on for the bulk run.  Accepted by the contract cfg: the
    deviation is gone (repaired tree).  Rejected by both: the regular violation path."""
    pr = probes()
    order = ["F1", "F2"]
    scheds = []
    for f in order:
        s = json.loads(json.dumps(pr[f]))
        s[0]["tag"] = "probe-" + f
        scheds += [s, s]
    traces, sids, wall = vlib.run_schedules(o.pid, PKG, "TestExec", scheds, tag="ccprobe", env=env(), timeout=400)
    if len(traces) != len(scheds):
        raise vlib.Infra("probes: %d schedules gave %d traces" % (len(scheds), len(traces)))
    name = lambda k: order[sids[k] // 2]
    vs = vlib.validate_traces(o.pid, FAMILY, TRACE, cfg_for(set()), traces)
    vd = vlib.validate_traces(o.pid, FAMILY, TRACE, lambda t: cfg_for({name(traces.index(t))})(t), traces)
    rej_s = {name(i) for i, _, _ in vs.rejected}
    acc_s = {name(i) for i in vs.accepted}
    rej_d = {name(i) for i, _, _ in vd.rejected}
    o.schedules += len(scheds)
    o.traces += len(traces)
    o.trace_events += sum(len(t) for t in traces)
    o.trace_states += vs.states + vd.states
    flags = set()
    for f in order:
        if f in rej_s and f in acc_s:
            raise vlib.Infra("probe %s: the two executions of one schedule got different verdicts" % f)
        if f in rej_s and f not in rej_d:
            flags.add(f)
            o.known.append((FINDINGS[f][0], FINDINGS[f][2]))
        elif f in rej_s:
            vlib.conformance(o, FAMILY, TRACE, cfg_for(set()), PKG, [pr[f]], tag="ccprobe_" + f, env=env())
            if not o.violations:
                raise vlib.Infra("probe %s rejected by the contract and by its deviation cfg, but not reproduced" % f)
        else:
            o.notes.append("deviation %s (%s) not observed on this tree: not switched on" % (f, FINDINGS[f][0]))
    o.known.sort()
    o.extra["consensusctl_deviations_confirmed"] = sorted(FINDINGS[f][0] for f in flags)
    _dev["flags"] = flags
    log("[%s] ConsensusCtl probes: %d executed in %.1fs; deviations confirmed: %s" % (o.pid, len(scheds), wall, " ".join(sorted(flags)) or "none"))


# ----------------------------------------------------------------------------------------------------------------------
# (a) histories of ConsensusCtlGen -> schedules
# ----------------------------------------------------------------------------------------------------------------------
def from_hist(r, part, solo, subs, hist):
    if part == "ctl":
        steps = []
        for e in hist:
            e = dict(e)
            if e["ev"] == "Exit":
                e["res"] = r.choice(["nil", "nil", "e1"])
            if e["ev"] == "Call" and e["op"] == "wstart":
                e["ctx"] = "w%d" % e["t"]
            steps.append(e)
            if r.random() < 0.1:
                steps.append({"ev": "Ident"})
        return [{"ev": "Cfg", "mode": "ctl"}] + steps
    steps = []
    for e in hist:
        steps.append(dict(e))
        if r.random() < 0.15:
            steps.append({"ev": "Inst"})
    return [{"ev": "Cfg", "mode": "io", "solo": solo, "subs": subs}] + steps


# ----------------------------------------------------------------------------------------------------------------------
# (b) seeded random schedules
# ----------------------------------------------------------------------------------------------------------------------
def random_ctl(r):
    steps, t, subs, inflight = [], 0, ["s1", "s2", "s3"], []
    started = cancelled = False
    ntok = 0
    n = r.choice([4, 6, 8, 10, 12, 14])
    for _ in range(n):
        k = r.choice(["part", "part", "prop", "sub", "pid", "wstart", "setimpl", "setimpl", "set", "set", "prio", "exit", "exit",
                      "decide", "decide", "start", "cancel", "token", "ident"])
        if k in ("part", "prop", "sub", "pid", "wstart", "setimpl", "set", "prio") and t >= 8:
            k = "exit" if inflight else "decide"
        if k in ("part", "prop"):
            t += 1
            steps.append({"ev": "Call", "t": t, "op": k, "d": r.choice([1, 2]), "v": r.choice([1, 2, 3]) if k == "prop" else 0})
            inflight.append(t)
        elif k == "sub":
            if not subs:
                continue
            t += 1
            steps.append({"ev": "Call", "t": t, "op": "sub", "sub": subs.pop(0)})
        elif k in ("pid", "wstart"):
            t += 1
            steps.append({"ev": "Call", "t": t, "op": k, "ctx": "w%d" % t if k == "wstart" else "-"})
        elif k == "setimpl":
            t += 1
            steps.append({"ev": "Call", "t": t, "op": "setimpl", "impl": r.choice(["D", "X", "X", "Y", "X2"])})
        elif k == "set":
            t += 1
            steps.append({"ev": "Call", "t": t, "op": "set", "pid": r.choice([Q, Q, XP, YP, AB] + CONSIDS[4:] + OTHER[:4])})
        elif k == "prio":
            t += 1
            steps.append({"ev": "Prio", "t": t, "l": [r.choice(OTHER + CONSIDS + [Q, Q]) for _ in range(r.choice([0, 1, 2, 3, 4]))]})
        elif k == "exit":
            if inflight:
                steps.append({"ev": "Exit", "t": inflight.pop(r.randrange(len(inflight))), "res": r.choice(["nil", "nil", "e1"])})
        elif k == "decide":
            steps.append({"ev": "Decide", "i": r.choice(["D", "D", "X", "Y", "X2"]), "d": r.choice([1, 2])})
        elif k == "start" and not started:
            started = True
            steps.append({"ev": "CtlStart"})
        elif k == "cancel" and started and not cancelled:
            cancelled = True
            steps.append({"ev": "AppCancel"})
        elif k == "token" and not cancelled and ntok < 2:
            ntok += 1
            steps.append({"ev": "SetCancel", "k": "k%d" % ntok})
        elif k == "ident":
            steps.append({"ev": "Ident"})
    return [{"ev": "Cfg", "mode": "ctl"}] + steps


def directed_ctl(r):
    """a switch while calls are in flight, subscribers on both sides of it, decisions of both implementations"""
    a, b = r.choice([("X", "D"), ("X", "Y"), ("Y", "X2"), ("X", "X")])
    steps = [{"ev": "Call", "t": 1, "op": "sub", "sub": "s1"}, r.choice([{"ev": "Call", "t": 2, "op": "part", "d": 1}, {"ev": "Call", "t": 2, "op": "prop", "d": 1, "v": 1}]),
             {"ev": "Call", "t": 3, "op": "setimpl", "impl": a}, r.choice([{"ev": "Call", "t": 4, "op": "part", "d": 2}, {"ev": "Call", "t": 4, "op": "prop", "d": 2, "v": 2}, {"ev": "Call", "t": 4, "op": "pid"},
                       {"ev": "Call", "t": 4, "op": "sub", "sub": "s2"}]),
             {"ev": "Exit", "t": 2, "res": "nil"}, {"ev": "Decide", "i": a, "d": 1}, {"ev": "Call", "t": 5, "op": "sub", "sub": "s3"},
             {"ev": "Call", "t": 6, "op": r.choice(["setimpl", "set"]), "impl": b, "pid": r.choice([Q, XP, AB])}, {"ev": "Exit", "t": 4, "res": "nil"},
             {"ev": "Decide", "i": b, "d": 2}, {"ev": "Decide", "i": "D", "d": 2}, {"ev": "Call", "t": 7, "op": "pid"}]
    if r.random() < 0.5:
        steps = [{"ev": "CtlStart"}] + steps
        k = r.randrange(1, len(steps))
        steps.insert(k, {"ev": "SetCancel", "k": "k1"})
        steps.insert(r.randrange(k + 1, len(steps) + 1), {"ev": "AppCancel"})
    return [{"ev": "Cfg", "mode": "ctl"}] + steps


def random_io(r):
    solo = r.random() < 0.55
    subs = r.choice([[], ["s1"], ["s1", "s2"], ["s1", "s2"]])
    duties = r.choice([[1], [1], [1, 2], [1, 3], [1, 2, 3]])
    steps, c, held, calls = [], 0, set(), []

    def qcall():
        nonlocal c
        c += 1
        d = r.choice(duties)
        calls.append(c)
        return {"ev": "QCall", "c": c, "kind": r.choice(["part", "prop", "prop"]), "d": d, "v": c}
    for _ in range(r.choice([3, 5, 7, 9, 11])):
        k = r.choice(["call", "call", "call", "par", "msg", "expire", "cancel", "cancel", "hold", "release", "release", "inst"])
        if k == "call" and c < 6:
            steps.append(qcall())
        elif k == "par" and c < 5:
            ops = [qcall(), qcall()]
            if c < 6 and r.random() < 0.3:
                ops.append(qcall())
            if r.random() < 0.3 and calls:
                ops.insert(r.randrange(len(ops) + 1), {"ev": "Cancel", "c": r.choice(calls)})
            if not solo and r.random() < 0.3:
                ops.insert(r.randrange(len(ops) + 1), {"ev": "Msg", "d": r.choice(duties)})
            steps.append({"ev": "Par", "ops": ops})
        elif k == "msg" and not solo:
            steps.append({"ev": "Msg", "d": r.choice(duties)})
        elif k == "expire":
            steps.append({"ev": "Expire", "d": r.choice(duties)})
        elif k == "cancel" and calls:
            steps.append({"ev": "Cancel", "c": r.choice(calls)})
        elif k == "hold":
            g = r.choice(["log", "add", "dlv", "sniff"])
            if g not in held:
                held.add(g)
                steps.append({"ev": "Hold", "g": g})
        elif k == "release" and held:
            g = r.choice(sorted(held))
            held.discard(g)
            steps.append({"ev": "Release", "g": g})
        elif k == "inst":
            steps.append({"ev": "Inst"})
    return [{"ev": "Cfg", "mode": "io", "solo": solo, "subs": subs}] + steps


def directed_io(r):
    """the starter held at runInstance's first statement (between MaybeStart and runInstance's own lookup of the instance
    IO) while the other call, a message, the duty's deadline, a cancellation arrive"""
    solo = r.random() < 0.4
    first = r.choice(["part", "prop"])
    steps = []
    if not solo and r.random() < 0.7:
        steps.append({"ev": "Msg", "d": 1})
    steps += [{"ev": "Hold", "g": "log"}, {"ev": "QCall", "c": 1, "kind": first, "d": 1, "v": 1}]
    c = 1
    for _ in range(r.choice([0, 1, 2, 3])):
        k = r.choice(["other", "same", "cancel", "msg", "inst"])
        if k in ("other", "same"):
            c += 1
            kind = ("prop" if first == "part" else "part") if k == "other" else first
            steps.append({"ev": "QCall", "c": c, "kind": kind, "d": 1, "v": c})
        elif k == "cancel":
            steps.append({"ev": "Cancel", "c": r.randint(1, c)})
        elif k == "msg" and not solo:
            steps.append({"ev": "Msg", "d": 1})
        elif k == "inst":
            steps.append({"ev": "Inst"})
    if r.random() < 0.6:
        steps.append({"ev": "Expire", "d": 1})
    steps.append({"ev": "Release", "g": "log"})
    for _ in range(r.choice([0, 1, 2])):
        if c < 6:
            c += 1
            steps.append({"ev": "QCall", "c": c, "kind": r.choice(["part", "prop"]), "d": 1, "v": c})
    return [{"ev": "Cfg", "mode": "io", "solo": solo, "subs": r.choice([[], ["s1"]])}] + steps


def random_dbg(r):
    steps, nid, total = [], 0, 0

    def add(sz, t=1):
        nonlocal nid
        nid += 1
        return {"ev": "Op", "t": t, "op": "add", "id": nid, "sz": max(2, sz)}
    shape = r.choice(["fill", "fill", "exact", "big", "small", "par"])
    nserve = 0
    if shape in ("fill", "exact", "par"):
        k = r.choice([2, 3, 4, 5])
        base = MAXB // k
        for i in range(k - 1):
            steps.append(add(base + r.choice([0, 0, 1, -1, 7])))
        used = sum(s["sz"] for s in steps)
        steps.append(add(MAXB - used + (0 if shape == "exact" else r.choice([0, 1, -1, 2, 100, -100]))))
    if shape == "big":
        steps.append(add(r.choice([1000, MAXB // 2])))
        steps.append(add(MAXB + r.choice([0, 1, -1, 1 << 20])))
    for _ in range(r.choice([1, 2, 3, 5])):
        k = r.choice(["add", "add", "serve", "par"])
        if k == "add":
            steps.append(add(r.choice([2, 3, 50, 1000, 1 << 20, MAXB // 3, MAXB // 2, MAXB // 2 + 1, MAXB - 1, MAXB, MAXB + 1])))
        elif k == "serve" and nserve < 3:
            nserve += 1
            steps.append({"ev": "Op", "t": 1, "op": "serve"})
        elif k == "par" and nserve < 3:
            nserve += 1
            ops = [add(r.choice([100, 1 << 20, MAXB // 2, MAXB // 3]), 2), {"t": 3, "op": "serve"}, add(r.choice([100, MAXB // 2, MAXB - 1000]), 4)]
            r.shuffle(ops)
            steps.append({"ev": "Par", "ops": ops})
    steps.append({"ev": "Op", "t": 1, "op": "serve"})
    return [{"ev": "Cfg", "mode": "dbg"}] + steps


def random_proto(r):
    steps = []
    pool = OTHER + CONSIDS + [Q, Q, AB]
    for _ in range(r.choice([4, 8, 12])):
        k = r.choice(["most", "most", "supp", "prio", "prio", "prio", "protos"])
        l = [r.choice(pool) for _ in range(r.choice([0, 1, 2, 3, 4, 5, 6]))]
        if k == "most":
            steps.append({"ev": "Most", "l": l})
        elif k == "supp":
            steps.append({"ev": "Supp", "name": r.choice(NAMES)})
        elif k == "prio":
            steps.append({"ev": "Prio", "name": r.choice(NAMES), "l": l})
        else:
            steps.append({"ev": "Protos"})
    return [{"ev": "Cfg", "mode": "proto"}] + steps


def random_schedules(seed, n):
    r = vlib.rng(seed, "consensusctl-rnd")
    out = []
    for k in range(n):
        out += [random_ctl(r), random_ctl(r), directed_ctl(r), random_io(r), random_io(r), random_io(r)]
        if k % 2 == 0:
            out.append(random_proto(r))
        if k % 3 == 0:
            out.append(random_dbg(r))
    return out


def directed_io_schedules(seed, n):
    r = vlib.rng(seed, "consensusctl-log")
    return [directed_io(r) for _ in range(n)]


# ----------------------------------------------------------------------------------------------------------------------
# binding self-tests: corrupt one recorded field / drop one event of an accepted trace -> must be rejected
# ----------------------------------------------------------------------------------------------------------------------
def mutators():
    def first(t, pred):
        for k, e in enumerate(t):
            if pred(e):
                return k
        return None

    def edit(pred, fn):
        def m(t):
            k = first(t, pred)
            if k is None:
                return None
            return t if fn(t, k) is not False else None
        return m

    def drop(pred):
        def m(t):
            k = first(t, pred)
            if k is None:
                return None
            del t[k]
            return t
        return m

    def other_impl(t, k):
        t[k]["i"] = "Y" if t[k]["i"] != "Y" else "D"

    def flip_set(t, k):
        t[k]["res"] = "ok" if t[k]["res"] == "err" else "err"

    def more_got(t, k):
        t[k]["got"] = t[k]["got"] + ["s3"]

    def dup(t, k):
        t.insert(k, dict(t[k]))

    def served(t, k):
        t[k]["ids"] = t[k]["ids"][1:]

    def bigger(t, k):
        t[k]["sz"] += MAXB

    def most(t, k):
        t[k]["out"] = t[k]["out"] + 1

    def prio(t, k):
        if len(t[k]["out"]) < 2 or t[k]["out"][0] == t[k]["out"][1]:
            return False
        t[k]["out"][0], t[k]["out"][1] = t[k]["out"][1], t[k]["out"][0]

    def result(t, k):
        t[k]["res"] = "timeout" if t[k]["res"] == "nil" else "nil"

    def runlog(t, k):
        t[k]["c"] = t[k]["c"] % 6 + 1

    def sniffn(t, k):
        t[k]["n"] += 1

    def pidret(t, k):
        t[k]["pid"] = dict(YP) if t[k]["pid"] != YP else dict(Q)

    def supp(t, k):
        t[k]["out"] = not t[k]["out"]

    is_set_ret = lambda t: (lambda e: e["ev"] == "Ret" and e["res"] in ("ok", "err"))
    return [("stub entered on another implementation", edit(lambda e: e["ev"] == "Enter", other_impl)),
            ("return of a wrapper call not observed", drop(lambda e: e["ev"] == "Ret")),
            ("one more subscriber called for a decision", edit(lambda e: e["ev"] == "Decide", more_got)),
            ("result of SetCurrentConsensusForProtocol flipped", edit(lambda e: e["ev"] == "Ret" and e["res"] in ("ok", "err"), flip_set)),
            ("ProtocolID of the wrapper answered another protocol", edit(lambda e: e["ev"] == "Ret" and e["pid"]["k"] == "cons", pidret)),
            ("subscription reached another implementation", edit(lambda e: e["ev"] == "ImplSub", other_impl)),
            ("invocation of the wrapped cancel function not observed", drop(lambda e: e["ev"] == "Cancelled")),
            ("Start reached another implementation", edit(lambda e: e["ev"] == "ImplStart", other_impl)),
            ("a subscriber's delivery not observed", drop(lambda e: e["ev"] == "Deliver")),
            ("a subscriber called twice for one decision", edit(lambda e: e["ev"] == "Deliver", dup)),
            ("result of Participate / Propose changed", edit(lambda e: e["ev"] == "QRet" and e["res"] in ("nil", "timeout"), result)),
            ("instance start attributed to another call", edit(lambda e: e["ev"] == "RunLog", runlog)),
            ("a second run passes the deadliner", edit(lambda e: e["ev"] == "DlAdd", dup)),
            ("one more peer message in the sniffed transcript", edit(lambda e: e["ev"] == "Sniff", sniffn)),
            ("return of Participate / Propose not observed", drop(lambda e: e["ev"] == "QRet")),
            ("served list without its oldest instance", edit(lambda e: e["ev"] == "DRet" and len(e["ids"]) > 0, served)),
            ("an added instance recorded 50 MiB larger", edit(lambda e: e["ev"] == "DCall" and e["op"] == "add", bigger)),
            ("most preferred protocol off by one", edit(lambda e: e["ev"] == "Most", most)),
            ("prioritised order with the first two swapped", edit(lambda e: e["ev"] == "Prio", prio)),
            ("supported-name answer flipped", edit(lambda e: e["ev"] == "Supp", supp))]


# ----------------------------------------------------------------------------------------------------------------------
CONTROLS = (("ConsensusCtlMC_ctl_F1.cfg", "SubscriberComplete", "wrapper.Subscribe forwards to the current implementation only (as coded, F1)"),
            ("ConsensusCtlMC_ctl_F2.cfg", "NoStuckCall", "runInstance looks the instance IO up again (as coded, F2)"),
            ("ConsensusCtlMC_ctl_liveF2.cfg", "temporal", "liveness control: every call returns -- not with the second lookup"),
            ("ConsensusCtlMC_ctl_sketch.cfg", "PrevCancelled", "the sketched protocol switch: back to the default leaves the wrapped context alive"),
            ("ConsensusCtlMC_ctl_names.cfg", "NameConsistency", "IsSupportedProtocolName folds case, PrioritizeProtocolsByName does not (as coded)"),
            ("ConsensusCtlMC_ctl_noLock.cfg", "InFlightInCurrent", "SetImpl does not wait for calls in flight"),
            ("ConsensusCtlMC_ctl_staleImpl.cfg", "InFlightInCurrent", "calls forwarded to the default instead of the current implementation"),
            ("ConsensusCtlMC_ctl_noEqualCheck.cfg", "SetContract", "switch to the current protocol is not a no-op"),
            ("ConsensusCtlMC_ctl_unknownOk.cfg", "SetContract", "unknown protocol id switches to the default"),
            ("ConsensusCtlMC_ctl_cancelDefault.cfg", "DefaultNeverCancelled", "the controller cancels the application's context"),
            ("ConsensusCtlMC_ctl_cancelTwice.cfg", "CancelAtMostOnce", "wrapped context cancelled on every switch and again at shutdown"),
            ("ConsensusCtlMC_ctl_deliverTwice.cfg", "DeliverNoDup", "subscribers called twice per decision"),
            ("ConsensusCtlMC_ctl_noCAS.cfg", "OneEffectiveRun", "MaybeStart always succeeds"),
            ("ConsensusCtlMC_ctl_noMark.cfg", "ResultRange", "MarkParticipated / MarkProposed never refuse"),
            ("ConsensusCtlMC_ctl_runExpired.cfg", "OneEffectiveRun", "runInstance ignores the deadliner's verdict"),
            ("ConsensusCtlMC_ctl_dbgNoSub.cfg", "TotalIsSum", "debugger: size of a dropped instance not subtracted"),
            ("ConsensusCtlMC_ctl_dbgGE.cfg", "Recent", "debugger: evicts at >= budget"),
            ("ConsensusCtlMC_ctl_dbgDropNewest.cfg", "Recent", "debugger: evicts the newest instance"))
QUICK_MC = ["ConsensusCtlMC_w_swap.cfg", "ConsensusCtlMC_w_ascoded.cfg", "ConsensusCtlMC_w_set.cfg", "ConsensusCtlMC_w_template.cfg",
            "ConsensusCtlMC_io_solo.cfg", "ConsensusCtlMC_io_duo.cfg", "ConsensusCtlMC_io_ascoded.cfg",
            "ConsensusCtlMC_dbg.cfg", "ConsensusCtlMC_proto.cfg", "ConsensusCtlMC_w_live.cfg", "ConsensusCtlMC_io_live.cfg"]
THOROUGH_MC = QUICK_MC + ["ConsensusCtlMC_io_two.cfg", "ConsensusCtlMC_w_swap_thorough.cfg", "ConsensusCtlMC_w_ascoded_thorough.cfg", "ConsensusCtlMC_w_set_thorough.cfg",
                          "ConsensusCtlMC_io_solo_thorough.cfg", "ConsensusCtlMC_io_duo_thorough.cfg", "ConsensusCtlMC_io_gates_thorough.cfg",
                          "ConsensusCtlMC_io_ascoded_thorough.cfg", "ConsensusCtlMC_dbg_thorough.cfg", "ConsensusCtlMC_w_live_thorough.cfg"]
GENS = (("ConsensusCtlGen_ctl.cfg", "ctl", True, []), ("ConsensusCtlGen_ctl_short.cfg", "ctl", True, []),
        ("ConsensusCtlGen_io_solo.cfg", "io", True, ["s1", "s2"]), ("ConsensusCtlGen_io_duo.cfg", "io", False, ["s1"]))


def design_check(o, tier, seed):
    """Design check, the controls that MUST be violated and the schedule generation -- independent TLC runs side by side
    (vlib.scratch is not thread-safe: the scratch dirs are made first).  Returns the generated histories and a function that
    waits for the model-checking runs and books their results (the conformance runs meanwhile)."""
    from concurrent.futures import ThreadPoolExecutor
    thorough = tier == "thorough"
    mains = THOROUGH_MC if thorough else QUICK_MC
    n = 1500 if thorough else 250
    jobs = [("ConsensusCtlGen", g[0], dict(simulate="num=%d" % n, depth=90, seed=seed + 1000 * k, workers=1)) for k, g in enumerate(GENS)]
    controls = CONTROLS
    if os.environ.get("VERIF_CONSENSUSCTL_NOMC"):      # mutation experiments: the design check does not depend on the tree
        mains, controls = [], ()
    jobs += [("ConsensusCtlMC", c, dict(workers=WORKERS or (4 if thorough else 2))) for c in mains]
    jobs += [("ConsensusCtlMC", c, dict(workers=1)) for c, _, _ in controls]
    dirs = [vlib.scratch(o.pid, FAMILY) for _ in jobs]
    ex = ThreadPoolExecutor(max_workers=8 if thorough else 10)
    futs = [ex.submit(vlib.tlc, o.pid, FAMILY, j[0], j[1], timeout=1700, sdir=d, **j[2]) for j, d in zip(jobs, dirs)]
    hists = []
    for g, f in zip(GENS, futs[:len(GENS)]):
        res = f.result()
        if res.error or res.timed_out or (res.violation and res.violation != "deadlock"):
            raise vlib.Infra("schedule generation failed: %s\n%s" % (res.summary(), res.out[-2000:]))
        seen = set()
        for p in vlib.tagged_prints(res, "SCHED"):
            if p not in seen:
                seen.add(p)
                hists.append((g, json.loads(p)))
        if not seen:
            raise vlib.Infra("schedule generation %s: no histories" % g[0])

    def join():
        res = [f.result() for f in futs[len(GENS):]]
        ex.shutdown()
        for cfg, r in zip(mains, res):
            vlib.require_mc_ok(r, cfg)
            o.add_mc("ConsensusCtl/" + cfg[:-4], r)
        for (cfg, inv, what), r in zip(controls, res[len(mains):]):
            got = r.violation
            if "Temporal property" in r.out and "was violated" in r.out:
                got = "temporal"
            m = re.search(r"The invariant of (\w+) is equal to FALSE", r.out)
            if m:
                got = m.group(1)
            if got != inv:
                raise vlib.Infra("design-spec control failed: '%s' not caught by %s: %s" % (what, inv, r.summary()))
            o.selftests.append({"control": "ConsensusCtl spec variant '%s' violates %s" % (what, inv), "rejected_as_required": True})
    return hists, join


def conform(o, scheds, tag):
    """conformance of one batch; as long as deviation F2 is in the tree a call that never returns is an accepted outcome of
    the io schedules (the executor then goes on with the next schedule instead of stopping)"""
    for s in scheds:
        if s[0]["mode"] == "io":
            s[0]["hangok"] = "F2" in _dev["flags"]
    vlib.conformance(o, FAMILY, TRACE, cfg_of, PKG, scheds, tag=tag, chunk=200, exec_timeout=900, tv_timeout=1500, env=env())
    tr = vlib.split_traces(vlib.read_ndjson(os.path.join(vlib.workdir(o.pid), "trace_%s.ndjson" % tag)))
    if len(tr) != len(scheds) and not o.violations:
        raise vlib.Infra("%s: %d schedules but %d traces (the executor stopped early)" % (tag, len(scheds), len(tr)))
    return tr


def stage(o, tier, seed):
    """Run the ConsensusCtl family as a stage of a check."""
    t0 = time.time()
    thorough = tier == "thorough"
    hists, join_design = design_check(o, tier, seed)
    confirm_deviations(o)
    r = vlib.rng(seed, "consensusctl-gen")
    r.shuffle(hists)
    hists = hists[:5000 if thorough else 520]
    gen = [from_hist(r, g[1], g[2], g[3], h) for g, h in hists]
    rnd = random_schedules(seed, 900 if thorough else 110)
    dirs = directed_io_schedules(seed, 600 if thorough else 80)
    o.extra["consensusctl_histories_by_tlc"] = len(gen)
    tr = []
    for tag, scheds in (("ccgen", gen), ("ccrnd", rnd), ("ccdir", dirs)):
        tr += conform(o, scheds, tag)
    join_design()
    if not o.violations:
        ms = mutators()
        nself = len(o.selftests)
        vlib.binding_selftest(o, FAMILY, TRACE, cfg_of, sorted(tr, key=len, reverse=True), ms, candidates=6)
        if len(o.selftests) - nself < len(ms):
            raise vlib.Infra("ConsensusCtl binding self-test: some negative control found no applicable trace")
    ev = [e for t in tr for e in t]
    cnt = lambda p: sum(1 for e in ev if p(e))
    o.extra["consensusctl_traces_by_mode"] = {m: sum(1 for t in tr if t[0].get("mode") == m) for m in ("ctl", "io", "dbg", "proto")}
    o.extra["consensusctl_wrapper_calls"] = cnt(lambda e: e["ev"] == "Call")
    o.extra["consensusctl_switches"] = cnt(lambda e: e["ev"] == "Call" and e["op"] in ("setimpl", "set"))
    o.extra["consensusctl_decisions_stub"] = cnt(lambda e: e["ev"] == "Decide")
    o.extra["consensusctl_component_calls"] = cnt(lambda e: e["ev"] == "QCall")
    o.extra["consensusctl_runs_started"] = cnt(lambda e: e["ev"] == "RunLog")
    o.extra["consensusctl_runs_effective"] = cnt(lambda e: e["ev"] == "DlAdd" and e["st"] == "sched")
    o.extra["consensusctl_deliveries"] = cnt(lambda e: e["ev"] == "Deliver")
    o.extra["consensusctl_hangs_as_coded"] = cnt(lambda e: e["ev"] == "Hang")
    o.extra["consensusctl_debugger_adds"] = cnt(lambda e: e["ev"] == "DCall" and e["op"] == "add")
    o.extra["consensusctl_debugger_serves"] = cnt(lambda e: e["ev"] == "DCall" and e["op"] == "serve")
    x = o.extra
    if not o.violations and min(x["consensusctl_switches"], x["consensusctl_decisions_stub"], x["consensusctl_runs_effective"],
                                x["consensusctl_deliveries"], x["consensusctl_debugger_serves"]) < 5:
        raise vlib.Infra("vacuous ConsensusCtl run: %s" % {k: v for k, v in x.items() if k.startswith("consensusctl_")})
    log("[%s] ConsensusCtl stage: %d TLC histories + %d random + %d directed schedules -> %d traces %s, %d wrapper calls (%d switches), "
        "%d component calls (%d runs, %d effective, %d deliveries, %d hangs), %d debugger adds / %d serves, %.0fs"
        % (o.pid, len(gen), len(rnd), len(dirs), len(tr), x["consensusctl_traces_by_mode"], x["consensusctl_wrapper_calls"],
           x["consensusctl_switches"], x["consensusctl_component_calls"], x["consensusctl_runs_started"], x["consensusctl_runs_effective"],
           x["consensusctl_deliveries"], x["consensusctl_hangs_as_coded"], x["consensusctl_debugger_adds"],
           x["consensusctl_debugger_serves"], time.time() - t0))


def main(tier="quick", seed=1, pid="GCONSENSUSCTL"):
    """Stand-alone driver (the evidence file is written by checks/grow_all.py when the family is registered)."""
    vlib.workdir(pid, fresh=True)
    o = vlib.Outcome(pid, tier, seed)
    try:
        stage(o, tier, int(seed))
    except vlib.Infra as e:
        log("INFRA: %s" % e)
        return 2
    for fid, txt in o.known:
        log("KNOWN-FINDING: property=%s %s: %s" % (pid, fid, txt))
    for path, txt in o.violations:
        log("VIOLATION property=%s replay=%s" % (pid, path))
        log("  " + txt)
    if o.violations:
        return 1
    log("[%s] OK tier=%s seed=%s: %d MC states, %d traces validated, %d self-test controls, %.0fs"
        % (pid, tier, seed, o.states, o.traces, len(o.selftests), time.time() - o.t0))
    return 0


def replay(path):
    rp = json.load(open(path))
    o = vlib.Outcome(rp.get("property", "GCONSENSUSCTL"), "quick", 0)
    confirm_deviations(o)
    vlib.conformance(o, FAMILY, TRACE, cfg_of, rp["pkg"], [rp["schedule"]], tag="replay", env=env())
    for p, t in o.violations:
        log("replay: " + t)
    return 1 if o.violations else 0


if __name__ == "__main__":
    import sys
    sys.exit(main(*(sys.argv[1:3] or ["quick", 1])))
