"""C12 - cluster artifacts are mutually consistent and tamper-evident (cluster/lock.go, definition.go, ssz.go,
distvalidator.go, eip712sigs.go, cmd/createcluster.go, cmd/combine, eth2util/keystore, deposit, registration)."""
import json
import vlib
from vlib import log

FAMILY = "ClusterArtifacts"
PKG = "c12"
RULE = ("cases = (configuration, step) pairs enumerated exhaustively by TLC from ClusterArtifactsGen: every format version "
        "v1.0..v1.11 x {lock, definition} x every leaf of the per-version protection table x every representative alteration "
        "(flip a bit, zero, truncate, extend by 0x00 / 0x01, empty, swap with a sibling, replace address, increment, negate, "
        "switch to a sibling version; for v1.11 artifacts whose EIP712 signature leaves hold 2 or 3 concatenated signatures also a bit "
        "at the first/middle/last byte and inside each 65-byte segment, judged by the hashes alone) and the value-preserving rewrites (decode/encode, key order, whitespace, hex case, "
        "address case); created clusters n=3..5 with every threshold: every node's keystores and deposit files, recombination "
        "of every node subset of size t-1, t, n; plus seeded larger clusters (n<=10, sampled subsets).  Sizes, networks, "
        "deposit-amount sets, addresses and the altered element/bit are seeded.  Executed on `charon create cluster` (cmd.New()), "
        "cluster.NewForT artifacts of every version, json.Unmarshal + VerifyHashes + VerifySignatures, keystore loaders, "
        "combine.Combine; distinct_nontrivial = distinct (version, artifact, leaf, alteration) with a changed value")
NETS = ["mainnet", "goerli", "gnosis", "chiado", "sepolia", "hoodi"]
AMOUNT_SETS = [[32], [1, 31], [16, 16], [8, 8, 16], [1, 32], [31, 1, 1], [8, 8, 8, 8], [1, 1, 30]]
AMOUNT_SETS_COMP = AMOUNT_SETS + [[32, 64], [1, 2047], [256, 8, 32]]


def vnum(ver):
    return int(ver.split(".")[1])


def addr(r):
    return "%040x" % r.getrandbits(160)


def fill_cfg(r, base, n=None, t=None):
    """The sizes / network / amounts / addresses the enumeration leaves open."""
    c = dict(base)
    vn = vnum(c["ver"])
    if c["src"] == "fort":
        c["n"] = n or r.choice([3, 4, 4, 5, 6, 7, 10])
        c["t"] = t or r.randint(2, c["n"])
        c["v"] = r.choice([2, 2, 3])
        c["net"] = r.choice(NETS)
        c["comp"] = vn >= 10 and r.random() < 0.4
        c["amounts"] = r.choice(AMOUNT_SETS_COMP if c["comp"] else AMOUNT_SETS) if vn >= 8 else []
        c["gas"] = r.choice([30000000, 36000000, 60000000])
    else:
        c["v"] = r.choice([1, 2, 3])
        c["net"] = r.choice(NETS)
        c["comp"] = r.random() < 0.3
        c["amounts"] = r.choice([[]] + (AMOUNT_SETS_COMP if c["comp"] else AMOUNT_SETS))
        c["gas"] = r.choice([30000000, 36000000, 60000000])
        # half of the created clusters get their configuration through a cluster definition file
        c["deffile"] = r.random() < 0.5
        if c["deffile"] and c["net"] in ("mainnet", "gnosis"):   # a definition file + --insecure-keys is refused there
            c["net"] = r.choice([x for x in NETS if x not in ("mainnet", "gnosis")])
    c["fee"] = [addr(r) for _ in range(c["v"])]
    c["wd"] = [addr(r) for _ in range(c["v"])]
    if r.random() < 0.5:    # one fee recipient for all validators (with per-validator withdrawal addresses) is a common configuration
        c["fee"] = [c["fee"][0]] * c["v"]
    c["seed"] = r.randint(1, 1 << 30)
    return c


def enumerate_cases(seed, sdir=None):
    """TLC enumerates the case space; returns {cfg key: (cfg step, [last steps])}."""
    r = vlib.tlc("C12", FAMILY, "ClusterArtifactsGen", "ClusterArtifactsGen.cfg", workers=1, timeout=600, sdir=sdir)
    if r.error or r.timed_out or r.violation:
        raise vlib.Infra("case enumeration failed: %s\n%s" % (r.summary(), r.out[-2000:]))
    groups = {}
    for p in vlib.tagged_prints(r, "SCHED"):
        s = json.loads(p)
        flawed = s[0].get("flaw", "none") != "none"
        if len(s) != (4 if flawed else 5) or [x["ev"] for x in s[:4]] != ["Cfg", "Create", "Load", "Verify"]:
            raise vlib.Infra("unexpected behaviour from the case enumeration: %s" % p[:300])
        k = json.dumps(s[0], sort_keys=True)
        g = groups.setdefault(k, (s[0], []))
        if not flawed:
            g[1].append(s[4])
    if len(groups) < 24:
        raise vlib.Infra("case enumeration incomplete: %d configurations" % len(groups))
    return groups, r


def case_key(st):
    return (st["ev"], st.get("leaf", ""), st.get("kind", ""), st.get("sel", ""), st.get("to", ""), json.dumps(st.get("nodes", st.get("node", ""))))


def build_schedules(seed, groups, thorough):
    r = vlib.rng(seed, "c12")
    fort, create = [], []
    v11_tampers = None
    for k in sorted(groups):
        cfg, steps = groups[k]
        steps = sorted(steps, key=case_key)
        if cfg["src"] == "fort" and cfg["flaw"] != "none":
            # an artifact with a built-in flaw: created (several sizes), loaded, verified - nothing else
            reps = 3 if thorough else 1
            if cfg["flaw"] == "twopoly":
                reps *= 3      # the shapes matter: (n, t) with n - t >= 2 and the common production sizes
            for k in range(reps):
                if cfg["flaw"] == "twopoly":
                    n, t = r.choice([(7, 5), (7, 5), (9, 6), (10, 7), (6, 3), (5, 3), (6, 4), (4, 2), (4, 3), (8, 6), (3, 2), (5, 5)])
                    c = fill_cfg(r, cfg, n=n, t=t)
                else:
                    c = fill_cfg(r, cfg)
                if c["t"] == c["n"] and cfg["flaw"] == "extrashare":
                    c["t"] -= 1
                fort.append([c, {"ev": "Create"}, {"ev": "Load", "node": 0}, {"ev": "Verify"}])
        elif cfg["src"] == "fort":
            tam = list(steps)
            if cfg.get("msig", 0) > 0:
                tam = tam * (4 if thorough else 2)     # few cases, seeded positions: all of them, repeatedly
            elif not thorough:
                # quick: every leaf keeps every alteration kind in at least one of its selectors; a seeded half of the rest
                keep, seen = [], set()
                r.shuffle(tam)
                for st in tam:
                    kk = (st["leaf"], st["kind"])
                    if kk not in seen or r.random() < 0.35:
                        keep.append(st)
                    seen.add(kk)
                tam = keep
            if thorough:       # every case under three independent configurations (sizes, network, amounts, element, bit)
                tam = tam * 3
            r.shuffle(tam)
            size = 60
            for a in range(0, len(tam), size):
                c = fill_cfg(r, cfg)
                # element of a list leaf: the first (as enumerated), a seeded one, or the LAST one (a later element may be
                # treated differently from the first, e.g. relative to its predecessor)
                def pick_sel(st):
                    if st.get("sel") != "first" or "[]" not in st.get("leaf", ""):
                        return st.get("sel", "")
                    x = r.random()
                    return "last" if x < 0.35 else ("rand" if x < 0.6 else "first")
                part = [dict(st, sel=pick_sel(st)) for st in tam[a:a + size]]
                fort.append([c, {"ev": "Create"}, {"ev": "Load", "node": 0}, {"ev": "Verify"}, {"ev": "Leaves"}] + part)
        else:
            others = [st for st in steps if st["ev"] != "Tamper"]
            tampers = [st for st in steps if st["ev"] == "Tamper"]
            v11_tampers = tampers
            create.append((cfg, others))
    # created clusters: the tamper cases of the current format are dealt out over the created clusters
    tam = list(v11_tampers or [])
    r.shuffle(tam)
    if not thorough:
        tam = tam[:len(tam) // 2]
    scheds = []
    nc = len(create)
    for i, (cfg, others) in enumerate(create):
        c = fill_cfg(r, cfg)
        r.shuffle(others)
        mine = tam[i::nc]
        # every other tamper case reaches verification through `combine` instead of load + verify: the altered lock sits in
        # one node directory (first / second / last / any), the others hold the pristine file
        routed = []
        for k, st in enumerate(mine):
            if k % 2 == 1 or thorough:
                at = r.choice([0, 1, c["n"] - 1, r.randrange(c["n"])])
                routed.append(dict(st, via="combine", at=at))
            if k % 2 == 0 or thorough:
                routed.append(st)
        mine = routed
        scheds.append([c, {"ev": "Create"}, {"ev": "Load", "node": r.randrange(c["n"])}, {"ev": "Verify"}] + others + mine)
    # larger clusters: seeded subsets
    for n in ([6, 7, 8, 9, 10] if thorough else r.sample([6, 7, 8, 9, 10], 2)):
        t = r.choice([0, 0, r.randint(2, n)])
        c = fill_cfg(r, {"ev": "Cfg", "src": "create", "art": "lock", "ver": "v1.11.0", "n": n, "t": t, "flaw": "none", "msig": 0})
        te = t or -(-2 * n // 3)
        steps = [{"ev": "Keystores", "node": i} for i in range(n)] + [{"ev": "Deposits", "node": r.randrange(n)}]
        for size in [te] * (6 if thorough else 3) + [te - 1] * (3 if thorough else 2) + [n, te + 1 if te < n else n, 1]:
            steps.append({"ev": "Combine", "nodes": sorted(r.sample(range(n), size))})
        r.shuffle(steps)
        scheds.append([c, {"ev": "Create"}, {"ev": "Load", "node": r.randrange(n)}, {"ev": "Verify"}] + steps)
    return fort, scheds


def nontrivial(traces):
    keys, evals = set(), 0
    for t in traces:
        if not t or t[0].get("ev") != "Reset":
            continue
        for e in t:
            if e.get("ev") in ("Tamper", "Keystores", "Deposits", "Combine"):
                evals += 1
            if e.get("ev") == "Tamper" and e.get("changed"):
                keys.add((t[0]["ver"], t[0]["art"], t[0]["src"], e["leaf"], e["kind"]))
    return keys, evals


def mutators():
    def verdict_flipped(t):
        # a detected alteration reported as passing
        for i, e in enumerate(t):
            if e.get("ev") == "Tamper" and e.get("changed") and i + 2 < len(t) and t[i + 1].get("ev") == "LoadT" \
                    and t[i + 1]["ok"] and t[i + 2].get("ev") == "Verify" and t[i + 2]["hashes"] == "fail" \
                    and not (e["leaf"] == "signature_aggregate" and e["kind"] == "empty"):
                t[i + 2]["hashes"], t[i + 2]["sigs"] = "ok", "ok"
                return t
        return None

    def rewrite_rejected(t):
        for i, e in enumerate(t):
            if e.get("ev") == "Tamper" and e.get("leaf") == "*" and e.get("kind") != "addrcase" and i + 2 < len(t):
                t[i + 2]["hashes"] = "fail"
                return t
        return None

    def rewrite_hash_changed(t):
        for i, e in enumerate(t):
            if e.get("ev") == "Tamper" and e.get("leaf") == "*" and e.get("kind") == "reencode" and i + 1 < len(t):
                t[i + 1]["heq"] = False
                return t
        return None

    def drop_verify(t):
        for i, e in enumerate(t):
            if e.get("ev") == "Tamper" and i + 2 < len(t) and t[i + 2].get("ev") == "Verify":
                del t[i + 2]
                return t
        return None

    def keystore_swapped(t):
        for e in t:
            if e.get("ev") == "Keystores" and len(e["pubs"]) >= 1:
                other = [x for x in t if x.get("ev") == "Keystores" and x["node"] != e["node"]]
                if other:
                    e["pubs"] = other[0]["pubs"]
                    return t
        return None

    def combine_below_threshold(t):
        for e in t:
            if e.get("ev") == "Combine" and not e["ok"]:
                good = [x for x in t if x.get("ev") == "Combine" and x["ok"]]
                if good:
                    e["ok"], e["pubs"] = True, good[0]["pubs"]
                    return t
        return None

    def combine_wrong_key(t):
        for e in t:
            if e.get("ev") == "Combine" and e["ok"] and len(e["pubs"]) >= 2:
                e["pubs"] = list(reversed(e["pubs"]))
                return t
        return None

    def wrong_threshold(t):
        for e in t:
            if e.get("ev") == "Load" and e.get("ok"):
                e["view"]["threshold"] += 1
                return t
        return None

    def flawed_accepted(t):
        if t[0].get("flaw", "none") != "none":
            for e in t:
                if e.get("ev") == "Verify":
                    e["hashes"], e["sigs"] = "ok", "ok"
                    return t
        return None

    def leaf_missing_from_table(t):
        for e in t:
            if e.get("ev") == "Leaves":
                e["paths"] = e["paths"] + ["cluster_definition.extra_field"]
                return t
        return None

    def deposit_bad_sig(t):
        for e in t:
            if e.get("ev") == "Deposits" and e["files"]:
                e["files"][0]["entries"][0]["sig_ok"] = False
                return t
        return None
    return [("verdict of a detected alteration flipped to passing", verdict_flipped),
            ("a value-preserving rewrite reported as failing verification", rewrite_rejected),
            ("re-encoding reported to change a hash", rewrite_hash_changed),
            ("Verify event dropped", drop_verify),
            ("keystore of another node", keystore_swapped),
            ("recombination below the threshold reported successful", combine_below_threshold),
            ("recombined keys permuted", combine_wrong_key),
            ("loaded threshold differs from the requested one", wrong_threshold),
            ("a JSON leaf unknown to the protection table", leaf_missing_from_table),
            ("an artifact with a share off the polynomial / a wrong signer reported as verified", flawed_accepted),
            ("deposit file entry with an invalid signature", deposit_bad_sig)]


# Finding C12-regfee-padding (pending_fixes/C12-regfee-length.diff): builder_registration.message.fee_recipient enters the
# lock hash as a zero-padded chunk without a length check.  A proposed fix exists, so no deviation is registered: the
# finding is reported as a VIOLATION until the fix is committed (ClusterArtifactsTrace_regfeepad.cfg accepts it).
DEV_CFGS = []


def run(tier, seed):
    o = vlib.Outcome("C12", tier, seed)
    thorough = tier == "thorough"
    # stage 0: design check of the declared protection + life-cycle, controls that MUST be violated, and (stage 1) the
    # case enumeration - independent TLC runs, started together
    from concurrent.futures import ThreadPoolExecutor
    mcfg = "ClusterArtifactsMC.cfg" if thorough else "ClusterArtifactsMC_quick.cfg"
    controls = (("ClusterArtifactsMC_ctl_dropamount.cfg", "TamperEvident", "deposit_amounts[] not covered by any hash"),
                ("ClusterArtifactsMC_ctl_dropregfee.cfg", "TamperEvident", "registration fee recipient not covered by the lock hash"),
                ("ClusterArtifactsMC_ctl_order.cfg", "ShareConsistency", "keystores written in reversed node order"),
                ("ClusterArtifactsMC_ctl_reach.cfg", "NeverCombined", "life-cycle never reaches recombination"),
                ("ClusterArtifactsMC_ctl_flaw.cfg", "NeverFlawRefused", "a flawed artifact is never refused"))
    dirs = [vlib.scratch("C12", FAMILY) for _ in range(len(controls) + 2)]     # scratch() is not thread-safe
    with ThreadPoolExecutor(max_workers=8) as ex:
        fmc = ex.submit(vlib.tlc, "C12", FAMILY, "ClusterArtifactsMC", mcfg, timeout=1500, workers=max(4, vlib.NCPU // 2),
                        sdir=dirs[0])
        fctl = [ex.submit(vlib.tlc, "C12", FAMILY, "ClusterArtifactsMC", c, timeout=600, workers=2, sdir=d)
                for (c, _, _), d in zip(controls, dirs[2:])]
        fgen = ex.submit(enumerate_cases, seed, dirs[1])
        r = fmc.result()
        ctl = [f.result() for f in fctl]
        groups, g = fgen.result()
    vlib.require_mc_ok(r, mcfg)
    o.add_mc(mcfg[:-4], r)
    log("[C12] design check %s: %s" % (mcfg, r.summary()))
    for (c, inv, what), rc in zip(controls, ctl):
        if rc.violation != inv:
            raise vlib.Infra("design-spec control failed: '%s' not caught by %s: %s" % (what, inv, rc.summary()))
        o.selftests.append({"control": "spec variant '%s' violates %s" % (what, inv), "rejected_as_required": True})
    o.add_mc("ClusterArtifactsGen(enumeration)", g)
    fort, created = build_schedules(seed, groups, thorough)
    log("[C12] %d cases enumerated by TLC in %.0fs -> %d fort + %d create schedules (%d steps); %.0fs so far"
        % (sum(len(v[1]) for v in groups.values()), g.wall, len(fort), len(created), sum(len(x) for x in fort + created),
           __import__("time").time() - o.t0))
    # stage 2+3
    vlib.conformance(o, FAMILY, "ClusterArtifactsTrace", "ClusterArtifactsTrace.cfg", PKG, fort, tag="fort", dev_cfgs=DEV_CFGS,
                     chunk=12, exec_timeout=2400)
    vlib.conformance(o, FAMILY, "ClusterArtifactsTrace", "ClusterArtifactsTrace.cfg", PKG, created, tag="create", dev_cfgs=DEV_CFGS,
                     chunk=2, exec_timeout=2400)
    w = vlib.workdir("C12")
    tf = vlib.split_traces(vlib.read_ndjson(w + "/trace_fort.ndjson"))
    tc = vlib.split_traces(vlib.read_ndjson(w + "/trace_create.ndjson"))
    keys, evals = nontrivial(tf + tc)
    o.extra["evaluations"] = evals
    o.extra["distinct_nontrivial"] = len(keys)
    o.samples = [{"family": FAMILY, "tag": s["tag"], "trace": [e if e.get("ev") != "Load" else dict(e, view="(omitted)") for e in s["trace"][:14]]}
                 for s in o.samples]
    # binding negative controls on recorded traces
    vlib.binding_selftest(o, FAMILY, "ClusterArtifactsTrace", "ClusterArtifactsTrace.cfg", tc + tf, mutators())
    if len(o.selftests) < 5 + 11 and not o.violations:
        raise vlib.Infra("binding self-test: some negative control found no applicable trace")
    return vlib.finish(o, "exploration", RULE,
                       ["the protection table is transcribed from the struct tags, the per-version JSON structs and the doc comments "
                        "(specs/ClusterArtifacts/ClusterArtifacts.tla); abstract crypto: injective hashes, unforgeable signatures",
                        "observable = loading + VerifyHashes + VerifySignatures(nil) as a whole; which stage notices an alteration is not "
                        "prescribed; a value-changing alteration the declarations do not cover may or may not be noticed (only "
                        "signature_aggregate removed from a v1.0/v1.1 lock)",
                        "legacy formats (v1.0-v1.2) hash the address text: another letter case may or may not verify there",
                        "definitions and locks of old versions come from cluster.NewForT (+ deposit data signed with the recovered root key), "
                        "created clusters from `charon create cluster --insecure-keys`; Safe multisig (ERC-1271) signatures of v1.11 are "
                        "not exercised (no execution client)",
                        "design check exhaustive over all versions/leaves/alterations and created clusters n<=4 (thorough: n<=6, all thresholds)"])


def replay(path):
    rp = json.load(open(path))
    o = vlib.Outcome("C12", "quick", 0)
    vlib.conformance(o, FAMILY, rp["trace_module"], rp["trace_cfg"], rp["pkg"], [rp["schedule"]], tag="replay")
    for p, t in o.violations:
        log("replay: " + t)
    return 1 if o.violations else 0
