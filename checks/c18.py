"""C18 - values passed between workflow components are isolated copies (core/dutydb, core/parsigdb, core/aggsigdb,
core/sigagg, core/fetcher, core/scheduler, core/validatorapi subscriber fan-outs; Clone() implementations in core/)."""
import json, os
import vlib
from vlib import log

FAMILY = "Isolation"
TRACE, CFG = "IsolationTrace", "IsolationTrace.cfg"
RULE = ("schedules = (component, hand-in point, value type, fork version) + a history of New / Put / Get(out-point) / "
        "Mutate(holder, k-th reachable reference) / Read over writers, readers and subscribers; generated (a) by TLC simulation "
        "of IsolationGen, (b) by enumeration: for every row of the spec's hand-off table and every value type/version the "
        "canonical history store - read - mutate the writer's original - read again - second reader - mutate reader 1's "
        "result - third read, with the mutated reference swept over what the reflection walker finds, (c) by a seeded "
        "random generator; executed on the real DutyDB / ParSigDB / AggSigDB v1+v2 / SigAgg / Fetcher / Scheduler / "
        "ValidatorAPI with testutil random values; distinct = distinct (component, type, version, event shape)")

SIGNED = {"signature": ["-"], "proposal": ["bellatrix", "capella", "deneb", "electra", "fulu"],
          "blinded": ["bellatrix", "capella", "deneb", "electra", "fulu"], "attestation": ["deneb", "electra", "fulu"],
          "exit": ["-"], "registration": ["-"], "randao": ["-"], "bcselection": ["-"], "scselection": ["-"],
          "aggproof": ["-"], "vaggproof": ["deneb", "electra"], "syncmsg": ["-"], "contribproof": ["-"],
          "scontribproof": ["-"]}
UNSIGNED = {"att": ["phase0", "electra"],
            "pro": ["capella", "deneb", "electra", "fulu", "bellatrix-blinded", "capella-blinded"],
            "agg": ["deneb", "electra"], "contrib": ["-"], "contribs": ["-"]}
# the hand-off table as the generators need it (the authoritative table is in specs/Isolation/Isolation.tla)
COMPS = {
    "dutydb": {"in": ["Store"], "fan": False, "types": UNSIGNED,
               "out": {"att": ["AwaitAttestation", "PubKeyByAttestation"], "pro": ["AwaitProposal", "VapiProposal"],
                       "agg": ["AwaitAggAttestation"], "contrib": ["AwaitSyncContribution"],
                       "contribs": ["AwaitSyncContribution"]}},
    "parsigdb": {"in": ["StoreInternal", "StoreExternal"], "fan": True, "types": SIGNED, "ncb": 4},
    "aggsigdb1": {"in": ["Store"], "fan": False, "types": SIGNED, "out": {t: ["Await"] for t in SIGNED}},
    "aggsigdb2": {"in": ["Store"], "fan": False, "types": SIGNED, "out": {t: ["Await"] for t in SIGNED}},
    "sigagg": {"in": ["Aggregate"], "fan": True, "types": {t: v for t, v in SIGNED.items() if t != "signature"}, "ncb": 2},
    "fetcher": {"in": ["Fetch"], "fan": True, "types": {"att": ["phase0", "electra"], "pro": ["capella", "deneb", "electra", "fulu"]},
                "ncb": 2},
    "scheduler": {"in": ["Resolve"], "fan": True, "types": {"attdef": ["-"], "prodef": ["-"], "syncdef": ["-"]}, "ncb": 2,
                  "query": "GetDutyDefinition"},
    "vapi": {"in": ["Submit"], "fan": True, "types": {"exit": ["-"], "syncmsg": ["-"]}, "ncb": 2},
}
RACE_COMPS = [c for c in COMPS if c != "scheduler"]   # the scheduler runs background goroutines of its own


def cfg(comp, typ, ver, n, **kw):
    d = {"ev": "Cfg", "comp": comp, "typ": typ, "ver": ver, "n": n}
    d.update(kw)
    return d


def fix_writer_mutations(comp, steps):
    """A hand-in is complete when the call returns: for a fan-out component the writer of the value being handed in does
    not write to it while the subscribers are still being called (its Mutate steps between two subscriber markers are
    dropped).  The scheduler's writer is the beacon node's answer, which the scheduler owns after the call (assumption
    listed in the evidence): it is held for the sharing comparison but never mutated."""
    if comp == "scheduler":
        steps = [s for s in steps if not (s["ev"] == "Mutate" and s["h"].startswith("w"))]
    if not COMPS[comp]["fan"]:
        return steps
    out, cur = [], None
    for i, s in enumerate(steps):
        if s["ev"] == "Put":
            cur = s["h"]
        elif s["ev"] == "New":
            cur = None
        elif s["ev"] == "Mutate" and s["h"] == cur:
            later_marker = False
            for x in steps[i + 1:]:
                if x["ev"] in ("Put", "New"):
                    break
                if x["ev"] == "Get" and x.get("p") != COMPS[comp].get("query", "-"):
                    later_marker = True
                    break
            if later_marker:
                continue
        out.append(s)
    return out


def concretise(r, sched):
    """TLC-generated schedules name component, type and holders; the version, which reference a Mutate writes through
    and the query arguments are chosen here."""
    c = sched[0]
    comp, typ = c["comp"], c["typ"]
    vers = COMPS[comp]["types"].get(typ)
    if vers is None:
        return None
    out = [cfg(comp, typ, r.choice(vers), r.randrange(1000))]
    for s in sched[1:]:
        s = dict(s)
        if s["ev"] == "Mutate":
            s["k"] = r.randrange(64)
        if s["ev"] == "Get":
            s["arg"] = r.randrange(4)
        out.append(s)
    return [out[0]] + fix_writer_mutations(comp, out[1:])


def canonical(r, comp, inp, typ, ver, ks):
    """store - read - mutate writer - read again - second reader - mutate reader 1 - third read ..."""
    C = COMPS[comp]
    k = iter(ks)
    M = lambda h: {"ev": "Mutate", "h": h, "k": next(k)}
    R = lambda h: {"ev": "Read", "h": h}
    steps = [cfg(comp, typ, ver, r.randrange(1000)), {"ev": "New", "h": "w1"}, {"ev": "Put", "p": inp, "h": "w1"}]
    if not C["fan"]:
        outs = C["out"][typ]
        p = r.choice(outs)
        G = lambda to, pp=None: {"ev": "Get", "p": pp or p, "to": to, "of": "w1", "arg": r.randrange(4)}
        steps += [G("r1"), M("w1"), R("r1"), G("r2"), M("r1"), R("r2"), G("r3", r.choice(outs)), M("r2"), R("r3"), R("r1"),
                  G("r4", r.choice(outs)), R("w1")]
    else:
        n = C["ncb"]
        for i in range(1, n + 1):
            steps += [{"ev": "Get", "to": "r%d" % i}]
            if i < n or r.random() < 0.5:
                steps += [M("r%d" % i)]
            if i > 1:
                steps += [R("r%d" % (i - 1))]
        steps += [M("w1"), R("r1"), R("r%d" % n), M("r%d" % n), R("r1"), R("w1")]
        if "query" in C:
            q = lambda to: {"ev": "Get", "p": C["query"], "to": to, "of": "w1"}
            steps += [q("q1"), M("q1"), q("q2"), R("q1"), M("r1"), q("q3")]
    return [steps[0]] + fix_writer_mutations(comp, steps[1:])


def threshold_two(r, typ, ver, ks):
    """ParSigDB with threshold 2: the first partial is stored, its writer mutates the original, then the second partial
    completes the threshold: what the subscribers are handed must be the partials as they were handed in."""
    k = iter(ks)
    M = lambda h: {"ev": "Mutate", "h": h, "k": next(k)}
    return [cfg("parsigdb", typ, ver, r.randrange(1000), t=2, same=True), {"ev": "New", "h": "w1"},
            {"ev": "Put", "p": r.choice(["StoreInternal", "StoreExternal"]), "h": "w1"}, M("w1"), {"ev": "Read", "h": "w1"},
            {"ev": "New", "h": "w2"}, {"ev": "Put", "p": r.choice(["StoreInternal", "StoreExternal"]), "h": "w2"},
            {"ev": "Get", "to": "r1"}, M("r1"), {"ev": "Get", "to": "r2"}, {"ev": "Read", "h": "r1"}, M("w2"),
            {"ev": "Read", "h": "r2"}]


def restore(r, comp, inp, typ, ver, ks):
    """Stores: a second writer hands in an EQUAL datum for the same key (re-store), then writes to its own object; what
    the store hands out afterwards must be unaffected (the replace / already-present path must copy like the insert path)."""
    C = COMPS[comp]
    k = iter(ks)
    M = lambda h: {"ev": "Mutate", "h": h, "k": next(k)}
    R = lambda h: {"ev": "Read", "h": h}
    outs = C["out"][typ]
    G = lambda to, of: {"ev": "Get", "p": r.choice(outs), "to": to, "of": of, "arg": r.randrange(4)}
    steps = [cfg(comp, typ, ver, r.randrange(1000), same=True), {"ev": "New", "h": "w1"}, {"ev": "Put", "p": inp, "h": "w1"}]
    if r.random() < 0.5:
        steps += [G("r0", "w1")]
    steps += [{"ev": "New", "h": "w2"}, {"ev": "Put", "p": inp, "h": "w2"}, G("r1", "w2"), M("w2"), G("r2", "w2"), R("r1"),
              M("w1"), G("r3", "w1"), R("r2"), M("r2"), G("r4", "w2"), R("r3"), R("w2")]
    if r.random() < 0.5:   # a third equal hand-in after the second writer's object was changed behind the store's back
        steps += [{"ev": "New", "h": "w3"}, {"ev": "Put", "p": inp, "h": "w3"}, G("r5", "w3"), M("w3"), G("r6", "w1"), R("r5")]
    return steps


BLOCKING = {"AwaitAttestation", "AwaitProposal", "AwaitAggAttestation", "AwaitSyncContribution", "Await"}


def blocked(r, comp, inp, typ, ver, ks, same=False):
    """Stores: two to four readers are ALREADY WAITING inside the store (blocked Await* calls) when the datum is handed in, so
    one hand-in answers all of them (the wake-up path, which need not be the path a reader takes that arrives later); then
    one of them writes to what it got, the others look again, and later readers are served.  With same=True a second
    writer re-stores an equal datum while further readers wait (nothing new to wait for: they are answered at once)."""
    C = COMPS[comp]
    k = iter(ks)
    M = lambda h: {"ev": "Mutate", "h": h, "k": next(k)}
    R = lambda h: {"ev": "Read", "h": h}
    outs = [p for p in C["out"][typ] if p in BLOCKING]
    if not outs:
        return None
    nb = r.randint(2, 4)
    same_point = r.random() < 0.7
    p0 = r.choice(outs)
    a0 = r.randrange(4)
    bl = [{"p": p0 if same_point else r.choice(outs), "to": "b%d" % i, "arg": a0 if same_point else r.randrange(4)} for i in range(1, nb + 1)]
    G = lambda to, of="w1": {"ev": "Get", "p": r.choice(C["out"][typ]), "to": to, "of": of, "arg": r.randrange(4)}
    steps = [cfg(comp, typ, ver, r.randrange(1000), same=same), {"ev": "New", "h": "w1"},
             {"ev": "Put", "p": inp, "h": "w1", "blocked": bl}]
    steps += [M("b1"), R("b2")] + [R("b%d" % i) for i in range(3, nb + 1)]
    steps += [M("b%d" % nb), R("b1"), G("r1"), R("r1"), M("w1"), R("b2"), G("r2"), M("r1"), R("r2"), R("b%d" % nb)]
    if same:
        steps += [{"ev": "New", "h": "w2"}, {"ev": "Put", "p": inp, "h": "w2", "blocked": [{"p": r.choice(outs), "to": "c1", "arg": r.randrange(4)},
                                                                                   {"p": r.choice(outs), "to": "c2", "arg": r.randrange(4)}]},
                  M("c1"), R("c2"), M("w2"), G("r3", "w2"), R("c2"), R("b2")]
    return steps


def enumerated(seed, thorough):
    r = vlib.rng(seed, "c18enum")
    out = []
    reps = 6 if thorough else 1
    for comp, C in COMPS.items():
        for typ, vers in C["types"].items():
            for ver in vers:
                for inp in C["in"]:
                    for _ in range(reps):
                        out.append(canonical(r, comp, inp, typ, ver, [r.randrange(64) for _ in range(12)]))
                if comp == "parsigdb" and typ != "signature":
                    for _ in range(reps):
                        out.append(threshold_two(r, typ, ver, [r.randrange(64) for _ in range(4)]))
                if not C["fan"]:
                    for inp in C["in"]:
                        for _ in range(3 * reps):
                            out.append(restore(r, comp, inp, typ, ver, [r.randrange(64) for _ in range(6)]))
                        for i in range(2 * reps):
                            b = blocked(r, comp, inp, typ, ver, [r.randrange(64) for _ in range(8)], same=(i % 2 == 1))
                            if b:
                                out.append(b)
    return out


def sweep(seed, thorough):
    """The mutated reference swept over everything the walker finds (k = 0..K-1 in turn, for the writer and for reader 1)."""
    r = vlib.rng(seed, "c18sweep")
    out = []
    K = 64 if thorough else 10
    for comp, C in COMPS.items():
        for typ, vers in C["types"].items():
            for ver in (vers if thorough else [r.choice(vers)]):
                inp = r.choice(C["in"])
                base = r.randrange(64)
                for k in range(K):
                    out.append(canonical(r, comp, inp, typ, ver, [base + k] * 12))
    return out


def random_schedules(seed, n):
    r = vlib.rng(seed, "c18rnd")
    out = []
    for _ in range(n):
        comp = r.choice(list(COMPS))
        C = COMPS[comp]
        typ = r.choice(list(C["types"]))
        ver = r.choice(C["types"][typ])
        steps = [cfg(comp, typ, ver, r.randrange(1000)), {"ev": "New", "h": "w1"}]
        holders, put, nr = ["w1"], set(), 0
        for _ in range(r.randint(6, 16)):
            x = r.random()
            if x < 0.08 and "w2" not in holders and comp != "scheduler":
                steps.append({"ev": "New", "h": "w2"})
                holders.append("w2")
            elif x < 0.25:
                w = r.choice([h for h in holders if h.startswith("w")])
                steps.append({"ev": "Put", "p": r.choice(C["in"]), "h": w})
                put.add(w)
                if C["fan"]:
                    for _ in range(C["ncb"]):
                        nr += 1
                        steps.append({"ev": "Get", "to": "r%d" % nr})
                        holders.append("r%d" % nr)
                        if r.random() < 0.6:
                            steps.append({"ev": "Mutate", "h": r.choice(holders), "k": r.randrange(64)})
            elif x < 0.5 and put and (not C["fan"] or "query" in C):
                nr += 1
                p = C["query"] if C["fan"] else r.choice(C["out"][typ])
                steps.append({"ev": "Get", "p": p, "to": "r%d" % nr, "of": r.choice(sorted(put)), "arg": r.randrange(4)})
                holders.append("r%d" % nr)
            elif x < 0.78:
                steps.append({"ev": "Mutate", "h": r.choice(holders), "k": r.randrange(64)})
            else:
                steps.append({"ev": "Read", "h": r.choice(holders)})
        for h in holders:
            steps.append({"ev": "Read", "h": h})
        out.append([steps[0]] + fix_writer_mutations(comp, steps[1:]))
    return out


def shape(t):
    c = t[0]
    return [c.get("comp"), c.get("typ"), c.get("ver")] + [(e.get("ev"), e.get("p"), e.get("h") or e.get("to")) for e in t[1:]]


def mutators():
    def last_hash(t, h, upto):
        x = None
        for e in t[:upto]:
            if (e.get("h") == h and e["ev"] in ("New", "Mutate", "Read")) or (e.get("to") == h and e["ev"] == "Get"):
                x = e["hash"]
        return x

    def read_changed(t):
        for e in t:
            if e["ev"] == "Read":
                e["hash"] = "0badc0ffee00"
                return t
        return None

    def shares_injected(t):
        seen = []
        for e in t:
            if e["ev"] == "Get":
                if seen:
                    e["shares"] = [seen[0]]
                    return t
                seen.append(e["to"])
        return None

    def foreign_elem(t):
        for e in t:
            if e["ev"] == "Get" and e["p"] in ("internal", "threshold", "Await") and e["elems"]:
                e["elems"] = ["0badc0ffee00"] + e["elems"][1:]
                return t
        return None

    def second_get_differs(t):
        first = {}
        for e in t:
            if e["ev"] in ("Put",):
                first = {}
            if e["ev"] == "Get":
                k = (e["p"], e["key"])
                if k in first:
                    e["hash"] = "0badc0ffee00"
                    return t
                first[k] = 1
        return None

    def drop_new(t):
        for i, e in enumerate(t):
            if e["ev"] == "New":
                del t[i]
                return t
        return None

    def ineffective_mutation(t):
        for i, e in enumerate(t):
            if e["ev"] == "Mutate":
                x = last_hash(t, e["h"], i)
                if x:
                    e["hash"] = x
                    return t
        return None

    def put_of_other_content(t):
        for e in t:
            if e["ev"] == "Put":
                e["hash"] = "0badc0ffee00"
                return t
        return None
    return [("a reader's content changed without its own write", read_changed),
            ("two holders reported to share memory", shares_injected),
            ("an element never handed in comes out of a pass-through point", foreign_elem),
            ("second reader handed other content than the first", second_get_differs),
            ("New event dropped", drop_new), ("Mutate that did not change the mutator's content", ineffective_mutation),
            ("Put of a content the writer does not hold", put_of_other_content)]


def race_stage(o, schedules, tag="race"):
    """Thorough tier: the same histories with every other holder reading its value while one holder writes, under the
    race detector.  A reported race is logged by the executor as a Race event, which no spec step matches."""
    w = vlib.workdir(o.pid)
    sp, tp, rl = os.path.join(w, "sched_%s.ndjson" % tag), os.path.join(w, "trace_%s.ndjson" % tag), os.path.join(w, "racelog_" + tag)
    with open(sp, "w") as f:
        for s in schedules:
            f.write(json.dumps(s, separators=(",", ":")) + "\n")
    for p in [tp] + [os.path.join(w, x) for x in os.listdir(w) if x.startswith("racelog_" + tag)]:
        if os.path.exists(p):
            os.remove(p)
    env = {"VERIF_SCHED": sp, "VERIF_OUT": tp, "VERIF_CONC": "1", "VERIF_RACELOG": rl,
           "GORACE": "log_path=%s halt_on_error=0" % rl}
    rc, out, wall = vlib.go_exec("c18", "TestExec", env, timeout=1500, race=True)
    if not os.path.exists(tp):
        raise vlib.Infra("race executor produced no trace (rc=%s):\n%s" % (rc, out[-3000:]))
    traces = vlib.split_traces(vlib.read_ndjson(tp))
    raced = [t for t in traces if any(e.get("ev") == "Race" for e in t)]
    if rc != 0 and not raced:
        raise vlib.Infra("race executor failed (rc=%s):\n%s" % (rc, out[-3000:]))
    v = vlib.validate_traces(o.pid, FAMILY, TRACE, CFG, traces)
    o.schedules += len(schedules)
    o.traces += len(traces)
    o.trace_events += sum(len(t) for t in traces)
    o.trace_states += v.states
    log("[%s] %s/%s: %d schedules -> %d traces under -race with concurrent readers in %.1fs: %d accepted, %d rejected"
        % (o.pid, FAMILY, tag, len(schedules), len(traces), wall, len(v.accepted), len(v.rejected)))
    for (ti, pos, reason) in v.rejected[:3]:
        t = traces[ti]
        path = vlib.save_replay(o.pid, "%s_%s_%d" % (FAMILY, tag, t[0].get("sid", ti)),
                                {"property": o.pid, "family": FAMILY, "trace_module": TRACE, "trace_cfg": CFG, "pkg": "c18",
                                 "test": "TestExec", "race": True, "schedule": schedules[t[0].get("sid", ti)], "trace": t,
                                 "rejected_at_event": pos, "event": t[pos] if pos < len(t) else None, "reason": reason})
        o.violations.append((path, "%s (-race): %s at event %d: %s" % (FAMILY, reason, pos, json.dumps(t[pos] if pos < len(t) else None)[:300])))


def run(tier, seed):
    o = vlib.Outcome("C18", tier, seed)
    thorough = tier == "thorough"
    # stage 0: design check of the REQUIRED system (every hand-off copies) + controls: one aliasing hand-off MUST violate it
    r = vlib.tlc("C18", FAMILY, "IsolationMC", "IsolationMC.cfg" if thorough else "IsolationMC_quick.cfg", timeout=1500)
    vlib.require_mc_ok(r, "IsolationMC")
    o.add_mc("IsolationMC" + ("" if thorough else "_quick"), r)
    for c, inv, what in (("IsolationMC_ctl_out.cfg", "Observable", "DutyDB Await* return the stored pointer"),
                         ("IsolationMC_ctl_out_ids.cfg", "NoSharing", "DutyDB Await* return the stored pointer (identities)"),
                         ("IsolationMC_ctl_in.cfg", "Observable", "a store keeps the writer's object"),
                         ("IsolationMC_ctl_fan.cfg", "Observable", "all subscribers are handed one object")):
        r = vlib.tlc("C18", FAMILY, "IsolationMC", c, timeout=600)
        if r.violation != inv:
            raise vlib.Infra("design-spec control failed: '%s' not caught by %s: %s" % (what, inv, r.summary()))
        o.selftests.append({"control": "spec variant '%s' violates %s" % (what, inv), "rejected_as_required": True})
    # stage 1: schedules
    g, _ = vlib.gen_schedules("C18", FAMILY, "IsolationGen", "IsolationGen.cfg", num=1500 if thorough else 120, depth=14,
                              seed=seed, limit=12000 if thorough else 1500)
    rv = vlib.rng(seed, "c18var")
    scheds = [s for s in (concretise(rv, x) for x in g) if s]
    enum = enumerated(seed, thorough)
    sw = sweep(seed, thorough)
    rnd = random_schedules(seed, 6000 if thorough else 600)
    # stage 2+3
    for tag, ss in (("tlcgen", scheds), ("enum", enum), ("sweep", sw), ("random", rnd)):
        vlib.conformance(o, FAMILY, TRACE, CFG, "c18", ss, tag=tag, key=shape)
    if thorough:
        rr = [s for s in enum + rnd[:1500] if s[0]["comp"] in RACE_COMPS]
        race_stage(o, rr)
    # binding negative controls on recorded traces
    tr = vlib.split_traces(vlib.read_ndjson(vlib.workdir("C18") + "/trace_enum.ndjson"))
    vlib.binding_selftest(o, FAMILY, TRACE, CFG, tr, mutators())
    if len(o.selftests) < 4 + 7 and not o.violations:
        raise vlib.Infra("binding self-test: some negative control found no applicable trace")
    return vlib.finish(o, "exploration", RULE,
                       ["values are testutil random objects (not derived from VERIF_SEED; only the histories are); content = hash of a "
                        "reflection dump of the whole value graph (every field, through pointers, slices, maps, interfaces); sharing = "
                        "overlap of pointees / slice backing arrays (up to capacity) / map headers reachable from two holders' values; "
                        "zero-length allocations and strings are not mutable memory",
                        "references behind unexported fields (big.Int internals) are compared and hashed but not written through",
                        "what a component keeps internally is not inspected: an aliasing hand-in shows up when a later read / fan-out "
                        "differs from the first one or delivers an element that was not handed in",
                        "the first value handed out through an out-point after a hand-in is the reference for later ones through the same "
                        "out-point with the same arguments",
                        "beacon-node answers handed to the scheduler are owned by it (not mutated by the environment): the scheduler keeps "
                        "SyncCommitteeDuty.ValidatorSyncCommitteeIndices of the answer without copying (observation, see report)",
                        "thorough tier: race detector with concurrent readers for all components except the scheduler"])


def replay(path):
    rp = json.load(open(path))
    o = vlib.Outcome("C18", "quick", 0)
    if rp.get("race"):
        race_stage(o, [rp["schedule"]], tag="replay")
    else:
        vlib.conformance(o, FAMILY, rp["trace_module"], rp["trace_cfg"], rp["pkg"], [rp["schedule"]], tag="replay")
    for p, t in o.violations:
        log("replay: " + t)
    return 1 if o.violations else 0
