"""C13 - the DKG reliable broadcast delivers a payload only if every member signed exactly it (dkg/bcast)."""
import json
from concurrent.futures import ThreadPoolExecutor
import vlib
from vlib import log

PID = "C13"
FAMILY = "BcastDKG"
RULE = ("schedules = a cluster (n in 3..6, one faulty member at any position) followed by moves Bcast(honest h, session, "
        "id, payload, how the faulty member answers / which sends are lost), FSig(faulty f asks honest m to sign "
        "(session, id, payload)) FSigC(several such requests inside m's handler at once: call / return events, TLC infers the "
        "linearisation) and FSend(f sends receiver r a BCastMessage with an explicit signature list); generated "
        "(a) by TLC simulation of BcastDKGGen and (b) by a seeded scenario generator (complete own broadcast, "
        "equivocation (also through CONCURRENT requests for one dedup slot, overlap forced by a gate inside the signing "
        "step), REPLAY of a signature set a member has ACCEPTED (a valid message first, then the byte-identical list with "
        "another payload / id / session, at the same and at another member, before and after a rejected message, and "
        "unchanged), relay of a foreign completely signed payload, cross-session / cross-id replay, permuted / "
        "truncated / extended / substituted lists, unknown id, payload of the wrong type, repeated and conflicting honest "
        "broadcasts, lost sends); executed on real bcast.New components (real secp256k1 keys; honest broadcasts run the "
        "unmodified client over a synchronous in-process transport, the faulty member calls the stream handlers directly); "
        "distinct = distinct recorded traces")
SESS = ["s1", "s2"]
IDS = ["a", "b"]
NOPL = {"origin": 0, "body": "", "ok": False}


def P(o, b, ok=True):
    return {"origin": o, "body": b, "ok": ok}


def D(by, s, i, pl):
    return {"by": by, "sess": s, "id": i, "pl": pl}


def G(kind=""):
    g = {"by": 0, "sess": "", "id": "", "pl": NOPL}
    if kind:
        g["kind"] = kind
    return g


def exact(n, s, i, pl):
    return [D(k, s, i, pl) for k in range(1, n + 1)]


def fsig(f, m, s, i, pl):
    return {"ev": "FSig", "f": f, "m": m, "sess": s, "id": i, "pl": pl}


def fsend(f, r, s, i, pl, sigs):
    return {"ev": "FSend", "f": f, "r": r, "sess": s, "id": i, "pl": pl, "sigs": sigs}


def fsigc(f, m, s, reqs):
    """concurrent requests of f inside m's handler: reqs = [(id, payload), ...]"""
    return {"ev": "FSigC", "f": f, "m": m, "sess": s, "reqs": [{"id": i, "pl": pl} for i, pl in reqs]}


def bcast(h, s, i, pl, freply="sign", lose=None, fsg=None):
    st = {"ev": "Bcast", "h": h, "sess": s, "id": i, "pl": pl, "freply": freply}
    if lose:
        st["lose"] = lose
    if fsg:
        st["fsig"] = fsg
    return st


def mutate_list(r, n, lst, s, i, pl, bodies):
    """One of the manipulations the property quantifies over."""
    lst = [dict(x) for x in lst]
    k = r.choice(["swap", "rot", "rev", "drop_last", "drop_first", "drop_mid", "dup", "extend", "empty", "garb", "short",
                  "nil", "other_sess", "other_id", "other_pl", "other_member", "none", "two"])
    pos = r.randrange(len(lst)) if lst else 0
    if not lst:
        return lst, k
    if k == "swap" and len(lst) > 1:
        a, b = r.sample(range(len(lst)), 2)
        lst[a], lst[b] = lst[b], lst[a]
    elif k == "rot":
        lst = lst[1:] + lst[:1]
    elif k == "rev":
        lst.reverse()
    elif k == "drop_last":
        lst = lst[:-1]
    elif k == "drop_first":
        lst = lst[1:]
    elif k == "drop_mid":
        del lst[pos]
    elif k == "dup":
        lst.insert(pos, dict(lst[pos]))
    elif k == "extend":
        lst.append(dict(lst[r.randrange(len(lst))]))
    elif k == "empty":
        lst = []
    elif k == "garb":
        lst[pos] = G()
    elif k == "short":
        lst[pos] = G("short")
    elif k == "nil":
        lst[pos] = G("empty")
    elif k == "other_sess":
        lst[pos] = D(lst[pos]["by"], SESS[1 - SESS.index(s)] if s in SESS else "s1", i, pl)
    elif k == "other_id":
        lst[pos] = D(lst[pos]["by"], s, r.choice([x for x in IDS + ["zz"] if x != i]), pl)
    elif k == "other_pl":
        lst[pos] = D(lst[pos]["by"], s, i, P(pl["origin"], r.choice(bodies + ["q"])))
    elif k == "other_member":
        lst[pos] = D(r.randint(1, n), s, i, pl)
    elif k == "two":
        a, _ = mutate_list(r, n, lst, s, i, pl, bodies)
        lst, _ = mutate_list(r, n, a, s, i, pl, bodies)
    return lst, k


def scenario(r, big):
    n = r.choice([3, 3, 4, 4, 5, 6])
    f = r.randint(1, n)
    hon = [m for m in range(1, n + 1) if m != f]
    s = r.choice(SESS)
    s2 = SESS[1 - SESS.index(s)]
    i = r.choice(IDS)
    i2 = IDS[1 - IDS.index(i)]
    bodies = ["x", "y", "z"]
    pf = P(f, r.choice(bodies))
    pf2 = P(f, r.choice([b for b in bodies if b != pf["body"]]))
    steps = [{"ev": "Cfg", "n": n, "faulty": [f]}]
    kind = r.choice(["full", "equiv", "equiv", "relay", "relay", "relay_slot", "xsess", "xid", "lists", "lists", "unknown", "framing",
                     "junk", "honest_twice", "lossy", "freply", "toself", "mix", "mix", "nofaulty", "slots",
                     "conc", "conc", "conc", "replay", "replay", "replay"])

    def collect(pl, members, ss=s, ii=i):
        ms = list(members)
        r.shuffle(ms)
        return [fsig(f, m, ss, ii, pl) for m in ms]

    def send_all(pl, rs=None, ss=s, ii=i, lst=None):
        rs = list(rs if rs is not None else hon)
        r.shuffle(rs)
        return [fsend(f, x, ss, ii, pl, lst if lst is not None else exact(n, ss, ii, pl)) for x in rs]

    if kind == "framing":
        # framing twins: two different well-formed payloads of f whose type URL || value is the same byte string (the
        # executor builds the encodings, harness/c13 twinAny): signatures collected for one, the other one sent with them
        t1, t2 = dict(P(f, ""), enc="p1"), dict(P(f, "tw2"), enc="p2")
        a, b = (t1, t2) if r.random() < 0.5 else (t2, t1)
        k = r.randint(1, len(hon))
        steps += collect(a, hon)
        steps += send_all(b, r.sample(hon, k), lst=exact(n, s, i, a))       # signed a, sent b: refused
        steps += send_all(a, r.sample(hon, r.randint(1, len(hon))))            # the signed one is delivered
        steps += collect(b, r.sample(hon, r.randint(1, len(hon))))             # second payload under the id: no grant
        steps += send_all(b, r.sample(hon, 1))
    elif kind == "full":
        steps += collect(pf, hon) + send_all(pf)
        steps += collect(pf2, hon) + send_all(pf2)        # second payload under the same id: refused everywhere
    elif kind == "equiv":
        k = r.randint(1, len(hon) - 1)
        hs = hon[:]
        r.shuffle(hs)
        A, B = hs[:k], hs[k:]
        req = collect(pf, A) + collect(pf2, B) + collect(pf2, r.sample(A, r.randint(0, len(A)))) + \
            collect(pf, r.sample(B, r.randint(0, len(B))))
        if r.random() < 0.5:
            r.shuffle(req)
        steps += req
        for x in hon:
            pl = r.choice([pf, pf2])
            other = pf2 if pl is pf else pf
            lst = exact(n, s, i, pl)
            if r.random() < 0.6:   # fill the holes with what the others signed instead
                lst = [d if (d["by"] in (A if pl is pf else B) or d["by"] == f) else D(d["by"], s, i, other) for d in lst]
            steps.append(fsend(f, x, s, i, pl, lst))
        steps += send_all(pf) + send_all(pf2)
    elif kind == "relay":
        # relayed under f's identity; f's own payload goes under another id / session (the same id would be the
        # known finding C13-relay-foreign-payload, which has its own probe: every hit costs a re-execution)
        h = r.choice(hon)
        ph = P(h, r.choice(bodies))
        steps.append(bcast(h, s, i, ph))
        steps += send_all(ph, [x for x in hon if x != h] + [h])
        ss, ii = r.choice([(s, i2), (s2, i), (s2, i2)])
        steps += collect(pf, hon, ss=ss, ii=ii) + send_all(pf, r.sample(hon, r.randint(1, len(hon))), ss=ss, ii=ii)
        steps += send_all(pf, r.sample(hon, 1))           # ... and is refused under the relayed id
        if r.random() < 0.5:
            steps += send_all(ph, r.sample(hon, 1))
    elif kind == "relay_slot":
        h = r.choice(hon)
        ph = P(h, r.choice(bodies))
        steps += collect(ph, hon)                 # f burns its own slot on h's payload ...
        steps.append(bcast(h, s, i, ph))
        steps += send_all(ph)
        steps += collect(pf, hon) + send_all(pf)  # ... so its own payload is refused afterwards
    elif kind == "xsess":
        steps += collect(pf, hon, ss=s2) + send_all(pf, ss=s, lst=exact(n, s2, i, pf))
        mixed = [D(k, r.choice([s, s2]), i, pf) for k in range(1, n + 1)]
        steps += collect(pf, r.sample(hon, r.randint(0, len(hon) - 1))) + send_all(pf, lst=mixed) + send_all(pf)
        steps += send_all(pf, ss=s2)
    elif kind == "xid":
        steps += collect(pf, hon, ii=i2) + send_all(pf, ii=i, lst=exact(n, s, i2, pf))
        steps += send_all(pf, ii="zz", lst=exact(n, s, i2, pf))
        mixed = [D(k, s, r.choice([i, i2]), pf) for k in range(1, n + 1)]
        steps += collect(pf, r.sample(hon, r.randint(0, len(hon) - 1))) + send_all(pf, lst=mixed)
        steps += send_all(pf, ii=i2)
    elif kind == "lists":
        steps += collect(pf, hon)
        if r.random() < 0.5:
            steps += collect(pf, hon, ss=s2)
        if r.random() < 0.5:
            steps += collect(P(f, "q"), hon, ii=i2)
        for _ in range(r.randint(4, 10 if not big else 20)):
            lst, _ = mutate_list(r, n, exact(n, s, i, pf), s, i, pf, bodies)
            steps.append(fsend(f, r.choice(hon), s, i, pf, lst))
        steps += send_all(pf, r.sample(hon, 1))
    elif kind == "unknown":
        steps += collect(pf, hon, ii="zz") + send_all(pf, ii="zz")
        h = r.choice(hon)
        steps.append(bcast(h, s, "zz", P(h, "x")))
        steps += send_all(pf, ii="zz", lst=[D(f, s, "zz", pf)] * n)
        steps += collect(pf, hon) + send_all(pf, ii="zz", lst=exact(n, s, i, pf))
    elif kind == "junk":
        pj = P(f, "j", False)
        steps += collect(pj, hon) + send_all(pj)
        h = r.choice(hon)
        steps.append(bcast(h, s, i, P(h, "j", False)))
        steps += collect(pf, hon) + send_all(pj, lst=exact(n, s, i, pf))
    elif kind == "honest_twice":
        h = r.choice(hon)
        ph = P(h, "x")
        steps.append(bcast(h, s, i, ph))
        steps.append(bcast(h, s, i, ph))
        steps.append(bcast(h, s, i, P(h, "y")))
        steps.append(bcast(h, s2, i, P(h, "y")))
        steps.append(bcast(h, s, i2, P(h, "y")))
        steps += send_all(P(h, "y"), lst=exact(n, s2, i, P(h, "y")))
    elif kind == "lossy":
        h = r.choice(hon)
        others = [x for x in range(1, n + 1) if x != h]
        steps.append(bcast(h, s, i, P(h, "x"), lose=r.sample(others, r.randint(1, len(others)))))
        steps.append(bcast(h, s, i, P(h, "x")))
        steps += send_all(P(h, "x"))
    elif kind == "freply":
        h = r.choice(hon)
        ph = P(h, "x")
        steps += collect(ph, r.sample(hon, r.randint(0, len(hon))), ss=s2)
        md = r.choice(["garbage", "short", "err", "replay", "replay"])
        fsg = r.choice([D(f, s2, i, ph), D(f, s, i2, ph), D(f, s, i, P(h, "y")), D(r.choice(hon), s2, i, ph), D(h, s, i, ph)])
        steps.append(bcast(h, s, i, ph, freply=md, fsg=fsg))
        steps += send_all(ph)
        steps.append(bcast(h, s, i, ph))
    elif kind == "toself":
        x = r.choice(hon)
        px = P(x, "x")
        steps += collect(px, hon) + send_all(px)            # origin = the receiver / another honest member
        po = P(r.choice([0, n + 1, 7]), "x")
        steps += collect(po, hon, ii=i2) + send_all(po, ii=i2)
    elif kind == "nofaulty":
        steps = [{"ev": "Cfg", "n": n, "faulty": []}]
        for _ in range(r.randint(2, 6)):
            h = r.randint(1, n)
            steps.append(bcast(h, r.choice(SESS), r.choice(IDS + ["zz"]), P(h, r.choice(bodies))))
        return steps
    elif kind == "conc":
        # equivocation through CONCURRENT requests for one (peer, id) slot: every honest member is asked to sign two or
        # three different payloads at the same time (the order differs per member), then both are sent with full lists
        pf3 = P(f, "w")
        ms = hon[:]
        r.shuffle(ms)
        for m in ms:
            cand = [pf, pf2] + ([pf3] if r.random() < 0.3 else []) + ([pf] if r.random() < 0.3 else [])
            r.shuffle(cand)
            reqs = [(i, c) for c in cand]
            if r.random() < 0.2:
                reqs.append((i2, pf))          # another slot in the same step
            steps.append(fsigc(f, m, s, reqs))
        steps += send_all(pf) + send_all(pf2)
        if r.random() < 0.5:
            steps += collect(pf2, hon) + send_all(pf2, r.sample(hon, 1))
    elif kind == "replay":
        return steps + replay_steps(r, n, f, hon, s, s2, i, i2, r.choice(["own", "own", "honest", "twin"]), big)
    elif kind == "slots":
        # dedup is per requesting peer AND id AND component: the same payload / different payloads across them
        for _ in range(r.randint(4, 12)):
            steps.append(fsig(f, r.choice(hon), r.choice(SESS), r.choice(IDS), r.choice([pf, pf2])))
        h = r.choice(hon)
        steps.append(bcast(h, s, i, P(h, pf["body"])))
        steps += send_all(pf) + send_all(pf2)
    # random tail (and the whole of "mix")
    pls = [pf, pf2, P(hon[0], "x"), P(hon[-1], "y"), P(f, "j", False)]
    for _ in range(r.randint(0, 4) if kind != "mix" else r.randint(6, 16 if not big else 40)):
        x = r.random()
        ss, ii, pl = r.choice(SESS), r.choice(IDS + (["zz"] if r.random() < 0.2 else [])), r.choice(pls)
        if x < 0.1:
            steps.append(fsigc(f, r.choice(hon), ss, [(ii, pl), (ii, r.choice(pls)), (r.choice(IDS), r.choice(pls))][:r.randint(2, 3)]))
        elif x < 0.45:
            steps.append(fsig(f, r.choice(hon), ss, ii, pl))
        elif x < 0.8:
            lst = exact(n, ss, ii, pl)
            if r.random() < 0.5:
                lst, _ = mutate_list(r, n, lst, ss, ii, pl, bodies)
            steps.append(fsend(f, r.choice(hon), ss, ii, pl, lst))
        else:
            h = r.choice(hon)
            steps.append(bcast(h, ss, ii, P(h, r.choice(bodies)), freply=r.choice(["sign", "sign", "sign", "garbage", "err"])))
    return steps


def replay_steps(r, n, f, hon, s, s2, i, i2, src, big=False):
    """Replay of an ACCEPTED signature set.  A fully valid message (id i, X, the complete ordered list L over X) is first
    accepted by member A -- f's own message (src "own" / "twin": X is one of the framing twins and the substituted payload
    the other one), or the broadcast of honest h, whose list f receives like everybody else (src "honest").  Then L is sent
    again, byte for byte (all signatures are deterministic), by f: to A with another payload (THE replay), under another id,
    to A's component of the other session, to a member B (which has / has not accepted L itself), unchanged (own
    messages only: an unchanged foreign one is the known finding's relay), and -- sometimes -- already BEFORE A accepted it
    (replay after a rejected message).  Nobody ever signed anything but X, so the rule refuses every one of them except
    the unchanged duplicate, whatever A has accepted before."""
    bodies = ["x", "y", "z"]
    steps = []
    if src == "honest":
        h = r.choice(hon)
        X = P(h, r.choice(bodies))
        A = r.choice([x for x in hon if x != h])
    else:
        h = None
        X = P(f, r.choice(bodies)) if src == "own" else dict(P(f, ""), enc="p1")
        A = r.choice(hon)
    if src == "twin":
        X, tw = (X, dict(P(f, "tw2"), enc="p2")) if r.random() < 0.5 else (dict(P(f, "tw2"), enc="p2"), X)
    L = exact(n, s, i, X)
    B = r.choice([x for x in hon if x != A])
    ob = [b for b in bodies if b != X["body"]]
    Ys = [P(f, r.choice(ob)), P(X["origin"], r.choice(ob)), P(A, r.choice(bodies)), P(r.choice(hon), "q"), P(f, "j", False)]
    Ys = [y for y in Ys if y != X]
    if src == "twin":
        Ys = [tw] + Ys
    Y = Ys[0] if r.random() < 0.6 else r.choice(Ys)
    early = r.random() < 0.4
    if h is None:
        ms = hon[:]
        r.shuffle(ms)
        steps += [fsig(f, m, s, i, X) for m in ms]
        if early:                       # refused (twice: a memory filled before the verdict would let the second one in)
            steps += [fsend(f, A, s, i, Y, L)] * r.randint(1, 2)
        steps.append(fsend(f, A, s, i, X, L))                 # accepted by A
    else:
        steps.append(bcast(h, s, i, X))                       # accepted by every honest member but h; f receives L
        if early:
            steps.append(fsend(f, h, s, i, Y, L))             # h itself has not accepted anything
    moves = [fsend(f, A, s, i, Y, L)]                         # same id, same list, other payload
    pool = [fsend(f, A, s, i, r.choice(Ys), L), fsend(f, A, s, i2, X, L), fsend(f, A, s, i2, Y, L),
            fsend(f, A, s, "zz", X, L), fsend(f, A, s2, i, X, L), fsend(f, A, s2, i, Y, L), fsend(f, B, s, i, Y, L),
            fsend(f, B, s2, i2, r.choice(Ys), L), fsend(f, A, s, i, Y, L[:-1]), fsend(f, A, s, i, Y, L[::-1]),
            fsend(f, A, s, i, Y, exact(n, s, i, Y))]
    if h is None:
        pool += [fsend(f, A, s, i, X, L)] * 2                 # the honest duplicate
    moves += r.sample(pool, r.randint(2, 6 if not big else len(pool)))
    r.shuffle(moves)
    if r.random() < 0.5:
        moves.insert(0, fsend(f, A, s, i, Y, L))              # ... directly after the acceptance
    steps += moves
    if h is None:
        steps += [fsend(f, B, s, i, X, L), fsend(f, B, s, i, Y, L)]       # B accepts, then the replay at B
        steps += [fsend(f, A, s, i, X, L)]                                # A still delivers the signed one
        if r.random() < 0.5:            # a second payload under the id is not signed by anybody, its replay neither
            steps += [fsig(f, m, s, i, Y) for m in r.sample(hon, r.randint(1, len(hon)))] + [fsend(f, A, s, i, Y, L)]
    return steps


def replay_probes():
    """Deterministic instances of the replay (executed on every run, first in the batch, so that the coverage counters and
    the binding self-test always have one): f's own accepted message, an honest member's accepted broadcast, the twins."""
    out = []
    for k, src in enumerate(["own", "honest", "twin", "own"]):
        r = vlib.rng(0, "c13 replay probe %d" % k)
        n, f = [(4, 2), (3, 3), (4, 1), (5, 4)][k]
        hon = [m for m in range(1, n + 1) if m != f]
        out.append([{"ev": "Cfg", "n": n, "faulty": [f]}] + replay_steps(r, n, f, hon, "s1", "s2", "a", "b", src))
    return out


def random_schedules(seed, num, big):
    r = vlib.rng(seed, "c13")
    return replay_probes() + [scenario(r, big) for _ in range(num)]


FINDING = "C13-relay-foreign-payload"
DEV = [(FINDING, "BcastDKGTrace_relay.cfg")]


def relay_probe():
    """Known finding C13-relay-foreign-payload: faulty member 3 of 4 relays honest member 1's completely signed payload
    for id "a" to member 2 under its own transport identity, then broadcasts its own payload for "a" to member 4:
    members 2 and 4 have delivered different payloads for sender 3 and id "a"."""
    n, f, h = 4, 3, 1
    hon = [1, 2, 4]
    ph, pf = P(h, "x"), P(f, "y")
    st = [{"ev": "Cfg", "n": n, "faulty": [f]}, bcast(h, "s1", "a", ph)]
    st.append(fsend(f, 2, "s1", "a", ph, exact(n, "s1", "a", ph)))
    st += [fsig(f, m, "s1", "a", pf) for m in hon]
    st.append(fsend(f, 4, "s1", "a", pf, exact(n, "s1", "a", pf)))
    return st


def relay_same_schedules(seed, count):
    """Neighbourhood of the known finding: the faulty member f first asks members for signatures over payloads of ITS OWN
    under (session, id) - possibly a different one per member, possibly never completing that broadcast - and then relays a
    foreign, completely signed payload for the SAME (session, id) under its own transport identity.  What reaches a
    callback (if anything) is the payload that travelled with the verified signature list (the known finding, accepted by
    the deviation cfg) - never the payload the member remembered from f's own request, which only that member signed."""
    r = vlib.rng(seed, "c13relaysame")
    out = []
    for _ in range(count):
        n = r.choice([3, 4, 4, 5, 6])
        f = r.randint(1, n)
        hon = [m for m in range(1, n + 1) if m != f]
        h = r.choice(hon)
        s, i = r.choice(SESS), r.choice(IDS)
        ph = P(h, r.choice(["x", "y"]))
        st = [{"ev": "Cfg", "n": n, "faulty": [f]}]
        own = {m: P(f, r.choice(["y", "z", "q"])) for m in hon}
        asked = r.sample(hon, r.randint(1, len(hon)))
        first = [fsig(f, m, s, i, own[m]) for m in asked]
        if r.random() < 0.5:
            st += first + [bcast(h, s, i, ph)]
        else:
            st += [bcast(h, s, i, ph)] + first
        targets = r.sample(hon, r.randint(1, len(hon)))
        st += [fsend(f, x, s, i, ph, exact(n, s, i, ph)) for x in targets]
        if r.random() < 0.5:   # ... and afterwards its own payload, where a complete list can still be had
            pl = own[asked[0]]
            st += [fsig(f, m, s, i, pl) for m in hon] + [fsend(f, x, s, i, pl, exact(n, s, i, pl)) for x in r.sample(hon, 1)]
        out.append(st)
    return out


def reconnect_schedules(seed, count):
    """The faulty member collects a complete signature set for one payload, delivers it to some members, DROPS ALL ITS
    CONNECTIONS and dials again (the hosts hold real loopback connections), then asks for signatures over another payload under
    the same session and id: the sign-once memory of the members must have survived its absence."""
    r = vlib.rng(seed, "c13reconnect")
    out = []
    for _ in range(count):
        n = r.choice([3, 4, 4, 5])
        f = r.randint(1, n)
        hon = [m for m in range(1, n + 1) if m != f]
        s, i = r.choice(SESS), r.choice(IDS)
        p1, p2 = P(f, "x"), P(f, "y")
        st = [{"ev": "Cfg", "n": n, "faulty": [f]}]
        st += [fsig(f, m, s, i, p1) for m in hon]
        a = r.sample(hon, r.randint(1, len(hon) - 1)) if len(hon) > 1 else hon
        st += [fsend(f, x, s, i, p1, exact(n, s, i, p1)) for x in a]
        st.append({"ev": "Reconnect", "m": f})
        if r.random() < 0.3:
            st.append({"ev": "Reconnect", "m": r.choice(hon)})
        st += [fsig(f, m, s, i, p2) for m in hon]
        st += [fsend(f, x, s, i, p2, exact(n, s, i, p2)) for x in hon if x not in a]
        st += [fsend(f, x, s, i, p1, exact(n, s, i, p1)) for x in hon if x not in a]
        out.append(st)
    return out


def mutators():
    def flip_sig_ok(t):
        for e in t:
            if e.get("ev") == "Sig":
                e["ok"] = not e["ok"]
                e["rid"] = e["id"]
                return t
        return None

    def flip_invoked(t):
        for e in t:
            if e.get("ev") == "Msg":
                e["invoked"] = not e["invoked"]
                e["accepted"] = False
                e["cb"] = {"from": e["from"], "id": e["id"], "pl": e["pl"]}
                return t
        return None

    def flip_accepted(t):
        for e in t:
            if e.get("ev") == "Msg" and e["invoked"]:
                e["accepted"] = not e["accepted"]
                return t
        return None

    def drop_granting_sig(t):
        # drop a granted request of an honest client that a later successful delivery depends on
        for k, e in enumerate(t):
            if e.get("ev") == "Sig" and e["ok"] and e["req"] not in t[0]["faulty"]:
                for g in t[k + 1:]:
                    if g.get("ev") == "Msg" and g["invoked"] and g["from"] == e["req"] and g["id"] == e["id"] and g["pl"] == e["pl"]:
                        del t[k]
                        return t
        return None

    def forged_sig(t):
        # a faulty sender's successful message "used" an honest signature for another session
        for e in t:
            if e.get("ev") == "Msg" and e["invoked"] and e["from"] in t[0]["faulty"]:
                for d in e["sigs"]:
                    if d["by"] not in t[0]["faulty"]:
                        d["sess"] = "s2" if d["sess"] == "s1" else "s1"
                        return t
        return None

    def unknown_sig(t):
        # a faulty sender's successful message whose honest signatures were never handed out: drop the grants
        for k, e in enumerate(t):
            if e.get("ev") == "Msg" and e["invoked"] and e["from"] in t[0]["faulty"]:
                keep = [g for g in t[:k] if not (g.get("ev") == "Sig" and g["ok"] and g["id"] == e["id"] and g["pl"] == e["pl"]
                                                 and g["sess"] == e["sess"]) and g.get("ev") != "FRecv"]
                if len(keep) < k:
                    return keep + t[k:]
        return None

    def callback_saw_other(t):
        for e in t:
            if e.get("ev") == "Msg" and e["invoked"]:
                e["cb"]["pl"] = dict(e["cb"]["pl"], body=e["cb"]["pl"]["body"] + "'")
                return t
        return None

    def replay_delivered(t):
        # THE replay recorded as a delivery: a refused message whose signature list is, byte for byte, one the same
        # component accepted before with another payload ("verified signature sets are remembered without the payload")
        acc = {}
        for e in t:
            if e.get("ev") != "Msg" or "sigset" not in e:
                continue
            k = (e["r"], e["sess"], e["id"], e["sigset"])
            if e["invoked"]:
                acc.setdefault(k, e["plset"])
            elif k in acc and acc[k] != e["plset"] and e["pl"]["ok"]:
                e["invoked"] = True
                e["accepted"] = e["pl"]["origin"] == e["from"] and e["pl"]["origin"] != e["r"]
                e["err"] = False
                e["cb"] = {"from": e["from"], "id": e["id"], "pl": e["pl"]}
                return t
        return None

    def flip_sigret(t):
        for e in t:
            if e.get("ev") == "SigRet" and not e["ok"]:
                e["ok"] = True            # "both payloads of one slot were signed"
                return t
        return None

    def drop_sigcall(t):
        for k, e in enumerate(t):
            if e.get("ev") == "SigCall":
                del t[k]
                return t
        return None
    return [("replay of an accepted signature set with another payload recorded as delivered", replay_delivered),
            ("concurrent refusal turned into a grant", flip_sigret), ("SigCall event dropped", drop_sigcall),
            ("Sig result flipped", flip_sig_ok), ("Msg invoked flipped", flip_invoked),
            ("Msg accepted flipped", flip_accepted), ("granting Sig event dropped", drop_granting_sig),
            ("honest signature of another session in a delivered list", forged_sig),
            ("delivered list uses honest signatures that were never handed out", unknown_sig),
            ("callback saw another payload", callback_saw_other)]


QUICK_MC = [("BcastDKGMC_equiv_quick.cfg", 600), ("BcastDKGMC_replay_quick.cfg", 600), ("BcastDKGMC_conc_quick.cfg", 600)]
THOROUGH_MC = [("BcastDKGMC_equiv.cfg", 900), ("BcastDKGMC_equiv2.cfg", 900), ("BcastDKGMC_full3.cfg", 900),
               ("BcastDKGMC_full4.cfg", 900), ("BcastDKGMC_replay.cfg", 900), ("BcastDKGMC_conc.cfg", 900)]
CONTROLS = [("BcastDKGMC_ctl_checkthenact.cfg", "DedupFunctional", "dedupHash split into compare / sign / record (check-then-act)"),
            ("BcastDKGMC_ctl_nodedup.cfg", "AgreementAccepted", "server.dedup removed"),
            ("BcastDKGMC_ctl_nosession.cfg", "AllSigned", "session hash not bound by newHashAny"),
            ("BcastDKGMC_ctl_noid.cfg", "AllSigned", "message id not bound by newHashAny"),
            ("BcastDKGMC_ctl_raw.cfg", "AgreementRaw", "deviation RelayForeignPayload not set aside (known finding %s)" % FINDING),
            ("BcastDKGMC_ctl_collusion.cfg", "AgreementAccepted", "two colluding faulty members (outside the statement)"),
            ("BcastDKGMC_ctl_sigcache.cfg", "AllSigned", "verified signature sets remembered per component under (id, signatures), "
             "without the payload: an accepted set replayed with another payload is delivered"),
            ("BcastDKGMC_ctl_sigcache_member.cfg", "AllSigned", "the same memory shared by a member's components: a set accepted "
             "in one session is delivered in the other")]


def run(tier, seed):
    o = vlib.Outcome(PID, tier, seed)
    thorough = tier == "thorough"
    # stage 0: design check.  The small control runs go in parallel (scratch dirs are made here: not thread safe)
    jobs = [(cfg, vlib.scratch(PID, FAMILY)) for cfg, _, _ in CONTROLS]
    with ThreadPoolExecutor(max_workers=len(jobs)) as ex:
        futs = [ex.submit(vlib.tlc, PID, FAMILY, "BcastDKGMC", cfg, workers=2, timeout=600, sdir=d) for cfg, d in jobs]
        for cfg, to in (THOROUGH_MC if thorough else QUICK_MC):
            r = vlib.tlc(PID, FAMILY, "BcastDKGMC", cfg, timeout=to)
            vlib.require_mc_ok(r, cfg)
            o.add_mc(cfg[:-4], r)
            log("[%s] %s: %s" % (PID, cfg, r.summary()))
        for (cfg, inv, what), fu in zip(CONTROLS, futs):
            r = fu.result()
            if r.violation != inv:
                raise vlib.Infra("design-spec control failed: %s (%s) did not violate %s: %s" % (cfg, what, inv, r.summary()))
            o.selftests.append({"control": "spec variant: %s violates %s" % (what, inv), "rejected_as_required": True})
    # stage 1: schedules
    scheds, _ = vlib.gen_schedules(PID, FAMILY, "BcastDKGGen", "BcastDKGGen.cfg", num=2000 if thorough else 200,
                                   depth=120, seed=seed, timeout=900, limit=3000 if thorough else 300)
    rnd = random_schedules(seed, 6000 if thorough else 700, thorough)
    # stage 2+3 (strict cfg = the statement as written; a reproduced rejection that the deviation cfg accepts is the
    # known finding)
    vlib.conformance(o, FAMILY, "BcastDKGTrace", "BcastDKGTrace.cfg", "c13", scheds, tag="tlcgen", dev_cfgs=DEV)
    vlib.conformance(o, FAMILY, "BcastDKGTrace", "BcastDKGTrace.cfg", "c13", rnd, tag="random", dev_cfgs=DEV)
    if o.violations:
        return vlib.finish(o, "model_checking", RULE, ASSUMPTIONS)
    # the dedicated probe of the known finding: executed on every run
    before = len(o.known)
    vlib.conformance(o, FAMILY, "BcastDKGTrace", "BcastDKGTrace.cfg", "c13", [relay_probe()], tag="probe", dev_cfgs=DEV)
    if o.violations:
        return vlib.finish(o, "model_checking", RULE, ASSUMPTIONS)
    vlib.conformance(o, FAMILY, "BcastDKGTrace", "BcastDKGTrace.cfg", "c13", relay_same_schedules(seed, 40 if thorough else 8),
                     tag="relaysame", dev_cfgs=DEV, max_report=4)
    if o.violations:
        return vlib.finish(o, "model_checking", RULE, ASSUMPTIONS)
    vlib.conformance(o, FAMILY, "BcastDKGTrace", "BcastDKGTrace.cfg", "c13", reconnect_schedules(seed, 30 if thorough else 6),
                     tag="reconnect", dev_cfgs=DEV, max_report=4)
    if o.violations:
        return vlib.finish(o, "model_checking", RULE, ASSUMPTIONS)
    if len(o.known) == before:
        log("[%s] note: the probe of known finding %s no longer reproduces (per-sender agreement held at the raw level)" % (PID, FINDING))
        o.notes.append("probe of known finding %s did not reproduce" % FINDING)
    o.known = [k for n, k in enumerate(o.known) if k[0] not in [x[0] for x in o.known[:n]]]      # one line per finding
    # coverage of the corners in the recorded traces (vacuity guard: the attacks must really have been mounted)
    tr = vlib.split_traces(vlib.read_ndjson(vlib.workdir(PID) + "/trace_random.ndjson"))
    cov = {"faulty_delivered_accepted": 0, "faulty_delivered_rejected_by_callback": 0, "faulty_refused": 0,
           "honest_delivered": 0, "sig_refused": 0, "sig_granted": 0, "concurrent_granted": 0, "concurrent_refused": 0,
           "accepted_sigset_replayed_other_payload_same_member": 0, "accepted_sigset_replayed_other_id_or_session": 0,
           "accepted_sigset_replayed_at_other_member": 0, "accepted_sigset_replayed_unchanged": 0,
           "sigset_replayed_after_rejection": 0, "honest_broadcast_sigset_replayed_other_payload": 0}
    for t in tr:
        fl = t[0].get("faulty", [])
        acc, rej = {}, set()        # signature-list bytes -> [(member, session, id, payload bytes, sender)] accepted so far
        for e in t:
            if e.get("ev") == "Msg" and "sigset" in e:
                here = (e["r"], e["sess"], e["id"], e["plset"])
                prev = acc.get(e["sigset"], [])
                if prev and e["from"] in fl:
                    for (pr, ps, pi, pp, pfrom) in prev:
                        if (pr, ps, pi) == here[:3] and pp != here[3]:
                            cov["accepted_sigset_replayed_other_payload_same_member"] += 1
                            if pfrom not in fl:
                                cov["honest_broadcast_sigset_replayed_other_payload"] += 1
                            break
                    if any(pr == e["r"] and (ps, pi) != (e["sess"], e["id"]) for (pr, ps, pi, pp, _) in prev):
                        cov["accepted_sigset_replayed_other_id_or_session"] += 1
                    if all(pr != e["r"] for (pr, ps, pi, pp, _) in prev) and all(pp != here[3] for (pr, ps, pi, pp, _) in prev):
                        cov["accepted_sigset_replayed_at_other_member"] += 1      # (with another payload)
                    if any((pr, ps, pi, pp) == here for (pr, ps, pi, pp, _) in prev):
                        cov["accepted_sigset_replayed_unchanged"] += 1
                if (e["r"], e["sigset"]) in rej and e["from"] in fl:
                    cov["sigset_replayed_after_rejection"] += 1
                if e["invoked"]:
                    acc.setdefault(e["sigset"], []).append(here + (e["from"],))
                else:
                    rej.add((e["r"], e["sigset"]))
            if e.get("ev") == "Msg":
                if e["from"] in fl:
                    cov["faulty_delivered_accepted" if e["accepted"] else
                        ("faulty_delivered_rejected_by_callback" if e["invoked"] else "faulty_refused")] += 1
                elif e["invoked"]:
                    cov["honest_delivered"] += 1
            elif e.get("ev") == "Sig":
                cov["sig_granted" if e["ok"] else "sig_refused"] += 1
            elif e.get("ev") == "SigRet":
                cov["concurrent_granted" if e["ok"] else "concurrent_refused"] += 1
    o.extra["corner_counts"] = cov
    if min(cov.values()) == 0:
        raise vlib.Infra("vacuous coverage: %s" % cov)
    # binding negative controls on recorded, accepted traces
    head = tr[:150]
    v = vlib.validate_traces(PID, FAMILY, "BcastDKGTrace", "BcastDKGTrace.cfg", head)
    vlib.binding_selftest(o, FAMILY, "BcastDKGTrace", "BcastDKGTrace.cfg", [head[k] for k in v.accepted], mutators())
    return vlib.finish(o, "model_checking", RULE, ASSUMPTIONS)


ASSUMPTIONS = ["signatures are unforgeable: faulty members only use honest signatures the real code handed to them "
                        "(answers to their own requests, BCastMessages addressed to them); they hold all keys of faulty members",
                        "libp2p authenticates the transport peer id handed to the stream handlers (the executor passes it)",
                        "A1: honest members only broadcast payloads carrying their own origin tag",
                        "per-sender agreement is checked as written (every callback invocation, per transport sender and id) with the "
                        "known finding C13-relay-foreign-payload as the only named deviation, and additionally over payloads accepted "
                        "by a callback performing the in-tree origin check (dkg/nodesigs.go, dkg/frostp2p.go), where it holds even with relays",
                        "one faulty member (two colluding ones break per-sender agreement: control cfg ctl_collusion)",
               "whether / in which order the honest client reaches its peers is not demanded (safety only)"]


def replay(path):
    rp = json.load(open(path))
    o = vlib.Outcome(PID, "quick", 0)
    vlib.conformance(o, FAMILY, rp["trace_module"], rp["trace_cfg"], rp["pkg"], [rp["schedule"]], tag="replay", dev_cfgs=DEV)
    for p, t in o.violations:
        log("replay: " + t)
    return 1 if o.violations else 0
