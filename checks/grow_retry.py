"""GROWTH family "Retry" - app/retry/retry.go (Retryer: New / NewForT, DoAsync, Shutdown; backoff, the per-duty deadline
context, the classification of errors into retry / give up, the `active` accounting Shutdown waits on) and its wiring
core/retry.go (WithAsyncRetry: which workflow edges run under DoAsync, which are plain synchronous calls).

Not a registered check: `stage(o, tier, seed)` runs the family as a stage (the Outcome `o` collects coverage and
violations); `main(tier, seed)` is a stand-alone driver, `replay(path)` re-runs a replay file."""
import json, os, re, time
import vlib
from vlib import log

FAMILY = "Retry"
PKG = "retry"
TRACE = "RetryTrace"
TCFG = "RetryTrace.cfg"
WORKERS = int(os.environ.get("VERIF_TLC_WORKERS", "0")) or None

RULE = ("Retry family: schedules = timed environment moves -- an edge of the workflow is invoked / DoAsync(duty, script) with a "
        "script per attempt (latency, result: nil / net.Error of 5 shapes / context.Canceled, DeadlineExceeded plain and wrapped "
        "/ error texts with and without the markers of isTemporaryBeaconErr incl. near-misses and eth2 api errors / gives up "
        "when its context ends or not), Shutdown with and without a context timeout, cancellation of the caller's context, "
        "release of a held ctxTimeoutFunc; generated (a) by TLC simulation of RetryGen (history variable; replayed on "
        "retry.NewForT with the model's exact backoff timers so that the coincidences of the model -- deadline in the instant "
        "a backoff ends, Shutdown between startAsync and the first attempt -- are reproduced) and (b) by a seeded random "
        "generator aiming at the duty deadline (before / at / after), at Shutdown in every phase and at the 11 edges x 14 duty "
        "types of core.Wire + WithAsyncRetry(retry.New(core.NewDutyDeadlineFunc)).  Executed on the real Retryer inside "
        "testing/synctest (virtual time, exact); every trace validated by RetryTrace.tla")
ASSUMPTIONS = [
    "testing/synctest virtual time stands in for real time (time advances only when every goroutine is durably blocked; "
    "goroutines that are runnable in the same instant run in any order, the trace spec accepts every order)",
    "Shutdown's return is judged as 'not before every active DoAsync returned (or its context ended), not later than one "
    "ticker period (100 ms) after' -- the 100 ms raster itself is not demanded (design check explores it as coded)",
    "the first attempt of a DoAsync is made whatever the state of the deadline context (as coded; the doc comment only "
    "speaks about retries); an attempt started in the very instant the context ends is tolerated",
    "error texts are drawn from the tables TempTexts / PermTexts of Retry.tla (TLC has no substring operator)",
    "production backoff: 250 ms exactly, then x1.6 +-10 % up to 12 s +-10 % (expbackoff.Backoff as configured in retry.go)",
]

WRAPPED = ["fetch", "participate", "propose", "psbcast", "bcast"]
SYNC = ["fetchonly", "dutydbstore", "storeinternal", "storeexternal", "aggregate", "aggstore"]
DUTY_TYPES = ["unknown", "proposer", "attester", "signature", "exit", "builder_proposer", "builder_registration", "randao",
              "prepare_aggregator", "aggregator", "sync_message", "prepare_sync_contribution", "sync_contribution", "info_sync"]
FOREVER = 1500000   # ms: "until its context ends"


def spec_texts():
    """the error-text tables of the design spec (single source: Retry.tla)"""
    src = open(os.path.join(vlib.SPECS, FAMILY, "Retry.tla")).read()
    out = {}
    for name in ("TempTexts", "PermTexts"):
        m = re.search(name + r" == \{(.*?)\}", src, re.S)
        out[name] = re.findall(r'"([^"]*)"', m.group(1))
        if not out[name]:
            raise vlib.Infra("cannot read %s from Retry.tla" % name)
    return out["TempTexts"], out["PermTexts"]


def text_res(r, txt):
    m = re.match(r"^(GET|POST) failed with status (\d+): (.*)$", txt)
    if m:
        return {"kind": "eth2", "method": m.group(1), "status": int(m.group(2)), "data": m.group(3)}
    if ": " in txt and r.random() < 0.5:
        outer, inner = txt.split(": ", 1)
        return {"kind": "text", "how": "wrap", "outer": outer, "inner": inner}
    return {"kind": "text", "txt": txt}


def result(r, cls, texts):
    """a concrete result of class ok / temp (retried) / perm"""
    temp, perm = texts
    if cls == "ok":
        return {"kind": "ok"}
    if cls == "perm":
        return text_res(r, r.choice(perm))
    k = r.choice(["net", "net", "canceled", "deadline", "text", "text"])
    if k == "net":
        return {"kind": "net", "how": r.choice(["op", "dns", "url", "wrap", "timeout"])}
    if k in ("canceled", "deadline"):
        return {"kind": k, "how": r.choice(["plain", "wrap"])}
    return text_res(r, r.choice(temp))


def tail(r, texts):
    return {"lat": FOREVER, "hon": True, "res": result(r, "temp", texts)}


# ----------------------------------------------------------------------------------------------------------------------
# (a) histories of RetryGen -> schedules for retry.NewForT
# ----------------------------------------------------------------------------------------------------------------------
U = 50   # ms per model time unit (Poll = 2 units = the 100 ms ticker)


def from_hist(r, hist, texts):
    steps, scripts, gated, released, shut = [], {}, set(), set(), False
    last = 0
    for e in hist:
        last = max(last, e["t"])
        if e["ev"] == "Go":
            scripts[e["c"]] = []
            if e["gated"]:
                gated.add(e["c"])
            steps.append({"ev": "Go", "at": e["t"] * U, "c": e["c"], "edge": "fort", "duty": {"type": "attester", "slot": e["c"]},
                          "label": e["label"], "dl": e["dl"] * U if e["dl"] >= 0 else -1, "gated": e["gated"],
                          "script": scripts[e["c"]]})
        elif e["ev"] == "Fn":
            if e["res"] == "hon" and e["now"]:
                scripts[e["c"]].append(tail(r, texts))
            elif e["res"] == "hon":
                scripts[e["c"]].append({"lat": e["lat"] * U, "hon": False, "res": {"kind": r.choice(["canceled", "deadline"]), "how": "plain"}})
            else:
                scripts[e["c"]].append({"lat": e["lat"] * U, "hon": False, "res": result(r, e["res"], texts)})
        elif e["ev"] == "Shutdown":
            shut = True
            steps.append({"ev": "Shutdown", "at": e["t"] * U, "to": e["to"] * U if e["to"] >= 0 else -1})
        elif e["ev"] == "Release":
            released.add(e["c"])
            steps.append({"ev": "Release", "at": e["t"] * U, "c": e["c"]})
        elif e["ev"] == "ParentCancel":
            steps.append({"ev": "ParentCancel", "at": e["t"] * U, "c": e["c"]})
    for c in scripts:
        scripts[c].append(tail(r, texts))
    at = (last + r.choice([0, 1, 2, 3, 5])) * U
    if not shut:
        steps.append({"ev": "Shutdown", "at": at, "to": r.choice([-1, -1, 0, 100])})
    for c in sorted(gated - released):
        at += r.choice([0, 50, 130])
        steps.append({"ev": "Release", "at": at, "c": c})
    return [{"ev": "Cfg", "mode": "fort", "bo": [U, 2 * U, 2 * U]}] + steps


# ----------------------------------------------------------------------------------------------------------------------
# (b) seeded random schedules
# ----------------------------------------------------------------------------------------------------------------------
def duty_deadline(typ, slot, slotms, spe):
    """where the generator AIMS (the oracle is DutyDeadline of Retry.tla)"""
    if typ in ("exit", "builder_registration"):
        return None
    dur = {"proposer": slotms // 3, "randao": slotms // 3, "sync_message": slotms, "sync_contribution": slotms,
           "attester": spe * slotms, "aggregator": spe * slotms, "prepare_aggregator": 2 * spe * slotms,
           "prepare_sync_contribution": 2 * spe * slotms}.get(typ, slotms)
    return slot * slotms + slotms // 12 + dur


def script(r, texts, go, dl, bo0):
    """attempts: some temporary failures, then a final result (or temporary for ever); latencies aimed at the deadline"""
    n = r.choice([0, 0, 1, 1, 2, 3, 5, 8])
    out, t = [], go
    for i in range(n + 1):
        cls = "temp" if i < n else r.choice(["ok", "ok", "perm", "perm", "temp"])
        lat = r.choice([0, 0, 1, 7, 50, 100, 250, 400, 1000, r.randint(0, 3000)])
        if dl is not None and t < dl and r.random() < 0.35:
            # end exactly at / around the deadline, or so that the next backoff (250 ms at i = 0) ends exactly there
            lat = max(0, dl - t + r.choice([0, 0, -1, 1, -bo0, -bo0, -bo0 - 1, -bo0 + 1]))
        hon = r.random() < 0.5
        out.append({"lat": lat, "hon": hon, "res": result(r, cls, texts)})
        t += lat + (bo0 if i == 0 else int(bo0 * 1.6 ** i))
    if cls == "temp" or r.random() < 0.5:      # the last entry repeats: it must not be a failure that returns at once for ever
        out.append(tail(r, texts))
    return out


def random_wire(r, texts, big):
    slotms, spe = r.choice([(600, 2), (600, 4), (1200, 2), (1200, 4), (2400, 2), (12000, 2), (12000, 8 if big else 2)])
    steps, used, marks = [], set(), [0]
    for c in range(1, r.choice([1, 2, 2, 3, 4, 5 if big else 3]) + 1):
        edge = r.choice(WRAPPED * 3 + SYNC)
        typ = r.choice(DUTY_TYPES + ["proposer", "randao", "sync_message", "attester", "exit", "builder_registration"])
        slot = r.randint(0, 3)
        if (edge, typ, slot) in used:
            continue
        used.add((edge, typ, slot))
        dl = duty_deadline(typ, slot, slotms, spe)
        horizon = dl if dl is not None else r.choice([1000, 5000, 30000])
        go = max(0, r.choice([0, 0, r.randint(0, horizon), horizon - r.choice([1, 250, 251, 400, 1000]), horizon,
                              horizon + r.choice([1, 100])]))
        marks += [go, horizon, go + 250]
        sc = script(r, texts, go, dl, 250)
        marks += [go + sc[0]["lat"], go + sc[0]["lat"] + 250]
        steps.append({"ev": "Go", "at": go, "c": c, "edge": edge, "duty": {"type": typ, "slot": slot}, "label": "", "dl": -1,
                      "gated": False, "script": sc})
        if r.random() < 0.25:
            steps.append({"ev": "ParentCancel", "at": go + r.choice([0, 1, 100, r.randint(0, 2000)]), "c": c})
    if not steps:
        return None
    end = max(marks)
    sat = max(0, r.choice([r.choice(marks), r.choice(marks) + r.choice([-1, 1, 50, 100]), r.randint(0, end + 1000), end + 500]))
    steps.append({"ev": "Shutdown", "at": sat, "to": r.choice([-1, -1, -1, 0, 50, 100, 1000])})
    if r.random() < 0.3:      # an edge invoked after Shutdown
        c = len(steps) + 1
        if c <= 6:
            steps.append({"ev": "Go", "at": sat + r.choice([0, 1, 100, 400]), "c": 6, "edge": r.choice(WRAPPED + SYNC[:2]),
                          "duty": {"type": "attester", "slot": 9}, "label": "", "dl": -1, "gated": False,
                          "script": [{"lat": r.choice([0, 10]), "hon": False, "res": result(r, r.choice(["ok", "temp"]), texts)}, tail(r, texts)]})
    steps.sort(key=lambda s: s["at"])
    return [{"ev": "Cfg", "mode": "wire", "slotms": slotms, "spe": spe}] + steps


def random_fort(r, texts):
    bo = r.choice([[0], [0, 0, 10], [1, 2, 3], [50], [100, 200], [10, 20, 40, 80], [250, 400, 640]])
    steps, marks = [], [0]
    for c in range(1, r.choice([1, 2, 3, 4]) + 1):
        dl = r.choice([-1, r.randint(0, 400), r.randint(0, 2000), 100, 200])
        go = r.choice([0, 0, r.randint(0, 300), max(0, dl - r.choice([0, 1, bo[0]])), dl + 1 if dl >= 0 else 5])
        sc = script(r, texts, go, dl if dl >= 0 else None, bo[0])
        gated = r.random() < 0.3
        steps.append({"ev": "Go", "at": go, "c": c, "edge": "fort", "duty": {"type": r.choice(DUTY_TYPES), "slot": c},
                      "label": r.choice(["A", "A", "B"]), "dl": dl, "gated": gated, "script": sc})
        marks += [go, go + sc[0]["lat"], go + sc[0]["lat"] + bo[0]] + ([dl] if dl >= 0 else [])
        if gated:
            steps.append({"ev": "Release", "at": go + r.choice([0, 1, 50, 100, 150, r.randint(0, 500)]), "c": c})
        if r.random() < 0.2:
            steps.append({"ev": "ParentCancel", "at": go + r.randint(0, 300), "c": c})
    sat = max(0, r.choice([r.choice(marks), r.choice(marks) + r.choice([-1, 1, 50, 100]), r.randint(0, max(marks) + 300)]))
    steps.append({"ev": "Shutdown", "at": sat, "to": r.choice([-1, -1, 0, 30, 100, 250])})
    if r.random() < 0.3:
        steps.append({"ev": "Go", "at": sat + r.choice([0, 1, 100]), "c": 6, "edge": "fort", "duty": {"type": "attester", "slot": 6},
                      "label": "A", "dl": -1, "gated": False,
                      "script": [{"lat": 0, "hon": False, "res": {"kind": "ok"}}]})
    steps.sort(key=lambda s: s["at"])
    return [{"ev": "Cfg", "mode": "fort", "bo": bo}] + steps


def random_schedules(seed, nwire, nfort, big, texts):
    r = vlib.rng(seed, "retry-rnd")
    out = []
    while len(out) < nwire:
        s = random_wire(r, texts, big)
        if s:
            out.append(s)
    out += [random_fort(r, texts) for _ in range(nfort)]
    return out


# ----------------------------------------------------------------------------------------------------------------------
# binding self-tests: corrupt one recorded field / drop or move one event of an accepted trace -> must be rejected
# ----------------------------------------------------------------------------------------------------------------------
def mutators():
    def first(t, pred):
        for k, e in enumerate(t):
            if pred(e):
                return k
        return None

    def retry_number(t):
        k = first(t, lambda e: e["ev"] == "AStart" and e["i"] >= 1)
        if k is None:
            return None
        t[k]["i"] += 1
        return t

    def ctx_state(t):
        k = first(t, lambda e: e["ev"] == "AStart" and e["err"] == "live")
        if k is None:
            return None
        t[k]["err"] = "deadline"
        return t

    def ctx_deadline(t):
        k = first(t, lambda e: e["ev"] == "AStart" and e["dl"] >= 0)
        if k is None:
            return None
        t[k]["dl"] += t[0]["slotus"] if t[0]["slotus"] else 1000
        return t

    def no_deadline(t):
        k = first(t, lambda e: e["ev"] == "AStart" and e["dl"] >= 0)
        if k is None:
            return None
        t[k]["dl"] = -1
        return t

    def ctx_end_dropped(t):
        k = first(t, lambda e: e["ev"] == "CtxDone")
        if k is None:
            return None
        del t[k]
        return t

    def ctx_end_kind(t):
        k = first(t, lambda e: e["ev"] == "CtxDone")
        if k is None:
            return None
        t[k]["err"] = "canceled" if t[k]["err"] == "deadline" else "deadline"
        return t

    def return_dropped(t):
        k = first(t, lambda e: e["ev"] == "Ret")
        if k is None:
            return None
        del t[k]
        return t

    def shutdown_early(t):
        a = first(t, lambda e: e["ev"] == "ShutCall")
        b = first(t, lambda e: e["ev"] == "ShutRet")
        if a is None or b is None or not any(e["ev"] in ("AEnd", "Ret") for e in t[a + 1:b]):
            return None
        ev = t.pop(b)
        ev["t"] = t[a]["t"]
        t.insert(a + 1, ev)
        return t

    def shutdown_late(t):
        b = first(t, lambda e: e["ev"] == "ShutRet")
        if b is None:
            return None
        for e in t[b:]:
            e["t"] += 300000
        return t

    def retry_after_permanent(t):
        k = first(t, lambda e: e["ev"] == "AEnd" and e["res"]["kind"] == "text" and t[0]["mode"] == "fort")
        if k is None or any(e["ev"] == "AStart" and e["c"] == t[k]["c"] for e in t[k + 1:]):
            return None
        t[k]["res"] = {"kind": "text", "txt": "some error"}     # the attempt before the last now failed permanently ...
        return t if any(e["ev"] == "BO" and e["c"] == t[k]["c"] for e in t[k + 1:]) else None

    def result_class(t):
        # ... a temporary failure that was followed by another attempt is turned into a permanent one
        for k, e in enumerate(t):
            if e["ev"] == "AEnd" and e["res"]["kind"] in ("net", "canceled", "deadline") and \
                    any(x["ev"] == "AStart" and x["c"] == e["c"] for x in t[k + 1:]):
                e["res"] = {"kind": "text", "txt": "internal server error"}
                return t
        return None

    def backoff_iteration(t):
        k = first(t, lambda e: e["ev"] == "BO")
        if k is None:
            return None
        t[k]["i"] += 1
        return t

    def edge_return(t):
        k = first(t, lambda e: e["ev"] == "EdgeRet")
        if k is None:
            return None
        t[k]["nil"] = not t[k]["nil"]
        return t

    def retry_too_early(t):
        # the first retry of a production-mode trace moved 100 ms ahead (with everything after it)
        if t[0]["mode"] != "wire":
            return None
        k = first(t, lambda e: e["ev"] == "AStart" and e["i"] == 1)
        if k is None or t[k]["t"] - t[k - 1]["t"] < 100000:
            return None
        for e in t[k:]:
            e["t"] -= 100000
        return t

    def attempt_dropped(t):
        k = first(t, lambda e: e["ev"] == "AStart")
        if k is None:
            return None
        del t[k]
        return t

    return [("retry recorded with another attempt number", retry_number),
            ("attempt recorded with an ended context", ctx_state),
            ("attempt's context deadline moved by a slot", ctx_deadline),
            ("attempt's context without deadline", no_deadline),
            ("end of a context not observed", ctx_end_dropped), ("context ended for the other reason", ctx_end_kind),
            ("return of DoAsync not observed", return_dropped),
            ("Shutdown returned while calls were active", shutdown_early), ("Shutdown returned 300 ms late", shutdown_late),
            ("a retried failure was a permanent one", result_class),
            ("backoffFunc called with another iteration", backoff_iteration),
            ("edge function's return value flipped", edge_return),
            ("first retry 100 ms before the backoff ended", retry_too_early),
            ("an attempt not recorded", attempt_dropped)]


# ----------------------------------------------------------------------------------------------------------------------
CONTROLS = (("RetryMC_ctl_noWait.cfg", "ShutdownWaits", "Shutdown returns without waiting for the active calls"),
            ("RetryMC_ctl_noDeadline.cfg", "NoRetryPastDeadline", "the deadline context is not applied"),
            ("RetryMC_ctl_sharedBackoff.cfg", "BackoffBetween", "one backoff iteration counter shared by all calls"),
            ("RetryMC_ctl_classFlip.cfg", "RetryOnlyTemporary", "permanent errors are retried"),
            ("RetryMC_ctl_lateAttempt.cfg", "NoRetryPastDeadline", "no ctx.Err() check before the next attempt"),
            ("RetryMC_ctl_noRefuse.cfg", "RefusedAfterShutdown", "startAsync does not look at the shutdown channel"),
            ("RetryMC_ctl_live.cfg", "temporal", "liveness control: 'every call ends' although a call without deadline may retry for ever"))


QUICK_MC = ["RetryMC_quick.cfg", "RetryMC_timeout.cfg", "RetryMC_gate.cfg", "RetryMC_labels.cfg", "RetryMC_sync.cfg", "RetryMC_live.cfg"]
THOROUGH_MC = ["RetryMC.cfg", "RetryMC_three_thorough.cfg", "RetryMC_gate_thorough.cfg", "RetryMC_live_thorough.cfg",
               "RetryMC_timeout.cfg", "RetryMC_labels.cfg", "RetryMC_sync.cfg"]


def design_check(o, tier, seed):
    """Design check, the controls that MUST be violated and the schedule generation -- independent TLC runs side by side
    (vlib.scratch is not thread-safe: the scratch dirs are made first).  Returns the generated histories as soon as the two
    generation runs are done and a function that waits for the model-checking runs and books their results: the
    conformance runs meanwhile."""
    from concurrent.futures import ThreadPoolExecutor
    thorough = tier == "thorough"
    mains = THOROUGH_MC if thorough else QUICK_MC
    n = 1500 if thorough else 260
    jobs = [("RetryGen", "RetryGen.cfg", dict(simulate="num=%d" % n, depth=120, seed=seed, workers=1)),
            ("RetryGen", "RetryGen_short.cfg", dict(simulate="num=%d" % n, depth=120, seed=seed + 1000, workers=1))]
    controls = CONTROLS
    if os.environ.get("VERIF_RETRY_NOMC"):      # mutation experiments: the design check does not depend on the tree
        mains, controls = [], ()
    jobs += [("RetryMC", c, dict(workers=WORKERS or (4 if thorough else 2))) for c in mains]
    jobs += [("RetryMC", c, dict(workers=1)) for c, _, _ in controls]
    dirs = [vlib.scratch(o.pid, FAMILY) for _ in jobs]
    ex = ThreadPoolExecutor(max_workers=len(jobs))
    futs = [ex.submit(vlib.tlc, o.pid, FAMILY, j[0], j[1], timeout=1700, sdir=d, **j[2]) for j, d in zip(jobs, dirs)]
    hists, seen = [], set()
    for f in futs[:2]:
        g = f.result()
        if g.error or g.timed_out or (g.violation and g.violation != "deadlock"):
            raise vlib.Infra("schedule generation failed: %s\n%s" % (g.summary(), g.out[-2000:]))
        for p in vlib.tagged_prints(g, "SCHED"):
            if p not in seen:
                seen.add(p)
                hists.append(json.loads(p))
    if not hists:
        raise vlib.Infra("schedule generation: no histories")

    def join():
        res = [f.result() for f in futs[2:]]
        ex.shutdown()
        for cfg, r in zip(mains, res):
            vlib.require_mc_ok(r, cfg)
            o.add_mc("Retry/" + cfg[:-4], r)
        for (cfg, inv, what), r in zip(controls, res[len(mains):]):
            got = r.violation or ("temporal" if "Temporal property AllCallsEnd was violated" in r.out else None)
            if got != inv:
                raise vlib.Infra("design-spec control failed: '%s' not caught by %s: %s" % (what, inv, r.summary()))
            o.selftests.append({"control": "Retry spec variant '%s' violates %s" % (what, inv), "rejected_as_required": True})
    return hists, join


def stage(o, tier, seed):
    """Run the Retry family as a stage of a check."""
    t0 = time.time()
    thorough = tier == "thorough"
    texts = spec_texts()
    hists, join_design = design_check(o, tier, seed)
    r = vlib.rng(seed, "retry-gen")
    r.shuffle(hists)
    hists = hists[:6000 if thorough else 700]
    gen = [from_hist(r, h, texts) for h in hists]
    rnd = random_schedules(seed, 4000 if thorough else 600, 2000 if thorough else 300, thorough, texts)
    o.extra["retry_histories_by_tlc"] = len(gen)
    vlib.conformance(o, FAMILY, TRACE, TCFG, PKG, gen, tag="retrygen", chunk=400, exec_timeout=900, tv_timeout=900)
    vlib.conformance(o, FAMILY, TRACE, TCFG, PKG, rnd, tag="retryrnd", chunk=300, exec_timeout=900, tv_timeout=900)
    join_design()
    tr = []
    for tag in ("retrygen", "retryrnd"):
        tr += vlib.split_traces(vlib.read_ndjson(os.path.join(vlib.workdir(o.pid), "trace_%s.ndjson" % tag)))
    if not o.violations:
        ms = mutators()
        nself = len(o.selftests)
        vlib.binding_selftest(o, FAMILY, TRACE, TCFG, tr, ms)
        if len(o.selftests) - nself < len(ms):
            raise vlib.Infra("Retry binding self-test: some negative control found no applicable trace")
    ev = [e for t in tr for e in t]
    o.extra["retry_calls"] = sum(1 for e in ev if e["ev"] == "Go")
    o.extra["retry_attempts"] = sum(1 for e in ev if e["ev"] == "AStart")
    o.extra["retry_retries"] = sum(1 for e in ev if e["ev"] == "AStart" and e["i"] > 0)
    o.extra["retry_max_attempt"] = max([e["i"] for e in ev if e["ev"] == "AStart"] or [0])
    o.extra["retry_first_attempt_with_ended_ctx"] = sum(1 for e in ev if e["ev"] == "AStart" and e["i"] == 0 and e["err"] != "live")
    log("[%s] Retry stage: %d TLC histories + %d random schedules -> %d traces, %d calls, %d attempts (%d retries), %.0fs"
        % (o.pid, len(gen), len(rnd), len(tr), o.extra["retry_calls"], o.extra["retry_attempts"], o.extra["retry_retries"],
           time.time() - t0))


def main(tier="quick", seed=1, pid="GRETRY"):
    """Stand-alone driver (the evidence file is written by checks/grow_all.py when the family is registered)."""
    vlib.workdir(pid, fresh=True)
    o = vlib.Outcome(pid, tier, seed)
    try:
        stage(o, tier, int(seed))
    except vlib.Infra as e:
        log("INFRA: %s" % e)
        return 2
    for fid, txt in o.known:
        log("KNOWN-FINDING: property=%s %s: %s" % (pid, fid, txt))
    for path, txt in o.violations:
        log("VIOLATION property=%s replay=%s" % (pid, path))
        log("  " + txt)
    if o.violations:
        return 1
    log("[%s] OK tier=%s seed=%s: %d MC states, %d traces validated, %d self-test controls, %.0fs"
        % (pid, tier, seed, o.states, o.traces, len(o.selftests), time.time() - o.t0))
    return 0


def replay(path):
    rp = json.load(open(path))
    o = vlib.Outcome(rp.get("property", "GRETRY"), "quick", 0)
    vlib.conformance(o, FAMILY, rp["trace_module"], rp["trace_cfg"], rp["pkg"], [rp["schedule"]], tag="replay")
    for p, t in o.violations:
        log("replay: " + t)
    return 1 if o.violations else 0


if __name__ == "__main__":
    import sys
    sys.exit(main(*(sys.argv[1:3] or ["quick", 1])))
