"""ConsCluster, part (b): every member's sniffed transcript (what the real component's transport fed into qbft.Run) is
validated against the QBFT.tla step relation by specs/QBFT/QBFTNodeTrace.tla - no outputs are logged, TLC infers the
member's steps (timeouts, input, producers' choices) from the member's own messages as they are looped back."""
import json, os
import vlib
from vlib import log

FAMILY = "QBFT"
MAX_TIMEOUTS, MAX_EVENTS = 7, 140
NT_TMPL = open(os.path.join(vlib.SPECS, FAMILY, "QBFTNodeTrace.cfg.tmpl")).read()


def cfg_node(t, w=3):
    r = t[0]
    return ("nt_n%d_i%d_w%d.cfg" % (r["n"], r["inst"], w), NT_TMPL % {"N": r["n"], "Inst": r["inst"], "W": w})


def cfg_node_wide(t):
    return cfg_node(t, 8)


def node_traces(t):
    """The per-member traces of one cluster trace."""
    r = t[0]
    out = []
    wire = [(e["m"], None) for e in t if e.get("ev") == "Send"] + [(e["m"], e["to"]) for e in t if e.get("ev") == "ByzSend"]
    for s in t:
        if s.get("ev") != "Sniff":
            continue
        p = s["p"]
        inp = [e["v"] for e in t if e.get("ev") == "Propose" and e["p"] == p]
        rounds = [e for e in t if e.get("ev") == "Round" and e["p"] == p]
        dec = [e for e in t if e.get("ev") == "Decide" and e["p"] == p]
        cands = []
        if dec:
            d = dec[0]
            for m, to in wire:
                if (to is None or p in to) and m["value"] == d["v"] and m["src"] != p and \
                        ((m["type"] in ("P", "C") and m["round"] == d["round"]) or m["type"] == "D") and m not in cands:
                    cands.append(m)
        maxr = max([x["m"]["round"] for x in s["msgs"]] + [e["new"] for e in rounds] + [1]) + 1
        leads = any((r["inst"] + k) % r["n"] == p for k in range(1, maxr + 1))
        nt = [{"ev": "Reset", "eagerinput": not leads, "sid": r.get("sid", 0), "family": r.get("family"), "n": r["n"], "inst": r["inst"], "p": p,
               "input": inp[0] if inp else 0, "timeouts": sum(1 for e in rounds if e["rule"] == "round_timeout"),
               "lastround": rounds[-1]["new"] if rounds else 1, "cands": cands[:20]}]
        nt += [{"ev": "Deliver", "m": x["m"]} for x in s["msgs"]]
        nt.append({"ev": "Final", "decided": bool(dec), "v": dec[0]["v"] if dec else 0, "round": dec[0]["round"] if dec else 0})
        out.append(nt)
    return out


def mutators():
    def first(t, pred):
        for i, e in enumerate(t):
            if pred(e):
                return i
        return None
    own = lambda t, typ: first(t, lambda e: e.get("ev") == "Deliver" and e["m"]["src"] == t[0]["p"] and e["m"]["type"] == typ)

    def own_commit_value(t):
        i = own(t, "C")
        if i is None:
            return None
        t[i]["m"]["value"] = 1 + (t[i]["m"]["value"] % t[0]["n"])
        return t

    def own_prepare_uncaused(t):
        # the PRE-PREPARE that makes the member PREPARE was never delivered
        i = own(t, "P")
        if i is None:
            return None
        keep = [e for k, e in enumerate(t) if not (k < i and e.get("ev") == "Deliver" and e["m"]["type"] == "PP")]
        return keep if len(keep) < len(t) else None

    def lost_quorum(t):
        # drop foreign PREPAREs in front of the member's own COMMIT until no quorum is left
        i = own(t, "C")
        if i is None:
            return None
        keep = [e for k, e in enumerate(t) if not (k < i and e.get("ev") == "Deliver" and e["m"]["type"] == "P"
                                                    and e["m"]["src"] != t[0]["p"])]
        return keep if len(keep) < len(t) - 1 else None

    def other_decision(t):
        if not t[-1]["decided"]:
            return None
        t[-1]["v"] = 1 + (t[-1]["v"] % t[0]["n"])
        return t

    def missing_timeout(t):
        # one round_timeout less than the member's own ROUND-CHANGEs need (each of them stems from a timeout here)
        own_rc = sum(1 for e in t if e.get("ev") == "Deliver" and e["m"]["src"] == t[0]["p"] and e["m"]["type"] == "RC")
        if not t[-1]["decided"] or t[0]["timeouts"] < 1 or own_rc != t[0]["timeouts"]:
            return None
        # fewer than f+1 foreign ROUND-CHANGE sources in the whole transcript: an f+1 jump cannot explain it either
        srcs = {e["m"]["src"] for e in t if e.get("ev") == "Deliver" and e["m"]["type"] == "RC" and e["m"]["src"] != t[0]["p"]}
        if len(srcs) >= (t[0]["n"] - 1) // 3 + 1:
            return None
        t[0]["timeouts"] -= 1
        return t

    def own_rc_round(t):
        i = own(t, "RC")
        if i is None:
            return None
        t[i]["m"]["round"] += 1
        return t
    return [("own COMMIT carries another value", own_commit_value), ("own PREPARE without the PRE-PREPARE that causes it", own_prepare_uncaused),
            ("own COMMIT without a quorum of PREPAREs", lost_quorum), ("subscriber saw another value", other_decision),
            ("one logged timeout less than the own ROUND-CHANGEs need", missing_timeout), ("own ROUND-CHANGE for another round", own_rc_round)]


def validate(o, traces, schedules):
    nts, origin, skipped = [], [], 0
    for ti, t in enumerate(traces):
        for nt in node_traces(t):
            # TLC places the timeouts itself: a member that ran through many rounds (a run that does not terminate - which
            # the cluster trace spec reports) is not worth the search
            if nt[0]["timeouts"] > MAX_TIMEOUTS or len(nt) > MAX_EVENTS:
                skipped += 1
                continue
            nts.append(nt)
            origin.append(ti)
    if skipped:
        o.notes.append("%d member transcripts with more than %d timeouts / %d entries not validated" % (skipped, MAX_TIMEOUTS, MAX_EVENTS))
    if not nts:
        return
    v = vlib.validate_traces(o.pid, FAMILY, "QBFTNodeTrace", cfg_node, nts, chunk=60, timeout=300)
    o.traces += len(nts)
    o.trace_events += sum(len(t) for t in nts)
    o.trace_states += v.states
    log("[%s] %s/member transcripts: %d traces (%d events) validated in %.1fs (%d spec states): %d accepted, %d rejected"
        % (o.pid, FAMILY, len(nts), sum(len(t) for t in nts), v.wall, v.states, len(v.accepted), len(v.rejected)))
    o.extra["member_transcripts"] = len(nts)
    reported, unrepro = 0, []
    rejected = list(v.rejected)
    if rejected:
        # the observation is imprecise by construction (the sniffer records a message after the hand-over, on another
        # goroutine): a transcript that only a wider re-ordering window explains is noted, not reported
        vw = vlib.validate_traces(o.pid, FAMILY, "QBFTNodeTrace", cfg_node_wide, [nts[k] for k, _, _ in rejected], timeout=600)
        still = {i for i, _, _ in vw.rejected}
        for j, (k, pos, reason) in enumerate(rejected):
            if j not in still:
                o.notes.append("member transcript (run %s member %d) needs a re-ordering window wider than 3 entries"
                               % (nts[k][0].get("sid"), nts[k][0]["p"]))
        rejected = [x for j, x in enumerate(rejected) if j in still]
    for (k, pos, reason) in rejected:
        if reported >= 3:
            break
        ti, p = origin[k], nts[k][0]["p"]
        sid = traces[ti][0].get("sid", ti)
        sched = schedules[sid]
        t2, _, _ = vlib.run_schedules(o.pid, "conscluster", "TestExec", [sched] * 4, tag="member_re")
        n2 = [nt for t in t2 for nt in node_traces(t) if nt[0]["p"] == p]
        v2 = vlib.validate_traces(o.pid, FAMILY, "QBFTNodeTrace", cfg_node_wide, n2, timeout=600)
        if not v2.rejected:
            unrepro.append((sid, p, pos, reason, nts[k]))
            continue
        bad = n2[v2.rejected[0][0]]
        bpos, breason = v2.rejected[0][1], v2.rejected[0][2]
        reported += 1
        path = vlib.save_replay(o.pid, "QBFT_member_%d_%d" % (sid, p),
                                {"property": o.pid, "family": FAMILY, "trace_module": "QBFTNodeTrace", "pkg": "conscluster",
                                 "schedule": sched, "member": p, "trace": bad, "rejected_at_event": bpos,
                                 "event": bad[bpos] if bpos < len(bad) else None, "reason": breason})
        o.violations.append((path, "QBFT member transcript (run %d, member %d): %s at event %d: %s"
                             % (sid, p, breason, bpos, json.dumps(bad[bpos] if bpos < len(bad) else None)[:300])))
    if unrepro and not reported:
        u = unrepro[0]
        raise vlib.Infra("%d rejected member transcript(s) did not reproduce (first: run %d member %d, %s at event %d): %s"
                         % (len(unrepro), u[0], u[1], u[3], u[2], json.dumps(u[4])[:1500]))
    if not o.violations:
        vlib.binding_selftest(o, FAMILY, "QBFTNodeTrace", cfg_node, [nts[i] for i in v.accepted], mutators())
