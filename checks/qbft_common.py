"""Shared machinery for the QBFT family (C02 agreement, C03 validity/integrity; reused by C04)."""
import json, os
import vlib
from vlib import log

FAMILY = "QBFT"
TRACE_TMPL = open(os.path.join(vlib.SPECS, FAMILY, "QBFTTrace.cfg.tmpl")).read()
GEN_TMPL = open(os.path.join(vlib.SPECS, FAMILY, "QBFTGen.cfg.tmpl")).read()


def trace_cfg_of(t):
    r = t[0]
    name = "QBFTTrace_n%d_i%d_b%s_c%s.cfg" % (r["n"], r["inst"], "_".join(map(str, r["byz"])), "_".join(map(str, r["cfail"])))
    return (name, TRACE_TMPL % {"N": r["n"], "Inst": r["inst"], "Byz": ", ".join(map(str, r["byz"])),
                                "CompareFail": ", ".join(map(str, r["cfail"]))})


def config_step(n, inst, byz, cfail=()):
    return {"ev": "Config", "n": n, "inst": inst, "byz": list(byz), "cfail": list(cfail)}


def random_schedules(seed, salt, combos, per_combo, steps, *, inputs_mode="two", ptimeout=4, pbyz=12, pdup=5, ploss=5,
                     crashes=0, cfail_mode=False, plag=0):
    """One 'Random' schedule per (combo, k): the Go executor's seeded online scheduler + adversary does the rest."""
    r = vlib.rng(seed, "qbft/" + salt)
    out = []
    for (n, inst, byz) in combos:
        for k in range(per_combo):
            if inputs_mode == "two":
                inputs = [1 + ((i + k) % 2) for i in range(n)]
            elif inputs_mode == "missing":      # some members never obtain a proposal
                inputs = [0 if r.random() < 0.35 else 1 + r.randint(0, 1) for i in range(n)]
                if all(x == 0 for x in inputs):
                    inputs[r.randrange(n)] = 1
            else:
                inputs = [1 + r.randint(0, 1) for i in range(n)]
            cfail = []
            if cfail_mode:
                honest = [p for p in range(n) if p not in byz]
                for p in honest:
                    if r.random() < 0.3:
                        cfail.append(1000 * p + r.choice([1, 2]))
            # cfail is part of the trace-spec constants: keep the number of distinct sets small
            cfail = sorted(cfail)[:2]
            out.append([config_step(n, inst, byz, cfail),
                        {"ev": "Random", "steps": steps, "seed": r.randrange(1 << 30), "inputs": inputs, "vals": [1, 2],
                         "ptimeout": ptimeout, "pbyz": pbyz if byz else 0, "pdup": pdup, "ploss": ploss,
                         "crashes": crashes, "plag": plag}])
    return out


def scenario_schedules(seed, salt, reps=1):
    """Scripted prefixes that put the members just before an interesting point (a member prepared and committed while the
    others timed out; commits in flight; ...), then ONE targeted adversarial message with a chosen defect delivered to
    chosen members, then a random continuation.  The prefixes use message selectors, so they are replayed on the code:
    a window can never start from a state the implementation cannot reach."""
    r = vlib.rng(seed, "qbft/scen/" + salt)
    out = []

    def S(t, s_, rnd, p):
        return {"ev": "DeliverSel", "p": p, "t": t, "s": s_, "r": rnd}

    def tail(steps=160, byz=True, ptimeout=8):
        return {"ev": "Random", "steps": steps, "seed": r.randrange(1 << 30), "inputs": [1, 2, 1, 2, 1, 2, 1], "vals": [1, 2],
                "ptimeout": ptimeout, "pbyz": 8 if byz else 0, "pdup": 6, "ploss": 4, "crashes": 0, "plag": 0}
    for rep in range(reps):
        # --- n=4, inst=0: leader(1)=1, leader(2)=2, leader(3)=3 ---------------------------------------------------
        # A. Byzantine leader of round 2; member 0 prepared (and committed) value 2 in round 1, members 1,3 did not.
        for defect in range(10):
            hon = [0, 1, 3]
            pre = [config_step(4, 0, [2])] + [{"ev": "Start", "p": p} for p in hon] + \
                  [{"ev": "Input", "p": p, "v": 1 + (p % 2)} for p in hon] + \
                  [S("PP", 1, 1, p) for p in hon] + [S("P", q, 1, 0) for q in hon] + [S("P", 1, 1, 1), S("P", 3, 1, 3)] + \
                  [{"ev": "Timeout", "p": p} for p in hon]
            if defect % 2 == 0:   # let member 1 learn member 0's prepared ROUND-CHANGE first
                pre += [S("RC", 0, 2, 1)]
            to = r.sample(hon, r.randint(2, 3))
            out.append(pre + [{"ev": "ByzCraft", "kind": "pp", "b": 2, "r": 2, "v": 1, "vals": [1, 2], "defect": defect,
                               "seed": r.randrange(1 << 30), "to": to}, tail()])
        # B. Byzantine NON-leader (3) forging ROUND-CHANGE claims towards the honest leader of round 2 (member 2)
        for defect in range(6):
            hon = [0, 1, 2]
            pre = [config_step(4, 0, [3])] + [{"ev": "Start", "p": p} for p in hon] + \
                  [{"ev": "Input", "p": p, "v": 1 + (p % 2)} for p in hon] + \
                  [S("PP", 1, 1, p) for p in hon] + [S("P", q, 1, 0) for q in hon] + [S("P", 1, 1, 1)] + \
                  [{"ev": "ByzCraft", "kind": "vote", "b": 3, "r": 1, "v": 2, "vals": [1, 2], "defect": 0,
                    "seed": r.randrange(1 << 30), "to": []}] + \
                  [{"ev": "Timeout", "p": p} for p in hon]
            out.append(pre + [{"ev": "ByzCraft", "kind": "rc", "b": 3, "r": 2, "v": 1, "vals": [1, 2], "defect": defect,
                               "seed": r.randrange(1 << 30), "to": [2, 0]},
                              S("RC", 0, 2, 2), S("RC", 1, 2, 2), tail()])
        # C. adversarial DECIDED while honest COMMITs for value 2 / round 1 are in flight (both values, every defect)
        for defect in range(6):
            for v in (1, 2):
                hon = [0, 1, 3]
                pre = [config_step(4, 0, [2])] + [{"ev": "Start", "p": p} for p in hon] + \
                      [{"ev": "Input", "p": p, "v": 1 + (p % 2)} for p in hon] + \
                      [S("PP", 1, 1, p) for p in hon] + [S("P", q, 1, p) for p in hon for q in hon]
                out.append(pre + [{"ev": "ByzCraft", "kind": "d", "b": 2, "r": 1, "v": v, "vals": [1, 2],
                                   "defect": defect, "seed": r.randrange(1 << 30), "to": r.sample(hon, 2)}, tail(steps=80)])
        # E. Byzantine leader of round 3 (member 3); member 0 holds a prepared certificate from round 1, everybody timed out
        #    twice: PRE-PREPAREs for round 3 whose justification is almost right (each defect, both proposed values)
        for defect in range(12):
            for v in (1, 2):
                hon = [0, 1, 2]
                pre = [config_step(4, 0, [3])] + [{"ev": "Start", "p": p} for p in hon] + \
                      [{"ev": "Input", "p": p, "v": 1 + (p % 2)} for p in hon] + \
                      [S("PP", 1, 1, p) for p in hon] + \
                      [{"ev": "ByzCraft", "kind": "vote", "b": 3, "r": 1, "v": 2, "vals": [1, 2], "defect": 0,
                        "seed": 2 * r.randrange(1 << 29) + 1, "to": [0]}] + \
                      [S("P", q, 1, 0) for q in hon] + [S("P", 1, 1, 1)] + \
                      [{"ev": "Timeout", "p": p} for p in hon] + [S("RC", q, 2, p) for p in hon for q in hon] + \
                      [{"ev": "Timeout", "p": p} for p in hon]
                out.append(pre + [{"ev": "ByzCraft", "kind": "pp", "b": 3, "r": 3, "v": v, "vals": [1, 2], "defect": defect,
                                   "seed": r.randrange(1 << 30), "to": hon}, tail(steps=80)])
        # F. compare extension, honest only: member d REJECTS the round-1 leader's value in its own Compare (no PREPARE of its
        #    own, compareFailureRound = 1) but then sees the PREPARE quorum of the others: it is prepared on that value, sends
        #    COMMIT, and after its timeout its ROUND-CHANGE has to carry the prepared round, value and certificate (the others
        #    may have decided on its COMMIT).  d is the leader of round 2 or of round 3, all rotations.
        for inst in range(4):
            ldr = (inst + 1) % 4
            d = (ldr + 1 + (rep + inst) % 2) % 4
            lv = 1 + (ldr % 2)
            rest = [p for p in range(4) if p != d]
            pre = [config_step(4, inst, [], [1000 * d + lv])] + [{"ev": "Start", "p": p} for p in range(4)] + \
                  [{"ev": "Input", "p": p, "v": 1 + (p % 2)} for p in range(4)] + \
                  [S("PP", ldr, 1, p) for p in range(4)] + [S("P", q, 1, d) for q in rest] + \
                  [S("C", d, 1, ldr)] + [{"ev": "Timeout", "p": d}] + [S("RC", d, 2, p) for p in rest[:2]] + \
                  [{"ev": "Timeout", "p": p} for p in rest[(rep % 2):]]
            out.append(pre + [tail(byz=False, steps=120)])
        # H. votes for the EMPTY value: the adversary's PREPARE / COMMIT with value 0 reaches a member that holds quorum-1
        #    honest PREPAREs / COMMITs for the proposed value (before, between and after them)
        for when in range(3):
            for inst in (0, 2):
                ldr = (inst + 1) % 4
                b = (ldr + 1 + when) % 4
                if b == ldr:
                    b = (b + 1) % 4
                hon = [p for p in range(4) if p != b]
                vic = hon[(when + inst) % 3]
                oth = [p for p in hon if p != vic]
                Z = lambda k: {"ev": "ByzCraft", "kind": k, "b": b, "r": 1, "v": 0, "vals": [1, 2], "defect": 0, "seed": 1, "to": [vic] + oth[:when % 2]}
                pre = [config_step(4, inst, [b])] + [{"ev": "Start", "p": p} for p in hon] + \
                      [{"ev": "Input", "p": p, "v": 1 + (p % 2)} for p in hon] + [S("PP", ldr, 1, p) for p in hon]
                pre += ([Z("votep")] if when == 0 else []) + [S("P", oth[0], 1, vic)] + ([Z("votep")] if when == 1 else []) + \
                       [S("P", vic, 1, vic)] + ([Z("votep")] if when == 2 else []) + [S("P", q, 1, p) for p in hon for q in hon]
                pre += ([Z("votec")] if when == 0 else []) + [S("C", oth[0], 1, vic)] + ([Z("votec")] if when == 1 else []) + \
                       [S("C", vic, 1, vic)] + ([Z("votec")] if when == 2 else [])
                out.append(pre + [tail(steps=80)])
        # G. cluster sizes where 2f+1 < quorum (n = 5, 6): a Byzantine member sends DECIDED certificates of every defect kind
        #    (among them: one COMMIT short of the quorum, i.e. exactly 2f+1) while only SOME honest members have committed
        for n in (5, 6):
            for defect in range(6):
                inst = (rep + defect) % n
                ldr = (inst + 1) % n
                b = (ldr + 2 + defect % (n - 2)) % n
                if b == ldr:
                    b = (b + 1) % n
                hon = [p for p in range(n) if p != b]
                lv = 1 + (ldr % 2)
                xs = r.sample(hon, 2)                       # the two members that see the PREPARE quorum and COMMIT
                pre = [config_step(n, inst, [b])] + [{"ev": "Start", "p": p} for p in hon] + \
                      [{"ev": "Input", "p": p, "v": 1 + (p % 2)} for p in hon] + \
                      [S("PP", ldr, 1, p) for p in hon] + [S("P", q, 1, x) for x in xs for q in hon[:4]]
                to = r.sample(hon, r.randint(1, 3))
                out.append(pre + [{"ev": "ByzCraft", "kind": "d", "b": b, "r": 1, "v": lv, "vals": [1, 2], "defect": defect,
                                   "seed": r.randrange(1 << 30), "to": to}, tail(steps=100)])
        # D. honest only: a lagging member jumps to round 2 through a justified PRE-PREPARE that is then re-delivered
        hon = [0, 1, 2, 3]
        pre = [config_step(4, 0, [])] + [{"ev": "Start", "p": p} for p in hon] + \
              [{"ev": "Input", "p": p, "v": 1 + (p % 2)} for p in hon] + \
              [{"ev": "Timeout", "p": p} for p in [1, 2, 3]] + [S("RC", q, 2, 2) for q in [1, 2, 3]] + \
              [S("PP", 2, 2, 0), S("PP", 2, 2, 0), S("PP", 2, 2, 1), S("PP", 2, 2, 1)]
        out.append(pre + [tail(byz=False)])
    return out


def tlc_gen_schedules(pid, seed, params, num, depth, limit):
    """Schedules from TLC simulation of QBFTGen (adversary repertoire of the spec)."""
    d = vlib.scratch(pid, FAMILY)
    open(os.path.join(d, "gen.cfg"), "w").write(GEN_TMPL % params)
    r = vlib.tlc(pid, FAMILY, "QBFTGen", "gen.cfg", simulate="num=%d" % num, depth=depth, seed=seed, workers=1,
                 timeout=600, sdir=d)
    if r.error or r.timed_out or r.violation:
        raise vlib.Infra("QBFTGen failed: %s\n%s" % (r.summary(), r.out[-2500:]))
    seen, out = set(), []
    byz = [int(x) for x in params["Byz"].split(",") if x.strip()]
    cf = [int(x) for x in params["CompareFail"].split(",") if x.strip()]
    for p in vlib.tagged_prints(r, "SCHED"):
        if p in seen:
            continue
        seen.add(p)
        out.append([config_step(params["N"], params["Inst"], byz, cf)] + json.loads(p))
        if len(out) >= limit:
            break
    return out


def mutators():
    def first(t, pred):
        for i, e in enumerate(t):
            if pred(e):
                return i
        return None

    def flip_rule(t):
        i = first(t, lambda e: e.get("ev") == "Deliver" and e.get("rule") == "QP")
        if i is None:
            return None
        t[i]["rule"] = "NONE"
        return t[:i + 1]

    def change_bcast_value(t):
        i = first(t, lambda e: e.get("ev") == "Deliver" and e.get("nb") == 1 and e["bcast"]["type"] == "P")
        if i is None:
            return None
        t[i]["bcast"]["value"] = 3 - t[i]["bcast"]["value"]
        return t[:i + 1]

    def drop_delivery(t):
        # remove one PREPARE delivery that precedes a quorum: the later QP then has too few prepares
        i = first(t, lambda e: e.get("ev") == "Deliver" and e.get("rule") == "QP")
        if i is None:
            return None
        p = t[i]["p"]
        for j in range(i - 1, 0, -1):
            e = t[j]
            if e.get("ev") == "Deliver" and e["p"] == p and e["m"]["type"] == "P" and e["m"]["round"] == t[i]["m"]["round"] \
                    and not e.get("unjust"):
                del t[j]
                return t[:i]
        return None

    def wrong_decision(t):
        i = first(t, lambda e: e.get("ev") == "Deliver" and e.get("rule") in ("QC", "JD"))
        if i is None:
            return None
        t[i]["dval"] = 3 - t[i]["dval"]
        return t[:i + 1]

    def forged_honest(t):
        # a Byzantine DECIDED quoting COMMITs of honest members that were never sent
        r = t[0]
        if not r["byz"]:
            return None
        b = r["byz"][0]
        hon = [p for p in range(r["n"]) if p not in r["byz"]]
        just = [{"type": "C", "src": p, "round": 1, "value": 2, "pr": 0, "pv": 0, "copy": 1} for p in hon]
        m = {"type": "D", "src": b, "round": 1, "value": 2, "pr": 0, "pv": 0, "just": just}
        return t[:2] + [{"ev": "ByzSend", "m": m}]
    return [("rule flipped to NONE", flip_rule), ("PREPARE value changed", change_bcast_value),
            ("one PREPARE delivery dropped before quorum", drop_delivery), ("decided value changed", wrong_decision),
            ("forged honest COMMITs in a Byzantine DECIDED", forged_honest)]


def trace_to_schedule(t, upto=None):
    """An explicit replay schedule for a recorded trace (used to reproduce a rejection of an ONLINE random schedule,
    whose choices depend on Go map order inside qbft and are therefore not repeatable from the seed alone)."""
    r = t[0]
    out = [config_step(r["n"], r["inst"], r["byz"], r["cfail"])]
    for e in (t[1:] if upto is None else t[1:upto + 1]):
        ev = e.get("ev")
        if ev == "Anomaly":
            ev = e.get("was")
        if ev == "Start":
            out.append({"ev": "Start", "p": e["p"]})
        elif ev == "Input":
            out.append({"ev": "Input", "p": e["p"], "v": e["v"]})
        elif ev == "Timeout":
            out.append({"ev": "Timeout", "p": e["p"]})
        elif ev == "Crash":
            out.append({"ev": "Crash", "p": e["p"]})
        elif ev == "ByzSend":
            out.append({"ev": "ByzSend", "m": e["m"]})
        elif ev == "Deliver":
            out.append({"ev": "Deliver", "p": e["p"], "m": e["m"]})
    return out


def replay(pid, path):
    rp = json.load(open(path))
    o = vlib.Outcome(pid, "quick", 0)
    vlib.conformance(o, FAMILY, rp["trace_module"], trace_cfg_of, rp["pkg"], [rp["schedule"]], tag="replay")
    for p, t in o.violations:
        log("replay: " + t)
    return 1 if o.violations else 0


def consensus_stage(o, seed, thorough):
    """Used by C01 (the pipeline's first mechanism is consensus agreement): the scripted QBFT scenarios and a small
    random batch on the real qbft.Run, validated against QBFT.tla, so that consensus-breaking changes surface in
    the composition check as well (intended redundancy with C02/C03)."""
    sc = scenario_schedules(seed, "c01", 3 if thorough else 1)
    vlib.conformance(o, FAMILY, "QBFTTrace", trace_cfg_of, "c02", sc, tag="qbft_scenario", replay_of=trace_to_schedule)
    combos = [(4, 0, [3]), (4, 2, []), (5, 1, [2]), (7, 3, [1, 5])]
    rnd = random_schedules(seed, "c01", combos, 20 if thorough else 4, 300, pbyz=16, ptimeout=10, plag=50, pdup=8)
    vlib.conformance(o, FAMILY, "QBFTTrace", trace_cfg_of, "c02", rnd, tag="qbft_random", replay_of=trace_to_schedule)


def quorum_proof(o):
    """QuorumProof.tla: the same lemmas for EVERY n >= 1 and the set-level intersection property, proved with TLAPS (SMT +
    FiniteSetTheorems).  A proof that does not go through (back-end timeout under load) is reported in the evidence and
    never as a violation - the statement proved is independent of /repo."""
    import shutil, subprocess, time
    if not shutil.which("tlapm"):
        o.extra["quorum_proof"] = "tlapm not available"
        return
    d = vlib.scratch(o.pid, "Proofs")
    t0 = time.time()
    for stretch in ("1", "4"):
        p = subprocess.run(["timeout", "600", "tlapm", "--cleanfp", "--threads", "8", "--stretch", stretch, "QuorumProof.tla"],
                           cwd=d, stdout=subprocess.PIPE, stderr=subprocess.STDOUT, text=True)
        m = __import__("re").search(r"All (\d+) obligations proved", p.stdout)
        if m:
            o.extra["quorum_proof"] = {"obligations_proved": int(m.group(1)), "seconds": round(time.time() - t0, 1),
                                       "theorems": ["Arith (all n >= 1)", "QuorumIntersection", "HonestInFPlus1"]}
            o.selftests.append({"control": "QuorumProof.tla: %s TLAPS obligations proved (quorum intersection for every n)" % m.group(1),
                                "rejected_as_required": True})
            vlib.log("[%s] QuorumProof: all %s obligations proved by TLAPS in %.0fs" % (o.pid, m.group(1), time.time() - t0))
            return
    o.extra["quorum_proof"] = "not proved in this run: " + p.stdout[-300:]
    vlib.log("[%s] QuorumProof: TLAPS did not finish (%s)" % (o.pid, p.stdout[-200:].replace("\n", " ")))


def quorum_arith(o):
    """QuorumArith.tla: the intersection lemmas for n = 1..200 as TLC-checked theorems, and the Go float formulas of
    Definition.Quorum/Faulty bound to the integer ones through the recorded values."""
    w = vlib.workdir(o.pid)
    outp = os.path.join(w, "quorum.ndjson")
    rc, out, _ = vlib.go_exec("c02", "TestQuorumArith", {"VERIF_OUT": outp}, timeout=300)
    if rc != 0 or not os.path.exists(outp):
        raise vlib.Infra("TestQuorumArith failed:\n" + out[-2000:])
    d = vlib.scratch(o.pid, FAMILY, extra_files=[outp])
    r = vlib.tlc(o.pid, FAMILY, "QuorumArith", "QuorumArith.cfg", workers=1, timeout=300, sdir=d)
    res = [json.loads(x) for x in vlib.tagged_prints(r, "QA")]
    if r.error or r.violation or not res:
        raise vlib.Infra("QuorumArith could not be evaluated: %s\n%s" % (r.summary(), r.out[-1500:]))
    o.selftests.append({"control": "QuorumArith lemmas (n=1..200) hold as TLC-checked theorems", "rejected_as_required": True})
    o.extra["quorum_arith"] = res[-1]
    if not (res[-1]["conforms"] and res[-1]["covered"]):
        path = vlib.save_replay(o.pid, "QuorumArith", {"property": o.pid, "observed": vlib.read_ndjson(outp), "verdict": res[-1]})
        o.violations.append((path, "Definition.Quorum()/Faulty() differ from ceil(2n/3)/floor((n-1)/3) for some n in 1..200"))
