"""Growth families: TLA+ specification + conformance loop for parts of charon that NO listed property covers
(./check --grow <name>|all).  They are deliberately NOT part of any registered property check: a property check
must not raise an alarm on code where its property holds, and these families judge other behaviour.  Families that
DO belong to a listed property's mechanism are wired into that property's check instead (ConsCluster -> C02/C04,
Pedersen -> C11, the QBFT scenarios -> C01)."""
import importlib, sys, time
import vlib
from vlib import log

FAMILIES = {
    "tracker": ("grow_tracker", "core/tracker: event-order state machine and failure attribution table"),
    "fetcher": ("grow_fetcher", "core/fetcher: dependency ordering, fan-out, FetchOnly cache, reorg"),
    "priority": ("grow_priority", "core/priority + core/infosync: exchange, calculateResult, agreed result"),
    "broadcaster": ("grow_broadcaster", "core/bcast: duty type x signed-data kind -> beacon API submission"),
    "dkgsync": ("grow_dkgsync", "dkg/sync: connection / step barrier protocol"),
    "vapi": ("grow_vapi", "core/validatorapi: DV-key attribution, partial-signature gate, per-duty forwarding, pubshare translation"),
    "nodesigs": ("grow_nodesigs", "dkg node signatures and lock-hash / deposit partial signature aggregation"),
    "exchanger": ("grow_exchanger", "dkg/exchanger.go: partial-signature exchange of the ceremony (real parsigdb + parsigex, gater, share-index check)"),
    "forkjoin": ("grow_forkjoin", "app/forkjoin: fan-out helper (workers, fail-fast, cancel, Flatten, goroutine accounting)"),
    "lifecycle": ("grow_lifecycle", "app/lifecycle: start/stop hook ordering, shutdown budget, Run's error, late registration"),
    "inclusion": ("grow_inclusion", "core/tracker/inclusion.go: Submitted / per-slot check loop with lags 6 and 32 / Trim, inclusion by aggregation bits (Phase0 + Electra layouts), reports to log and tracker, WithTracking broadcaster edge"),
    "workflow": ("grow_workflow", "whole system: clusters of real app.Run nodes (QBFT over libp2p, validator mocks) under faults, every core.Wire edge call on every node trace-validated against the composed workflow (value flow, causal order, C01 one root per duty and validator)"),
    "eth2wrap": ("grow_eth2wrapx", "app/eth2wrap: synthetic proposer duties/proposals + their cache (synthproposer.go), lazy connect-on-first-use client (lazy.go), ValidatorCache (cache.go); real wrappers over gated beaconmock under synctest"),
    "p2psender": ("grow_p2psender", "p2p sender/receive/gater/relay: SendReceive/SendAsync/Send + relay retry, per-peer failure hysteresis and its log lines, RegisterHandler per-stream handling, ConnGater, relay reserver/router with expbackoff (mocknet + synctest)"),
    "appstate": ("grow_appstate", "app/privkeylock (key-file lock protocol), app/monitoringapi.go readiness checker, app/health checks over scraped metrics, app/peerinfo exchange: four machines in virtual time"),
    "consensusctl": ("grow_consensusctl", "core/consensus: consensusController + consensusWrapper (protocol switch, subscribers), qbft component instance IO life-cycle (Participate / Propose / deadliner delete), debugger ring, protocol id parsing"),
    "exitflow": ("grow_exitflow", "cmd exit sign / fetch / broadcast / delete / list + app/obolapi exit client against a scripted Obol API: threshold of distinct shares, message match, aggregate verification, authorisation of deletes"),
    "reshare": ("grow_reshare", "dkg/pedersen/reshare.go RunReshareDKG behind `alpha edit` reshare / add-operators / remove-operators / replace-operator: refusals (node-count / threshold case enumeration), kyber resharing rounds with leaving (none key) and joining (no share) nodes, group key unchanged, new shares at the new cluster's indices, old shares stay valid; real RunReshareDKG over real boards under synctest"),
    "feerecipient": ("grow_feerecipient", "cmd feerecipient sign / fetch / list + app/obolapi fee-recipient client + app/builderregistration.go service (real CLI and real Run loop against a scripted in-process Obol API; fsnotify in real time, timers under synctest): threshold of distinct shares over one message, adoption of the in-progress message, timestamp rules, verified newest-wins merge of file and API overrides, 1 h / 24 h fetch intervals"),
    "sse": ("grow_sse", "app/sse: SSE client framing / reconnect loop (real net/http over net.Pipe in synctest) + listener: head / chain_reorg delivery to subscribers, reorg de-duplication across beacon nodes, delay metrics, gossip-time bookkeeping and trim, malformed events, connection life cycle; 4 findings"),
    "vapirouter": ("grow_vapirouter", "HTTP layer of the validator API (core/validatorapi/router.go): routing table vs proxy, per-endpoint parsing (json / ssz per fork) and response / error writing, events reverse proxy, context propagation; TLC-enumerated request shapes x one alteration on the real NewRouter over httptest"),
    "roundtimer": ("grow_roundtimer", "core/consensus/timer: round timer policies (increasing / eager double-linear / linear), GetRoundTimerFunc flag selection, per-round deadline memory and doubling, absolute vs relative deadlines, stop / fire-once / leak accounting on real timer objects"),
    "depositflow": ("grow_depositflow", "deposit sign / deposit fetch CLI + obolapi PostPartialDeposits / GetFullDeposit + eth2util/deposit against a scripted API: threshold-backed, group-key-verified deposits only, no mixing of messages, all-or-nothing fetch, whole-file replace per amount, amount and credentials rules"),
    "retry": ("grow_retry", "app/retry + core/retry.go: backoff, duty-deadline context, error classes, Shutdown accounting, wired edges"),
}


def run_family(name, tier, seed):
    mod, what = FAMILIES[name]
    m = importlib.import_module(mod)
    pid = "G-" + name.upper()
    vlib.workdir(pid, fresh=True)
    o = vlib.Outcome(pid, tier, seed)
    m.stage(o, tier, seed)
    rule = getattr(m, "RULE", what)
    rc = vlib.finish(o, "model_checking", rule if isinstance(rule, str) else what, list(getattr(m, "ASSUMPTIONS", [])) + [
        "growth family (not a listed property): " + what])
    return rc


def main(which, tier, seed):
    names = list(FAMILIES) if which == "all" else [which]
    worst = 0
    for n in names:
        if n not in FAMILIES:
            log("unknown growth family %s (have: %s)" % (n, ", ".join(FAMILIES)))
            return 2
        t0 = time.time()
        try:
            rc = run_family(n, tier, seed)
        except vlib.Infra as e:
            log("INFRA-ERROR growth=%s: %s" % (n, e))
            rc = 2
        log("[grow %s] rc=%d %.0fs" % (n, rc, time.time() - t0))
        worst = max(worst, rc)
    return worst
