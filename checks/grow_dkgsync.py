"""DKGSync - growth family: the step barrier of the key generation ceremony (dkg/sync client + server, and their use in
dkg/dkg.go: startSyncProtocol, nextStepSync, stopSync).

Design spec specs/DKGSync/DKGSync.tla (exhaustive MC + 3 control cfgs that must fail + liveness cfgs), schedules from TLC
simulation of DKGSyncGen (4 cfgs) and from a seeded scenario generator, executed by harness/dkgsync on the REAL
dkg.startSyncProtocol (hook dkg/verif_export_sync.go) over go-libp2p mocknet hosts with one hand-driven Byzantine member,
every recorded trace validated by specs/DKGSync/DKGSyncTrace.tla.

Use from another check:   import grow_dkgsync; grow_dkgsync.stage(o, tier, seed)
Stand-alone:              python3 -c "import sys; sys.path[:0]=['/verif/tools','/verif/checks']; import grow_dkgsync; sys.exit(grow_dkgsync.main('quick', 1))"
"""
import json, os, time
import vlib
from vlib import log

FAMILY = "DKGSync"
PKG = "dkgsync"
HOOK = "dkg/verif_export_sync.go"
TRACE, TCFG = "DKGSyncTrace", "DKGSyncTrace.cfg"
CONTROLS = [("DKGSyncMC_ctl_noauth.cfg", "Safety", "messages that fail validReq are counted (AuthGate=FALSE) -> AuthOnly"),
            ("DKGSyncMC_ctl_offbyone.cfg", "Safety", "AwaitAllAtStep(step-1) -> BarrierSafe"),
            ("DKGSyncMC_ctl_noregress.cfg", "Safety", "updateStep accepts a step regression -> BarrierSafe (faulty peer part)"),
            ("DKGSyncMC_ctl_thirdparty.cfg", "temporal", "NOT a property of the tree: after one member failed every member terminates")]


# ----------------------------------------------------------------------------------------------------------------------
# seeded scenario generator: complete ceremonies (which TLC simulation rarely reaches) and one fault at a chosen point.
# Discipline (same as DKGSyncGen): after every move, every call whose return is due is awaited before the next move.
# ----------------------------------------------------------------------------------------------------------------------
class Sc:
    def __init__(self, r, n, f, frej=False):
        self.r, self.n, self.f = r, n, f
        self.h = [i for i in range(1, n + 1) if i != f]
        self.s = [{"ev": "Cfg", "n": n, "f": f, "frej": frej}]
        self.sid = 0
        self.stream = {}

    def ev(self, e, **kw):
        d = {"ev": e}
        d.update(kw)
        self.s.append(d)

    def calls(self, what, who=None):
        who = list(who if who is not None else self.h)
        self.r.shuffle(who)
        for i in who:
            self.ev(what, i=i)

    def await_(self, who=None):
        for i in sorted(who if who is not None else self.h):
            self.ev("Await", i=i)

    def fopen(self, to):
        self.sid += 1
        self.stream[to] = self.sid
        self.ev("FOpen", s=self.sid, to=to)

    def fmsg(self, to, step, auth="ok", shutdown=False):
        self.ev("FMsg", s=self.stream[to], auth=auth, step=step, shutdown=shutdown)

    def fall(self, step, skip=(), **kw):
        if self.f:
            who = [i for i in self.h if i not in skip]
            self.r.shuffle(who)
            for i in who:
                self.fmsg(i, step, **kw)

    def start(self, fstep=None):
        """everybody starts; the faulty member connects and reports 0 or 1 (then 1)"""
        order = list(self.h)
        self.r.shuffle(order)
        for i in order:
            self.ev("Start", i=i)
            if self.f:
                self.fopen(i)
        if self.f:
            for i in order:
                st = self.r.choice([0, 1]) if fstep is None else fstep
                self.fmsg(i, st)
                if st == 0:
                    self.fmsg(i, 1)
        self.await_()

    def round(self, k, skip=()):
        """everybody goes from step k-1 to k"""
        who = [i for i in self.h if i not in skip]
        self.calls("Next", who)
        self.fall(k, skip)
        self.await_(who)

    def stop(self, k):
        self.calls("Stop")
        self.fall(k)
        self.fall(k, shutdown=True)
        self.await_()


def scenarios(seed, thorough):
    r = vlib.rng(seed, "dkgsync")
    out = []

    def cluster(faulty=True):
        n = r.choice([3, 3, 4])
        f = r.randint(1, n) if faulty else 0
        return Sc(r, n, f)
    reps = 3 if thorough else 1
    for _ in range(reps):
        # complete ceremonies, without and with a (behaving) faulty member's hand-written client
        for faulty in (False, True):
            sc = cluster(faulty)
            sc.start()
            K = r.randint(2, 4)
            for k in range(2, K + 1):
                sc.round(k)
            sc.stop(K + 1)
            out.append(sc.s)
        # staggered rounds: the members reach the barrier one after the other, the driver idling in between -- a barrier
        # that lets the first ones through early shows up in the log before the last one's Next
        for faulty in (False, True):
            sc = cluster(faulty)
            sc.start()
            for k in range(2, 4):
                who = list(sc.h)
                r.shuffle(who)
                for i in who[:-1]:
                    sc.ev("Next", i=i)
                    if sc.f:
                        sc.fmsg(i, k)
                    sc.ev("Yield", ms=25)
                sc.ev("Next", i=who[-1])
                if sc.f:
                    sc.fmsg(who[-1], k)
                sc.await_()
            out.append(sc.s)
        # one fault towards one member t after the ceremony reached step k
        for kind in ("regress", "jump3", "toofar", "auth_mid", "auth_first", "initial2", "frej", "early_shutdown", "reconnect",
                     "disconnect", "silent", "invalid_then_valid", "no_flag"):
            sc = cluster(True)
            if kind == "frej":
                sc = Sc(r, sc.n, sc.f, frej=True)
                sc.calls("Start")
                sc.await_()
                out.append(sc.s)
                continue
            t = r.choice(sc.h)
            others = [i for i in sc.h if i != t]
            if kind in ("auth_first", "initial2", "silent", "invalid_then_valid"):
                sc.calls("Start")
                for i in sc.h:
                    sc.fopen(i)
                for i in others:
                    sc.fmsg(i, 1)
                if kind == "auth_first":
                    sc.fmsg(t, r.choice([0, 1]), auth=r.choice(["sig", "ver"]))
                    sc.await_([t])
                elif kind == "initial2":
                    sc.fmsg(t, r.choice([2, 3, 5]))
                    sc.await_([t])
                elif kind == "invalid_then_valid":
                    sc.fmsg(t, 1, auth=r.choice(["sig", "ver"]))
                    sc.fmsg(t, 1)
                    sc.await_([t])
                out.append(sc.s)
                continue
            sc.start()
            k = r.randint(1, 3)
            for j in range(2, k + 1):
                sc.round(j)
            if kind == "regress":
                sc.fmsg(t, r.randint(0, k - 1))
                sc.await_([t])
                sc.calls("Next", others)
                sc.fall(k + 1, skip=[t])
            elif kind == "jump3":
                sc.fmsg(t, k + 3)
                sc.await_([t])
            elif kind == "toofar":
                sc.fmsg(t, k + 2)
                sc.fmsg(t, k + 3)
                sc.calls("Next")
                sc.fall(k + 1, skip=[t])
                sc.await_([t])
            elif kind == "auth_mid":
                sc.fmsg(t, k, auth=r.choice(["sig", "ver"]), shutdown=r.random() < 0.3)
                sc.calls("Next", [t])
                sc.await_([t])
            elif kind == "early_shutdown":
                sc.fmsg(t, k, shutdown=True)
                sc.fopen(t)
                sc.fmsg(t, k)
                sc.round(k + 1)
                sc.calls("Stop")
                sc.fall(k + 2)
                sc.fall(k + 2, skip=[t], shutdown=True)
                sc.await_()
            elif kind == "no_flag":
                # the faulty member never sends its shutdown flag to t: t must not complete, the others do
                sc.round(k + 1)
                sc.calls("Stop")
                sc.fall(k + 2)
                sc.fall(k + 2, skip=[t], shutdown=True)
                sc.await_(others)
            elif kind == "reconnect":
                sc.ev("FClose", s=sc.stream[t])
                del sc.stream[t]
                sc.fopen(t)
                sc.fmsg(t, k)
                sc.round(k + 1)
                sc.stop(k + 2)
            elif kind == "disconnect":
                sc.ev("FClose", s=sc.stream[t])
                del sc.stream[t]
                sc.calls("Next")
                sc.fall(k + 1, skip=[t])
            out.append(sc.s)
        # an honest member crashes after everybody passed barrier k: the others wait at the next barrier (until Cancel)
        sc = cluster(r.random() < 0.5)
        sc.start()
        sc.round(2)
        c = r.choice(sc.h)
        sc.ev("Crash", i=c)
        sc.calls("Next", [i for i in sc.h if i != c])
        sc.fall(3)
        out.append(sc.s)
    return out


# ----------------------------------------------------------------------------------------------------------------------
def mutators():
    def first(t, pred):
        for i, e in enumerate(t):
            if pred(e):
                return i
        return None

    def early_pass(t):
        # a Passed(ok) moved in front of the last peer's Next of that round: the barrier let a member through too early
        nx = [i for i, e in enumerate(t) if e["ev"] == "Next"]
        for i, e in enumerate(t):
            if e["ev"] == "Passed" and e["ok"]:
                before = [k for k in nx if k < i]
                rnd = [k for k in before if not any(t[x]["ev"] == "Passed" and t[x]["ok"] for x in range(k, i))]
                if len(rnd) >= 2 and t[0]["f"] == 0:
                    ev = t.pop(i)
                    t.insert(rnd[-1], ev)
                    return t
        return None

    def answer_flipped(t):
        i = first(t, lambda e: e["ev"] == "FResp" and e.get("resp") in ("sig", "ver", "step"))
        if i is None:
            return None
        t[i]["resp"] = "ok"
        return t

    def regress_accepted(t):
        i = first(t, lambda e: e["ev"] == "FMsg" and e["auth"] == "ok" and e["step"] >= 2 and not e["shutdown"])
        if i is None or t[i + 1]["ev"] != "FResp" or t[i + 1]["resp"] != "ok":
            return None
        return t[:i + 2] + [dict(t[i], step=0), dict(t[i + 1])]

    def failure_without_cause(t):
        if t[0]["f"] != 0:
            return None
        i = first(t, lambda e: e["ev"] == "Passed" and e["ok"])
        if i is None:
            return None
        t[i]["ok"], t[i]["err"] = False, "step"
        return t[:i + 1]

    def started_without_faulty_peer(t):
        # the faulty member's first valid message removed: a member that returned from startSyncProtocol never saw it
        if t[0]["f"] == 0:
            return None
        i = first(t, lambda e: e["ev"] == "Started" and e["ok"])
        if i is None:
            return None
        who = t[i]["i"]
        keep = [e for k, e in enumerate(t) if not (k < i and e["ev"] in ("FMsg", "FOpen") and e.get("to") == who)]
        return keep[:keep.index(t[i]) + 1]

    def stopped_without_flag(t):
        # a member completes the shutdown although a peer never called Stop
        i = first(t, lambda e: e["ev"] == "Stopped" and e["ok"])
        if i is None or t[0]["f"] != 0:
            return None
        other = [e["i"] for e in t[:i] if e["ev"] == "Stop" and e["i"] != t[i]["i"]]
        if not other:
            return None
        keep = [e for k, e in enumerate(t) if not (k < i and e["ev"] == "Stop" and e["i"] == other[0])]
        return keep[:keep.index(t[i]) + 1]
    return [("a member passed the barrier before the last peer advanced", early_pass),
            ("refusing answer of the server turned into ok", answer_flipped),
            ("a step regression answered with ok", regress_accepted),
            ("a member failed without any cause", failure_without_cause),
            ("startSyncProtocol returned without the faulty peer ever authenticating", started_without_faulty_peer),
            ("shutdown completed although a peer never reached the shutdown barrier", stopped_without_flag)]


# ----------------------------------------------------------------------------------------------------------------------
def design_check(o, thorough):
    """Exhaustive configurations, liveness configurations and the controls, run concurrently (scratch dirs are made first:
    vlib.scratch is not thread-safe)."""
    from concurrent.futures import ThreadPoolExecutor
    pid = o.pid
    main_cfg = "DKGSyncMC.cfg" if thorough else "DKGSyncMC_quick.cfg"
    ok_cfgs = [main_cfg, "DKGSyncMC_crash.cfg"] + (["DKGSyncMC_liveerr.cfg", "DKGSyncMC_live.cfg"] if thorough else ["DKGSyncMC_liveerr_quick.cfg"])
    jobs = [(c, None, None) for c in ok_cfgs] + [(c, want, what) for c, want, what in CONTROLS]
    dirs = [vlib.scratch(pid, FAMILY) for _ in jobs]
    half = max(2, vlib.NCPU // 2)

    def run(k):
        c = jobs[k][0]
        return vlib.tlc(pid, FAMILY, "DKGSyncMC", c, timeout=1500, sdir=dirs[k], workers=half if c == main_cfg else 4 if "live" in c else 2)
    with ThreadPoolExecutor(max_workers=len(jobs)) as ex:
        res = list(ex.map(run, range(len(jobs))))
    for (c, want, what), r in zip(jobs, res):
        if want is None:
            vlib.require_mc_ok(r, c)
            o.add_mc(c, r)
            continue
        got = r.violation
        if got is None and "Temporal property" in r.out and "was violated" in r.out:
            got = "temporal"
        if got != want:
            raise vlib.Infra("DKGSync design-spec control failed (%s must violate %s): %s" % (c, want, r.summary()))
        o.selftests.append({"control": "DKGSync spec variant: " + what, "rejected_as_required": True})


def stage(o, tier, seed, mc=True):
    """Run the DKGSync family as an extra stage of an existing check (Outcome `o` collects coverage and violations).
    mc=False (or env GROW_SKIP_MC=1) skips the design check: for mutation experiments on the implementation only."""
    t0 = time.time()
    if not os.path.exists(os.path.join(vlib.REPO, HOOK)):
        raise vlib.Infra("DKGSync needs the build-tag hook %s in %s (see /verif/pending_hooks/%s)" % (HOOK, vlib.REPO, HOOK))
    thorough = tier == "thorough"
    if mc and not os.environ.get("GROW_SKIP_MC"):
        design_check(o, thorough)
    sch = []
    for cfg, num in (("DKGSyncGen.cfg", 40), ("DKGSyncGen_late.cfg", 60), ("DKGSyncGen_crash.cfg", 25), ("DKGSyncGen_honest.cfg", 15)):
        s, _ = vlib.gen_schedules(o.pid, FAMILY, "DKGSyncGen", cfg, num=num * (4 if thorough else 1), depth=400, seed=seed,
                                  limit=num * (4 if thorough else 1))
        sch += s
    rnd = scenarios(seed, thorough)
    vlib.conformance(o, FAMILY, TRACE, TCFG, PKG, sch, tag="dkgsync_tlcgen", chunk=40, exec_timeout=600, tv_timeout=600)
    vlib.conformance(o, FAMILY, TRACE, TCFG, PKG, rnd, tag="dkgsync_scen", chunk=40, exec_timeout=600, tv_timeout=600)
    tr = []
    for tag in ("dkgsync_scen", "dkgsync_tlcgen"):
        tr += vlib.split_traces(vlib.read_ndjson(os.path.join(vlib.workdir(o.pid), "trace_%s.ndjson" % tag)))
    if not o.violations:
        vlib.binding_selftest(o, FAMILY, TRACE, TCFG, tr, mutators())
    cnt = {}
    for t in tr:
        for e in t:
            k = e["ev"] + ("" if "ok" not in e else (":ok" if e["ok"] else ":" + str(e.get("err"))))
            if e["ev"] == "FResp":
                k = "FResp:" + str(e.get("resp"))
            cnt[k] = cnt.get(k, 0) + 1
    o.extra["dkgsync_events"] = cnt
    log("[%s] DKGSync stage: %d runs, %.0fs; returns ok/err: started %d/%d passed %d/%d stopped %d/%d; refused messages %d"
        % (o.pid, len(tr), time.time() - t0, cnt.get("Started:ok", 0), sum(v for k, v in cnt.items() if k.startswith("Started:") and k != "Started:ok"),
           cnt.get("Passed:ok", 0), sum(v for k, v in cnt.items() if k.startswith("Passed:") and k != "Passed:ok"),
           cnt.get("Stopped:ok", 0), sum(v for k, v in cnt.items() if k.startswith("Stopped:") and k != "Stopped:ok"),
           sum(v for k, v in cnt.items() if k in ("FResp:sig", "FResp:ver", "FResp:step"))))


RULE = ("DKGSync: real dkg.startSyncProtocol (sync server, clients, monitor, step barrier, shutdown) for every honest member on "
        "mocknet hosts, n = 3, 4, one hand-driven Byzantine member (wrong hash signature / version, step regression, jumps, "
        "early shutdown flag, disconnect, refusing server), crashes; schedules from TLC simulation of DKGSyncGen and seeded "
        "scenarios; every run validated by DKGSyncTrace.tla")
ASSUMPTIONS = ["DKGSync: the honest clients' periodic messages are not observed: the trace spec lets a server know any step value a peer "
               "had since the last observation (canonical smallest choice)",
               "DKGSync: which error a failing member reports is only required to be one of the causes present at that member",
               "DKGSync: go-libp2p mocknet stands in for the network; sync period 10 ms; waits are positive with a 10 s hang limit"]


def main(tier="quick", seed=1, pid="GDKGSYNC"):
    """Stand-alone driver (no evidence file is written: the family is registered as a stage of C11 / C13)."""
    vlib.workdir(pid, fresh=True)
    o = vlib.Outcome(pid, tier, seed)
    try:
        stage(o, tier, int(seed))
    except vlib.Infra as e:
        log("INFRA: %s" % e)
        return 2
    for fid, txt in o.known:
        log("KNOWN-FINDING: %s %s" % (fid, txt))
    for path, txt in o.violations:
        log("VIOLATION property=%s replay=%s" % (pid, path))
        log("  " + txt)
    if o.violations:
        return 1
    log("[%s] OK tier=%s seed=%s: %d MC states, %d traces validated, %.0fs" % (pid, tier, seed, o.states, o.traces, time.time() - o.t0))
    return 0


def replay(path):
    rp = json.load(open(path))
    o = vlib.Outcome("GDKGSYNC", "quick", 0)
    vlib.conformance(o, FAMILY, rp["trace_module"], rp["trace_cfg"], PKG, [rp["schedule"]], tag="replay")
    for p, t in o.violations:
        log("replay: " + t)
    return 1 if o.violations else 0
