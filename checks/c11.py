"""C11 - a key generation ceremony yields one consistent threshold key per validator (dkg/frost.go runFrostParallel /
round1 / round2 / makeShares, dkg/frostp2p.go, kryptology pkg/dkg/frost, cluster.Definition.NodeIdx; thorough tier:
dkg.Run with aggLockHashSig / aggDepositData).

specs/Frost/Frost.tla transcribes the two FROST rounds and the transport contract over GF(p) (everything in the
exponent).  TLC (a) checks the property on the spec for every polynomial of a small field / every delivery order and
refutes it for the control variants listed in CONTROLS -- among them 'a node whose send failed runs its round-1 send step again and
proceeds with a participant's cast missing' --, and checks it with FAILING SENDS in the environment (Fault: the node gives up or
carries on; the nodes that finish agree and nobody enters round 2 without every participant's cast), (b) generates ceremony schedules; the executor runs every schedule on n goroutines
executing the real runFrostParallel and logs relations computed with real kryptology / tbls calls; TLC validates every
trace against the spec (the spec demands the model's value of each relation)."""
import json, os
import vlib
from vlib import log

PID = "C11"
FAMILY = "Frost"
PKG = "c11"
RULE = ("schedules = one ceremony each: (n in 3..8, t in 2..n, V in 1..4) + the environment's moves Start(i) / deliver "
        "round-1 cast batch i->j / round-1 share batch i->j / round-2 cast batch i->j / answer node j's transport Round1 "
        "(barrier) / Round2 call, in every order the transport contract allows; generated (a) by TLC simulation of FrostGen "
        "(n<=5 quick, n<=6 thorough), (b) by a seeded generator of structured orders (lock-step, reversed, straggler, "
        "sprinter, eager, random; n up to 8, t up to n, V up to 4), (c) mode p2p: the same over the REAL frostP2P on "
        "loopback libp2p hosts with real reliable broadcast (start order and hand-back order scheduled), (d) mode cb: the REAL "
        "frostP2P + real bcast component on every node over a scheduled wire: every cast handed to the real bcast server handler "
        "/ every share stream released to the real stream handler when the schedule says, plus RE-deliveries of batches already "
        "received (TLC-generated with up to 4 re-deliveries, seeded, and the scripted shapes 'fast peer's round-2 cast, then its "
        "round-1 cast again, while a slow peer's cast is outstanding' in both rounds for n=4,t=3,V=2), (e) mode cb with FAILING SENDS: "
        "one send of a node's round-1 / round-2 send step (k-th direct share stream: refused at open, or written and then reported "
        "failed; k-th signature request / k-th cast message of its reliable broadcast) fails once (or twice in a row) with a libp2p "
        "stream-reset / resource-scope-closed error (the class p2p.IsRelayError accepts) or a plain error, in ceremonies where for "
        "every node one peer's round-1 cast is held back until all its other round-1 messages were consumed (scripted, seeded, and "
        "TLC-generated with Fault moves); every cb event is logged with the stimulated node quiescent; executed on n "
        "goroutines running the unmodified runFrostParallel; every ceremony ends with relations over all t-subsets (n<=6) or "
        "a seeded sample (n>6) and some (t-1)-subsets, computed with real tbls calls; distinct = distinct recorded traces")
ASSUMPTIONS = [
    "algebra abstraction: keys, shares and signatures live in the exponent over GF(p) (Pub(x)=x, Sign(sk,h)=sk*h); the executor's "
    "oracle is the RELATION (equal / verifies / recovers), the model polynomials in a trace are a witness chosen by the schedule, "
    "the real nodes draw their own 255-bit ones; the Schnorr proof of knowledge in the round-1 cast and the 'commitment is "
    "not the identity' test are not modelled (an honest node's proof verifies)",
    "mode mem: the in-memory transport of the executor follows frostP2P's contract (per (source,target) batches routed by "
    "msgKey.TargetID, own cast self-delivered, a call is answered only when the schedule says so and the model's barrier holds); "
    "mode p2p: the real frostP2P over loopback TCP, deliveries are the network's, the model delivers eagerly (sound: results do "
    "not depend on the delivery order, checked by FrostMC with free order)",
    "mode cb: casts are captured below the real bcast client (in-memory transport through the hooks VerifUseTransport / "
    "VerifHandleSigRequest / VerifHandleMessage) and share batches are real loopback streams parked in front of the real handler; a "
    "re-delivery is the identical, validly signed message handed to the same handler again (the bcast server does not drop those); the "
    "spec's Redeliver changes nothing, i.e. a re-delivered message must never change what a node leaves a round with",
    "a 'fewer than t shares do not sign' relation is only demanded when the witness's joint polynomial has degree exactly t-1; "
    "which node's view a subset is evaluated in is the first listed member's",
    "failing sends (mode cb): the injected error is returned by the host's NewStream / the stream's Write (direct share sends of the "
    "real frostP2P.Round1 through p2p.Send) or by the in-memory transport functions of the real bcast client; one fault per node and "
    "round; a node whose send failed may give up (the trace then ends: 'the ceremony aborts') or carry on -- the spec allows both and "
    "demands in either case that a node enters round 2 only with the round-1 cast of every participant (observed: the keys of the maps "
    "the real transport Round1 returned) and that the finished nodes hold one consistent key; nodes that finish AFTER another node "
    "gave up are covered by the design check only (FinAgreement / FinShareMatches / FinReconstructs over every subset of finished "
    "nodes), not executed; quiescence of a node is read off the Go runtime's goroutine dump (parked in the select of its transport call)",
    "all nodes are honest and apart from the injected failing sends the transport is reliable (C13 covers the broadcast layer against faulty members); design check "
    "exhaustive (thorough tier) over all polynomials for p=7,n=3,t=2,V=1 and over all polynomials of two nodes (two of the third) for "
    "p=5,n=3,t=3,V=1 in one canonical delivery order, and over ALL delivery orders for n=3, t in {2,3}, V in {1,2} with two polynomials "
    "per node; n=4,5 with two polynomials per node in two canonical orders; quick tier: p=5,n=3,t=2 (two nodes all polynomials) and all "
    "orders for V=1",
    "thorough tier only: two full in-process dkg.Run ceremonies over a local relay as dkg_test.go runs them (lock VerifyHashes / "
    "VerifySignatures, deposit data and keystores checked with real tbls calls; logged as a Full event the spec demands all-true)",
]
CONTROLS = [("FrostMC_ctl_pskey0.cfg", "KeyedByShareIdx", "public shares keyed by SourceID-1 (share index = node index)"),
            ("FrostMC_ctl_valperm.cfg", "OwnShareMatches", "validator v handed the public shares of validator v+1"),
            ("FrostMC_ctl_tminus1.cfg", "ThresholdIsT", "FROST library given threshold t-1"),
            ("FrostMC_ctl_nobarrier.cfg", "BarrierComplete", "transport Round1 answered one cast early (barrier dropped)"),
            ("FrostMC_ctl_lastid.cfg", "CountsDistinct", "cast de-duplication by 'last accepted id per peer': a re-delivered cast is counted again"),
            ("FrostMC_ctl_lastid_barrier.cfg", "RedeliveryNoEffect", "the same: a re-delivery changes a node's state"),
            ("FrostMC_ctl_lastid_agree.cfg", "Agreement", "the same, end to end: a node leaves round 1 without a peer's cast and derives another group key"),
            ("FrostMC_ctl_mixvals.cfg", "GroupKeyIsSum", "getRound2Inputs ignores ValIdx (msgKey collision)"),
            ("FrostMC_ctl_retrydup.cfg", "UsedAllCasts", "round-1 send step run again after a failed send, own cast self-delivered twice: "
             "the node proceeds with a participant's cast missing"),
            ("FrostMC_ctl_retrydup_barrier.cfg", "BarrierComplete", "the same: the node leaves round 1 without a peer's cast"),
            ("FrostMC_ctl_retrydup_agree.cfg", "FinAgreement", "the same, end to end: the finished nodes hold different group keys")]
THOROUGH_ONLY_CONTROLS = ("FrostMC_ctl_lastid_agree.cfg", "FrostMC_ctl_retrydup_barrier.cfg", "FrostMC_ctl_retrydup_agree.cfg")
PRIMES = [11, 13, 17, 31]


# ----------------------------------------------------------------------------------------------
# seeded schedule generator: a simulator of the transport contract's enabling conditions
# ----------------------------------------------------------------------------------------------
class Sim:
    def __init__(self, n):
        self.n = n
        self.phase = {i: "idle" for i in range(1, n + 1)}
        self.g1c = {i: set() for i in range(1, n + 1)}
        self.g1p = {i: set() for i in range(1, n + 1)}
        self.g2 = {i: set() for i in range(1, n + 1)}

    def enabled(self):
        N = range(1, self.n + 1)
        mv = []
        for i in N:
            if self.phase[i] == "idle":
                mv.append(("Start", i, 0))
        for i in N:
            for j in N:
                if i == j:
                    continue
                if self.phase[i] != "idle" and i not in self.g1c[j]:
                    mv.append(("D1C", i, j))
                if self.phase[i] != "idle" and i not in self.g1p[j]:
                    mv.append(("D1P", i, j))
                if self.phase[i] in ("r2", "done") and i not in self.g2[j]:
                    mv.append(("D2", i, j))
        for j in N:
            if self.phase[j] == "r1" and len(self.g1c[j]) == self.n and len(self.g1p[j]) == self.n - 1:
                mv.append(("Ret1", 0, j))
            if self.phase[j] == "r2" and len(self.g2[j]) == self.n:
                mv.append(("Ret2", 0, j))
        return mv

    def apply(self, m):
        k, i, j = m
        if k == "Start":
            self.phase[i] = "r1"
            self.g1c[i].add(i)
        elif k == "D1C":
            self.g1c[j].add(i)
        elif k == "D1P":
            self.g1p[j].add(i)
        elif k == "D2":
            self.g2[j].add(i)
        elif k == "Ret1":
            self.phase[j] = "r2"
            self.g2[j].add(j)
        else:
            self.phase[j] = "done"


STAGE = {"Start": 0, "D1C": 1, "D1P": 1, "Ret1": 2, "D2": 3, "Ret2": 4}


def ceremony(r, n, t, nv, kind, seed, mode="mem", rd=0.0, faults=()):
    """one ceremony; rd = probability of a re-delivery (of a batch already delivered) after each move; faults = failing
    sends (mode cb), each armed right before the step that runs the send step it hits"""
    p = r.choice([q for q in PRIMES if q > n])
    sim = Sim(n)
    steps = [{"ev": "Cfg", "n": n, "t": t, "V": nv, "p": p, "mode": mode, "seed": seed, "kind": kind}]
    delivered = []
    special = r.randint(1, n)
    late = {x: r.choice([y for y in range(1, n + 1) if y != x]) for x in range(1, n + 1)} if kind == "heldback" else {}
    perm = list(range(1, n + 1))
    r.shuffle(perm)
    rank = {x: k for k, x in enumerate(perm)}
    while True:
        en = sim.enabled()
        if not en:
            break
        tgt = lambda m: m[1] if m[0] == "Start" else m[2]        # the node the move makes progress for
        if kind == "random":
            m = r.choice(en)
        elif kind == "lockstep":      # stage by stage, random order inside a stage
            s = min(STAGE[x[0]] for x in en)
            m = r.choice([x for x in en if STAGE[x[0]] == s])
        elif kind == "reverse":       # stage by stage, highest node first
            s = min(STAGE[x[0]] for x in en)
            m = max([x for x in en if STAGE[x[0]] == s], key=lambda x: (tgt(x), x[1]))
        elif kind == "eager":         # a node is answered the moment it may be; deliveries in a fixed random node order
            rets = [x for x in en if x[0] in ("Ret1", "Ret2")]
            m = r.choice(rets) if rets else min(en, key=lambda x: (rank[tgt(x)], STAGE[x[0]], x[1]))
        elif kind == "straggler":     # everything that does not serve the straggler first
            rest = [x for x in en if tgt(x) != special]
            m = r.choice(rest) if rest else r.choice(en)
        elif kind == "sprinter":      # whatever serves the sprinter (its own progress, starts of the others) first
            mine = [x for x in en if tgt(x) == special or x[0] in ("Start", "Ret1")]
            mine_first = [x for x in mine if tgt(x) == special]
            m = r.choice(mine_first) if mine_first else (r.choice(mine) if mine else r.choice(en))
        elif kind == "heldback":      # every node consumes all its other round-1 messages before ONE peer's cast reaches it
            held = [x for x in en if x[0] == "D1C" and late[x[2]] == x[1]]
            r1 = [x for x in en if STAGE[x[0]] <= 1 and x not in held]
            m = r.choice(r1) if r1 else (r.choice(held) if held else r.choice(en))
        else:
            raise ValueError(kind)
        sim.apply(m)
        k, i, j = m
        for f in faults:
            if (k == "Start" and f["r"] == 1 and f["i"] == i) or (k == "Ret1" and f["r"] == 2 and f["i"] == j):
                steps.append(dict(f, ev="Fault"))
        if k == "Start":
            steps.append({"ev": "Start", "i": i, "c": [[r.randrange(p) for _ in range(t)] for _ in range(nv)]})
        elif k in ("Ret1", "Ret2"):
            steps.append({"ev": k, "j": j})
        else:
            steps.append({"ev": k, "i": i, "j": j})
            delivered.append({"D1C": "c1", "D1P": "p1", "D2": "c2"}[k] + "/%d/%d" % (i, j))
        while delivered and r.random() < rd:
            kk, a, b = r.choice(delivered[-4:] if r.random() < 0.5 else delivered).split("/")
            steps.append({"ev": "RD", "i": int(a), "j": int(b), "k": kk})
    return steps


def scripted(n, t, nv, seed, p, moves, tag):
    """a ceremony given as an explicit list of moves; every move must be enabled in the transport contract"""
    r = vlib.rng(seed, "c11script" + tag)
    sim = Sim(n)
    steps = [{"ev": "Cfg", "n": n, "t": t, "V": nv, "p": p, "mode": "cb", "seed": seed, "kind": tag}]
    for m in moves:
        if m[0] == "RD":
            steps.append({"ev": "RD", "i": m[1], "j": m[2], "k": m[3]})
            continue
        if m[0] == "Fault":
            steps.append(dict(m[1], ev="Fault"))
            continue
        if m[0] == "Pause":
            steps.append({"ev": "Pause", "ms": m[1]})
            continue
        if m not in sim.enabled():
            raise vlib.Infra("scripted schedule %s: move %s is not enabled" % (tag, m))
        sim.apply(m)
        k, i, j = m
        if k == "Start":
            steps.append({"ev": "Start", "i": i, "c": [[r.randrange(p) for _ in range(t)] for _ in range(nv)]})
        elif k in ("Ret1", "Ret2"):
            steps.append({"ev": k, "j": j})
        else:
            steps.append({"ev": k, "i": i, "j": j})
    if sim.enabled() or any(ph != "done" for ph in sim.phase.values()):
        raise vlib.Infra("scripted schedule %s does not complete the ceremony" % tag)
    return steps


def shape_round1(n, t, nv, seed, X, P, Q):
    """X is still in round 1 (the cast of the slow Q outstanding); the fast P has finished round 1 and its round-2 cast
    reaches X; then P's round-1 cast is delivered to X AGAIN; only then Q's round-1 cast arrives."""
    N = list(range(1, n + 1))
    mv = [("Start", i, 0) for i in N]
    mv += [("D1C", i, j) for i in N for j in N if i != j and (i, j) != (Q, X)]
    mv += [("D1P", i, j) for i in N for j in N if i != j]
    mv += [("Ret1", 0, P), ("D2", P, X), ("RD", P, X, "c1"), ("D1C", Q, X)]
    mv += [("Ret1", 0, j) for j in N if j != P]
    mv += [("D2", i, j) for i in N for j in N if i != j and (i, j) != (P, X)]
    mv += [("Ret2", 0, j) for j in N]
    return scripted(n, t, nv, seed, 11, mv, "shape1_%d%d%d" % (X, P, Q))


def shape_round2(n, t, nv, seed, X, P, Q):
    """the same one round later: X waits for Q's round-2 cast; P's round-1 cast, then P's round-2 cast reach X again."""
    N = list(range(1, n + 1))
    mv = [("Start", i, 0) for i in N]
    mv += [("D1C", i, j) for i in N for j in N if i != j]
    mv += [("D1P", i, j) for i in N for j in N if i != j]
    mv += [("Ret1", 0, j) for j in N]
    mv += [("D2", i, j) for i in N for j in N if i != j and (i, j) != (Q, X)]
    mv += [("RD", P, X, "c1"), ("RD", P, X, "c2"), ("D2", Q, X)]
    mv += [("Ret2", 0, j) for j in N]
    return scripted(n, t, nv, seed, 11, mv, "shape2_%d%d%d" % (X, P, Q))


def shape_slow(n, t, nv, seed, X, Q, ms, rnd):
    """a SLOW peer: everything else has arrived, X sits in its round-`rnd` receive step and Q's cast of that round only comes
    `ms` milliseconds (real time: mode cb runs the real frostP2P on the wall clock) later.  Time is not part of the ceremony's
    contract: however long a peer takes, a node that finishes finishes with the casts of ALL its peers."""
    N = list(range(1, n + 1))
    mv = [("Start", i, 0) for i in N]
    if rnd == 1:
        mv += [("D1C", i, j) for i in N for j in N if i != j and (i, j) != (Q, X)]
        mv += [("D1P", i, j) for i in N for j in N if i != j]
        mv += [("Pause", ms), ("D1C", Q, X)]
    else:
        mv += [("D1C", i, j) for i in N for j in N if i != j]
        mv += [("D1P", i, j) for i in N for j in N if i != j]
    mv += [("Ret1", 0, j) for j in N]
    if rnd == 2:
        mv += [("D2", i, j) for i in N for j in N if i != j and (i, j) != (Q, X)]
        mv += [("Pause", ms), ("D2", Q, X)]
    else:
        mv += [("D2", i, j) for i in N for j in N if i != j]
    mv += [("Ret2", 0, j) for j in N]
    return scripted(n, t, nv, seed, 11, mv, "slow%d_%d%d_%d" % (rnd, X, Q, ms))


def draw_fault(r, n, i=None, rnd=None, what=None, err=None):
    """one failing send: node, round, which send (what, k-th), where, the error, how often in a row"""
    what = what or r.choice(["p2p", "p2p", "sig", "msg"])
    rnd = 1 if what == "p2p" else (rnd or r.choice([1, 2]))
    return {"i": i or r.randint(1, n), "r": rnd, "what": what, "k": r.randint(1, n - 1),
            "where": r.choice(["open", "write"]) if what == "p2p" else "open",
            "err": err or r.choice(["reset", "reset", "scope", "plain"]), "times": 1}


def shape_fault(n, t, nv, seed, X, L, f):
    """a send of X's round-1 send step fails; X then consumes every round-1 message but the cast of L, which arrives last"""
    N = list(range(1, n + 1))
    mv = [("Start", i, 0) for i in N if i != X] + [("Fault", dict(f, i=X, r=1)), ("Start", X, 0)]
    mv += [("D1C", i, j) for i in N for j in N if i != j and (i, j) != (L, X)]
    mv += [("D1P", i, j) for i in N for j in N if i != j]
    mv += [("D1C", L, X)] + [("Ret1", 0, j) for j in N]
    mv += [("D2", i, j) for i in N for j in N if i != j] + [("Ret2", 0, j) for j in N]
    return scripted(n, t, nv, seed, 11, mv, "fault_%d%d_%s_%s" % (X, L, f["what"], f["err"]))


def fault_schedules(seed, thorough, gen):
    """mode cb with failing sends: aimed at 'the node whose send failed tries again and loses track of what it holds'"""
    r = vlib.rng(seed, "c11fault")
    X = r.randint(1, 4)
    out = [shape_fault(3, 2, 1, seed, 1, 3, draw_fault(r, 3, what="p2p", err="reset")),
           shape_fault(4, 3, 2, seed, X, r.choice([y for y in range(1, 5) if y != X]),
                       draw_fault(r, 4, what="p2p", err=r.choice(["reset", "scope"])))]
    plan = [("p2p", 1, "scope"), ("p2p", 1, "plain"), ("sig", 1, "reset"), ("msg", 1, "scope"), ("sig", 2, "reset"),
            ("msg", 2, "reset"), ("msg", 2, "plain"), ("p2p", 1, "reset")]
    if thorough:
        plan = [(w, rd, e) for w in ("p2p", "sig", "msg") for rd in (1, 2) for e in ("reset", "scope", "plain") if (w, rd) != ("p2p", 2)] * 3
    for k, (what, rnd, err) in enumerate(plan):
        n = r.randint(3, 6 if thorough else 5)
        f = draw_fault(r, n, rnd=rnd, what=what, err=err)
        if k == len(plan) - 1:
            f["times"] = 2            # the send fails again when it is tried again
        fs = [f]
        if thorough and k % 3 == 2:   # a second node is hit too
            fs.append(draw_fault(r, n, i=r.choice([x for x in range(1, n + 1) if x != f["i"]])))
        out.append(ceremony(r, n, r.choice([2, n, r.randint(2, n)]), r.choice([1, 2]), "heldback", seed, mode="cb",
                            rd=r.choice([0.0, 0.1, 0.25]), faults=fs))
    # a fault that is armed but never strikes (the node opens only n-1 streams): the ceremony completes
    f = draw_fault(r, 3, what="p2p", err="reset")
    f["k"] = 3
    out.append(ceremony(r, 3, 2, 2, "heldback", seed, mode="cb", faults=[f]))
    for s in from_tlc(gen, seed, mode="cb"):       # TLC chose node and round (Fault moves); the concrete send is drawn here
        n = s[0]["n"]
        out.append([s[0]] + [dict(draw_fault(r, n, i=e["i"], rnd=e["r"], what=(None if e["r"] == 1 else r.choice(["sig", "msg"]))), ev="Fault")
                             if e.get("ev") == "Fault" else e for e in s[1:]])
    return out


def cb_schedules(seed, thorough):
    """mode cb: the REAL frostP2P on every node, deliveries and RE-deliveries of casts / share batches scheduled"""
    r = vlib.rng(seed, "c11cb")
    out = [shape_round1(4, 3, 2, seed, 1, 2, 3), shape_round2(4, 3, 2, seed, 1, 2, 3)]
    trip = [(2, 3, 4), (4, 1, 2), (3, 4, 1), (1, 3, 2), (2, 1, 4), (4, 2, 3)]
    for X, P, Q in (trip if thorough else [r.choice(trip)]):
        out.append(shape_round1(4, 3, 2, seed, X, P, Q))
        out.append(shape_round2(4, 3, 2, seed, X, P, Q))
    out.append(shape_round1(3, 2, 1, seed, 3, 1, 2))
    # slow peers (real seconds): one in the quick tier, the usual time-out magnitudes in the thorough tier
    X, Q = r.sample([1, 2, 3, 4], 2)
    out.append(shape_slow(4, 3, 2, seed, X, Q, 10500, 2))
    if thorough:
        out += [shape_slow(4, 3, 1, seed, Q, X, 10500, 1), shape_slow(3, 2, 2, seed, 1, 3, 31000, 2), shape_slow(4, 3, 1, seed, X, Q, 61000, 2)]
    for k in range(60 if thorough else 8):
        n = r.randint(3, 6 if thorough else 5)
        out.append(ceremony(r, n, r.choice([2, n, r.randint(2, n)]), r.choice([1, 2, 3]), KINDS[k % len(KINDS)], seed,
                            mode="cb", rd=r.choice([0.1, 0.25, 0.4])))
    return out


KINDS = ["random", "lockstep", "reverse", "eager", "straggler", "sprinter"]


def random_schedules(seed, count, big):
    """count ceremonies over the corners of (n, t, V); `big` of them with n in 7..8."""
    r = vlib.rng(seed, "c11rnd")
    out = []
    for k in range(count):
        if k < big:
            n = r.choice([7, 8])
            t = r.choice([2, n // 2 + 1, n - 1, n])
            nv = r.choice([1, 2, 4])
        else:
            n = r.randint(3, 6)
            t = r.choice([2, n, r.randint(2, n), (2 * n + 2) // 3])     # minimum, full, any, the usual BFT threshold
            nv = r.choice([1, 1, 2, 3, 4])
        out.append(ceremony(r, n, t, nv, KINDS[k % len(KINDS)], seed))
    return out


def corner_schedules(seed):
    """every (n, t) pair of the quantifier once (n in 3..8, t in 2..n) is too much for the quick tier: the extremes"""
    r = vlib.rng(seed, "c11corner")
    return [ceremony(r, 8, 8, 4, "lockstep", seed), ceremony(r, 8, 2, 1, "random", seed),
            ceremony(r, 3, 2, 4, "sprinter", seed), ceremony(r, 3, 3, 1, "straggler", seed)]


def p2p_schedules(seed, count, nmax):
    r = vlib.rng(seed, "c11p2p")
    out = []
    for k in range(count):
        n = r.randint(3, nmax)
        t = r.choice([2, n, r.randint(2, n)])
        nv = r.choice([1, 2, 3])
        p = r.choice([q for q in PRIMES if q > n])
        steps = [{"ev": "Cfg", "n": n, "t": t, "V": nv, "p": p, "mode": "p2p", "seed": seed + k}]
        for i in r.sample(range(1, n + 1), n):
            steps.append({"ev": "Start", "i": i, "c": [[r.randrange(p) for _ in range(t)] for _ in range(nv)]})
        steps += [{"ev": "Ret1", "j": j} for j in r.sample(range(1, n + 1), n)]
        steps += [{"ev": "Ret2", "j": j} for j in r.sample(range(1, n + 1), n)]
        out.append(steps)
    return out


def from_tlc(scheds, seed, mode="mem"):
    out = []
    for s in scheds:
        cfg = dict(s[0])
        cfg.update({"mode": mode, "seed": seed})
        out.append([cfg] + list(s[1:]))
    return out


def full_schedules(seed, count):
    r = vlib.rng(seed, "c11full")
    return [[{"ev": "Cfg", "n": n, "t": t, "V": nv, "p": 11, "mode": "full", "seed": seed + k,
              "c": [[[r.randrange(11) for _ in range(t)] for _ in range(nv)] for _ in range(n)]}]
            for k, (n, t, nv) in enumerate([(3, 2, 2), (4, 3, 1)][:count])]


# ----------------------------------------------------------------------------------------------
# binding negative controls
# ----------------------------------------------------------------------------------------------
def mutators(cb=False):
    def find(t, ev):
        for i, e in enumerate(t):
            if e.get("ev") == ev:
                return i, e
        return None, None

    def gk_differs(t):
        _, e = find(t, "Check")
        if e and t[0].get("mode") != "full":
            e["gkeq"][-1] = False
            return t
        return None

    def own_mismatch(t):
        _, e = find(t, "Check")
        if e:
            e["own"][0][0] = False
            return t
        return None

    def subset_fails(t):
        _, e = find(t, "Check")
        if e and e["subs"]:
            e["subs"][-1]["sig"] = False
            return t
        return None

    def recover_fails(t):
        _, e = find(t, "Check")
        if e and e["subs"]:
            e["subs"][0]["rec"] = False
            return t
        return None

    def below_signs(t):
        _, e = find(t, "Check")
        if not e:
            return None
        # only a control when the witness is generic for that validator
        p, n = t[0]["p"], t[0]["n"]
        for b in e["below"]:
            lead = sum(s["c"][b["v"]][-1] for s in t if s.get("ev") == "Start") % p
            if lead != 0:
                b["sig"] = True
                return t
        return None

    def pskeys_shifted(t):
        _, e = find(t, "Ret2")
        if e:
            e["pskeys"][0] = [k - 1 for k in e["pskeys"][0]]
            return t
        return None

    def early_ret1(t):
        # a node's Round1 call answered before the last round-1 batch reached it (mode mem)
        if t[0].get("mode") != "mem":
            return None
        i, e = find(t, "Ret1")
        if e is None:
            return None
        for k in range(i - 1, 0, -1):
            if t[k].get("ev") in ("D1C", "D1P") and t[k]["j"] == e["j"]:
                t[k], t[i] = t[i], t[k]
                return t
        return None

    def short_commitments(t):
        _, e = find(t, "Start")
        if e:
            e["ncomm"] = [t[0]["t"] - 1]
            return t
        return None

    def wrong_cast_key(t):
        _, e = find(t, "Start")
        if e and t[0]["V"] >= 2:
            e["casts"][1] = [0, e["i"], 0]       # two validators' casts under one key
            return t
        return None

    def check_dropped(t):
        i, e = find(t, "Check")
        if e:
            del t[i]
            return t
        return None
    def rd_refused(t):
        _, e = find(t, "RD")
        if e:
            e["ok"] = False
            return t
        return None

    def rd_before_delivery(t):
        # a "re-delivery" of a batch the node has not received yet is not a re-delivery
        for i, e in enumerate(t):
            if e.get("ev") == "RD":
                first = {"c1": "D1C", "c2": "D2", "p1": "D1P"}[e["k"]]
                for k in range(i):
                    if t[k].get("ev") == first and t[k]["i"] == e["i"] and t[k]["j"] == e["j"]:
                        t.insert(k, t.pop(i))
                        return t
        return None
    def used_lacks_peer(t):
        # the real transport Round1 handed back the casts of n-1 participants
        _, e = find(t, "Ret1")
        if e and e.get("used"):
            e["used"] = e["used"][:-1]
            return t
        return None

    if cb:
        return [("Round1 returned without a participant's cast", used_lacks_peer), ("re-delivery answered with an error", rd_refused), ("re-delivery before the first delivery", rd_before_delivery),
                ("group keys differ between nodes", gk_differs), ("public shares keyed from 0", pskeys_shifted)]
    return [("group keys differ between nodes", gk_differs), ("own secret share does not match its public share", own_mismatch),
            ("a t-subset's aggregate does not verify", subset_fails), ("a t-subset's public shares do not recover the key", recover_fails),
            ("t-1 shares sign", below_signs), ("public shares keyed from 0", pskeys_shifted),
            ("Round1 answered before the barrier", early_ret1), ("t-1 commitments cast", short_commitments),
            ("msgKey collision between validators", wrong_cast_key), ("Check event dropped", check_dropped)]


def fault_mutators():
    """controls on recorded ceremonies that ended with a node giving up after a failed send"""
    def find(t, ev):
        for i, e in enumerate(t):
            if e.get("ev") == ev:
                return i, e
        return None, None

    def abort_without_fault(t):
        i, e = find(t, "Fault")
        if e:
            del t[i]
            return t
        return None

    def abort_of_another_node(t):
        # the node that gives up is not the one whose send failed
        _, f = find(t, "Fault")
        e = t[-2]
        if f and e.get("ok") is False and e.get("ev") in ("Start", "Ret1"):
            f["i"] = f["i"] % t[0]["n"] + 1
            return t
        return None

    def fault_after_the_send(t):
        # a round-1 send cannot fail after the node has left its round-1 send step
        i, f = find(t, "Fault")
        if f and f["r"] == 1:
            for k in range(i + 1, len(t)):
                if t[k].get("ev") == "Start" and t[k]["i"] == f["i"] and t[k].get("ok") is False:
                    t[i], t[k] = t[k], t[i]
                    return t
        return None

    def gave_up_unnoticed(t):
        # the ceremony is reported aborted although the node went on
        e = t[-2]
        if e.get("ok") is False and e.get("ev") == "Start":
            e["ok"] = True
            return t
        return None

    return [("a node gives up without a failed send", abort_without_fault), ("the node that gives up is not the one whose send failed", abort_of_another_node),
            ("send fails after the send step", fault_after_the_send), ("Abort although the node entered round 1", gave_up_unnoticed)]


# ----------------------------------------------------------------------------------------------
def run(tier, seed):
    o = vlib.Outcome(PID, tier, seed)
    thorough = tier == "thorough"
    # stage 0: design check + controls that MUST be violated
    mcs = (["FrostMC.cfg", "FrostMC_t3.cfg", "FrostMC_order.cfg", "FrostMC_redel.cfg", "FrostMC_n4.cfg", "FrostMC_n4e.cfg",
            "FrostMC_n5.cfg", "FrostMC_fault.cfg"] if thorough else ["FrostMC_quick.cfg", "FrostMC_order_quick.cfg", "FrostMC_redel_quick.cfg",
                                                                 "FrostMC_fault_quick.cfg"])
    for cfg in mcs:
        r = vlib.tlc(PID, FAMILY, "FrostMC", cfg, timeout=1500)
        vlib.require_mc_ok(r, cfg)
        o.add_mc(cfg[:-4], r)
    for cfg, inv, what in CONTROLS:
        if cfg in THOROUGH_ONLY_CONTROLS and not thorough:
            continue            # the bigger end-to-end controls: thorough tier only (one control per variant runs in both)
        r = vlib.tlc(PID, FAMILY, "FrostMC", cfg, workers=4, timeout=600)
        if r.violation != inv:
            raise vlib.Infra("design-spec control failed: '%s' not caught by %s: %s" % (what, inv, r.summary()))
        o.selftests.append({"control": "spec variant '%s' violates %s" % (what, inv), "rejected_as_required": True})
    # stage 1: schedules
    g, _ = vlib.gen_schedules(PID, FAMILY, "FrostGen", "FrostGen_thorough.cfg" if thorough else "FrostGen.cfg",
                              num=400 if thorough else 50, depth=250, seed=seed, limit=400 if thorough else 50)
    gen = from_tlc(g, seed)
    rnd = random_schedules(seed, 600 if thorough else 72, 60 if thorough else 6) + corner_schedules(seed)
    p2p = p2p_schedules(seed, 40 if thorough else 6, 8 if thorough else 5)
    gcb, _ = vlib.gen_schedules(PID, FAMILY, "FrostGen", "FrostGen_cb.cfg", num=60 if thorough else 8, depth=250, seed=seed + 1000,
                                limit=60 if thorough else 8)
    gfl, _ = vlib.gen_schedules(PID, FAMILY, "FrostGen", "FrostGen_fault.cfg", num=40 if thorough else 4, depth=250, seed=seed + 2000,
                                limit=40 if thorough else 4)
    shapes = cb_schedules(seed, thorough)
    cb = shapes[:2] + fault_schedules(seed, thorough, gfl) + shapes[2:] + from_tlc(gcb, seed, mode="cb")
    # stage 2+3
    kw = dict(chunk=40, exec_timeout=1500)
    vlib.conformance(o, FAMILY, "FrostTrace", "FrostTrace.cfg", PKG, gen, tag="tlcgen", **kw)
    vlib.conformance(o, FAMILY, "FrostTrace", "FrostTrace.cfg", PKG, rnd, tag="random", **kw)
    vlib.conformance(o, FAMILY, "FrostTrace", "FrostTrace.cfg", PKG, p2p, tag="p2p", **kw)
    vlib.conformance(o, FAMILY, "FrostTrace", "FrostTrace.cfg", PKG, cb, tag="cb", **kw)
    if thorough:
        vlib.conformance(o, FAMILY, "FrostTrace", "FrostTrace.cfg", PKG, full_schedules(seed, 2), tag="full", **kw)
    # binding negative controls on recorded (accepted, complete) traces
    if not o.violations:
        tr = [t for t in vlib.split_traces(vlib.read_ndjson(vlib.workdir(PID) + "/trace_random.ndjson"))
              if t and t[-1].get("ev") == "Check"]
        tr.sort(key=lambda t: (t[0]["V"] < 2, len(t)))
        nst = len(o.selftests)
        vlib.binding_selftest(o, FAMILY, "FrostTrace", "FrostTrace.cfg", tr, mutators())
        trc = [t for t in vlib.split_traces(vlib.read_ndjson(vlib.workdir(PID) + "/trace_cb.ndjson"))
               if t and t[-1].get("ev") == "Check"]
        vlib.binding_selftest(o, FAMILY, "FrostTrace", "FrostTrace.cfg", trc, mutators(cb=True))
        tra = [t for t in vlib.split_traces(vlib.read_ndjson(vlib.workdir(PID) + "/trace_cb.ndjson"))
               if t and t[-1].get("ev") == "Abort"]
        vlib.binding_selftest(o, FAMILY, "FrostTrace", "FrostTrace.cfg", tra, fault_mutators())
        if len(o.selftests) < nst + len(mutators()) + len(mutators(cb=True)) + len(fault_mutators()):
            raise vlib.Infra("binding self-test: some negative control found no applicable trace")
    # the Pedersen path of the ceremony (dkg/pedersen): own spec family, same loop (specs/Pedersen, harness/pedersen)
    import grow_pedersen
    grow_pedersen.stage(o, tier, seed)
    return vlib.finish(o, "exploration", RULE + " || " + grow_pedersen.RULE, ASSUMPTIONS + list(grow_pedersen.ASSUMPTIONS))


def replay(path):
    rp = json.load(open(path))
    o = vlib.Outcome(PID, "quick", 0)
    vlib.conformance(o, FAMILY, rp["trace_module"], rp["trace_cfg"], rp["pkg"], [rp["schedule"]], tag="replay")
    for p, t in o.violations:
        log("replay: " + t)
    return 1 if o.violations else 0
