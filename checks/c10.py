"""C10 - only partial signatures valid for the claimed key share enter a node (core/validatorapi/validatorapi.go
verifyPartialSig + every intercepting endpoint, core/parsigex/parsigex.go handle / NewEth2Verifier,
core/eth2signeddata.go, eth2util/signing/signing.go, core/gater.go).

A case-analysis property: specs/Admission/Admission.tla defines the abstract submission, the alterations, the
property (Valid / MayEnter) and a transcription of the handlers' checks; TLC (a) proves transcription => property over
every case and refutes it for each control variant (one check dropped), (b) ENUMERATES every case as a schedule; the
executor instantiates each case with real objects and real BLS key shares and runs it through the real handlers; TLC
validates every recorded outcome against the spec.

The admission rule is per element and history-free; beyond the single-element cases the model therefore has BATCH cases
(one request with 2..3 elements: every assignment of the elements' valid signatures to the elements - permutations whose
errors cancel in a sum -, one bad element at each position, duplicates, two elements of one validator) and SEQUENCES
(2..3 calls to the same component instances that carry the same signature bytes: the valid object, one signed field
changed, another duty type, another kind's object, exact replays, in every order) and FORK SEQUENCES (2..3 calls to the
same component instances whose fresh objects lie in different fork versions, in ascending and descending order of
their epochs: an implementation that remembers a signing domain from an earlier call shows here) and LARGE PEER SETS (one
peer message with the partial signatures of 5 / 8 / 12 / 24 validators: all valid, one bad entry, two bad entries; each
message is delivered 6 times to fresh instances, one trace per delivery, because which entries a handler looks at first
is Go map order).  Every schedule runs against component instances of its own."""
import json, os
from concurrent.futures import ThreadPoolExecutor
import vlib
from vlib import log

PID = "C10"
FAMILY = "Admission"
PKG = "c10"
RULE = ("cases = path (validator-API endpoint | peer message) x object kind (12) x data version x node/sender share index x "
        "validator x ONE alteration of an otherwise valid submission (signed by another share / another validator's share, "
        "3 foreign domains, other fork version, every signed content field changed after signing, validator unknown to the "
        "beacon node / to the lock, zero and non-point signature, agreed proposal differs, bad embedded selection proof, "
        "two-entry request with one bad entry; slot and attestation target epoch on opposite sides of a fork activation, "
        "signed with the fork version of the type's epoch source (must enter) or of the other time field (must not); peer: "
        "share index 0 / n+1 / another peer's, duty beyond / at the edge of the gater window, duty slot 2^63 / 2^63+now / "
        "2^64-1, every other claimed duty type; a well-formed object of one kind carrying the valid signature of another "
        "kind's object), x BATCHES (one request with 2..3 elements of every batch-capable endpoint / a peer set with "
        "several validators: all n^n assignments of the elements' valid signatures to the elements, with equal and with "
        "different signing roots, one bad element (4 classes) at each position, duplicates, two elements of one validator) "
        "x SEQUENCES (2..3 calls against the same component instances that carry the same signature bytes: valid, each "
        "single field changed, other duty type, other kind's object, replay - all ordered pairs, 4 shapes of triples) "
        "x FORK SEQUENCES (2..3 calls against the same component instances, every kind with an epoch-dependent domain on "
        "both paths, fresh objects placed in different fork versions: valid object wholly in the later fork, the same signed "
        "with the earlier fork version, plain object in the earlier fork, the same signed with the later fork version, the "
        "fork-straddling objects - all ordered pairs of different members, i.e. ascending and descending epochs, and the "
        "alternating triples a-b-a / b-a-b) "
        "x LARGE PEER SETS (one peer message of every kind with the entries of K = 5, 8, 12, 24 validators, V=24 in the lock: "
        "all valid, one bad entry (other share / other validator's share / content changed / validator not in the lock) at the "
        "first or last validator, two bad entries; 6 deliveries each to fresh instances), "
        "ENUMERATED by TLC from specs/Admission (N=4 shares, V=3 validators); every schedule gets fresh component instances; the "
        "executor signs from the model's own tables (domain name and epoch source per type, carried in the schedule); "
        "quick: stratified - at least one case of every (path, kind, alteration, argument) class, every data version for "
        "the unaltered, the later-fork and the fork-straddling cases, every ordered pair of plain members of a fork sequence per "
        "(path, kind) - plus a seeded sample, thorough: all; each "
        "case is instantiated with real eth2 objects and threshold BLS shares and sent through the real handler; distinct = "
        "distinct (case, recorded outcome) pairs")
ASSUMPTIONS = [
    "crypto abstraction: a signature verifies under a key share for an object iff that share made it over that object's root with "
    "that object's domain and fork version (herumi BLS is exercised for real in the executor; no forgery is attempted)",
    "beacon node = testutil/beaconmock (fork schedule of its static spec: contents in epoch 100, 'other fork' = epoch 4196 "
    "(later-fork objects live wholly there), fork-straddling objects around its first later activation, epoch 2048; the "
    "executor refuses a schedule with a second activation in between); the real core.NewDutyGater with a driver-set "
    "clock (the object's slot, also when the calls of a fork sequence go back in time; 2 future epochs allowed); parsigex's handler is entered through "
    "the build-tag hook VerifHandle with the real NewEth2Verifier",
    "scheduler / DutyDB / AggSigDB inputs of the validator API are stubs: the scheduled proposer and the agreed proposal are the "
    "case's, attester duties place validator v at position v of committee 7",
    "whether a refused submission is reported with an error is not constrained; where the statement is silent the spec is "
    "nondeterministic: valid siblings of a bad entry in one validator-API request, an aggregate/contribution whose embedded "
    "selection proof is bad but whose partial signature is good, phase0/altair proposals (refused as unsupported)",
    "an unaltered submission (and a duty in the last allowed future epoch) must be admitted, otherwise the run would be vacuous; "
    "so must a batch of valid elements of different validators; an exact re-submission of an admitted element may or may not "
    "enter again, and of two elements of one validator in one validator-API request either may be the one handed on",
    "large peer sets: the lock has 24 validators (trace configuration AdmissionTrace_big.cfg); which entries of a set a handler "
    "looks at first is Go map order and scheduling, so each message is delivered 6 times to fresh instances and every delivery "
    "is judged on its own - a handler that skips entries only rarely can still be missed",
    "the executor concretises 'same signing root' for the kinds whose signed content does not name the validator "
    "(attestation, sync message, selections, randao) and gives all calls of a sequence the same signature bytes",
]
CONTROLS = [("AdmissionMC_ctl_dropverify.cfg", "verifyPartialSig dropped from SubmitVoluntaryExit"),
            ("AdmissionMC_ctl_dropverify_att.cfg", "verifyPartialSig dropped from SubmitAttestations"),
            ("AdmissionMC_ctl_nopropmatch.cfg", "propDataMatchesDuty skipped"),
            ("AdmissionMC_ctl_nogater.cfg", "duty gater bypassed in parsigex.handle"),
            ("AdmissionMC_ctl_senderidx.cfg", "verifier looks the share up by the sender, not data.ShareIdx"),
            ("AdmissionMC_ctl_swapepoch_att.cfg", "attestation domain taken from the slot's fork, not the target epoch's"),
            ("AdmissionMC_ctl_swapepoch_agg.cfg", "aggregate domain taken from the target epoch's fork, not the slot's"),
            ("AdmissionMC_ctl_signedgater.cfg", "duty gater in int64: a duty slot >= 2^63 passes"),
            ("AdmissionMC_ctl_aggbatch.cfg", "SubmitSyncCommitteeMessages checks a request with one aggregate verification per signing root"),
            ("AdmissionMC_ctl_memo.cfg", "the peer verifier admits a remembered (public share, signature) pair without looking at the object"),
            ("AdmissionMC_ctl_domcache.cfg", "the validator API verifies under the signing domain it remembered from a later epoch")]
# the large peer sets have an exhaustive configuration of their own (V=5): as coded, and the control
BIG_MC = ("AdmissionMC_big.cfg", ("AdmissionMC_ctl_verifylimit.cfg", "parsigex.handle verifies only 4 entries of a peer set"))
BIG_V = 24



def design_check(o, thorough):
    """Transcription => property on every case; each control variant must violate OnlyValidEnter."""
    main = ["AdmissionMC.cfg" if thorough else "AdmissionMC_quick.cfg", "AdmissionMC_free.cfg"]
    jobs = [(c, None) for c in main] + CONTROLS
    w = max(2, vlib.NCPU // 5)
    dirs = [vlib.scratch(PID, FAMILY) for _ in jobs]      # (scratch() is not thread-safe: allocate up front)
    with ThreadPoolExecutor(max_workers=5) as ex:
        res = list(ex.map(lambda jd: vlib.tlc(PID, FAMILY, "AdmissionMC", jd[0][0], workers=w, timeout=900, sdir=jd[1]),
                          zip(jobs, dirs)))
    for (cfg, what), r in zip(jobs, res):
        if what is None:
            vlib.require_mc_ok(r, cfg)
            o.add_mc(cfg[:-4], r)
        else:
            if r.violation != "OnlyValidEnter":
                raise vlib.Infra("design-spec control failed: '%s' not caught by OnlyValidEnter: %s" % (what, r.summary()))
            o.selftests.append({"control": "spec variant '%s' violates OnlyValidEnter" % what, "rejected_as_required": True})


def design_check_big(dirs):
    """Tiny models (a few thousand states): one TLC worker each, off the critical path."""
    r = vlib.tlc(PID, FAMILY, "AdmissionMC", BIG_MC[0], workers=1, timeout=600, sdir=dirs[0])
    vlib.require_mc_ok(r, BIG_MC[0])
    cfg, what = BIG_MC[1]
    r2 = vlib.tlc(PID, FAMILY, "AdmissionMC", cfg, workers=1, timeout=600, sdir=dirs[1])
    if r2.violation != "OnlyValidEnter":
        raise vlib.Infra("design-spec control failed: '%s' not caught by OnlyValidEnter: %s" % (what, r2.summary()))
    return r, {"control": "spec variant '%s' violates OnlyValidEnter" % what, "rejected_as_required": True}


GEN_CFGS = ("AdmissionGen.cfg", "AdmissionGen_batch.cfg", "AdmissionGen_seq.cfg", "AdmissionGen_fseq.cfg", "AdmissionGen_big.cfg")


def trace_cfg(t):
    """Trace-spec configuration of a recorded trace: the large peer sets run with a larger lock."""
    return "AdmissionTrace_big.cfg" if t and t[0].get("V") == BIG_V else "AdmissionTrace.cfg"



def enumerate_cases(cfg, sdir):
    r = vlib.tlc(PID, FAMILY, "AdmissionGen", cfg, workers=2, timeout=900, sdir=sdir)
    if not r.ok:
        raise vlib.Infra("case enumeration (%s) failed: %s\n%s" % (cfg, r.summary(), r.out[-2000:]))
    out = []
    for p in vlib.tagged_prints(r, "SCHED"):
        try:
            out.append(json.loads(p))
        except Exception as e:
            raise vlib.Infra("cannot parse generated case: %s: %s" % (e, p[:200]))
    if len(out) != r.distinct - 1:
        raise vlib.Infra("case enumeration (%s) incomplete: %d printed, %d states" % (cfg, len(out), r.distinct))
    out.sort(key=lambda s: json.dumps(s[1:], sort_keys=True))
    return out, r


PER_VERSION = ("none", "straddleOK", "straddleBad", "wrongFork", "laterFork")
FORK_ONLY = ("wrongFork", "laterFork", "laterForkBad", "straddleOK", "straddleBad")
STRADDLE = ("straddleOK", "straddleBad")
LATER = ("laterFork", "laterForkBad")


def is_batch(s):
    return s[1]["ev"] == "SubmitBatch"


def is_big(s):
    return s[1]["ev"] == "SubmitBig"


def submits(s):
    """The cases of the Submit steps of a schedule (or of a recorded trace)."""
    return [x["c"] for x in s[1:] if x.get("ev") == "Submit"]


def is_fseq(s):
    cs = submits(s)
    return len(cs) > 1 and any(c["alt"] in FORK_ONLY for c in cs)


def fork_order(s):
    """Order of the epochs of the first two calls of a fork sequence of plain members: 'desc' later fork first,
    'asc' earlier fork first, None otherwise."""
    if not is_fseq(s):
        return None
    a = [c["alt"] for c in submits(s)[:2]]
    if any(x in STRADDLE for x in a) or (a[0] in LATER) == (a[1] in LATER):
        return None
    return "desc" if a[0] in LATER else "asc"


def cls(s):
    """Stratum of a schedule: everything but node / validator (and the share argument); the data version too where the
    handlers' epoch / root code is per version.  Batches: path, kind, pattern.  Sequences: path, origin kind, the calls'
    (kind, alteration, argument)."""
    c = s[1]["c"]
    if is_big(s):
        # large peer sets: K, the classes of the bad entries (position, kind and sender are drawn)
        return ("big", c["ai"], tuple(sorted(b for b in c["bad"] if b)) if sum(1 for b in c["bad"] if b) < 2 else ("two",))
    if is_batch(s):
        q = c["pat"]
        return ("batch", c["path"], c["kind"], tuple(q["vs"]), tuple(q["cs"]), tuple(q["ss"]), tuple(q["bad"]))
    if is_fseq(s):
        # fork sequences: (path, kind, the calls' alterations); pairs of plain members (object wholly in one fork
        # version) are classes of their own - every (path, kind) gets both orders of epochs -, pairs with a
        # fork-straddling member are lumped over the side of the straddle, triples over all but the first fork
        alts = tuple(x["c"]["alt"] for x in s[1:])
        if len(alts) == 3:
            return ("fseq3", c["path"], c["kind"], alts[0] in LATER)
        return ("fseq", c["path"], c["kind"]) + alts
    if len(s) > 2:
        return ("seq", c["path"]) + tuple((x["c"]["kind"], x["c"]["alt"], x["c"]["as"]) for x in s[1:])
    return (c["path"], c["kind"], c["alt"], c["as"], c["ai"] if c["alt"] == "dutyType" else 0,
            c["ver"] if c["alt"] in PER_VERSION else "")


def select(cases, seed, extra):
    """Stratified: every class at least once (seeded choice of node / validator / remaining version), then a seeded
    sample of the rest."""
    r = vlib.rng(seed, "c10")
    by = {}
    for i, s in enumerate(cases):
        by.setdefault(cls(s), []).append(i)
    pick = {r.choice(v) for v in by.values()}
    rest = [i for i in range(len(cases)) if i not in pick and not is_big(cases[i])]     # (6 deliveries each: no extras)
    r.shuffle(rest)
    pick |= set(rest[:extra])
    return [cases[i] for i in sorted(pick)], len(by)


DUTY = {"attestation": 2, "proposal": 1, "blinded": 1, "randao": 7, "exit": 4, "registration": 6, "bcselection": 8,
        "aggregate": 9, "aggregate_legacy": 9, "syncmsg": 10, "scselection": 11, "contribution": 12}


def mutators():
    def replayed_sig_admitted(t):
        # sequence: the call that carries the known signature on changed content is reported as admitted
        if t[1]["ev"] != "Submit" or t[1]["c"]["alt"] != "none" or len(t) < 6 or t[2]["ev"] != "Deliver":
            return None
        for i in range(3, len(t) - 1):
            if t[i]["ev"] == "Submit" and t[i]["c"]["alt"] == "field" and t[i + 1]["ev"] == "Return":
                t.insert(i + 1, dict(t[2]))
                return t
        return None

    def calls_of(t):
        """[(case, delivered?)] of a trace's Submit calls."""
        res = []
        for e in t[1:]:
            if e["ev"] == "Submit":
                res.append([e["c"], False])
            elif e["ev"] == "Deliver" and res:
                res[-1][1] = True
        return res

    def stale_fork_admitted(t):
        # fork sequence: after a valid later-fork object, the earlier-fork object signed with the later fork version is
        # reported as admitted
        cs = calls_of(t)
        if t[1]["ev"] != "Submit" or len(cs) != 2 or len(t) != 6 or [c["alt"] for c, _ in cs] != ["laterFork", "wrongFork"] or not cs[0][1]:
            return None
        t.insert(5, dict(t[2]))
        return t

    def earlier_fork_refused(t):
        # fork sequence: after a valid later-fork object, the valid earlier-fork object is reported as refused
        cs = calls_of(t)
        if t[1]["ev"] != "Submit" or len(cs) != 2 or len(t) != 7 or [c["alt"] for c, _ in cs] != ["laterFork", "none"] or not cs[1][1]:
            return None
        del t[5]
        return t

    def big_bad_set_delivered(t):
        # large peer set with a bad entry: a valid entry of it is reported as delivered
        c = t[1]["c"]
        if t[1]["ev"] != "SubmitBig" or len(t) != 3 or c["bad"][1] != "":
            return None
        t.insert(2, {"ev": "Deliver", "k": 2, "val": 2, "idx": c["sender"], "dt": DUTY[c["kind"]]})
        return t

    def big_valid_set_short(t):
        # all-valid large peer set: one of its entries is not delivered
        c = t[1]["c"]
        if t[1]["ev"] != "SubmitBig" or any(c["bad"]) or len(t) != 3 + c["ai"]:
            return None
        del t[4]
        return t

    def permuted_batch_admitted(t):
        # batch: the elements carry each other's signatures, and the first one is reported as admitted
        c = t[1]["c"]
        if t[1]["ev"] != "SubmitBatch" or len(t) != 3 or c["pat"]["ss"][:2] != [2, 1] or c["pat"]["vs"][:2] != [0, 1]:
            return None
        t.insert(2, {"ev": "Deliver", "k": 1, "val": c["val"], "idx": c["node"] if c["path"] == "vc" else c["sender"],
                     "dt": DUTY[c["kind"]]})
        return t

    def part_of_valid_peer_batch(t):
        c = t[1]["c"]
        if t[1]["ev"] == "SubmitBatch" and c["path"] == "peer" and len(t) == 6 and c["pat"]["ss"] == [1, 2, 3]:
            del t[3]
            return t
        return None

    def spurious_delivery(t):
        # an altered (to-be-refused) submission is reported as having reached the subscribers
        if t[1]["c"]["alt"] in ("otherShare", "zeroSig", "field", "wrongDomain", "future") and len(t) == 3:
            c = t[1]["c"]
            idx = c["node"] if c["path"] == "vc" else c["sender"]
            dt = {"attestation": 2, "proposal": 1, "blinded": 1, "randao": 7, "exit": 4, "registration": 6, "bcselection": 8,
                  "aggregate": 9, "aggregate_legacy": 9, "syncmsg": 10, "scselection": 11, "contribution": 12}[c["kind"]]
            t.insert(2, {"ev": "Deliver", "k": 1, "val": c["val"], "idx": idx, "dt": dt})
            return t
        return None

    def lost_delivery(t):
        if t[1]["c"]["alt"] == "none" and len(t) == 4 and t[2]["ev"] == "Deliver":
            del t[2]
            return t
        return None

    def wrong_index(t):
        if t[1]["c"]["alt"] == "none" and len(t) == 4 and t[2]["ev"] == "Deliver":
            t[2]["idx"] = t[2]["idx"] % 4 + 1
            return t
        return None

    def wrong_duty(t):
        if t[1]["c"]["alt"] == "none" and len(t) == 4 and t[2]["ev"] == "Deliver":
            t[2]["dt"] = 3
            return t
        return None

    def half_of_peer_set(t):
        # one entry of a peer message with a bad sibling reaches the subscribers
        c = t[1]["c"]
        if c["path"] == "peer" and c["alt"] == "mixedSecond" and len(t) == 3:
            dt = {"attestation": 2, "proposal": 1, "blinded": 1, "randao": 7, "exit": 4, "registration": 6, "bcselection": 8,
                  "aggregate": 9, "aggregate_legacy": 9, "syncmsg": 10, "scselection": 11, "contribution": 12}[c["kind"]]
            t.insert(2, {"ev": "Deliver", "k": 1, "val": c["val"], "idx": c["sender"], "dt": dt})
            return t
        return None

    def foreign_entry(t):
        if t[1]["c"]["alt"] == "none" and len(t) == 4 and t[2]["ev"] == "Deliver":
            t[2]["k"] = 0
            return t
        return None
    return [("large peer set with a bad entry: a valid entry reported as delivered", big_bad_set_delivered),
            ("large all-valid peer set: one entry not delivered", big_valid_set_short),
            ("fork sequence: earlier-fork object signed with the later fork version reported as admitted", stale_fork_admitted),
            ("fork sequence: valid earlier-fork object after a later-fork one reported as refused", earlier_fork_refused),
            ("sequence: known signature on changed content reported as admitted", replayed_sig_admitted),
            ("batch: element carrying another element's signature reported as admitted", permuted_batch_admitted),
            ("batch: one of three valid elements of a peer set not delivered", part_of_valid_peer_batch),
            ("delivery added to a refused case", spurious_delivery), ("delivery of a valid case dropped", lost_delivery),
            ("delivered share index changed", wrong_index), ("delivered under another duty type", wrong_duty),
            ("valid half of a peer set with a bad entry delivered", half_of_peer_set),
            ("delivered entry is not one of the submitted ones", foreign_entry)]


def check_anomalies(tag):
    p = os.path.join(vlib.workdir(PID), "trace_%s.ndjson" % tag)
    if not os.path.exists(p):
        return
    for e in vlib.read_ndjson(p):
        if e.get("ev") == "Anomaly":
            raise vlib.Infra("executor anomaly (%s): %s" % (e.get("what"), json.dumps(e)[:600]))


def run(tier, seed):
    o = vlib.Outcome(PID, tier, seed)
    thorough = tier == "thorough"
    # stage 0 (design check) and stage 1 (case enumeration, one TLC job per family) are independent TLC jobs
    gdirs = [vlib.scratch(PID, FAMILY) for _ in GEN_CFGS]
    bdirs = [vlib.scratch(PID, FAMILY) for _ in range(2)]
    with ThreadPoolExecutor(max_workers=len(GEN_CFGS) + 2) as ex:
        fg = [ex.submit(enumerate_cases, cfg, d) for cfg, d in zip(GEN_CFGS, gdirs)]
        fb = ex.submit(design_check_big, bdirs)
        f0 = ex.submit(design_check, o, thorough)
        f0.result()
        rbig, cbig = fb.result()
        o.add_mc(BIG_MC[0][:-4], rbig)
        o.selftests.append(cbig)
        gens = [f.result() for f in fg]
    cases = [s for g, _ in gens for s in g]
    nfam = [len(g) for g, _ in gens]
    if min(nfam) == 0:
        raise vlib.Infra("a schedule family is empty: %s" % nfam)
    if thorough:
        scheds, nclasses = cases, len({cls(s) for s in cases})
    else:
        scheds, nclasses = select(cases, seed, 800)
    log("[%s] %d schedules enumerated by TLC (%d single-element cases, %d batches, %d sequences, %d fork sequences, %d large "
        "peer sets; %.1fs), %d classes, %d selected (%d large peer sets)"
        % (PID, len(cases), nfam[0], nfam[1], nfam[2], nfam[3], nfam[4], max(r.wall for _, r in gens), nclasses, len(scheds),
           sum(1 for s in scheds if is_big(s))))
    # every (path, kind) with an epoch-dependent domain is run through a fork sequence in both orders of epochs
    want = {(s[1]["c"]["path"], s[1]["c"]["kind"], o) for s in cases for o in ("asc", "desc") if is_fseq(s)}
    have = {(s[1]["c"]["path"], s[1]["c"]["kind"], fork_order(s)) for s in scheds}
    if not want or want - have:
        raise vlib.Infra("selection misses fork sequences: %s" % sorted(want - have)[:6])
    # endpoint cross-check first: an exported method of validatorapi.Component that takes signed input and is not in
    # the model (or the reverse) is an infrastructure failure, not a verdict
    vlib.run_schedules(PID, PKG, "TestExec", scheds[:1], tag="probe")
    check_anomalies("probe")
    # stage 2+3
    vlib.conformance(o, FAMILY, "AdmissionTrace", trace_cfg, PKG, scheds, tag="cases", key=lambda t: t[1:], chunk=400)
    check_anomalies("cases")
    check_anomalies("cases_re")
    tr = vlib.split_traces(vlib.read_ndjson(vlib.workdir(PID) + "/trace_cases.ndjson"))
    admitted = sum(1 for t in tr if any(e.get("ev") == "Deliver" for e in t))
    if not o.violations and (admitted == 0 or admitted == len(tr)):
        raise vlib.Infra("vacuous run: %d of %d cases admitted" % (admitted, len(tr)))
    # the new dimensions are exercised: a call after an admitted one that is refused, a multi-element request that is
    # admitted entirely, one that is refused
    if not o.violations:
        seq_ref = sum(1 for t in tr if t[1]["ev"] == "Submit" and sum(1 for e in t if e["ev"] == "Submit") > 1
                      and t[2]["ev"] == "Deliver" and any(t[i]["ev"] == "Submit" and t[i + 1]["ev"] == "Return"
                                                          for i in range(3, len(t) - 1)))
        b_all = sum(1 for t in tr if t[1]["ev"] == "SubmitBatch" and len(t) == 3 + len(t[1]["c"]["pat"]["vs"]))
        b_none = sum(1 for t in tr if t[1]["ev"] == "SubmitBatch" and len(t) == 3)
        if min(seq_ref, b_all, b_none) == 0:
            raise vlib.Infra("vacuous run: %d sequences with a refused call after an admitted one, %d batches admitted "
                             "entirely, %d refused" % (seq_ref, b_all, b_none))
        # fork sequences, both orders of epochs: a valid second call admitted, a wrongly signed second call refused
        fs = {}
        for t in tr:
            o2 = fork_order(t)
            if o2 is None:
                continue
            calls = [i for i, e in enumerate(t) if e["ev"] == "Submit"]
            if len(calls) < 2 or t[calls[0] + 1]["ev"] != "Deliver":
                continue
            a2 = t[calls[1]]["c"]["alt"]
            got2 = t[calls[1] + 1]["ev"] == "Deliver"
            if a2 in ("none", "laterFork") and got2:
                fs[(o2, "admitted")] = fs.get((o2, "admitted"), 0) + 1
            if a2 in ("wrongFork", "laterForkBad") and not got2:
                fs[(o2, "refused")] = fs.get((o2, "refused"), 0) + 1
        if len(fs) < 4:
            raise vlib.Infra("vacuous run: fork sequences after an admitted first call: %s" % fs)
        # large peer sets: all-valid ones delivered entirely, ones with a bad entry refused, every K
        bg = {}
        for t in tr:
            if t[1]["ev"] == "SubmitBig":
                nd, nbad = sum(1 for e in t if e["ev"] == "Deliver"), sum(1 for b in t[1]["c"]["bad"] if b)
                key = (t[1]["c"]["ai"], "all" if nbad == 0 and nd == t[1]["c"]["ai"] else "none" if nbad and nd == 0 else "?")
                bg[key] = bg.get(key, 0) + 1
        if len([k for k in bg if k[1] != "?"]) < 8:
            raise vlib.Infra("vacuous run: large peer sets (K, delivered): %s" % bg)
    n0 = len(o.selftests)
    vlib.binding_selftest(o, FAMILY, "AdmissionTrace", trace_cfg, tr, mutators())
    if len(o.selftests) - n0 < 13 and not o.violations:
        raise vlib.Infra("binding self-test: some negative control found no applicable trace")
    # the same rule on REAL, fully wired nodes: clusters of real app.Run nodes (specs/Workflow, harness/workflow) with a
    # Byzantine member whose validator client signs with a foreign key / other data and who puts crafted partial signatures
    # on the wire as raw libp2p messages (real parsigex.handle) and through the in-memory exchange; only the two guards
    # that ARE this property (what the validator API stores internally verifies under the node's own share; what the
    # exchange hands to the store verifies under the claimed share) may raise an alarm here
    if not o.violations:
        import grow_workflow
        grow_workflow.light_stage(o, seed, only=grow_workflow.C10_GUARDS,
                                  pick=lambda p: p.get("byz") is not None and (p.get("mode") == "p2p" or p.get("exverify", True)),
                                  controls=("unverified partial stored internally", "unverifiable partial accepted from a peer"))
    return vlib.finish(o, "exploration", RULE, ASSUMPTIONS,
                       extra_cov={"cases_enumerated_by_tlc": len(cases), "single_element_cases": nfam[0], "batches": nfam[1],
                                  "sequences": nfam[2], "fork_sequences": nfam[3], "large_peer_sets": nfam[4],
                                  "case_classes": nclasses,
                                  "cases_admitted": admitted, "cases_refused": len(tr) - admitted,
                                  "exhaustive": bool(thorough and not o.violations)})


def replay(path):
    rp = json.load(open(path))
    o = vlib.Outcome(PID, "quick", 0)
    vlib.conformance(o, FAMILY, rp["trace_module"], trace_cfg, rp["pkg"], [rp["schedule"]], tag="replay")
    check_anomalies("replay")
    for p, t in o.violations:
        log("replay: " + t)
    return 1 if o.violations else 0
