"""C10 - only partial signatures valid for the claimed key share enter a node (core/validatorapi/validatorapi.go
verifyPartialSig + every intercepting endpoint, core/parsigex/parsigex.go handle / NewEth2Verifier,
core/eth2signeddata.go, eth2util/signing/signing.go, core/gater.go).

A case-analysis property: specs/Admission/Admission.tla defines the abstract submission, the alterations, the
property (Valid / MayEnter) and a transcription of the handlers' checks; TLC (a) proves transcription => property over
every case and refutes it for each control variant (one check dropped), (b) ENUMERATES every case as a schedule; the
executor instantiates each case with real objects and real BLS key shares and runs it through the real handlers; TLC
validates every recorded outcome against the spec."""
import json, os
from concurrent.futures import ThreadPoolExecutor
import vlib
from vlib import log

PID = "C10"
FAMILY = "Admission"
PKG = "c10"
RULE = ("cases = path (validator-API endpoint | peer message) x object kind (12) x data version x node/sender share index x "
        "validator x ONE alteration of an otherwise valid submission (signed by another share / another validator's share, "
        "3 foreign domains, other fork version, every signed content field changed after signing, validator unknown to the "
        "beacon node / to the lock, zero and non-point signature, agreed proposal differs, bad embedded selection proof, "
        "two-entry request with one bad entry; slot and attestation target epoch on opposite sides of a fork activation, "
        "signed with the fork version of the type's epoch source (must enter) or of the other time field (must not); peer: "
        "share index 0 / n+1 / another peer's, duty beyond / at the edge of the gater window, duty slot 2^63 / 2^63+now / "
        "2^64-1, every other claimed duty type), ENUMERATED by TLC from specs/Admission (N=4 shares, V=3 validators); the "
        "executor signs from the model's own tables (domain name and epoch source per type, carried in the schedule); "
        "quick: stratified - at least one case of every (path, kind, alteration, argument) class, every data version for "
        "the unaltered and the fork-straddling cases - plus a seeded sample, thorough: all; each "
        "case is instantiated with real eth2 objects and threshold BLS shares and sent through the real handler; distinct = "
        "distinct (case, recorded outcome) pairs")
ASSUMPTIONS = [
    "crypto abstraction: a signature verifies under a key share for an object iff that share made it over that object's root with "
    "that object's domain and fork version (herumi BLS is exercised for real in the executor; no forgery is attempted)",
    "beacon node = testutil/beaconmock (fork schedule of its static spec: contents in epoch 100, 'other fork' = epoch 4196, "
    "fork-straddling objects around its first later activation, epoch 2048); the real core.NewDutyGater with a driver-set "
    "clock (the object's slot; 2 future epochs allowed); parsigex's handler is entered through "
    "the build-tag hook VerifHandle with the real NewEth2Verifier",
    "scheduler / DutyDB / AggSigDB inputs of the validator API are stubs: the scheduled proposer and the agreed proposal are the "
    "case's, attester duties place validator v at position v of committee 7",
    "whether a refused submission is reported with an error is not constrained; where the statement is silent the spec is "
    "nondeterministic: valid siblings of a bad entry in one validator-API request, an aggregate/contribution whose embedded "
    "selection proof is bad but whose partial signature is good, phase0/altair proposals (refused as unsupported)",
    "an unaltered submission (and a duty in the last allowed future epoch) must be admitted, otherwise the run would be vacuous",
]
CONTROLS = [("AdmissionMC_ctl_dropverify.cfg", "verifyPartialSig dropped from SubmitVoluntaryExit"),
            ("AdmissionMC_ctl_dropverify_att.cfg", "verifyPartialSig dropped from SubmitAttestations"),
            ("AdmissionMC_ctl_nopropmatch.cfg", "propDataMatchesDuty skipped"),
            ("AdmissionMC_ctl_nogater.cfg", "duty gater bypassed in parsigex.handle"),
            ("AdmissionMC_ctl_senderidx.cfg", "verifier looks the share up by the sender, not data.ShareIdx"),
            ("AdmissionMC_ctl_swapepoch_att.cfg", "attestation domain taken from the slot's fork, not the target epoch's"),
            ("AdmissionMC_ctl_swapepoch_agg.cfg", "aggregate domain taken from the target epoch's fork, not the slot's"),
            ("AdmissionMC_ctl_signedgater.cfg", "duty gater in int64: a duty slot >= 2^63 passes")]


def design_check(o, thorough):
    """Transcription => property on every case; each control variant must violate OnlyValidEnter."""
    main = ["AdmissionMC.cfg" if thorough else "AdmissionMC_quick.cfg", "AdmissionMC_free.cfg"]
    jobs = [(c, None) for c in main] + CONTROLS
    w = max(2, vlib.NCPU // 5)
    dirs = [vlib.scratch(PID, FAMILY) for _ in jobs]      # (scratch() is not thread-safe: allocate up front)
    with ThreadPoolExecutor(max_workers=4) as ex:
        res = list(ex.map(lambda jd: vlib.tlc(PID, FAMILY, "AdmissionMC", jd[0][0], workers=w, timeout=900, sdir=jd[1]),
                          zip(jobs, dirs)))
    for (cfg, what), r in zip(jobs, res):
        if what is None:
            vlib.require_mc_ok(r, cfg)
            o.add_mc(cfg[:-4], r)
        else:
            if r.violation != "OnlyValidEnter":
                raise vlib.Infra("design-spec control failed: '%s' not caught by OnlyValidEnter: %s" % (what, r.summary()))
            o.selftests.append({"control": "spec variant '%s' violates OnlyValidEnter" % what, "rejected_as_required": True})


def enumerate_cases(sdir):
    r = vlib.tlc(PID, FAMILY, "AdmissionGen", "AdmissionGen.cfg", workers=2, timeout=900, sdir=sdir)
    if not r.ok:
        raise vlib.Infra("case enumeration failed: %s\n%s" % (r.summary(), r.out[-2000:]))
    out = []
    for p in vlib.tagged_prints(r, "SCHED"):
        try:
            out.append(json.loads(p))
        except Exception as e:
            raise vlib.Infra("cannot parse generated case: %s: %s" % (e, p[:200]))
    if len(out) != r.distinct - 1:
        raise vlib.Infra("case enumeration incomplete: %d printed, %d states" % (len(out), r.distinct))
    out.sort(key=lambda s: json.dumps(s[1], sort_keys=True))
    return out, r


PER_VERSION = ("none", "straddleOK", "straddleBad", "wrongFork")


def cls(s):
    """Stratum of a case: everything but node / validator (and the share argument); the data version too where the
    handlers' epoch / root code is per version."""
    c = s[1]["c"]
    return (c["path"], c["kind"], c["alt"], c["as"], c["ai"] if c["alt"] == "dutyType" else 0,
            c["ver"] if c["alt"] in PER_VERSION else "")


def select(cases, seed, n):
    """Stratified: every class at least once (seeded choice of node / validator / remaining version), then a seeded
    sample of the rest."""
    r = vlib.rng(seed, "c10")
    by = {}
    for i, s in enumerate(cases):
        by.setdefault(cls(s), []).append(i)
    pick = {r.choice(v) for v in by.values()}
    rest = [i for i in range(len(cases)) if i not in pick]
    r.shuffle(rest)
    pick |= set(rest[:max(0, n - len(pick))])
    return [cases[i] for i in sorted(pick)], len(by)


def mutators():
    def spurious_delivery(t):
        # an altered (to-be-refused) submission is reported as having reached the subscribers
        if t[1]["c"]["alt"] in ("otherShare", "zeroSig", "field", "wrongDomain", "future") and len(t) == 3:
            c = t[1]["c"]
            idx = c["node"] if c["path"] == "vc" else c["sender"]
            dt = {"attestation": 2, "proposal": 1, "blinded": 1, "randao": 7, "exit": 4, "registration": 6, "bcselection": 8,
                  "aggregate": 9, "aggregate_legacy": 9, "syncmsg": 10, "scselection": 11, "contribution": 12}[c["kind"]]
            t.insert(2, {"ev": "Deliver", "k": 1, "val": c["val"], "idx": idx, "dt": dt})
            return t
        return None

    def lost_delivery(t):
        if t[1]["c"]["alt"] == "none" and len(t) == 4 and t[2]["ev"] == "Deliver":
            del t[2]
            return t
        return None

    def wrong_index(t):
        if t[1]["c"]["alt"] == "none" and len(t) == 4 and t[2]["ev"] == "Deliver":
            t[2]["idx"] = t[2]["idx"] % 4 + 1
            return t
        return None

    def wrong_duty(t):
        if t[1]["c"]["alt"] == "none" and len(t) == 4 and t[2]["ev"] == "Deliver":
            t[2]["dt"] = 3
            return t
        return None

    def half_of_peer_set(t):
        # one entry of a peer message with a bad sibling reaches the subscribers
        c = t[1]["c"]
        if c["path"] == "peer" and c["alt"] == "mixedSecond" and len(t) == 3:
            dt = {"attestation": 2, "proposal": 1, "blinded": 1, "randao": 7, "exit": 4, "registration": 6, "bcselection": 8,
                  "aggregate": 9, "aggregate_legacy": 9, "syncmsg": 10, "scselection": 11, "contribution": 12}[c["kind"]]
            t.insert(2, {"ev": "Deliver", "k": 1, "val": c["val"], "idx": c["sender"], "dt": dt})
            return t
        return None

    def foreign_entry(t):
        if t[1]["c"]["alt"] == "none" and len(t) == 4 and t[2]["ev"] == "Deliver":
            t[2]["k"] = 0
            return t
        return None
    return [("delivery added to a refused case", spurious_delivery), ("delivery of a valid case dropped", lost_delivery),
            ("delivered share index changed", wrong_index), ("delivered under another duty type", wrong_duty),
            ("valid half of a peer set with a bad entry delivered", half_of_peer_set),
            ("delivered entry is not one of the submitted ones", foreign_entry)]


def check_anomalies(tag):
    p = os.path.join(vlib.workdir(PID), "trace_%s.ndjson" % tag)
    if not os.path.exists(p):
        return
    for e in vlib.read_ndjson(p):
        if e.get("ev") == "Anomaly":
            raise vlib.Infra("executor anomaly (%s): %s" % (e.get("what"), json.dumps(e)[:600]))


def run(tier, seed):
    o = vlib.Outcome(PID, tier, seed)
    thorough = tier == "thorough"
    # stage 0 (design check) and stage 1 (case enumeration) are independent TLC jobs
    gdir = vlib.scratch(PID, FAMILY)
    with ThreadPoolExecutor(max_workers=2) as ex:
        f1 = ex.submit(enumerate_cases, gdir)
        f0 = ex.submit(design_check, o, thorough)
        f0.result()
        cases, g = f1.result()
    if thorough:
        scheds, nclasses = cases, len({cls(s) for s in cases})
    else:
        scheds, nclasses = select(cases, seed, 3000)
    log("[%s] %d cases enumerated by TLC (%.1fs), %d classes, %d selected" % (PID, len(cases), g.wall, nclasses, len(scheds)))
    # endpoint cross-check first: an exported method of validatorapi.Component that takes signed input and is not in
    # the model (or the reverse) is an infrastructure failure, not a verdict
    vlib.run_schedules(PID, PKG, "TestExec", scheds[:1], tag="probe")
    check_anomalies("probe")
    # stage 2+3
    vlib.conformance(o, FAMILY, "AdmissionTrace", "AdmissionTrace.cfg", PKG, scheds, tag="cases", key=lambda t: t[1:],
                     chunk=400)
    check_anomalies("cases")
    check_anomalies("cases_re")
    tr = vlib.split_traces(vlib.read_ndjson(vlib.workdir(PID) + "/trace_cases.ndjson"))
    admitted = sum(1 for t in tr if any(e.get("ev") == "Deliver" for e in t))
    if not o.violations and (admitted == 0 or admitted == len(tr)):
        raise vlib.Infra("vacuous run: %d of %d cases admitted" % (admitted, len(tr)))
    n0 = len(o.selftests)
    vlib.binding_selftest(o, FAMILY, "AdmissionTrace", "AdmissionTrace.cfg", tr, mutators())
    if len(o.selftests) - n0 < 6 and not o.violations:
        raise vlib.Infra("binding self-test: some negative control found no applicable trace")
    return vlib.finish(o, "exploration", RULE, ASSUMPTIONS,
                       extra_cov={"cases_enumerated_by_tlc": len(cases), "case_classes": nclasses,
                                  "cases_admitted": admitted, "cases_refused": len(tr) - admitted,
                                  "exhaustive": bool(thorough and not o.violations)})


def replay(path):
    rp = json.load(open(path))
    o = vlib.Outcome(PID, "quick", 0)
    vlib.conformance(o, FAMILY, rp["trace_module"], rp["trace_cfg"], rp["pkg"], [rp["schedule"]], tag="replay")
    check_anomalies("replay")
    for p, t in o.violations:
        log("replay: " + t)
    return 1 if o.violations else 0
