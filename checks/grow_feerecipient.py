"""GROWTH family "FeeRecipient" - the fee-recipient / builder-registration override flow end to end: cmd/feerecipientsign.go,
feerecipientfetch.go, feerecipientlist.go (driven through the real CLI, `cmd.New()`), app/obolapi/feerecipient.go (+ _model.go)
and the node side app/builderregistration.go (ProcessValidators, AggregatePartialSignatures, Load- and
MergeBuilderRegistrationOverrides, the builderRegistrationService with its Run loop: file reload / API fetch / recompute),
wired as app/app.go wires it, against a scripted in-process Obol API (testutil/obolapimock behind a gate).

Not a registered check: `stage(o, tier, seed)` runs the family as a stage (the Outcome `o` collects coverage and
violations); `main(tier, seed)` is a stand-alone driver, `replay(path)` re-runs a replay file."""
import json, os, time
import vlib
from vlib import log

FAMILY = "FeeRecipient"
PKG = "feerecipient"
TRACE = "FeeRecipientTrace"
WORKERS = int(os.environ.get("VERIF_TLC_WORKERS", "0")) or None

RULE = ("FeeRecipient family: schedules = command lines of the operators (feerecipient sign with --validator-public-keys / "
        "--fee-recipient / --gas-limit / --timestamp or none, feerecipient fetch, feerecipient list), node starts / stops (the real "
        "builderRegistrationService with and without an API client), which command's or node's pending API request is let through next, "
        "faults on requests (never served / served but reported failed; 404 409 500 503, the two 404 bodies the client interprets), "
        "tampering with fetch answers (partial dropped from a quorum group, quorum flag set / cleared, empty quorum group, share indices "
        "shifted, a partial over another message, another group's message, all groups / older quorum only / two quorum groups / a "
        "validator twice, empty answer), direct posts of a Byzantine operator, planted overrides files (good, too few shares, foreign "
        "validator, junk, absent, a validator twice), clock ticks; generated (a) by TLC simulation of FeeRecipientGen (7 configurations) "
        "and (b) by a seeded random generator of scenarios around the threshold, the timestamps and the file/API merge.  Executed on the "
        "real CLI commands + app/obolapi.Client + app.NewBuilderRegistrationService/Run through an in-process round tripper, requests "
        "gated one at a time; mode A in real time with real fsnotify (barrier: the fetch that a file event triggers), mode B in a "
        "testing/synctest bubble (virtual clock: time.Now of `sign`, the 1 h / 24 h fetch timer); every trace validated by "
        "FeeRecipientTrace.tla (linear)")
ASSUMPTIONS = [
    "cryptography is abstract in the spec; the executor names signatures by observation functions of its own (its own SSZ "
    "merkleisation of the registration message and of the builder domain for the lock's fork version, checked against the lock's "
    "own registrations; tbls.Verify against the lock's public shares / group keys)",
    "an operator runs one command at a time; requests are interleaved at request granularity; the API's store is "
    "testutil/obolapimock as coded (accepts a partial iff it verifies under the public share of the index in the URL), its "
    "answers are the environment's (any tampering the schedule asks for)",
    "mode A: `sign` always gets --timestamp (time.Now is the wall clock's); a node always has an API client (the fetch that follows "
    "a file event is the barrier); mode B: fsnotify cannot run in a synctest bubble, the node's directory is unwatchable while Run "
    "starts (the code's own 'file watching disabled' path) and the file is read at node start only",
    "group messages and validator entries of API answers carry well-formed keys (no null message, no unknown public key)",
    "a quorum group without any partial signature makes tbls.ThresholdAggregate fail and with it the whole fetch (command fails, "
    "node keeps its state): modelled as coded",
    "deviations D1 and D2 are switched on when their directed probes confirm them",
]
FINDINGS = {
    "D2": ("GROW-FEERECIPIENT-null-message-panic",
           "cmd/feerecipientsign.go: `feerecipient sign` dereferences the message of every registration group of the API's status "
           "answer (findRegistrationGroups, filterPubkeysByStatus); an answer with \"message\": null crashes the command with a nil "
           "pointer panic instead of failing with an error"),
    "D1": ("GROW-FEERECIPIENT-duplicate-entry-last-wins",
           "app/builderregistration.go: where ONE source lists a validator twice the LAST entry is taken whatever its timestamp "
           "(mergeOverrides returns a single non-empty source unmerged and applyBuilderRegistrationOverrides / the base loop of "
           "mergeRegistrations build their maps by plain overwrite): an overrides file or an API answer that carries a newer and an "
           "older verified registration of a validator makes the node apply the OLDER one, and `feerecipient fetch` then drops the "
           "newer entry from the file -- contradicting 'keeping the entry with the highest timestamp per pubkey'"),
}

SHAPES = [(3, 2), (3, 2), (4, 3), (4, 3), (5, 4), (3, 3), (4, 2)]
TAMPERS = ["dropsig", "flipq", "unq", "emptyq", "shift", "rev", "all", "alldesc", "older", "empty", "swapsig", "dupval", "othermsg", "twoq",
           "nopart", "nolock", "nullmsg"]


def trace_cfg(n, t, nv, dup, panic):
    name = "FeeRecipientTrace_%d_%d_%d_%s%s.cfg" % (n, t, nv, "D1" if dup else "", "D2" if panic else "")
    txt = ("SPECIFICATION TraceSpec\nCONSTANTS\n N = %d\n T = %d\n NV = %d\n Cmds = {%s}\n DupLastWins = %s\n AllowPanic = %s\n Defect = \"none\"\n"
           "CONSTRAINT Mark\nACTION_CONSTRAINT ActOK\nPOSTCONDITION Report\nCHECK_DEADLOCK FALSE\n"
           % (n, t, nv, ", ".join(str(i) for i in range(1, 61)), "TRUE" if dup else "FALSE", "TRUE" if panic else "FALSE"))
    return (name, txt)


_dev = {"D1": True, "D2": True}      # set by the probes


def cfg_with(**dev):
    def f(tr):
        r = tr[0]
        d = dict(_dev, **dev)
        return trace_cfg(r["n"], r["t"], r["nv"], d["D1"], d["D2"])
    return f


def cfg_of(tr):
    return cfg_with()(tr)


# ----------------------------------------------------------------------------------------------------------------------
# (a) histories of FeeRecipientGen -> schedules
# ----------------------------------------------------------------------------------------------------------------------
def from_hist(h):
    return [{"ev": "Cfg", "mode": h["mode"], "n": h["n"], "t": h["t"], "nv": h["nv"]}] + list(h["steps"])


# ----------------------------------------------------------------------------------------------------------------------
# (b) seeded random scenarios
# ----------------------------------------------------------------------------------------------------------------------
def M(v, fr, gl, ts):
    return {"v": v, "fr": fr, "gl": gl, "ts": ts}


class Scn:
    """builds one schedule; the executor ignores a Step for a command that has returned, a Start for an operator that is busy and
    a NodeStep for a node without a pending fetch"""
    def __init__(self, r, mode, n, t, nv):
        self.r, self.mode, self.n, self.t, self.nv = r, mode, n, t, nv
        self.s = [{"ev": "Cfg", "mode": mode, "n": n, "t": t, "nv": nv}]
        self.c = 0
        self.nodes = set()
        self.clock = 1000

    def start(self, op, kind, run=True, **kw):
        if self.c >= 58:
            return None
        self.c += 1
        self.s.append({"ev": "Start", "c": self.c, "op": op, "kind": kind, "vs": kw.get("vs", []), "fr": kw.get("fr", 0), "gl": kw.get("gl", 0),
                       "ts": kw.get("ts", -1)})
        if run:
            self.finish(self.c, kind)
        return self.c

    def step(self, c, **kw):
        self.s.append(dict({"ev": "Step", "c": c}, **kw))

    def finish(self, c, kind="sign", p=0.05):
        for _ in range(2 if kind == "sign" else 1):
            self.step(c, **self.noise(p))

    def noise(self, p=0.05):
        r = self.r
        x = r.random()
        if x < p:
            return {"f": r.choice(["pre", "post"]), "code": r.choice([500, 500, 404, 409, 503])}
        if x < 2.5 * p:
            return {"tamper": r.choice(TAMPERS)}
        return {}

    def sign(self, op, vs, fr, gl=0, ts=-1, **kw):
        if self.mode == "A" and ts == -1:
            ts = self.r.choice([3, 5, 8])
        return self.start(op, "sign", vs=vs, fr=fr, gl=gl, ts=ts, **kw)

    def node_start(self, op, api=True):
        self.s.append({"ev": "NodeStart", "op": op, "api": api or self.mode == "A"})
        self.nodes.add(op)

    def node_stop(self, op):
        self.s.append({"ev": "NodeStop", "op": op})
        self.nodes.discard(op)

    def node_step(self, op, **kw):
        self.s.append(dict({"ev": "NodeStep", "op": op}, **kw))

    def nodes_step(self, p=0.1):
        for op in sorted(self.nodes):
            self.node_step(op, **self.noise(p))

    def tick(self, d):
        if self.mode == "B":
            self.s.append({"ev": "Tick", "d": d})
            self.clock += d

    def byz(self, b, parts):
        self.s.append({"ev": "Byz", "share": b, "parts": parts})

    def plant(self, op, st, regs=()):
        self.s.append({"ev": "Plant", "op": op, "st": st, "regs": list(regs)})


def some_shares(r, n, k):
    return sorted(r.sample(range(1, n + 1), max(0, min(n, k))))


def scenario(r, big):
    n, t = r.choice(SHAPES)
    flavour = r.choice(["threshold", "threshold", "change", "change", "conflict", "tamper", "tamper", "files", "files", "timer", "now", "now",
                        "bad", "chaos", "merge", "merge", "dups"])
    mode = "B" if flavour in ("timer", "now") else r.choice(["A", "B"])
    nv = r.choice([1, 1, 2, 2, 3])
    sc = Scn(r, mode, n, t, nv)
    byz = r.choice([0, 0, n])
    honest = [o for o in range(1, n + 1) if o != byz]
    v = r.randint(1, nv)
    vs = r.choice([[v], [v], sorted(r.sample(range(1, nv + 1), r.randint(1, nv)))])
    fr = r.choice([1, 2, 3, 4])
    who = r.choice(honest)

    def extras():
        x = r.random()
        if byz and x < 0.2:
            sc.byz(r.choice([byz, byz, r.randint(1, n)]), [{"sv": r.choice([v, v, r.randint(1, nv)]), "sk": r.choice([byz, byz, r.randint(1, n)]),
                                                             "m": M(r.choice([v, v, 0]), r.choice([1, 2, 3, 0]), r.choice([1, 2]), r.choice([1, 4, 6, 9, 2000]))}])
        elif x < 0.3:
            sc.nodes_step()
        elif x < 0.36 and sc.mode == "B":
            sc.tick(r.choice([1, 60, 3599, 3600, 86400]))

    if flavour in ("threshold", "chaos"):
        # the operators sign one after the other; somebody fetches before, at and after the threshold; nodes follow
        for op in r.sample(honest, r.randint(0, 2)):
            sc.node_start(op, api=r.random() < 0.8)
        ts = r.choice([-1, -1, 5, 7]) if mode == "B" else r.choice([5, 7])
        order = honest[:]
        r.shuffle(order)
        for k, op in enumerate(order):
            # a later operator may give other flags: the in-progress group's message is adopted
            sc.sign(op, vs, fr if r.random() < 0.9 else r.choice([1, 2, 3]), gl=r.choice([0, 0, 0, 2, 3]), ts=ts if r.random() < 0.8 else r.choice([-1, 6, 9, 11]))
            if r.random() < 0.25:
                sc.sign(op, vs, fr, ts=ts)                       # the operator runs `sign` again
            if r.random() < 0.4:
                sc.start(r.choice(honest), r.choice(["fetch", "fetch", "list"]), vs=r.choice([[], [], vs]))
            extras()
            if flavour == "chaos" and r.random() < 0.3:
                sc.plant(r.choice(honest), r.choice(["ok", "junk", "absent"]), [{"m": M(v, r.choice([2, 3]), 1, r.choice([2, 6, 10])), "shares": some_shares(r, n, r.choice([t, t - 1]))}])
        sc.start(who, "fetch", vs=r.choice([[], vs]))
        if who not in sc.nodes:
            sc.node_start(who, api=r.random() < 0.7)
        sc.nodes_step(0.0)
        sc.nodes_step()
        sc.start(who, "list", vs=r.choice([[], vs]))
    elif flavour == "change":
        # two changes of the fee recipient one after the other; stale in-progress groups; answers that replay the older quorum
        sc.node_start(who)
        t1 = r.choice([3, 5])
        for op in honest[:t + r.choice([0, 0, 1])]:
            sc.sign(op, vs, fr, ts=t1)
        sc.nodes_step(0.0)
        if r.random() < 0.6:
            sc.start(who, "fetch")
            sc.nodes_step(0.0)
        fr2 = fr % 3 + 1
        t2 = r.choice([t1 + 2, t1 + 2, t1, t1 - 1, -1])
        k2 = r.choice([t, t, t - 1, 1])
        for op in r.sample(honest, min(len(honest), k2)):
            sc.sign(op, vs, fr2, gl=r.choice([0, 2]), ts=t2)
            extras()
        for kind in r.sample(["older", "all", "alldesc", "twoq", "rev", "dupval", ""], 3):
            sc.node_step(who, **({"tamper": kind} if kind else {}))
        c = sc.start(who, "fetch", run=False)
        if c:
            sc.step(c, **({"tamper": r.choice(["older", "all", "alldesc", "twoq", "dupval"])} if r.random() < 0.5 else {}))
        sc.nodes_step(0.0)
        sc.start(r.choice(honest), "list")
        # a third operator tries the OLD fee recipient again with an older / the same / a newer timestamp
        sc.sign(r.choice(honest), vs, fr, ts=r.choice([t1, t1 + 1, t1 + 5, 20]))
    elif flavour == "conflict":
        # operators ask for different fee recipients at the same time: requests interleaved at the gate
        ids = []
        for op in honest:
            c = sc.sign(op, vs, r.choice([fr, fr, fr % 3 + 1]), gl=r.choice([0, 0, 2]), ts=r.choice([5, 5, 7]) if mode == "A" else r.choice([-1, 5, 5, 7]), run=False)
            if c:
                ids.append(c)
        for _ in range(3):
            r.shuffle(ids)
            for c in ids:
                if r.random() < 0.7:
                    sc.step(c, **sc.noise(0.08))
            extras()
        for c in ids:
            sc.finish(c, p=0.0)
        for op in honest:
            if r.random() < 0.6:
                sc.sign(op, vs, fr, ts=r.choice([5, 9]))
        sc.start(who, "fetch")
        sc.start(who, "list")
    elif flavour == "tamper":
        # a quorum (and an in-progress group), then every way a faulty API could answer: to `fetch`, `sign`, `list` and to the nodes
        sc.node_start(who)
        signers = honest[:r.choice([t, t, min(len(honest), t + 1)])]
        for op in signers:
            sc.sign(op, vs, fr, ts=5)
        if r.random() < 0.6:
            sc.sign(honest[-1], vs, fr % 3 + 1, ts=r.choice([7, 4]))
        kinds = TAMPERS[:]
        r.shuffle(kinds)
        for kind in kinds[:r.randint(4, 9)]:
            x = r.random()
            if x < 0.4:
                sc.node_step(who, tamper=kind)
            elif x < 0.7:
                c = sc.start(r.choice(honest), "fetch", run=False, vs=r.choice([[], vs]))
                if c:
                    sc.step(c, tamper=kind)
            elif x < 0.85:
                c = sc.start(r.choice(honest), "list", run=False)
                if c:
                    sc.step(c, tamper=kind)
            else:
                c = sc.sign(r.choice(honest), vs, r.choice([fr, fr % 3 + 1]), ts=r.choice([5, 9]), run=False)
                if c:
                    sc.step(c, tamper=kind)
                    sc.step(c)
        sc.node_step(who)
        sc.start(who, "fetch")
        sc.node_step(who)
    elif flavour in ("files", "merge", "dups"):
        # overrides files of every kind under a node, a `fetch` that merges into them, `sign` that validates against them
        api_first = flavour == "merge" and r.random() < 0.5
        if api_first or r.random() < 0.4:
            for op in honest[:t]:
                sc.sign(op, vs, fr, ts=r.choice([5, 6]))

        def entry(x=None, dup=False):
            x = x or r.choice([v, v, r.randint(1, nv), 0])
            good = r.random() < (0.9 if flavour != "files" else 0.7)
            return {"m": M(x, r.choice([1, 2, 3]), r.choice([1, 2, 3]), r.choice([2, 4, 5, 6, 8, 0])), "shares": some_shares(r, n, t if good else r.choice([t - 1, 0]))}

        def some_file():
            if flavour == "files" and r.random() < 0.25:
                return r.choice(["junk", "absent"]), []
            regs = [entry() for _ in range(r.randint(1, 3))]
            if flavour == "dups":
                regs += [entry(x=regs[0]["m"]["v"] or v)]
                r.shuffle(regs)
            return "ok", regs

        sc.plant(who, *some_file())
        sc.node_start(who, api=r.random() < 0.8)
        for _ in range(r.randint(2, 4)):
            x = r.random()
            if x < 0.35:
                sc.plant(who, *some_file())
                sc.nodes_step(0.05)
            elif x < 0.6:
                sc.start(who, "fetch", vs=r.choice([[], vs]))
                sc.nodes_step(0.05)
            elif x < 0.7:
                sc.node_stop(who)
                sc.node_start(who, api=r.random() < 0.8)
            elif x < 0.85:
                sc.sign(who, vs, r.choice([1, 2, 3]), gl=r.choice([0, 0, 3]), ts=r.choice([1, 3, 5, 7, 9, -1]))
            else:
                sc.start(who, "list", vs=r.choice([[], vs]))
            extras()
        sc.nodes_step(0.0)
        sc.start(who, "fetch")
        sc.nodes_step(0.0)
    elif flavour == "timer":
        # the fetch timer: 1 h while something is incomplete or the fetch failed, else 24 h
        for op in r.sample(honest, r.randint(1, 2)):
            sc.node_start(op)
        for _ in range(r.randint(4, 9)):
            x = r.random()
            if x < 0.5:
                sc.tick(r.choice([3600, 3600, 86400, 86400, 3599, 1, 86399, 82800, 100000, 7200]))
                sc.nodes_step(0.2)
            elif x < 0.75:
                sc.sign(r.choice(honest), vs, fr, ts=r.choice([-1, 5]))
            elif x < 0.85:
                sc.nodes_step(0.3)
            else:
                extras()
        sc.tick(86400)
        sc.nodes_step(0.0)
    elif flavour == "now":
        # `sign` without --timestamp: the clock; explicit timestamps in the past and in the future; newer-than-quorum rule
        sc.node_start(who)
        t0 = r.choice([-1, -1, 5000, 500])
        for op in honest[:t]:
            sc.sign(op, vs, fr, ts=t0)
            if r.random() < 0.5:
                sc.tick(r.choice([1, 100, 4000]))
        sc.nodes_step(0.0)
        fr2 = fr % 3 + 1
        for op in r.sample(honest, r.randint(1, len(honest))):
            sc.sign(op, vs, fr2, gl=r.choice([0, 2]), ts=r.choice([-1, -1, -1, 900, 6000]))
            if r.random() < 0.5:
                sc.tick(r.choice([1, 10, 3600, 6000]))
            extras()
        sc.start(who, "fetch")
        sc.tick(86400)
        sc.nodes_step(0.0)
        sc.start(who, "list")
    else:   # bad
        for op in honest:
            sc.sign(op, r.choice([vs, vs, [v, 0], [0]]), r.choice([fr, 4, 90, 91, 92]), gl=r.choice([0, 2]), ts=r.choice([0, 0, 5, -1]))
            extras()
        sc.start(who, "fetch", vs=r.choice([[0], [v, 0], []]))
        sc.start(who, "list", vs=r.choice([[0], [v], []]))
        sc.plant(who, "junk")
        sc.sign(who, vs, fr, ts=5)
        sc.start(who, "list")
        sc.start(who, "fetch")
        sc.node_start(who)
    return sc.s


def random_schedules(seed, num, big):
    r = vlib.rng(seed, "feerecipient-rnd")
    return [scenario(r, big) for _ in range(num)]


# ----------------------------------------------------------------------------------------------------------------------
# directed probe of deviation D1
# ----------------------------------------------------------------------------------------------------------------------
def probe_D1():
    s = [{"ev": "Cfg", "mode": "B", "n": 3, "t": 2, "nv": 1}]
    # a file that lists validator 1 twice, the OLDER registration last; the node reads it at start
    s.append({"ev": "Plant", "op": 1, "st": "ok", "regs": [{"m": M(1, 2, 1, 5), "shares": [1, 2]}, {"m": M(1, 3, 1, 3), "shares": [1, 3]}]})
    s.append({"ev": "NodeStart", "op": 1, "api": False})
    # a quorum at the API that is newer than the older and older than the newer entry: `fetch` merges it into the file
    c = 0
    for op in (1, 2):
        c += 1
        s.append({"ev": "Start", "c": c, "op": op, "kind": "sign", "vs": [1], "fr": 1, "gl": 0, "ts": 4})
        s += [{"ev": "Step", "c": c}] * 2
    s.append({"ev": "Start", "c": 3, "op": 1, "kind": "fetch", "vs": [], "fr": 0, "gl": 0, "ts": -1})
    s.append({"ev": "Step", "c": 3})
    return s


def probe_D2():
    s = [{"ev": "Cfg", "mode": "B", "n": 3, "t": 2, "nv": 1}]
    s.append({"ev": "Start", "c": 1, "op": 1, "kind": "sign", "vs": [1], "fr": 1, "gl": 0, "ts": 4})
    s += [{"ev": "Step", "c": 1}] * 2
    # the status answer to the second operator is malformed: its groups carry "message": null
    s.append({"ev": "Start", "c": 2, "op": 2, "kind": "sign", "vs": [1], "fr": 1, "gl": 0, "ts": 4})
    s += [{"ev": "Step", "c": 2, "tamper": "nullmsg"}, {"ev": "Step", "c": 2}]
    return s


def confirm_deviations(o):
    """The directed probes, each executed twice: rejected by the contract cfg and accepted by the as-coded cfg -> the deviation is
    in the tree (KNOWN-FINDING, the bulk is validated as coded); accepted by the contract -> the deviation is gone; rejected by
    both -> the regular violation path."""
    confirmed = []
    for dev, pr in (("D1", probe_D1()), ("D2", probe_D2())):
        strict, coded = cfg_with(**{dev: False}), cfg_with(**{dev: True})
        traces, sids, wall = vlib.run_schedules(o.pid, PKG, "TestExec", [pr, pr], tag="probe" + dev)
        vs = vlib.validate_traces(o.pid, FAMILY, TRACE, strict, traces)
        vd = vlib.validate_traces(o.pid, FAMILY, TRACE, coded, traces)
        o.schedules += 2
        o.traces += len(traces)
        o.trace_events += sum(len(t) for t in traces)
        o.trace_states += vs.states + vd.states
        if len(vs.rejected) not in (0, len(traces)):
            raise vlib.Infra("probe %s: the two executions of one schedule got different verdicts" % dev)
        if vs.rejected and not vd.rejected:
            _dev[dev] = True
            confirmed.append(FINDINGS[dev][0])
            o.known.append((FINDINGS[dev][0], FINDINGS[dev][1]))
        elif vs.rejected:
            _dev[dev] = False
            vlib.conformance(o, FAMILY, TRACE, strict, PKG, [pr], tag="probe_" + dev)
            if not o.violations:
                raise vlib.Infra("probe %s rejected by the contract and by the as-coded cfg, but not reproduced" % dev)
        else:
            _dev[dev] = False
            o.notes.append("deviation %s (%s) not observed on this tree: the bulk is validated against the contract" % (dev, FINDINGS[dev][0]))
        log("[%s] FeeRecipient probe %s: %d traces in %.1fs; %s" % (o.pid, dev, len(traces), wall, "confirmed" if _dev[dev] else "not observed"))
    o.extra["feerecipient_deviations_confirmed"] = confirmed


# ----------------------------------------------------------------------------------------------------------------------
# binding self-tests
# ----------------------------------------------------------------------------------------------------------------------
def mutators():
    def first(t, pred):
        for k, e in enumerate(t):
            if pred(e):
                return k
        return None

    def cmd_api(e, kind=None):
        return e["ev"] == "Api" and e["who"] == "cmd" and (kind is None or e["kind"] == kind)

    def post_ts(t):
        k = first(t, lambda e: cmd_api(e, "post") and e["parts"])
        if k is None:
            return None
        t[k]["parts"][0]["m"]["ts"] += 1
        return t

    def post_fr(t):
        k = first(t, lambda e: cmd_api(e, "post") and e["parts"])
        if k is None:
            return None
        t[k]["parts"][0]["m"]["fr"] = t[k]["parts"][0]["m"]["fr"] % 3 + 1
        return t

    def post_gl(t):
        k = first(t, lambda e: cmd_api(e, "post") and e["parts"])
        if k is None:
            return None
        t[k]["parts"][0]["m"]["gl"] = t[k]["parts"][0]["m"]["gl"] % 3 + 1
        return t

    def post_share(t):
        k = first(t, lambda e: cmd_api(e, "post") and e["parts"])
        if k is None:
            return None
        t[k]["parts"][0]["sk"] = t[k]["parts"][0]["sk"] % t[0]["n"] + 1
        return t

    def post_missing(t):
        k = first(t, lambda e: cmd_api(e, "post") and len(e["parts"]) >= 2)
        if k is None:
            return None
        t[k]["parts"] = t[k]["parts"][1:]
        return t

    def post_dropped(t):
        k = first(t, lambda e: cmd_api(e, "post"))
        if k is None:
            return None
        del t[k]
        return t

    def post_status(t):
        k = first(t, lambda e: cmd_api(e, "post") and e["f"] == "none" and e["status"] == 200)
        if k is None:
            return None
        t[k]["status"] = t[k]["code"] = 400
        return t

    def filter_other(t):
        k = first(t, lambda e: cmd_api(e, "fetch") and e["filter"])
        if k is None:
            return None
        t[k]["filter"] = []
        return t

    def result(t):
        k = first(t, lambda e: e["ev"] == "Done" and e["ok"])
        if k is None:
            return None
        t[k]["ok"] = False
        return t

    def failed_but_ok(t):
        k = first(t, lambda e: e["ev"] == "Done" and not e["ok"])
        if k is None:
            return None
        t[k]["ok"] = True
        return t

    def file_missing(t):
        k = first(t, lambda e: e["ev"] == "Done" and e["file"]["st"] == "ok" and e["file"]["regs"])
        if k is None:
            return None
        t[k]["file"]["regs"] = t[k]["file"]["regs"][1:]
        return t

    def file_bad(t):
        k = first(t, lambda e: e["ev"] == "Done" and e["file"]["st"] == "ok" and any(x["by"] == x["m"]["v"] for x in e["file"]["regs"]))
        if k is None:
            return None
        for x in t[k]["file"]["regs"]:
            if x["by"] == x["m"]["v"]:
                x["by"] = -1
                break
        return t

    def file_older(t):
        k = first(t, lambda e: e["ev"] == "Done" and e["file"]["st"] == "ok" and any(x["m"]["ts"] > 1 for x in e["file"]["regs"]))
        if k is None:
            return None
        for x in t[k]["file"]["regs"]:
            if x["m"]["ts"] > 1:
                x["m"]["ts"] -= 1
                break
        return t

    def file_on_failure(t):
        for k, e in enumerate(t):
            if e["ev"] == "Done" and not e["ok"] and e["file"]["st"] == "absent":
                e["file"] = {"st": "ok", "regs": []}
                return t
        return None

    def view_fr(t):
        k = first(t, lambda e: e["ev"] == "View")
        if k is None:
            return None
        t[k]["view"][0]["fr"] = t[k]["view"][0]["fr"] % 3 + 1
        return t

    def view_stale(t):
        # the node keeps answering what it answered before although its answer changed
        prev = {}
        for k, e in enumerate(t):
            if e["ev"] == "View":
                if e["op"] in prev and prev[e["op"]] != e["view"]:
                    e["view"] = prev[e["op"]]
                    return t
                prev[e["op"]] = e["view"]
            elif e["ev"] == "Node":
                prev.pop(e["op"], None)
        return None

    def view_unverified(t):
        k = first(t, lambda e: e["ev"] == "View" and any(x["m"]["ts"] > 0 for x in e["view"]))
        if k is None:
            return None
        for x in t[k]["view"]:
            if x["m"]["ts"] > 0:
                x["by"] = -1
                break
        return t

    def view_gl(t):
        k = first(t, lambda e: e["ev"] == "View" and any(x["m"]["ts"] > 0 for x in e["view"]))
        if k is None:
            return None
        for x in t[k]["view"]:
            if x["m"]["ts"] > 0:
                x["m"]["gl"] = x["m"]["gl"] % 3 + 1
                break
        return t

    def fetch_early(t):
        k = first(t, lambda e: e["ev"] == "Api" and e["who"] == "node" and e.get("at", 0) > 1000)
        if k is None:
            return None
        t[k]["at"] -= 60
        return t

    def fetch_interval(t):
        # the fetch that comes a day after a complete answer is reported an hour after it
        k = first(t, lambda e: e["ev"] == "Api" and e["who"] == "node" and e.get("at", 0) > 1000)
        if k is None:
            return None
        t[k]["at"] += 3600 - 86400 if t[k]["at"] > 86400 else 86400 - 3600
        return t

    def node_filter(t):
        k = first(t, lambda e: e["ev"] == "Api" and e["who"] == "node")
        if k is None:
            return None
        t[k]["filter"] = [1]
        return t

    def node_started(t):
        k = first(t, lambda e: e["ev"] == "Node" and e["act"] == "start" and not e["ok"])
        if k is None:
            return None
        t[k]["ok"] = True
        return t

    def printed_missing(t):
        k = first(t, lambda e: e["ev"] == "Done" and e.get("printed"))
        if k is None:
            return None
        t[k]["printed"] = t[k]["printed"][1:]
        return t

    def printed_source(t):
        k = first(t, lambda e: e["ev"] == "Done" and e.get("printed"))
        if k is None:
            return None
        t[k]["printed"][0]["lock"] = not t[k]["printed"][0]["lock"]
        return t

    def byz_accepted(t):
        k = first(t, lambda e: e["ev"] == "Api" and e["who"] == "byz" and e["status"] >= 400)
        if k is None:
            return None
        t[k]["status"] = t[k]["code"] = 200
        return t

    def nopart_is_error(t):
        # the 404 the client must take for an empty answer is reported as any 404
        k = first(t, lambda e: e["ev"] == "Api" and e.get("body") == "nopart")
        if k is None:
            return None
        t[k]["body"] = "other"
        return t

    return [("partial registration over another timestamp", post_ts), ("partial registration for another fee recipient", post_fr),
            ("partial registration with another gas limit", post_gl), ("partial signature by another share", post_share),
            ("a validator's partial registration missing from the post", post_missing), ("the post of a command not observed", post_dropped),
            ("an accepted post reported as refused", post_status), ("status fetch without its validator filter", filter_other),
            ("successful command reported failed", result), ("failed command reported successful", failed_but_ok),
            ("a registration missing from the overrides file", file_missing), ("an overrides entry that does not verify", file_bad),
            ("an older registration in the overrides file", file_older), ("overrides file written by a failed command", file_on_failure),
            ("the node hands out another fee recipient", view_fr), ("the node does not follow its sources", view_stale),
            ("the node answers a registration that does not verify", view_unverified), ("the node answers another gas limit", view_gl),
            ("a node fetches before it is due", fetch_early), ("1 h and 24 h fetch intervals swapped", fetch_interval),
            ("a node asks for some validators only", node_filter), ("a node that started on a bad overrides file", node_started),
            ("a validator not listed", printed_missing), ("wrong source in the listing", printed_source),
            ("a refused direct post reported as accepted", byz_accepted), ("'no partial registrations' 404 taken for an error", nopart_is_error)]


# ----------------------------------------------------------------------------------------------------------------------
CONTROLS = (("FeeRecipientMC_ctl_noApiVerify.cfg", "HeldValid", "the node keeps aggregates of the API answer without verifying them"),
            ("FeeRecipientMC_ctl_noFetchVerify.cfg", "MCFetchWritesGood", "feerecipient fetch writes aggregates without verifying them"),
            ("FeeRecipientMC_ctl_aggShort.cfg", "Unforgeable", "an aggregate of threshold-1 partial signatures passes"),
            ("FeeRecipientMC_ctl_staleWins.cfg", "MCFetchWritesGood", "a fetched registration replaces a newer one of the file"),
            ("FeeRecipientMC_ctl_noAdopt.cfg", "MCSignJoins", "sign ignores the in-progress group"),
            ("FeeRecipientMC_ctl_noValidateTs.cfg", "MCSignJoins", "sign does not validate --timestamp"),
            ("FeeRecipientMC_ctl_applyOlder.cfg", "ViewSound", "the node applies an override that is not newer than the lock's registration"),
            ("FeeRecipientMC_ctl_D1_view.cfg", "ViewNewest", "D1 as coded: a validator twice in the file, the node takes the last entry"),
            ("FeeRecipientMC_ctl_D1_api.cfg", "ViewNewest", "D1 as coded: two quorum groups of a validator in one API answer, the node takes the last"),
            ("FeeRecipientMC_ctl_D1_file.cfg", "MCFetchWritesGood", "D1 as coded: fetch drops the newer of two entries of the file"),
            ("FeeRecipientMC_ctl_live_noAdopt.cfg", "temporal", "liveness: without adoption the second operator never signs"))
QUICK_MC = ["FeeRecipientMC_core.cfg", "FeeRecipientMC_twofr.cfg", "FeeRecipientMC_byz.cfg", "FeeRecipientMC_now.cfg", "FeeRecipientMC_gas.cfg",
            "FeeRecipientMC_two.cfg", "FeeRecipientMC_bad.cfg", "FeeRecipientMC_list.cfg", "FeeRecipientMC_plant.cfg", "FeeRecipientMC_timer.cfg",
            "FeeRecipientMC_strict.cfg", "FeeRecipientMC_four.cfg", "FeeRecipientMC_live.cfg"]
THOROUGH_MC = QUICK_MC + ["FeeRecipientMC_%s_thorough.cfg" % c for c in ("core", "twofr", "byz", "two", "now", "gas", "four", "strict", "bad", "list", "timer")] + [
    "FeeRecipientMC_strict_api.cfg"]
GEN = ["core", "small", "two", "gas", "now", "list", "dup"]


def design_check(o, tier, seed):
    """Design check, the controls that MUST be violated and the schedule generation: independent TLC runs side by side."""
    from concurrent.futures import ThreadPoolExecutor
    thorough = tier == "thorough"
    mains = THOROUGH_MC if thorough else QUICK_MC
    controls = CONTROLS
    if os.environ.get("VERIF_FEEREC_NOMC"):      # mutation experiments: the design check does not depend on the tree
        mains, controls = [], ()
    n = 1200 if thorough else 120
    jobs = [("FeeRecipientGen", "FeeRecipientGen_%s.cfg" % g, dict(simulate="num=%d" % n, depth=100, seed=seed + k, workers=1)) for k, g in enumerate(GEN)]
    jobs += [("FeeRecipientMC", c, dict(workers=WORKERS or (4 if thorough else 2))) for c in mains]
    jobs += [("FeeRecipientMC", c, dict(workers=1)) for c, _, _ in controls]
    dirs = [vlib.scratch(o.pid, FAMILY) for _ in jobs]
    ex = ThreadPoolExecutor(max_workers=6 if thorough else 8)
    futs = [ex.submit(vlib.tlc, o.pid, FAMILY, j[0], j[1], timeout=1700, sdir=d, **j[2]) for j, d in zip(jobs, dirs)]
    hists = []
    for g, f in zip(GEN, futs[:len(GEN)]):
        r = f.result()
        if r.error or r.timed_out or (r.violation and r.violation != "deadlock"):
            raise vlib.Infra("schedule generation failed: %s\n%s" % (r.summary(), r.out[-2000:]))
        seen, mine = set(), []
        for p in vlib.tagged_prints(r, "SCHED"):
            if p not in seen:
                seen.add(p)
                mine.append(json.loads(p))
        if not mine:
            raise vlib.Infra("schedule generation %s: no histories" % g)
        hists.append(mine)

    def join():
        res = [f.result() for f in futs[len(GEN):]]
        ex.shutdown()
        for cfg, r in zip(mains, res):
            vlib.require_mc_ok(r, cfg)
            o.add_mc("FeeRecipient/" + cfg[:-4], r)
        for (cfg, inv, what), r in zip(controls, res[len(mains):]):
            got = r.violation or ("temporal" if "Temporal properties were violated" in r.out or "Temporal property" in r.out else None)
            if got != inv:
                raise vlib.Infra("design-spec control failed: '%s' not caught by %s: %s" % (what, inv, r.summary()))
            o.selftests.append({"control": "FeeRecipient spec variant '%s' violates %s" % (what, inv), "rejected_as_required": True})
    return hists, join


def stage(o, tier, seed):
    """Run the FeeRecipient family as a stage of a check."""
    t0 = time.time()
    thorough = tier == "thorough"
    hists, join_design = design_check(o, tier, seed)
    confirm_deviations(o)
    r = vlib.rng(seed, "feerecipient-gen")
    gen = []
    per = 400 if thorough else 25
    for hs in hists:
        r.shuffle(hs)
        gen += [from_hist(h) for h in hs[:per]]
    rnd = random_schedules(seed, 3000 if thorough else 300, thorough)
    o.extra["feerecipient_histories_by_tlc"] = len(gen)
    kw = dict(chunk=100, exec_timeout=1500, tv_timeout=1500, env={"VERIF_FEEREC_PAR": "6"})
    vlib.conformance(o, FAMILY, TRACE, cfg_of, PKG, gen, tag="frgen", **kw)
    vlib.conformance(o, FAMILY, TRACE, cfg_of, PKG, rnd, tag="frrnd", **kw)
    join_design()
    tr = []
    for tag in ("frgen", "frrnd"):
        tr += vlib.split_traces(vlib.read_ndjson(os.path.join(vlib.workdir(o.pid), "trace_%s.ndjson" % tag)))
    if not o.violations:
        ms = mutators()
        nself = len(o.selftests)
        vlib.binding_selftest(o, FAMILY, TRACE, cfg_of, tr, ms, candidates=6)
        if len(o.selftests) - nself < len(ms):
            raise vlib.Infra("FeeRecipient binding self-test: some negative control found no applicable trace")
    ev = [e for t in tr for e in t]
    starts = {}
    for e in ev:
        if e["ev"] == "Start":
            starts[e["kind"]] = starts.get(e["kind"], 0) + 1
    x = o.extra
    x["feerecipient_commands"] = starts
    x["feerecipient_traces_mode_A"] = sum(1 for t in tr if t[0].get("mode") == "A")
    x["feerecipient_traces_mode_B"] = sum(1 for t in tr if t[0].get("mode") == "B")
    x["feerecipient_api_requests"] = sum(1 for e in ev if e["ev"] == "Api")
    x["feerecipient_node_fetches"] = sum(1 for e in ev if e["ev"] == "Api" and e["who"] == "node")
    x["feerecipient_direct_posts"] = sum(1 for e in ev if e["ev"] == "Api" and e["who"] == "byz")
    x["feerecipient_posts"] = sum(1 for e in ev if e["ev"] == "Api" and e["who"] == "cmd" and e["kind"] == "post")
    x["feerecipient_faults"] = sum(1 for e in ev if e["ev"] == "Api" and e.get("f") not in (None, "none"))
    x["feerecipient_quorum_answers"] = sum(1 for e in ev if e["ev"] == "Api" and any(g["q"] for v in e.get("resp", []) for g in v["groups"]))
    x["feerecipient_views"] = sum(1 for e in ev if e["ev"] == "View")
    x["feerecipient_views_overridden"] = sum(1 for e in ev if e["ev"] == "View" and any(w["m"]["ts"] > 0 for w in e["view"]))
    x["feerecipient_reloads"] = sum(1 for e in ev if e["ev"] == "Reload")
    x["feerecipient_files_written"] = sum(1 for e in ev if e["ev"] == "Done" and e["file"]["st"] == "ok" and e["file"]["regs"])
    x["feerecipient_commands_ok"] = sum(1 for e in ev if e["ev"] == "Done" and e["ok"])
    x["feerecipient_commands_failed"] = sum(1 for e in ev if e["ev"] == "Done" and not e["ok"])
    if not o.violations and (x["feerecipient_views_overridden"] < 10 or x["feerecipient_files_written"] < 10 or x["feerecipient_reloads"] < 10):
        raise vlib.Infra("vacuous FeeRecipient run: %s" % {k: v for k, v in x.items() if k.startswith("feerecipient_")})
    log("[%s] FeeRecipient stage: %d TLC histories + %d random schedules -> %d traces (A %d, B %d), commands %s, %d API requests (%d by nodes, %d direct, "
        "%d faults, %d with a quorum), %d views (%d overridden), %d reloads, %d files written, %.0fs"
        % (o.pid, len(gen), len(rnd), len(tr), x["feerecipient_traces_mode_A"], x["feerecipient_traces_mode_B"], starts, x["feerecipient_api_requests"],
           x["feerecipient_node_fetches"], x["feerecipient_direct_posts"], x["feerecipient_faults"], x["feerecipient_quorum_answers"], x["feerecipient_views"],
           x["feerecipient_views_overridden"], x["feerecipient_reloads"], x["feerecipient_files_written"], time.time() - t0))


def main(tier="quick", seed=1, pid="GFEERECIPIENT"):
    """Stand-alone driver (the evidence file is written by checks/grow_all.py when the family is registered)."""
    vlib.workdir(pid, fresh=True)
    o = vlib.Outcome(pid, tier, seed)
    try:
        stage(o, tier, int(seed))
    except vlib.Infra as e:
        log("INFRA: %s" % e)
        return 2
    for fid, txt in o.known:
        log("KNOWN-FINDING: property=%s %s: %s" % (pid, fid, txt))
    for path, txt in o.violations:
        log("VIOLATION property=%s replay=%s" % (pid, path))
        log("  " + txt)
    if o.violations:
        return 1
    log("[%s] OK tier=%s seed=%s: %d MC states, %d traces validated, %d self-test controls, %.0fs"
        % (pid, tier, seed, o.states, o.traces, len(o.selftests), time.time() - o.t0))
    return 0


def replay(path):
    rp = json.load(open(path))
    o = vlib.Outcome(rp.get("property", "GFEERECIPIENT"), "quick", 0)
    vlib.conformance(o, FAMILY, rp["trace_module"], cfg_of, rp["pkg"], [rp["schedule"]], tag="replay")
    for p, t in o.violations:
        log("replay: " + t)
    return 1 if o.violations else 0


if __name__ == "__main__":
    import sys
    sys.exit(main(*(sys.argv[1:3] or ["quick", 1])))
