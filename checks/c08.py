"""C08 - threshold BLS: any t valid shares reproduce the group key's signature (tbls/tbls.go, tbls/herumi.go,
tbls/tblsconv/tblsconv.go).  Case-analysis property: the spec contributes the algebra (Shamir/Lagrange over GF(p),
checked exhaustively by TLC), the exhaustive enumeration of the scenario space and the oracle for the relations the
executor records on the real herumi code."""
import json
import vlib
from vlib import log

PID = "C08"
FAMILY = "ThresholdBLS"
RULE = ("case = split t-of-n (seeded secret, also 1 and r-1; CSPRNG or seeded polynomial) + a subset S of >= t shares + one "
        "substitution {none | partial made with another share's / a fresh key | partial filed under another id | partial "
        "over another message} at one position + message (32 random bytes, empty, 1000 bytes).  TLC enumerates EVERY case "
        "for n<=5 (quick) / n<=7 (thorough) by model checking ThresholdBLSGen (states = cases); n=8..10 are sampled by a "
        "seeded generator.  The executor runs each on tbls (herumi) and logs relations (recovered==secret, group pubkey "
        "recovered, aggregate==signature of the undivided key, verifies, substituted partial differs from the honest one; after "
        "every honest combination, in the same process: each partial / the aggregate / the plain BLS aggregate verified "
        "genuinely FIRST, then the same bytes against another message (replayVerifies, crossVerifies), then again "
        "(stillVerifies)); "
        "the trace spec demands the model's value of each.  evaluations = cases executed; distinct_nontrivial = distinct "
        "<n,t,S,substitution,secret kind,split mode,message kind,relations> tuples in which a substitution, if any, really "
        "changed the partial (seeds are NOT part of the tuple, so re-runs of a case with other secrets do not count)")
ASSUMPTIONS = [
    "BLS is abstracted in the exponent (pk = sk, Sign(sk,h) = sk*h) for the algebra TLC checks over GF(5), GF(7), GF(11); a "
    "substituted combination verifies only for the 1/p fraction of polynomials where the substituted point happens to lie "
    "on the curve (TLC counts exactly that fraction) - taken as never for the 255-bit field",
    "shares are addressed by rank in the sorted id list ThresholdSplit returns (n pairwise distinct ids demanded, not 1..n)",
    "fewer than t shares, t > n and t < 2 are outside the statement and not exercised",
    "whether a substituted combination is refused by ThresholdAggregate or only by Verify is left open",
    "verification is taken to be a pure function of (public key, message, signature): the replay relations are checked "
    "within one executor process (8 workers share it), genuine verification always first",
]


def enumerate_cases(cfg):
    r = vlib.tlc(PID, FAMILY, "ThresholdBLSGen", cfg, workers=1, timeout=2700)
    if not r.ok:
        raise vlib.Infra("case enumeration failed: %s\n%s" % (r.summary(), r.out[-2000:]))
    cases = [json.loads(p) for p in vlib.tagged_prints(r, "SCHED")]
    if len(cases) != len({json.dumps(c, sort_keys=True) for c in cases}) or not cases:
        raise vlib.Infra("case enumeration: duplicate or no cases")
    return cases, r


def decorate(case, secret, mode, msg):
    out = []
    for st in case:
        st = dict(st)
        if st["ev"] == "Split":
            st["secret"], st["mode"] = secret, mode
        if st["ev"] == "Combine":
            st["msg"] = msg
            if msg.get("kind") == "pfx":     # successive combinations: same 32-byte prefix, another tail each time
                msg = dict(msg, tail=msg["tail"] + 1)
        out.append(st)
    return out


def seeded(r):
    return {"kind": "rand", "seed": r.randrange(1, 2 ** 40)}


def decorate_all(cases, seed, reps, salt):
    r = vlib.rng(seed, "c08" + salt)
    out = []
    for c in cases:
        for _ in range(reps):
            out.append(decorate(c, seeded(r), "csprng" if r.random() < 0.8 else "seeded", seeded(r)))
    return out


def special(cases, seed, k):
    """corner secrets / messages on a seeded selection of the enumerated cases"""
    r = vlib.rng(seed, "c08special")
    out = []
    for c in r.sample(cases, min(k, len(cases))):
        sec = r.choice([{"kind": "one"}, {"kind": "max"}, seeded(r)])
        msg = r.choice([{"kind": "empty", "seed": 0}, {"kind": "long", "seed": r.randrange(1, 2 ** 40)},
                        {"kind": "pfx", "seed": r.randrange(1, 2 ** 40), "tail": r.randrange(1, 90)},
                        {"kind": "pfx", "seed": r.randrange(1, 2 ** 40), "tail": r.randrange(1, 90)}])
        out.append(decorate(c, sec, r.choice(["csprng", "seeded"]), msg))
    return out


def after_failure(cases, seed, k):
    """An honest case preceded, in the same schedule (same process), by a combination with a substituted partial - in
    particular one that makes ThresholdAggregate FAIL (junk): the honest combination that follows must be unaffected."""
    r = vlib.rng(seed, "c08after")
    honest = [c for c in cases if any(e["ev"] == "Combine" and e["sub"]["kind"] == "none" for e in c)]
    out = []
    for c in r.sample(honest, min(k, len(honest))):
        split = next(e for e in c if e["ev"] == "Split")
        n, t = split["n"], split["t"]
        steps, extras = [], []
        for e in c:
            if e["ev"] == "Combine":
                for _ in range(r.choice([1, 1, 2])):
                    S1 = sorted(r.sample(range(1, n + 1), r.randint(t, n)))
                    pos = r.choice(S1)
                    kind = r.choice(["junk", "junk", "junk", "share", "msg"])
                    sub = {"kind": kind, "pos": pos, "arg": r.choice([0, 1]) if kind == "junk" else 0}
                    steps.append({"ev": "Combine", "S": S1, "sub": sub})
            steps.append(dict(e))
            if e["ev"] == "Combine" and e["sub"]["kind"] == "none" and r.random() < 0.7:
                # ... and FOLLOWED by combinations of the very same partial signatures (same subset, same message) in which
                # one is filed under another index / comes from another share: what the honest combination left behind in
                # the process must not answer for them
                S0 = list(e["S"])
                for _ in range(r.choice([1, 2])):
                    pos = r.choice(S0)
                    free = [j for j in range(1, n + 2) if j not in S0]
                    kind = r.choice(["index", "index", "share"])
                    arg = r.choice(free) if kind == "index" else r.choice([j for j in range(0, n + 1) if j != pos])
                    extras.append({"ev": "Combine", "S": S0, "sub": {"kind": kind, "pos": pos, "arg": arg}})
        steps += extras     # at the end: a Replay step belongs right behind its honest combination
        out.append(decorate(steps, seeded(r), r.choice(["csprng", "seeded"]), seeded(r)))
    return out


def sampled(seed, k):
    """n = 8..10: seeded sample of the same case space"""
    r = vlib.rng(seed, "c08big")
    out = []
    for _ in range(k):
        n = r.randint(8, 10)
        t = r.randint(2, n)
        size = r.choice([t, t, min(n, t + 1), r.randint(t, n), n])
        S = sorted(r.sample(range(1, n + 1), size))
        kind = r.choice(["none", "none", "share", "index", "msg", "junk"])
        pos = r.choice(S)
        if kind == "none":
            sub = {"kind": "none", "pos": 0, "arg": 0}
        elif kind == "share":
            sub = {"kind": "share", "pos": pos, "arg": r.choice([j for j in range(0, n + 1) if j != pos])}
        elif kind == "index":
            sub = {"kind": "index", "pos": pos, "arg": r.choice([j for j in range(1, n + 2) if j not in S])}
        elif kind == "junk":
            sub = {"kind": "junk", "pos": pos, "arg": r.choice([0, 1])}
        else:
            sub = {"kind": "msg", "pos": pos, "arg": 0}
        case = [{"ev": "Split", "n": n, "t": t}]
        if kind == "none":
            case.append({"ev": "Recover", "S": S})
        case.append({"ev": "Combine", "S": S, "sub": sub})
        if kind == "none":
            case.append({"ev": "Replay"})
        out.append(decorate(case, seeded(r), r.choice(["csprng", "csprng", "seeded"]), seeded(r)))
    return out


def key(trace):
    """what makes two executed cases the same: the case and its relations, not the seeds; None-op substitutions (the
    executor reports altered=false for a substitution) never count"""
    k = []
    for e in trace:
        e = {x: y for x, y in e.items() if x != "sid"}
        for f in ("secret", "msg"):
            if isinstance(e.get(f), dict):
                e[f] = e[f].get("kind")
        k.append(e)
    return k


def nontrivial(trace):
    for e in trace:
        if e.get("ev") == "Combine" and e["sub"]["kind"] != "none" and not e.get("altered"):
            return False
    return any(e.get("ev") == "Combine" for e in trace)


def mutators():
    def ev(t, name):
        for e in t:
            if e.get("ev") == name:
                return e
        return None

    def flip_verifies_honest(t):
        e = ev(t, "Combine")
        if e and e["sub"]["kind"] == "none":
            e["verifiesAll"] = False
            return t

    def flip_verifies_subst(t):
        e = ev(t, "Combine")
        if e and e["sub"]["kind"] != "none":
            e["verifiesAny"] = True
            return t

    def agg_differs(t):
        e = ev(t, "Combine")
        if e and e["sub"]["kind"] == "none":
            e["aggEqAll"] = False
            return t

    def wrong_secret(t):
        e = ev(t, "Recover")
        if e:
            e["secretEq"] = False
            return t

    def wrong_pub(t):
        e = ev(t, "Recover")
        if e:
            e["pubEq"] = False
            return t

    def drop_split(t):
        for i, e in enumerate(t):
            if e.get("ev") == "Split":
                del t[i]
                return t

    def too_few(t):
        e = ev(t, "Combine")
        s = ev(t, "Split")
        if e and s and e["sub"]["kind"] == "none" and len(e["S"]) == s["t"]:
            e["S"] = e["S"][:-1]
            return [x for x in t if x.get("ev") != "Recover"]

    def dup_id(t):
        s = ev(t, "Split")
        if s and len(s["ids"]) >= 2:
            s["ids"][1] = s["ids"][0]
            return t

    def noop_subst(t):
        e = ev(t, "Combine")
        if e and e["sub"]["kind"] != "none":
            e["altered"] = False
            return t
    def replay_accepted(t):
        e = ev(t, "Replay")
        if e:
            e["replayVerifies"] = True
            return t

    def cross_accepted(t):
        e = ev(t, "Replay")
        if e:
            e["crossVerifies"] = True
            return t

    def forgotten(t):
        e = ev(t, "Replay")
        if e:
            e["stillVerifies"] = False
            return t
    return [("a verified signature verifies for another message", replay_accepted),
            ("a verified signature verifies for another verified signature's message", cross_accepted),
            ("a signature no longer verifies after the replay attempt", forgotten),
            ("honest combination does not verify", flip_verifies_honest),
            ("substituted combination verifies", flip_verifies_subst),
            ("honest aggregate differs from the direct signature", agg_differs),
            ("recovered secret differs", wrong_secret), ("recovered group key differs", wrong_pub),
            ("Split event dropped", drop_split), ("combination of fewer than t shares", too_few),
            ("split returns a repeated id", dup_id), ("substitution was a no-op", noop_subst)]


def run(tier, seed):
    o = vlib.Outcome(PID, tier, seed)
    thorough = tier == "thorough"
    # stage 0: the algebra, exhaustively over small fields (states = cases), and two controls that MUST be violated
    cfgs = ["ThresholdBLSMC_p5.cfg", "ThresholdBLSMC_p7.cfg", "ThresholdBLSMC_p11.cfg"]
    if thorough:
        cfgs += ["ThresholdBLSMC_p7t4.cfg", "ThresholdBLSMC_p7n5.cfg", "ThresholdBLSMC_p11n5.cfg", "ThresholdBLSMC_p11n6.cfg"]
    for cfg in cfgs:
        r = vlib.tlc(PID, FAMILY, "ThresholdBLSMC", cfg, timeout=1700)
        vlib.require_mc_ok(r, cfg)
        o.add_mc(cfg[:-4], r)
    for cfg, what in (("ThresholdBLSMC_ctl_running.cfg", "interpolation over a running index instead of the map key"),
                      ("ThresholdBLSMC_ctl_deser.cfg", "Verify accepting whatever deserialises")):
        r = vlib.tlc(PID, FAMILY, "ThresholdBLSMC", cfg, timeout=600)
        if r.violation != "Algebra":
            raise vlib.Infra("design-spec control failed: '%s' not caught: %s" % (what, r.summary()))
        o.selftests.append({"control": "spec variant '%s' violates Algebra" % what, "rejected_as_required": True})
    # stage 1: the scenario space, enumerated by TLC; seeds, corner secrets/messages and n = 8..10 added here
    cases, g = enumerate_cases("ThresholdBLSGen_thorough.cfg" if thorough else "ThresholdBLSGen_quick.cfg")
    o.extra["cases_enumerated_by_tlc"] = len(cases)
    o.extra["exhaustive_upto_n"] = 7 if thorough else 5
    enum = decorate_all(cases, seed, 2 if thorough else 1, "enum")
    spec = special(cases, seed, 3000 if thorough else 300)
    big = sampled(seed, 6000 if thorough else 500)
    aft = after_failure(cases, seed, 1500 if thorough else 200)
    # stage 2+3
    kw = dict(key=key, chunk=500)
    vlib.conformance(o, FAMILY, "ThresholdBLSTrace", "ThresholdBLSTrace.cfg", "c08", enum, tag="enum", **kw)
    vlib.conformance(o, FAMILY, "ThresholdBLSTrace", "ThresholdBLSTrace.cfg", "c08", spec, tag="special", **kw)
    vlib.conformance(o, FAMILY, "ThresholdBLSTrace", "ThresholdBLSTrace.cfg", "c08", big, tag="sampled", **kw)
    vlib.conformance(o, FAMILY, "ThresholdBLSTrace", "ThresholdBLSTrace.cfg", "c08", aft, tag="afterfail", **kw)
    # distinct_nontrivial: recount over the recorded traces, leaving out no-op substitutions
    keys = set()
    all_tr = []
    for tag in ("enum", "special", "sampled"):
        tr = vlib.split_traces(vlib.read_ndjson(vlib.workdir(PID) + "/trace_%s.ndjson" % tag))
        all_tr += tr
        for t in tr:
            if nontrivial(t):
                keys.add(vlib.digest(key(t)))
    o.distinct_keys = keys
    # binding negative controls on recorded traces
    ms = mutators()
    vlib.binding_selftest(o, FAMILY, "ThresholdBLSTrace", "ThresholdBLSTrace.cfg", all_tr, ms)
    if len(o.selftests) < 2 + len(ms) and not o.violations:
        raise vlib.Infra("binding self-test: some negative control found no applicable trace")
    return vlib.finish(o, "exploration", RULE, ASSUMPTIONS)


def replay(path):
    rp = json.load(open(path))
    o = vlib.Outcome(PID, "quick", 0)
    vlib.conformance(o, FAMILY, rp["trace_module"], rp["trace_cfg"], rp["pkg"], rp.get("context") or [rp["schedule"]], tag="replay")
    for p, t in o.violations:
        log("replay: " + t)
    return 1 if o.violations else 0
