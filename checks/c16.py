"""C16 - duty deadlines are reported exactly once, never early, never for late adds (core/deadline.go)."""
import vlib
from vlib import log

FAMILY = "Deadliner"
RULE = ("schedules = sequences of Add(duty)/Advance(n)/Read over duties [id,dl] (dl=-1: never expires); generated (a) by "
        "TLC simulation of DeadlinerGen and (b) by a seeded random generator (many duties per deadline, registrations "
        "exactly at / after the deadline, re-registrations, output channel overflow); executed on core.NewDeadlinerForT "
        "with a fake clock; distinct = distinct recorded traces")


def random_schedules(seed, n, big):
    r = vlib.rng(seed, "c16")
    out = []
    for i in range(n):
        kind = r.choice(["mixed", "mixed", "samedl", "overflow", "equal", "late"])
        nd = r.randint(2, 8)
        maxdl = r.randint(1, 6)
        duties = [{"id": "d%d" % k, "dl": r.randint(0, maxdl)} for k in range(nd)]
        if r.random() < 0.5:
            duties.append({"id": "x", "dl": -1})
        if kind == "samedl":
            dl = r.randint(1, 4)
            duties = [{"id": "s%d" % k, "dl": dl} for k in range(r.randint(3, 9 if not big else 40))]
        if kind == "overflow":
            dl = r.randint(1, 3)
            duties = [{"id": "o%d" % k, "dl": dl + (k % 2)} for k in range(r.randint(11, 14))]
        steps = []
        now = 0
        L = r.randint(6, 30 if not big else 60)
        if kind in ("samedl", "overflow"):
            for d in duties:
                steps.append({"ev": "Add", "d": d})
            r.shuffle(steps)
        for _ in range(L):
            x = r.random()
            if x < 0.45:
                d = r.choice(duties)
                if kind == "equal" and r.random() < 0.5 and d["dl"] >= now and d["dl"] > 0:
                    # move the clock exactly to the deadline first, then register (again)
                    if d["dl"] > now:
                        steps.append({"ev": "Advance", "by": d["dl"] - now})
                        now = d["dl"]
                steps.append({"ev": "Add", "d": d})
            elif x < 0.7:
                by = r.randint(1, 3)
                steps.append({"ev": "Advance", "by": by})
                now += by
            else:
                if kind == "overflow" and r.random() < 0.7:
                    continue
                steps.append({"ev": "Read"})
        # drain
        steps.append({"ev": "Advance", "by": maxdl + 5})
        for _ in range(r.randint(0, len(duties) + 1)):
            steps.append({"ev": "Read"})
        out.append(steps)
    return out


def mutators():
    def flip_status(t):
        for e in t:
            if e.get("ev") == "Add" and e["d"]["dl"] >= 0:
                e["res"] = "Expired" if e["res"] == "Scheduled" else "Scheduled"
                # only a control if the answer was not at the equality instant (where both are allowed)
                return t
        return None

    def wrong_read(t):
        for e in t:
            if e.get("ev") == "Read" and e["got"]["id"] != "none":
                e["got"] = {"id": "zz", "dl": e["got"]["dl"]}
                return t
        return None

    def drop_advance(t):
        seen_read = False
        for i, e in enumerate(t):
            if e.get("ev") == "Advance":
                # drop an Advance that is followed by a successful read
                for f in t[i + 1:]:
                    if f.get("ev") == "Read" and f["got"]["id"] != "none":
                        del t[i]
                        return t
                return None
        return None

    def early_report(t):
        # pretend a duty was read before any clock advance
        for i, e in enumerate(t):
            if e.get("ev") == "Add" and e["d"]["dl"] > 0 and e.get("res") == "Scheduled":
                t.insert(i + 1, {"ev": "Read", "got": e["d"]})
                return t[:i + 2]
        return None
    return [("status flipped", flip_status), ("read value replaced", wrong_read),
            ("Advance event dropped", drop_advance), ("early report inserted", early_report)]


def run(tier, seed):
    o = vlib.Outcome("C16", tier, seed)
    thorough = tier == "thorough"
    # stage 0: design check
    r = vlib.tlc("C16", FAMILY, "DeadlinerMC", "DeadlinerMC.cfg" if thorough else "DeadlinerMC_quick.cfg",
                 timeout=1500, coverage=False)
    vlib.require_mc_ok(r, "DeadlinerMC")
    o.add_mc("DeadlinerMC" + ("" if thorough else "_quick"), r)
    r = vlib.tlc("C16", FAMILY, "DeadlinerMC", "DeadlinerMC_live.cfg", timeout=900)
    vlib.require_mc_ok(r, "DeadlinerMC_live")
    o.add_mc("DeadlinerMC_live", r)
    # the pinned tree's expiry test (ExpireAtEqual="no") must be caught by the design spec: guards against a
    # vacuous AtMostOnce
    r = vlib.tlc("C16", FAMILY, "DeadlinerMC", "DeadlinerMC_ascoded.cfg", timeout=600)
    if r.violation != "Safety":
        raise vlib.Infra("design-spec control failed: 'deadline.Before(now)' variant not caught: " + r.summary())
    o.selftests.append({"control": "spec variant ExpireAtEqual=no violates AtMostOnce", "rejected_as_required": True})
    # stage 1: schedules
    scheds, g = vlib.gen_schedules("C16", FAMILY, "DeadlinerGen", "DeadlinerGen.cfg", num=400 if thorough else 60,
                                   depth=40, seed=seed, limit=6000 if thorough else 800)
    rnd = random_schedules(seed, 3000 if thorough else 400, thorough)
    # stage 2+3
    vlib.conformance(o, FAMILY, "DeadlinerTrace", "DeadlinerTrace.cfg", "c16", scheds, tag="tlcgen")
    vlib.conformance(o, FAMILY, "DeadlinerTrace", "DeadlinerTrace.cfg", "c16", rnd, tag="random")
    # binding negative controls on recorded traces
    tr = vlib.split_traces(vlib.read_ndjson(vlib.workdir("C16") + "/trace_random.ndjson"))
    vlib.binding_selftest(o, FAMILY, "DeadlinerTrace", "DeadlinerTrace.cfg", tr, mutators())
    return vlib.finish(o, "model_checking", RULE,
                       ["fake clock (clockwork.FakeClock) stands in for real time; quiescence = sentinel Add answered and one armed fake-clock waiter",
                        "a duty registered exactly at its deadline may be answered Scheduled or Expired (the property is silent)",
                        "output channel capacity K=10 as in the code; DropOnFull modelled as a named deviation"])


def replay(path):
    import json
    rp = json.load(open(path))
    o = vlib.Outcome("C16", "quick", 0)
    vlib.conformance(o, FAMILY, rp["trace_module"], rp["trace_cfg"], rp["pkg"], [rp["schedule"]], tag="replay")
    for p, t in o.violations:
        log("replay: " + t)
    return 1 if o.violations else 0
