"""C16 - duty deadlines are reported exactly once, never early, never for late adds (core/deadline.go)."""
import vlib
from vlib import log

FAMILY = "Deadliner"
RULE = ("schedules = sequences of Add(duty)/Advance(n)/Read/RaceAdd(n, duty: the clock advances and the registration arrives while the "
        "run goroutine is held inside the deadline function, so that elapsed timer and input are ready together) over duties [id,dl] (dl=-1: never expires); generated (a) by "
        "TLC simulation of DeadlinerGen and (b) by a seeded random generator (many duties per deadline, registrations "
        "exactly at / after the deadline, re-registrations, output channel overflow); executed on core.NewDeadlinerForT "
        "with a fake clock; distinct = distinct recorded traces")


def random_schedules(seed, n, big):
    r = vlib.rng(seed, "c16")
    out = []
    for i in range(n):
        kind = r.choice(["mixed", "mixed", "samedl", "overflow", "equal", "late", "race", "race"])
        nd = r.randint(2, 8)
        maxdl = r.randint(1, 6)
        duties = [{"id": "d%d" % k, "dl": r.randint(0, maxdl)} for k in range(nd)]
        if r.random() < 0.5:
            duties.append({"id": "x", "dl": -1})
        if kind == "samedl":
            dl = r.randint(1, 4)
            duties = [{"id": "s%d" % k, "dl": dl} for k in range(r.randint(3, 9 if not big else 40))]
        if kind == "overflow":
            dl = r.randint(1, 3)
            duties = [{"id": "o%d" % k, "dl": dl + (k % 2)} for k in range(r.randint(11, 14))]
        steps = []
        now = 0
        L = r.randint(6, 30 if not big else 60)
        if kind in ("samedl", "overflow"):
            for d in duties:
                steps.append({"ev": "Add", "d": d})
            r.shuffle(steps)
        for _ in range(L):
            x = r.random()
            if kind == "race" and x < 0.3:
                # the clock passes the deadline of a duty (often one that is pending) while the run goroutine is busy and
                # the duty is registered (again) in that window: RaceAdd = Advance + Add without quiescence in between
                d = r.choice(duties)
                by = max(1, d["dl"] - now + r.choice([0, 0, 0, 1])) if d["dl"] >= now else r.randint(1, 2)
                if r.random() < 0.7 and d["dl"] > now:
                    steps.append({"ev": "Add", "d": d})
                steps.append({"ev": "RaceAdd", "by": by, "d": r.choice([d, d, r.choice(duties)])})
                now += by
            elif x < 0.45:
                d = r.choice(duties)
                if kind == "equal" and r.random() < 0.5 and d["dl"] >= now and d["dl"] > 0:
                    # move the clock exactly to the deadline first, then register (again)
                    if d["dl"] > now:
                        steps.append({"ev": "Advance", "by": d["dl"] - now})
                        now = d["dl"]
                steps.append({"ev": "Add", "d": d})
            elif x < 0.7:
                by = r.randint(1, 3)
                steps.append({"ev": "Advance", "by": by})
                now += by
            else:
                if kind == "overflow" and r.random() < 0.7:
                    continue
                steps.append({"ev": "Read"})
        # in a third of the schedules time passes while the run goroutine is left ALONE in its select (no sentinel
        # registration after the clock step): what it remembers from its last iteration is then older than the clock
        if i % 3 == 1:
            for st in steps:
                if st["ev"] == "Advance":
                    st["quiet"] = True
        elif i % 3 == 2:
            for st in steps:
                if st["ev"] == "Advance" and r.random() < 0.5:
                    st["quiet"] = True
        # drain
        steps.append({"ev": "Advance", "by": maxdl + 5})
        for _ in range(r.randint(0, len(duties) + 1)):
            steps.append({"ev": "Read"})
        out.append(steps)
    return out


def with_races(r, scheds, p=0.5):
    """TLC-generated schedules: an Advance directly followed by an Add becomes, with probability p, a RaceAdd (the model
    lets a due timer fire any time later; the executor realises that order only through the gate)."""
    out = []
    for s in scheds:
        t, i = [], 0
        while i < len(s):
            if i + 1 < len(s) and s[i]["ev"] == "Advance" and s[i + 1]["ev"] == "Add" and r.random() < p:
                t.append({"ev": "RaceAdd", "by": s[i]["by"], "d": s[i + 1]["d"]})
                i += 2
            else:
                t.append(dict(s[i], quiet=True) if s[i]["ev"] == "Advance" and r.random() < 0.4 else s[i])
                i += 1
        out.append(t)
    return out


def control_traces():
    """Negative controls for the binding: hand-made traces, each one event away from a valid one (the valid base is
    checked too: it must be accepted).  Deterministic, so the self-test cannot depend on what the random schedules
    happened to contain."""
    a = {"id": "a", "dl": 2}
    b = {"id": "b", "dl": 3}
    none = {"id": "none", "dl": 1000000}
    base = [{"ev": "Reset", "sid": 0}, {"ev": "Add", "d": a, "res": "Scheduled"}, {"ev": "Add", "d": b, "res": "Scheduled"},
            {"ev": "Advance", "by": 2}, {"ev": "Read", "got": a}, {"ev": "Read", "got": none}, {"ev": "Advance", "by": 1},
            {"ev": "Read", "got": b}, {"ev": "Add", "d": a, "res": "Expired"}]

    def edit(i, **kw):
        t = [dict(e) for e in base]
        t[i].update(kw)
        return t
    bad = [
        ("status flipped (Scheduled -> Expired before the deadline)", edit(1, res="Expired")),
        ("status flipped (Expired -> Scheduled after the deadline)", edit(8, res="Scheduled")),
        ("read value replaced", edit(4, got={"id": "zz", "dl": 2})),
        ("Advance event dropped (a report before its deadline)", base[:3] + base[4:]),
        ("early report inserted", base[:2] + [{"ev": "Read", "got": a}]),
        ("report order swapped", edit(4, got=b)),
        ("missing report (C() empty although a deadline passed)", edit(4, got=none)),
    ]
    return base, bad


def run(tier, seed):
    o = vlib.Outcome("C16", tier, seed)
    thorough = tier == "thorough"
    # stage 0: design check
    r = vlib.tlc("C16", FAMILY, "DeadlinerMC", "DeadlinerMC.cfg" if thorough else "DeadlinerMC_quick.cfg",
                 timeout=1500, coverage=False)
    vlib.require_mc_ok(r, "DeadlinerMC")
    o.add_mc("DeadlinerMC" + ("" if thorough else "_quick"), r)
    r = vlib.tlc("C16", FAMILY, "DeadlinerMC", "DeadlinerMC_live.cfg", timeout=900)
    vlib.require_mc_ok(r, "DeadlinerMC_live")
    o.add_mc("DeadlinerMC_live", r)
    # the pinned tree's expiry test (ExpireAtEqual="no") must be caught by the design spec: guards against a
    # vacuous AtMostOnce
    r = vlib.tlc("C16", FAMILY, "DeadlinerMC", "DeadlinerMC_ascoded.cfg", timeout=600)
    if r.violation != "Safety":
        raise vlib.Infra("design-spec control failed: 'deadline.Before(now)' variant not caught: " + r.summary())
    o.selftests.append({"control": "spec variant ExpireAtEqual=no violates AtMostOnce", "rejected_as_required": True})
    # stage 1: schedules
    scheds, g = vlib.gen_schedules("C16", FAMILY, "DeadlinerGen", "DeadlinerGen.cfg", num=400 if thorough else 60,
                                   depth=40, seed=seed, limit=6000 if thorough else 800)
    scheds = with_races(vlib.rng(seed, "c16races"), scheds)
    rnd = random_schedules(seed, 3000 if thorough else 400, thorough)
    # stage 2+3
    vlib.conformance(o, FAMILY, "DeadlinerTrace", "DeadlinerTrace.cfg", "c16", scheds, tag="tlcgen")
    vlib.conformance(o, FAMILY, "DeadlinerTrace", "DeadlinerTrace.cfg", "c16", rnd, tag="random")
    # binding negative controls (deterministic hand-made traces: the base must be accepted, every corruption rejected)
    base, bad = control_traces()
    v = vlib.validate_traces("C16", FAMILY, "DeadlinerTrace", "DeadlinerTrace.cfg", [base] + [t for _, t in bad])
    rejected = {i for i, _, _ in v.rejected}
    if 0 in rejected:
        raise vlib.Infra("binding self-test: the valid base trace was rejected")
    for k, (name, _) in enumerate(bad):
        ok = (k + 1) in rejected
        o.selftests.append({"control": name, "rejected_as_required": ok})
        if not ok:
            raise vlib.Infra("binding self-test failed: corrupted trace (%s) was accepted by DeadlinerTrace" % name)
    return vlib.finish(o, "model_checking", RULE,
                       ["fake clock (clockwork.FakeClock) stands in for real time; quiescence = sentinel Add answered and one armed fake-clock waiter",
                        "a duty registered exactly at its deadline may be answered Scheduled or Expired (the property is silent)",
                        "output channel capacity K=10 as in the code; DropOnFull modelled as a named deviation"])


def replay(path):
    import json
    rp = json.load(open(path))
    o = vlib.Outcome("C16", "quick", 0)
    vlib.conformance(o, FAMILY, rp["trace_module"], rp["trace_cfg"], rp["pkg"], [rp["schedule"]], tag="replay")
    for p, t in o.violations:
        log("replay: " + t)
    return 1 if o.violations else 0
