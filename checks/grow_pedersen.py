"""GROWTH family "Pedersen" of C11 - the Pedersen path of the key generation ceremony (dkg/pedersen/dkg.go RunDKG / makeNodes /
processKey / readBoardChannel, board.go Board, config.go; drand/kyber share/dkg in FastSync mode; dkg.Run selects it with
def.DKGAlgorithm == "pedersen").

specs/Pedersen/Pedersen.tla transcribes one ceremony: per validator, one after the other over one shared board, an
independent sharing (deal -> response -> result), the board's one-message-per-peer collection (bundle de-duplication, the
n-slot share channel, readBoardChannel's per-collection de-duplication and counting), the final exchange of the validator
public-key shares; result per node = group key, own share, all public shares; algebra over GF(p) in the exponent.
TLC (a) checks C11's relations on the spec for every polynomial of a small field / every interleaving of deliveries and
node steps and refutes them for the control variants, (b) generates ceremony schedules (any delivery order, re-deliveries,
slow nodes); the executor runs every schedule on n goroutines executing the real pedersen.RunDKG over an in-memory libp2p
host inside testing/synctest and logs which packets appeared, which nodes returned and relations computed with real tbls
calls over every subset of exactly t and of exactly t-1 nodes; TLC validates every trace against the spec.

Not a registered check: `stage(o, tier, seed)` runs the family as an extra stage of C11 (the Outcome `o` collects coverage
and violations); `main(tier, seed)` is a stand-alone driver, `replay(path)` re-runs a replay file."""
import json, os, time
import vlib
from vlib import log

FAMILY = "Pedersen"
PKG = "pedersen"
TRACE = "PedersenTrace"
TCFG = "PedersenTrace.cfg"
DEV = []   # C11-pedersen-stale-share was repaired by a fix: commit in /repo; a fixed finding has no deviation
PRIMES = [11, 13, 17, 31]

RULE = ("Pedersen stage: schedules = one ceremony each: (n in 3..6, t in 2..n - below, at and above ceil(2n/3) -, V in 1..3) + the "
        "environment's moves Start(i) / deliver deal bundle, response bundle, validator public-key-share message i->j of "
        "validator v, first deliveries in every order the protocol allows and re-deliveries (any bundle at any time; a share "
        "message while the receiver still collects that validator or after it returned); generated (a) by TLC simulation of "
        "PedersenGen (n<=5 quick, n<=6 thorough), (b) by a seeded generator of structured orders (lock-step, reversed, "
        "straggler = slow node, sprinter, random; with re-deliveries), (c) dedicated probes: one share message re-delivered "
        "after the receiver completed that validator's collection (tells the required behaviour from the code as written: known "
        "finding C11-pedersen-stale-share); executed on n goroutines running the unmodified pedersen.RunDKG with real boards and "
        "real reliable broadcast over an in-memory libp2p host under testing/synctest; every ceremony ends with relations over "
        "ALL subsets of exactly t nodes and subsets of exactly t-1 nodes computed with real tbls calls")
ASSUMPTIONS = [
    "Pedersen stage: algebra abstraction as in the FROST stage (everything in the exponent over GF(p); the oracle is the RELATION; "
    "the model polynomials are a witness chosen by the schedule, the real nodes draw their own); kyber's ECIES encryption of the "
    "dealt shares, the BLS authentication of bundles and the session nonce are not modelled (honest nodes: they verify)",
    "Pedersen stage: all nodes are honest; the node public keys travel over the reliable broadcast (C13) and are delivered at once; "
    "no timeout fires (virtual time stands still while a schedule runs: kyber's time phaser, the board's collection timeout "
    "and p2p's 5 s receive timeout play no part), so complaints, justifications and evictions do not occur; a message that "
    "reaches a busy node waits (handler blocked / channel slot) exactly like a message still in flight; resharing "
    "(reshare.go) is not covered",
    "Pedersen stage: nodes run eagerly between two stimuli (exact quiescence through testing/synctest); a slow node is modelled "
    "by late deliveries to it (PedersenMC checks the free interleaving of node steps and deliveries for n=3)",
    "Pedersen stage: re-deliveries in the bulk schedules are those on which the required behaviour (an identical re-delivery is "
    "dropped) and the code as written agree; a re-delivered validator public-key-share message that arrives after the "
    "receiver completed that validator is exercised by dedicated probes and reported as known finding "
    "C11-pedersen-stale-share until pending_fixes/C11-pedersen-stale-share.diff is applied (a re-delivery that fills the n-slot "
    "share channel of a slow node before its own push blocks that node forever: liveness, observation only, "
    "harness/pedersen/repro_test.go TestShareChannelFullHang; same repair)",
    "Pedersen stage design check (quick): all polynomials of two nodes (two of the third) for p=5,n=3,t=2,V=1 in canonical order, and "
    "ALL interleavings of starts, deliveries and node steps (a node may be arbitrarily slow) for n=3, t in {2,3}, V in {1,2} with one "
    "polynomial vector per node; thorough: all polynomials for p=7,t=2 and (two nodes) p=5,t=3; all interleavings with two polynomial "
    "vectors per node; n=4 (t in {2,3}, V in {1,2}) with eager nodes; re-deliveries are stuttering steps under the required "
    "behaviour; the code as written is checked without re-deliveries (holds) and with one (controls: Agreement violated / deadlock)",
]
CONTROLS = [("PedersenMC_ctl_stale.cfg", "Agreement",
             "share messages untagged, de-duplicated per collection only (as coded) + one re-delivery: stale share taken for the next validator"),
            ("PedersenMC_ctl_hang.cfg", "deadlock",
             "as coded + one re-delivery: the n-slot share channel of a slow node is full when it pushes its own entry"),
            ("PedersenMC_ctl_raise.cfg", "AnyTRecover", "configured threshold silently raised to ceil(2n/3)"),
            ("PedersenMC_ctl_peeridx.cfg", "KeyedByShareIdx", "public shares keyed by peer index (share index - 1)"),
            ("PedersenMC_ctl_countmsgs.cfg", "KeyedByShareIdx", "collection counts messages instead of distinct peers")]


# ----------------------------------------------------------------------------------------------
# seeded schedule generator: a simulator of the spec's enabling conditions (nodes run eagerly)
# ----------------------------------------------------------------------------------------------
class Sim:
    """mode 'dedup' = required (an identical re-delivery of a share message is dropped by the board), 'ascoded' = it is queued."""

    def __init__(self, n, nv, mode="dedup"):
        self.n, self.nv, self.mode = n, nv, mode
        N = range(1, n + 1)
        self.phase = {i: "idle" for i in N}
        self.cur = {i: 0 for i in N}
        self.deal = {i: set() for i in N}
        self.resp = {i: set() for i in N}
        self.queue = {i: [] for i in N}
        self.shdel = {i: set() for i in N}
        self.seen = {i: set() for i in N}
        self.stuck = False

    def running(self, i):
        return self.phase[i] in ("deal", "resp", "coll", "done")

    def dealt(self, i, v):
        return self.running(i) and self.cur[i] >= v

    def responded(self, i, v):
        return self.running(i) and (self.cur[i] > v or (self.cur[i] == v and self.phase[i] != "deal"))

    def shared(self, i, v):
        return self.running(i) and (self.cur[i] > v or (self.cur[i] == v and self.phase[i] in ("coll", "done")))

    def first(self):
        """first deliveries and starts that are possible now"""
        N = range(1, self.n + 1)
        mv = [("Start", 0, i, i, 0) for i in N if self.phase[i] == "idle"]
        for i in N:
            for j in N:
                if i == j:
                    continue
                for v in range(self.nv):
                    if self.dealt(i, v) and (i, v) not in self.deal[j]:
                        mv.append(("D", 1, i, j, v))
                    if self.responded(i, v) and (i, v) not in self.resp[j]:
                        mv.append(("D", 2, i, j, v))
                    if self.shared(i, v) and (i, v) not in self.shdel[j] and len(self.queue[j]) < self.n:
                        mv.append(("D", 4, i, j, v))
        return mv

    def harmless_re(self):
        """re-deliveries on which required behaviour and code as written agree"""
        N = range(1, self.n + 1)
        mv = []
        for j in N:
            for (i, v) in self.deal[j]:
                mv.append(("D", 1, i, j, v))
            for (i, v) in self.resp[j]:
                mv.append(("D", 2, i, j, v))
            for (i, v) in self.shdel[j]:
                if (self.phase[j] == "coll" and self.cur[j] == v and i in self.seen[j]) or \
                        (self.phase[j] == "done" and len(self.queue[j]) < self.n - 1):
                    mv.append(("D", 4, i, j, v))
        return mv

    def apply(self, m):
        ev, k, i, j, v = m
        if ev == "Start":
            assert self.phase[i] == "idle"
            self.phase[i] = "keys"
        elif k == 1:
            assert self.dealt(i, v), "deal bundle not sent yet"
            self.deal[j].add((i, v))
        elif k == 2:
            assert self.responded(i, v), "response bundle not sent yet"
            self.resp[j].add((i, v))
        else:
            assert self.shared(i, v), "share message not sent yet"
            if (i, v) not in self.shdel[j]:
                assert len(self.queue[j]) < self.n
                self.shdel[j].add((i, v))
                self.queue[j].append((i, v))
            elif self.mode == "ascoded":
                assert len(self.queue[j]) < self.n, "re-delivery into a full channel"
                self.queue[j].append((i, v))
        self.settle()

    def settle(self):
        N = range(1, self.n + 1)
        progress = True
        while progress:
            progress = False
            for j in N:
                others = [i for i in N if i != j]
                ph, v = self.phase[j], self.cur[j]
                if ph == "keys" and all(self.phase[k] != "idle" for k in N):
                    self.phase[j], self.cur[j] = "deal", 0
                elif ph == "deal" and all((i, v) in self.deal[j] for i in others):
                    self.phase[j] = "resp"
                elif ph == "resp" and all((i, v) in self.resp[j] for i in others):
                    if len(self.queue[j]) >= self.n:
                        self.stuck = True          # the own push blocks forever
                        continue
                    self.queue[j].append((j, v))
                    self.phase[j], self.seen[j] = "coll", set()
                elif ph == "coll" and self.queue[j]:
                    src, _ = self.queue[j].pop(0)
                    if src not in self.seen[j]:
                        self.seen[j].add(src)
                    if len(self.seen[j]) == self.n:
                        self.seen[j] = set()
                        if v + 1 < self.nv:
                            self.phase[j], self.cur[j] = "deal", v + 1
                        else:
                            self.phase[j] = "done"
                else:
                    continue
                progress = True

    def all_done(self):
        return all(p == "done" for p in self.phase.values())


def step_of(m, c=None):
    ev, k, i, j, v = m
    if ev == "Start":
        return {"ev": "Start", "i": i, "c": c}
    return {"ev": "D", "k": k, "i": i, "j": j, "v": v}


def witness(r, p, t, nv):
    return [[r.randrange(p) for _ in range(t)] for _ in range(nv)]


KINDS = ["random", "lockstep", "reverse", "straggler", "sprinter", "valrace"]


def ceremony(r, n, t, nv, kind, seed, re_prob=0.06, max_re=4):
    p = r.choice([q for q in PRIMES if q > n])
    sim = Sim(n, nv)
    steps = [{"ev": "Cfg", "n": n, "t": t, "V": nv, "p": p, "seed": seed, "kind": kind}]
    special = r.randint(1, n)
    nre = 0
    while True:
        en = sim.first()
        if not en:
            break
        re = sim.harmless_re() if nre < max_re else []
        if re and r.random() < re_prob:
            m = r.choice(re)
            nre += 1
        else:
            tgt = lambda x: x[3]                                   # the node the move makes progress for
            stage = lambda x: (x[4], x[1])                         # validator, then deal < response < share
            if kind == "random":
                m = r.choice(en)
            elif kind == "lockstep":      # phase by phase, random order inside a phase
                s = min(stage(x) for x in en)
                m = r.choice([x for x in en if stage(x) == s])
            elif kind == "reverse":       # phase by phase, highest receiver first
                s = min(stage(x) for x in en)
                m = max([x for x in en if stage(x) == s], key=lambda x: (tgt(x), x[2]))
            elif kind == "straggler":     # a slow node: everything that does not serve it first
                rest = [x for x in en if tgt(x) != special]
                m = r.choice(rest) if rest else r.choice(en)
            elif kind == "sprinter":      # whatever lets one node run ahead first
                mine = [x for x in en if tgt(x) == special or x[0] == "Start"]
                m = r.choice(mine) if mine else r.choice(en)
            elif kind == "valrace":       # the furthest validator first: nodes spread over two validators
                s = max(stage(x) for x in en)
                m = r.choice([x for x in en if stage(x) == s])
            else:
                raise ValueError(kind)
        sim.apply(m)
        steps.append(step_of(m, witness(r, p, t, nv) if m[0] == "Start" else None))
    assert sim.all_done() and not sim.stuck
    return steps


def thresholds(r, n):
    """below, at and above ceil(2n/3), the extremes"""
    d = (2 * n + 2) // 3
    return [x for x in {2, d - 1, d, d + 1, n, r.randint(2, n)} if 2 <= x <= n]


def random_schedules(seed, count):
    r = vlib.rng(seed, "pedrnd")
    out = []
    for k in range(count):
        n = [3, 4, 4, 5, 5, 6][k % 6] if k % 7 else r.randint(3, 6)
        t = r.choice(thresholds(r, n))
        nv = r.choice([1, 2, 2, 3]) if n < 6 else r.choice([1, 2])
        out.append(ceremony(r, n, t, nv, KINDS[k % len(KINDS)], seed))
    return out


def corner_schedules(seed):
    """thresholds below the default (a configured threshold must not be raised), at it and at n"""
    r = vlib.rng(seed, "pedcorner")
    return [ceremony(r, 4, 2, 2, "lockstep", seed), ceremony(r, 5, 2, 1, "random", seed), ceremony(r, 6, 3, 1, "straggler", seed),
            ceremony(r, 6, 6, 1, "reverse", seed), ceremony(r, 3, 3, 3, "valrace", seed), ceremony(r, 5, 3, 2, "sprinter", seed)]


def from_tlc(scheds, seed):
    out = []
    for s in scheds:
        cfg = dict(s[0])
        cfg.update({"seed": seed, "kind": "tlc"})
        out.append([cfg] + list(s[1:]))
    return out


def probe(r, n, t, nv, variant, seed):
    """One share message (i -> j, validator v) is re-delivered after j completed the collection of v:
    variant 'coll'  while j collects validator v+1 and has counted everybody but i (i's genuine message follows at once)
    variant 'early' while j still runs the DKG of validator v+1 (the copy waits in the share channel).
    The schedule is a valid behaviour of BOTH the required spec and the code as written."""
    assert nv >= 2
    p = r.choice([q for q in PRIMES if q > n])
    v = r.randrange(nv - 1)
    i, j = r.sample(range(1, n + 1), 2)
    while True:
        wit = {k: witness(r, p, t, nv) for k in range(1, n + 1)}
        # i's public shares of validators v and v+1 must differ in the model too (the relation is the oracle)
        sh = lambda vv: sum(sum(c * pow(i, e, p) for e, c in enumerate(wit[k][vv])) for k in wit) % p
        if sh(v) != sh(v + 1):
            break
    sims = [Sim(n, nv, "dedup"), Sim(n, nv, "ascoded")]
    steps = [{"ev": "Cfg", "n": n, "t": t, "V": nv, "p": p, "seed": seed, "kind": "probe-" + variant, "probe": [i, j, v]}]

    def do(m):
        for s in sims:
            s.apply(m)
        steps.append(step_of(m, wit[m[2]] if m[0] == "Start" else None))

    def run_until(cond, skip=lambda m: False):
        while not cond():
            en = [m for m in sims[0].first() if not skip(m)]
            en2 = set(sims[1].first())
            en = [m for m in en if m in en2]
            assert en, "probe construction stuck"
            s = min((m[4], m[1]) for m in en)
            do(r.choice([m for m in en if (m[4], m[1]) == s]))

    d = sims[0]
    if variant == "coll":
        # everything but i's share message of validator v+1 for j; j ends up collecting v+1 with only i missing
        hold = lambda m: m == ("D", 4, i, j, v + 1) or m[4] > v + 1
        run_until(lambda: d.phase[j] == "coll" and d.cur[j] == v + 1 and len(d.seen[j]) == n - 1 and d.shared(i, v + 1), hold)
        do(("D", 4, i, j, v))            # the re-delivery
        do(("D", 4, i, j, v + 1))        # the genuine message
    else:
        # j has completed validator v and still deals / responds for validator v+1
        run_until(lambda: d.cur[j] == v + 1 and d.phase[j] in ("deal", "resp"), lambda m: m[4] > v + 1 or (m[4] == v + 1 and m[1] > 1 and m[3] == j))
        do(("D", 4, i, j, v))            # the re-delivery: waits in j's share channel
        # j finishes its DKG before any genuine share message of v+1 reaches it, then i's genuine message first
        run_until(lambda: d.phase[j] == "coll" and d.cur[j] == v + 1 and d.shared(i, v + 1),
                  lambda m: m[4] > v + 1 or (m[1] == 4 and m[4] == v + 1 and m[3] == j))
        do(("D", 4, i, j, v + 1))
    run_until(lambda: d.all_done())
    assert all(s.all_done() and not s.stuck for s in sims)
    return steps


def probe_schedules(seed, thorough):
    """quick: one probe (the variant alternates with the seed); thorough: both variants over several sizes"""
    r = vlib.rng(seed, "pedprobe")
    todo = [(3, 2, 2, "coll"), (4, 3, 2, "early"), (5, 2, 3, "coll"), (3, 3, 3, "early"), (6, 4, 2, "coll")] if thorough \
        else [[(3, 2, 2, "coll"), (4, 2, 2, "early"), (4, 3, 3, "coll")][seed % 3]]
    out = []
    for (n, t, nv, variant) in todo:
        for attempt in range(50):
            try:
                out.append(probe(r, n, t, nv, variant, seed))
                break
            except AssertionError:      # the drawn order ran the as-coded model into a full share channel: draw again
                continue
        else:
            raise vlib.Infra("probe construction failed")
    return out


# ----------------------------------------------------------------------------------------------
# binding negative controls
# ----------------------------------------------------------------------------------------------
def mutators():
    def find(t, ev, pred=lambda e: True):
        for i, e in enumerate(t):
            if e.get("ev") == ev and pred(e):
                return i, e
        return None, None

    def chk(t):
        return find(t, "Check")[1]

    def gk_differs(t):
        e = chk(t)
        if e:
            e["gkeq"][-1] = False
            return t

    def ps_differs(t):
        e = chk(t)
        if e:
            e["pseq"][0] = False
            return t

    def own_mismatch(t):
        e = chk(t)
        if e:
            e["own"][-1][-1] = False
            return t

    def subset_fails(t):
        e = chk(t)
        if e and e["subs"]:
            e["subs"][-1]["sig"] = False
            return t

    def recover_fails(t):
        e = chk(t)
        if e and e["subs"]:
            e["subs"][0]["rec"] = False
            return t

    def below_signs(t):
        e = chk(t)
        if not e:
            return None
        p = t[0]["p"]
        for b in e["below"]:
            lead = sum(s["c"][b["v"]][-1] for s in t if s.get("ev") == "Start") % p
            if lead != 0:
                b["sig"] = True
                return t

    def pskeys_shifted(t):
        e = chk(t)
        if e:
            e["pskeys"][0][0] = [k - 1 for k in e["pskeys"][0][0]]
            return t

    def result_missing(t):
        e = chk(t)
        if e:
            e["nres"][0] -= 1
            return t

    def silent_response(t):
        # the delivery that completes a node's deals: the response bundle did not go out
        _, e = find(t, "D", lambda e: e["k"] == 1 and any(m[0] == 2 for m in e["sent"]))
        if e:
            e["sent"] = [m for m in e["sent"] if m[0] != 2]
            return t

    def early_response(t):
        # a response bundle goes out before the last deal bundle is in
        _, e = find(t, "D", lambda e: e["k"] == 1 and not e["sent"])
        if e:
            e["sent"] = [[2, e["j"], x, e["v"]] for x in range(1, t[0]["n"] + 1) if x != e["j"]]
            return t

    def share_for_wrong_validator(t):
        _, e = find(t, "D", lambda e: any(m[0] == 4 for m in e["sent"]))
        if e:
            e["sent"] = [[m[0], m[1], m[2], m[3] + 1] if m[0] == 4 else m for m in e["sent"]]
            return t

    def returns_early(t):
        # a node returns although its last collection lacks a peer
        _, e = find(t, "D", lambda e: e["k"] == 4 and not e["done"] and not e["sent"])
        if e:
            e["done"] = [e["j"]]
            return t

    def redelivery_counts(t):
        # a re-delivered message has an effect
        seen = set()
        for e in t:
            if e.get("ev") != "D":
                continue
            key = (e["k"], e["i"], e["j"], e["v"])
            if key in seen and not e["sent"]:
                e["sent"] = [[4, e["j"], x, e["v"]] for x in range(1, t[0]["n"] + 1) if x != e["j"]]
                return t
            seen.add(key)

    def never_sent(t):
        _, e = find(t, "D")
        if e:
            e["found"] = False
            return t

    def node_failed(t):
        i, e = find(t, "D", lambda e: e["done"])
        if e:
            e["failed"], e["done"] = e["done"], []
            return t

    def subset_omitted(t):
        e = chk(t)
        if e and len(e["subs"]) > 1:
            del e["subs"][-1]
            return t

    def check_dropped(t):
        i, e = find(t, "Check")
        if e:
            del t[i]
            return t

    def delivery_dropped(t):
        i, e = find(t, "D", lambda e: e["sent"])
        if e:
            del t[i]
            return t
    return [("group keys differ between nodes", gk_differs), ("public shares differ between nodes", ps_differs),
            ("own secret share does not match its public share", own_mismatch),
            ("a t-subset's aggregate does not verify", subset_fails), ("a t-subset's public shares do not recover the key", recover_fails),
            ("t-1 shares sign", below_signs), ("public shares keyed from 0", pskeys_shifted), ("a node returned fewer results", result_missing),
            ("response bundle not sent when the last deal arrived", silent_response), ("response bundle sent before the last deal", early_response),
            ("share message attributed to the next validator", share_for_wrong_validator), ("node returned before its collection was complete", returns_early),
            ("a re-delivered message had an effect", redelivery_counts), ("delivered packet was never sent", never_sent),
            ("RunDKG returned an error", node_failed), ("a t-subset was not examined", subset_omitted), ("Check event dropped", check_dropped), ("a delivery event dropped", delivery_dropped)]


# ----------------------------------------------------------------------------------------------
def design_check_start(o, tier):
    """design check + the controls that MUST be violated: independent TLC runs, started side by side in the background
    (the executor and the trace validation run meanwhile); returns a function that waits for them and records the results"""
    from concurrent.futures import ThreadPoolExecutor
    thorough = tier == "thorough"
    mcs = (["PedersenMC.cfg", "PedersenMC_t3.cfg", "PedersenMC_free.cfg", "PedersenMC_n4.cfg", "PedersenMC_nodup_ascoded.cfg"] if thorough
           else ["PedersenMC_quick.cfg", "PedersenMC_order_quick.cfg"])
    jobs = [(cfg, None, None) for cfg in mcs] + list(CONTROLS)
    dirs = [vlib.scratch(o.pid, FAMILY) for _ in jobs]          # vlib.scratch is not thread-safe: all of them now
    big = max(4, vlib.NCPU // 2)

    def one(k):
        cfg, inv, _ = jobs[k]
        return vlib.tlc(o.pid, FAMILY, "PedersenMC", cfg, workers=big if inv is None else 2, timeout=1700, sdir=dirs[k])
    ex = ThreadPoolExecutor(max_workers=3 if thorough else len(jobs))
    futs = [ex.submit(one, k) for k in range(len(jobs))]

    def finish():
        results = [f.result() for f in futs]
        ex.shutdown()
        for (cfg, inv, what), r in zip(jobs, results):
            if inv is None:
                vlib.require_mc_ok(r, cfg)
                o.add_mc(cfg[:-4], r)
            elif r.violation != inv:
                raise vlib.Infra("Pedersen design-spec control failed: '%s' not caught by %s: %s" % (what, inv, r.summary()))
            else:
                o.selftests.append({"control": "Pedersen spec variant '%s' violates %s" % (what, inv), "rejected_as_required": True})
    return finish


def stage(o, tier, seed):
    """Run the Pedersen family as an extra stage of C11."""
    t0 = time.time()
    thorough = tier == "thorough"
    design_done = design_check_start(o, tier)
    try:
        g, _ = vlib.gen_schedules(o.pid, FAMILY, "PedersenGen", "PedersenGen_thorough.cfg" if thorough else "PedersenGen.cfg",
                                  num=200 if thorough else 30, depth=500, seed=seed, limit=200 if thorough else 30)
        gen = from_tlc(g, seed)
        rnd = random_schedules(seed, 300 if thorough else 30) + corner_schedules(seed)
        kw = dict(chunk=40 if thorough else 5, exec_timeout=1500, tv_timeout=900, dev_cfgs=DEV)
        vlib.conformance(o, FAMILY, TRACE, TCFG, PKG, gen + rnd, tag="ped_main", **kw)
        nk = len(o.known)
        vlib.conformance(o, FAMILY, TRACE, TCFG, PKG, probe_schedules(seed, thorough), tag="ped_probe", **kw)
        o.extra["pedersen_probe_reports_known_finding"] = len(o.known) > nk
        if not o.violations:
            tr = [t for t in vlib.split_traces(vlib.read_ndjson(os.path.join(vlib.workdir(o.pid), "trace_ped_main.ndjson")))
                  if t and t[-1].get("ev") == "Check"]
            tr.sort(key=lambda t: (t[0]["V"] < 2, len(t)))
            ms = mutators()
            nself = len(o.selftests)
            vlib.binding_selftest(o, FAMILY, TRACE, TCFG, tr, ms)
            if len(o.selftests) - nself < len(ms):
                raise vlib.Infra("Pedersen binding self-test: some negative control found no applicable trace")
    finally:
        design_done()
    o.extra["pedersen_ceremonies"] = len(gen) + len(rnd)
    o.notes.append(RULE)
    log("[%s] Pedersen stage: %d TLC-generated + %d seeded ceremonies + probes, %.0fs" % (o.pid, len(gen), len(rnd), time.time() - t0))


def main(tier="quick", seed=1, pid="GPED"):
    """Stand-alone driver (no evidence file is written: the family is registered as a stage of C11)."""
    vlib.workdir(pid, fresh=True)
    o = vlib.Outcome(pid, tier, seed)
    try:
        stage(o, tier, int(seed))
    except vlib.Infra as e:
        log("INFRA: %s" % e)
        return 2
    for fid, txt in o.known:
        log("KNOWN-FINDING: property=%s %s: %s" % (pid, fid, txt))
    for path, txt in o.violations:
        log("VIOLATION property=%s replay=%s" % (pid, path))
        log("  " + txt)
    if o.violations:
        return 1
    log("[%s] OK tier=%s seed=%s: %d MC states, %d traces validated, %d self-test controls, %.0fs"
        % (pid, tier, seed, o.states, o.traces, len(o.selftests), time.time() - o.t0))
    return 0


def replay(path):
    rp = json.load(open(path))
    o = vlib.Outcome(rp.get("property", "GPED"), "quick", 0)
    vlib.conformance(o, FAMILY, rp["trace_module"], rp["trace_cfg"], rp["pkg"], [rp["schedule"]], tag="replay", dev_cfgs=DEV)
    for p, t in o.violations:
        log("replay: " + t)
    return 1 if o.violations else 0
