"""GROWTH family "Inclusion" - core/tracker/inclusion.go (InclusionChecker / inclusionCore): Submitted of proposals (plain,
blinded, synthetic), attestations and aggregates under the key (duty, pubkey); the per-second loop of Run (one check per slot
InclCheckLag = 6 slots behind the clock, retried while the beacon node fails, the snapshot of validator indices for the attester
duties query); CheckBlock / CheckBlockAndAtts (inclusion by aggregation bits per committee, Phase0 and Electra layouts, merged
duplicates); Trim after InclMissedLag = 32 slots; the reports (log records with inclusion / broadcast delay, tracker callback
InclusionChecked) -- and the wiring core.WithTracking (Broadcaster edge -> Submitted) as far as Submitted's contract goes.

Not a registered check: `stage(o, tier, seed)` runs the family as a stage (the Outcome `o` collects coverage and violations);
`main(tier, seed)` is a stand-alone driver, `replay(path)` re-runs a replay file."""
import json, os, time
import vlib
from vlib import log

FAMILY = "Inclusion"
PKG = "inclusion"
TRACE = "InclusionTrace"
STRICT = "InclusionTrace.cfg"
ASCODED = "InclusionTrace_ascoded.cfg"
WORKERS = int(os.environ.get("VERIF_TLC_WORKERS", "0")) or None
CHECK_LAG, MISSED_LAG = 6, 32

RULE = ("Inclusion family: a schedule = a world (attestation_inclusion on/off, duties cache on/off, 2..12 s slots, start slot and "
        "second, slots per epoch, 1..3 committees per slot with sizes 1..9 varying by slot, the attester duty table, per slot the "
        "block the beacon node serves -- none (404 plain / wrapped), nil, found, empty, attestations of several slots / roots / "
        "committee subsets / duplicates --, failures of each beacon-node call per ticker second) + Submitted calls (proposals plain / "
        "blinded / synthetic of 3 forks, attestations and aggregates of 5 forks, sets of 1..3 validators, re-submissions, invalid "
        "data, untracked duty types) at a virtual time or from inside a beacon-node call of the loop, directly or (every fifth "
        "schedule) through the Broadcaster edge of core.Wire + core.WithTracking with a broadcaster that may fail; generated (a) by TLC "
        "simulation of InclusionGen (history variable, lags 6 / 32 as in the code) and (b) by a seeded random generator aiming at "
        "the window ends (block at duty+32 / +33), epoch boundaries, byte boundaries of the bitlists, stale index snapshots; "
        "executed on the real tracker.NewInclusion + Run inside testing/synctest; every trace validated by InclusionTrace.tla "
        "(contract cfg for worlds the generator marks clean, as-coded cfg with the named deviations F1..F7 otherwise)")
ASSUMPTIONS = [
    "testing/synctest virtual time stands in for real time; beacon-node calls take no time (the ticker of Run never skips a second)",
    "the reports are observed where production sends them: the tracker callback handed to NewInclusion and the JSON log records of "
    "reportMissed / reportAttInclusion / CheckBlock (the prometheus gauges are not read)",
    "the beacon node lists all committees of a slot in index order and a submitted attestation names a committee that exists; "
    "attestations with the same data root have aggregation bits of the same length (Bitlist.Or would fail the whole check)",
    "the checker starts at slot >= InclCheckLag + InclMissedLag (no uint64 wrap-around) except in the directed probe of F6",
    "a block carries attestations of earlier slots only; the beacon committees the node lists seat the cluster's validators where the "
    "attester duty table says (the contract's 'validator's bit' is the seat at the attestation's slot)",
    "contract where the doc comments are silent: a proposal without block may be reported missed at the check of its slot (flag off) or "
    "by Trim (flag on); a slot whose check the beacon node failed for a whole slot is never checked again; a later submission under "
    "the same (duty, pubkey) replaces the earlier one without a report; a submission made after its block was checked is reported missed",
    "map-iteration order of Go is not controlled: the trace spec accepts every order of the reports of one critical section and "
    "(F3) every order of the committee map; which entries of a failed Submitted call were stored is inferred by TLC",
]

FINDINGS = {
    "F1": ("GROW-INCLUSION-missed-proposal-ok", "InclusionTrace_F1.cfg",
           "attestation_inclusion off: when no block exists at a submitted proposal's slot CheckBlock logs 'never included on-chain' and "
           "counts a miss but calls the tracker with err = nil, so the tracker books the duty as included on chain"),
    "F2": ("GROW-INCLUSION-check-error-is-included", "InclusionTrace_F2.cfg",
           "CheckBlockAndAtts: an error of checkAttestationInclusion / checkAggregationInclusion (no attester duty for the validator, "
           "bitlists of different length) is logged and then falls through to 'Report inclusion and trim': the submission is reported "
           "included whatever the aggregation bits say"),
    "F3": ("GROW-INCLUSION-electra-bits-layout", "InclusionTrace_F3.cfg",
           "Electra: checkBlockAndAtts rebuilds an attestation's aggregation bits by appending the per-committee bitlists BYTEWISE (each "
           "with its length bit) in Go map order, sizes them by the last attestation slot of the block and offsets the validator by the "
           "first one's committees: with more than one committee per slot the verdict is wrong and differs from run to run"),
    "F4": ("GROW-INCLUSION-duty-of-block-epoch", "InclusionTrace_F4.cfg",
           "Electra: the validator's position in its committee is taken from the attester duty of the epoch of the BLOCK being checked, "
           "not of the attestation: an attestation of the last slots of an epoch included in the next epoch is looked up at the "
           "validator's position of the next epoch's duty (false 'never included' / false 'included')"),
    "F6": ("GROW-INCLUSION-early-chain-underflow", "InclusionTrace_F6.cfg",
           "Run computes slot - InclCheckLag and slot - InclMissedLag in uint64: during the first 38 slots of a chain the Trim bound wraps "
           "around and every stored submission is reported 'never included' at the next tick"),
    "F7": ("GROW-INCLUSION-empty-block-is-no-block", "InclusionTrace_F7.cfg",
           "attestation_inclusion on: a block without attestations is treated like a missing block, the proposal that produced it is "
           "reported 'never included' 32 slots later"),
}


# ----------------------------------------------------------------------------------------------------------------------
# schedule vocabulary
# ----------------------------------------------------------------------------------------------------------------------
def ent(pk, kind, ver="electra", r=0, v=-1, comm=0, pos=0, size=0, bits=(), blinded=False, synth=False):
    return {"pk": pk, "kind": kind, "ver": ver, "r": r, "v": v, "comm": comm, "pos": pos, "size": size, "bits": sorted(bits),
            "blinded": blinded, "synth": synth}


def onchain(ver, r, aslot, cbits, bits, length, dindex=0):
    return {"ver": ver, "r": r, "aslot": aslot, "dindex": dindex, "cbits": sorted(cbits), "bits": sorted(bits), "len": length}


def sub(typ, slot, ents, at=None, hook=None, bcast="ok"):
    s = {"ev": "Sub", "typ": typ, "slot": slot, "ents": ents, "bcast": bcast}
    if hook is not None:
        s["in"] = hook
    else:
        s["at"] = at
    return s


def cfg(flag, tps, start, off, spe, end, sizes, duty=None, blocks=None, blk=None, duterr=(), comerr=(), dcache=False, tag="dirty", wire=False):
    return {"ev": "Cfg", "flag": flag, "dcache": dcache, "wire": wire, "tps": tps, "start": start, "off": off, "spe": spe, "end": end, "sizes": sizes,
            "duty": duty or {}, "blocks": {str(k): v for k, v in (blocks or {}).items()}, "blk": {str(k): v for k, v in (blk or {}).items()},
            "duterr": sorted(duterr), "comerr": [list(x) for x in comerr], "tag": tag}


def first_tick(s, tps, start, off):
    """the ticker second at which the loop first checks slot s"""
    return max(1, (s + CHECK_LAG - start) * tps - off)


def el(ver):
    return ver in ("electra", "fulu")


def layout(sizes, cb):
    """full aggregation bits of an Electra attestation: cb = {committee: positions}; returns (cbits, bits, len)"""
    bits, off = [], 0
    for c in sorted(cb):
        bits += [off + p for p in cb[c]]
        off += sizes[c]
    return sorted(cb), bits, off


# ----------------------------------------------------------------------------------------------------------------------
# (a) histories of InclusionGen
# ----------------------------------------------------------------------------------------------------------------------
GEN_WORLDS = {  # must agree with InclusionGen.tla
    "off": dict(flag=False, off=0, sizes=[[2]], duty=lambda ep, v: None),
    "on1": dict(flag=True, off=0, sizes=[[2]], duty=lambda ep, v: [ep * 4, 0, v - 1]),
    "on2": dict(flag=True, off=1, sizes=[[3, 2], [2, 3]], duty=lambda ep, v: [ep * 4, v - 1, (ep + v) % 2]),
}
GEN_MAXTICK = 89


def ent_of(d):
    if d["typ"] == "attester":
        return ent(d["pk"], "att", r=d["r"], v=d["v"], comm=d["comm"], pos=d["pos"], size=d["size"])
    if d["typ"] == "aggregator":
        return ent(d["pk"], "agg", r=d["r"], comm=d["comm"], bits=d["bits"], size=d["size"])
    if d["typ"] == "proposer" and d["valid"]:
        return ent(d["pk"], "prop", blinded=d["blinded"], synth=d["synth"])
    return ent(d["pk"], "sig")


def from_hist(world, hist):
    w = GEN_WORLDS[world]
    duty = {}
    for ep in range(6, 26):
        row = {str(v): w["duty"](ep, v) for v in (1, 2)}
        if row["1"] is not None:
            duty[str(ep)] = row
    blk, duterr, comerr, steps, n_at = {}, [], [], [], {}
    for e in hist:
        if e["ev"] == "Blk":
            a = e["ans"]
            blk[e["tick"]] = {"kind": a["kind"], "atts": [onchain("electra", x["r"], x["aslot"], x["cbits"], x["bits"], x["len"]) for x in a["atts"]]}
        elif e["ev"] == "Dut" and e["err"]:
            duterr.append(e["tick"])
        elif e["ev"] == "Com" and e["err"]:
            comerr.append((e["tick"], e["state"]))
        elif e["ev"] == "Sub":
            d = e["d"]
            if e["q"] == "":
                n_at[e["tick"]] = n_at.get(e["tick"], 0) + 1
                steps.append(sub(d["typ"], d["slot"], [ent_of(d)], at=e["tick"] * 1000 + 400 + 10 * n_at[e["tick"]]))
            else:
                steps.append(sub(d["typ"], d["slot"], [ent_of(d)], hook={"q": e["q"], "tick": e["tick"], "state": e["state"]}))
    return [cfg(w["flag"], 2, 40, w["off"], 4, GEN_MAXTICK, w["sizes"], duty=duty, blk=blk, duterr=duterr, comerr=comerr, tag="dirty")] + steps


# ----------------------------------------------------------------------------------------------------------------------
# (b) seeded random schedules
# ----------------------------------------------------------------------------------------------------------------------
def slot_time(r, slot, tps, start, off, lo=0, hi=None):
    """a time (ms, never on a ticker second) inside [slot + lo, slot + hi) slots"""
    hi = lo + 1 if hi is None else hi
    a = ((slot - start) * tps - off) * 1000
    t = a + r.randint(lo * tps * 1000, hi * tps * 1000 - 1)
    t = max(t, 0)
    if t % 1000 == 0:
        t += r.choice([1, 250, 500, 999])
    return t


def random_off(r, big):
    """attestation_inclusion off: proposals only"""
    tps = r.choice([2, 2, 3, 4, 12 if big else 3])
    start, off = r.randint(40, 70), r.randint(0, tps - 1)
    clean = r.random() < 0.35
    steps, blocks, blk = [], {}, {}
    slots = sorted(r.sample(range(start + 1, start + 9), r.choice([1, 2, 3, 4])))
    pks = ["a", "b", "c"]
    dirty = False
    for p in slots:
        ents = []
        for pk in r.sample(pks, r.choice([1, 1, 2])):
            ents.append(ent(pk, "prop", ver=r.choice(["deneb", "electra", "fulu"]), blinded=r.random() < 0.4, synth=r.random() < 0.15))
        late = r.random() < 0.08
        at = slot_time(r, p, tps, start, off, lo=7 if late else -1, hi=9 if late else 2)
        steps.append(sub("proposer", p, ents, at=at))
        if r.random() < 0.2:      # broadcast again (the same key: replaces), possibly the other flavour
            steps.append(sub("proposer", p, [ent(ents[0]["pk"], "prop", ver="electra", blinded=r.random() < 0.5)], at=at + r.choice([7, 300, 2500])))
        k0 = first_tick(p, tps, start, off)
        how = r.choice(["found", "found", "none", "nil", "none_wrapped", "errs", "err1"]) if not clean else r.choice(["found", "found", "errs", "err1"])
        if how == "errs":         # the beacon node fails for the whole slot: never checked
            for k in range(k0, k0 + tps):
                blk[k] = {"kind": "err"}
            blocks[p] = {"kind": "found"}
        elif how == "err1":
            for k in range(k0, k0 + r.randint(1, tps - 1)):
                blk[k] = {"kind": "err"}
            blocks[p] = {"kind": "found" if clean else r.choice(["found", "none"])}
            dirty |= blocks[p]["kind"] != "found"
        else:
            blocks[p] = {"kind": how}
            dirty |= how != "found"
        if any(not e["synth"] for e in ents) is False:
            pass
    # a block at a slot nobody proposed for, duty types that are not tracked, invalid data
    for _ in range(r.choice([0, 1, 2])):
        blocks.setdefault(r.randint(start - 6, start + 12), {"kind": r.choice(["found", "nil", "none_wrapped"])})
    if r.random() < 0.5:
        typ = r.choice(["attester", "aggregator", "randao", "sync_message", "builder_proposer", "exit", "sync_contribution"])
        e = ent("a", r.choice(["att", "sig", "prop"]), r=1, v=3, size=2)
        steps.append(sub(typ, r.choice(slots), [e], at=slot_time(r, slots[0], tps, start, off)))
    if r.random() < 0.3:
        steps.append(sub("proposer", r.choice(slots) + r.choice([0, 20]), [ent("d", "sig")] + ([ent("e", "prop")] if r.random() < 0.5 else []),
                         at=slot_time(r, slots[0], tps, start, off, lo=0, hi=3)))
        dirty = dirty or len(steps[-1]["ents"]) > 1 and blocks.get(steps[-1]["slot"], {"kind": "none"})["kind"] != "found"
    if r.random() < 0.3:          # a proposal handed in from inside the block query of its own slot / the slot before
        p = r.choice(slots)
        q = r.choice([p, p - 1])
        steps.append(sub("proposer", p, [ent("h", "prop", blinded=r.random() < 0.5)], hook={"q": "Blk", "tick": first_tick(q, tps, start, off), "state": 0}))
        if blocks.get(p, {"kind": "none"})["kind"] != "found" and str(first_tick(p, tps, start, off)) not in map(str, blk):
            dirty = True
        if blocks.get(p, {"kind": "none"})["kind"] != "found":
            dirty = True
    end = (max(s["slot"] for s in steps) + MISSED_LAG + CHECK_LAG + 2 - start) * tps
    end = min(end, (start + 8 + 20 + MISSED_LAG + CHECK_LAG - start) * tps)
    tag = "dirty" if dirty or not clean else "clean"
    return [cfg(False, tps, start, off, r.choice([4, 8, 32]), end, [[2]], blocks=blocks, blk=blk, tag=tag)] + steps


def random_on(r, big):
    """attestation_inclusion on"""
    tps = r.choice([2, 2, 2, 3, 4, 12 if big else 2])
    start, off = r.randint(40, 70), r.randint(0, tps - 1)
    spe = r.choice([4, 8, 8, 32])
    clean = r.random() < 0.4
    fam_el = r.random() < 0.75
    ver = r.choice(["electra", "fulu"]) if fam_el else r.choice(["deneb", "deneb", "capella", "phase0", "altair", "bellatrix"])
    vals = r.sample([11, 12, 13, 14, 15], r.choice([1, 2, 2, 3, 4]))
    if clean and fam_el:
        n = r.choice([k for k in (2, 3, 4, 5, 7, 8, 9) if k >= len(vals)])
        sizes = [[n]]
    else:
        rows = r.choice([1, 2, 3])
        nc = r.choice([1, 2, 2, 3])
        sizes = [[r.choice([1, 2, 3, 4, 5, 7, 8, 9]) for _ in range(nc)] for _ in range(rows)]
        if clean:                 # Phase0 layout: positions must exist in every slot's committee
            sizes = [[max(x, len(vals)) for x in row] for row in sizes]
    size_of = lambda s: sizes[s % len(sizes)]
    # the duty table: every validator attests once per epoch
    e_lo, e_hi = (start - 8) // spe, (start + 60) // spe
    duty = {}
    fixed = {v: i for i, v in enumerate(vals)}
    for ep in range(e_lo, e_hi + 1):
        row = {}
        taken = set()
        for v in vals:
            for _ in range(50):   # a seat (slot, committee, position) holds one validator
                s = ep * spe + r.randrange(spe)
                if clean:
                    c, p = 0, fixed[v]
                else:
                    c = r.randrange(len(size_of(s)))
                    p = r.randrange(size_of(s)[c])
                if (s, c, p) not in taken:
                    break
            else:
                continue
            taken.add((s, c, p))
            row[str(v)] = [s, c, p]
        if clean or r.random() < 0.9:
            duty[str(ep)] = row
    pk_of = {v: "p%d" % v for v in vals}
    steps, roots, props = [], [], []
    # submissions: the duties of the epoch(s) around the start
    ep0 = (start + 1) // spe
    cand = []
    for ep in (ep0, ep0 + 1):
        for v in vals:
            d = duty.get(str(ep), {}).get(str(v))
            if d and start + 1 <= d[0] <= start + 10:
                cand.append((v, d))
    if not cand:                  # make one: validator vals[0] attests at start + 2 (alone in its epoch row)
        s = start + 2
        c = 0 if clean else r.randrange(len(size_of(s)))
        p = fixed[vals[0]] if clean else r.randrange(size_of(s)[c])
        row = duty.setdefault(str(s // spe), {})
        for v2 in list(row):
            if row[v2] == [s, c, p]:
                del row[v2]
        row[str(vals[0])] = [s, c, p]
        cand.append((vals[0], [s, c, p]))
    by_slot = {}
    for v, d in cand:
        by_slot.setdefault(d[0], []).append((v, d))
    hooks_ok = not clean
    for D, lst in sorted(by_slot.items()):
        rid = r.randint(1, 5)
        ents = []
        for v, d in lst:
            c, p = d[1], d[2]
            sz = size_of(D)[c] if c < len(size_of(D)) else 1
            ents.append(ent(pk_of[v], "att", ver=ver, r=rid, v=v, comm=c, pos=p, size=sz))
            roots.append((D, rid, c, p, sz))
        r.shuffle(ents)
        while ents:
            k = r.choice([1, 2, 3])
            part, ents = ents[:k], ents[k:]
            if hooks_ok and r.random() < 0.2:
                B = D + r.choice([1, 1, 2])
                steps.append(sub("attester", D, part, hook={"q": r.choice(["Dut", "Blk"]), "tick": first_tick(B, tps, start, off), "state": 0}))
            else:
                steps.append(sub("attester", D, part, at=slot_time(r, D, tps, start, off, lo=0, hi=r.choice([1, 1, 2, 7]))))
        if r.random() < 0.5:      # an aggregate for one of the committees
            v, d = r.choice(lst)
            c = d[1]
            sz = size_of(D)[c] if c < len(size_of(D)) else 1
            bits = [p for p in range(sz) if r.random() < 0.5] or [d[2]]
            steps.append(sub("aggregator", D, [ent(pk_of[v], "agg", ver=ver, r=rid, comm=c, bits=bits, size=sz)],
                             at=slot_time(r, D, tps, start, off, lo=0, hi=2)))
            roots.append((D, rid, c, None, sz))
        if r.random() < 0.15:     # the attestation is broadcast again with other data (the same key: replaces)
            v, d = r.choice(lst)
            sz = size_of(D)[d[1]] if d[1] < len(size_of(D)) else 1
            steps.append(sub("attester", D, [ent(pk_of[v], "att", ver=ver, r=rid + 1, v=v, comm=d[1], pos=d[2], size=sz)],
                             at=slot_time(r, D, tps, start, off, lo=1, hi=3)))
            roots.append((D, rid + 1, d[1], d[2], sz))
    for _ in range(r.choice([0, 1, 1, 2])):
        P = r.randint(start + 1, start + 8)
        if P in props:
            continue
        props.append(P)
        steps.append(sub("proposer", P, [ent(r.choice(list(pk_of.values())), "prop", ver=r.choice(["deneb", "electra", "fulu"]),
                                             blinded=r.random() < 0.4, synth=r.random() < 0.12)],
                         at=slot_time(r, P, tps, start, off, lo=-1, hi=1)))
    if r.random() < 0.15:
        steps.append(sub(r.choice(["randao", "sync_message", "exit"]), start + 2, [ent("x", "sig")], at=slot_time(r, start + 1, tps, start, off)))
    if r.random() < 0.15:
        steps.append(sub("attester", start + 3, [ent("y", r.choice(["prop", "sig", "agg"]), r=1, size=2, bits=[0])], at=slot_time(r, start + 1, tps, start, off)))

    # the chain
    def att_for(D, rid, hit):
        """an on-chain attestation with the data root (D, rid): `hit` = the (committee, position) pairs that must be in"""
        sz = size_of(D)
        if el(ver):
            want = sorted({c for c, _ in hit} | {c for c in range(len(sz)) if r.random() < 0.4})
            if not want:
                want = [r.randrange(len(sz))]
            cb = {c: sorted({p for cc, p in hit if cc == c} | {p for p in range(sz[c]) if r.random() < 0.35}) for c in want}
            cbits, bits, ln = layout(sz, cb)
            return [onchain(ver, rid, D, cbits, bits, ln)]
        out = []
        for c in sorted({c for c, _ in hit}) or [r.randrange(len(sz))]:
            bits = sorted({p for cc, p in hit if cc == c} | {p for p in range(sz[c]) if r.random() < 0.35})
            out.append(onchain(ver, rid, D, [], bits, sz[c], dindex=c))
        return out

    blocks, blk, duterr, comerr = {}, {}, [], []
    last = max([D for D, *_ in roots] + props) + MISSED_LAG + 3
    by_root = {}
    for D, rid, c, p, sz in roots:
        by_root.setdefault((D, rid), []).append((c, p, sz))
    for (D, rid), members in by_root.items():
        # where this root shows up: early, at the end of the window, just outside, never; possibly twice
        plan = r.choice(["early", "early", "early", "edge", "late", "never", "twice", "split"])
        targets = {"early": [D + r.choice([1, 1, 2, 3])], "edge": [D + MISSED_LAG], "late": [D + MISSED_LAG + 1], "never": [],
                   "twice": [D + 1, D + r.choice([2, 5])], "split": [D + 1, D + 2]}[plan]
        if clean and el(ver):     # F4: the block's epoch must know the validator at the same position: true by construction (fixed)
            pass
        for i, B in enumerate(targets):
            hit = set()
            for c, p, sz in members:
                if p is None:
                    continue
                if plan == "split":
                    if (hash((c, p)) + i) % 2 == 0:
                        hit.add((c, p))
                elif r.random() < 0.75:
                    hit.add((c, p))
            atts = att_for(D, rid, hit)
            if r.random() < 0.3:  # a duplicate with other bits (merged by the checker)
                atts += att_for(D, rid, {x for x in hit if r.random() < 0.5})
            b = blocks.setdefault(B, {"kind": "atts", "atts": []})
            if b["kind"] == "atts":
                if r.random() < 0.5:
                    b["atts"] = b["atts"] + atts
                else:
                    b["atts"] = atts + b["atts"]
        # near misses: the same block root id at another slot, another id at the same slot
        if r.random() < 0.4:
            B = D + r.choice([1, 2, 3])
            b = blocks.setdefault(B, {"kind": "atts", "atts": []})
            if b["kind"] == "atts" and D - 1 >= 0:
                b["atts"] = b["atts"] + att_for(D - 1 if r.random() < 0.5 else D, rid if r.random() < 0.5 else rid + 7,
                                                {(c, p) for c, p, sz in members if p is not None and c < len(size_of(D - 1)) and p < size_of(D - 1)[c]})
                # the near miss with the SAME root would be a hit: keep it only when it is not
                b["atts"] = [a for a in b["atts"] if not (a["aslot"] == D and a["r"] == rid) or True]
    # same-root attestations must have bits of one length (Phase0: per committee); drop what breaks that
    for B, b in list(blocks.items()):
        if b["kind"] != "atts":
            continue
        seen, keep = {}, []
        for a in b["atts"]:
            k = (a["aslot"], a["dindex"], a["r"])
            if k in seen and seen[k] != a["len"]:
                continue
            seen[k] = a["len"]
            keep.append(a)
        b["atts"] = keep
        if not keep:
            del blocks[B]
    for P in props:
        how = r.choice(["atts", "atts", "none", "empty", "errs"]) if not clean else r.choice(["atts", "atts", "none", "errs"])
        if how == "atts":
            b = blocks.setdefault(P, {"kind": "atts", "atts": []})
            if b["kind"] == "atts" and not b["atts"]:
                b["atts"] = att_for(P - 1, 9, set())
        elif how == "errs":
            k0 = first_tick(P, tps, start, off)
            for k in range(k0, k0 + tps):
                blk[k] = {"kind": "err"}
        elif P not in blocks:
            blocks[P] = {"kind": how} if how == "empty" else {"kind": r.choice(["none", "none_wrapped"])}
    # other blocks: noise, empties, failures
    for B in range(start - 5, last):
        if B in blocks:
            continue
        x = r.random()
        if x < 0.25:
            blocks[B] = {"kind": "atts", "atts": att_for(B - 1, 8, set())}
        elif x < 0.30 and B not in props:
            blocks[B] = {"kind": "empty"}
        elif x < 0.34:
            blocks[B] = {"kind": "none_wrapped"}
    for _ in range(r.choice([0, 0, 1, 2, 3])):
        B = r.randint(start - 5, last)
        k0 = first_tick(B, tps, start, off)
        what = r.choice(["blk", "blk", "com", "dut"])
        n = r.choice([1, 1, tps - 1, tps]) or 1
        for k in range(k0, k0 + n):
            if what == "blk":
                blk[k] = {"kind": "err"}
            elif what == "dut" and not clean:
                duterr.append(k)
            elif what == "com" and blocks.get(B, {}).get("kind") == "atts":
                for a in blocks[B]["atts"]:
                    comerr.append((k, a["aslot"]))
    if clean:
        # a proposal whose block is served without attestations would be F7; an attestation checked against a block of an epoch
        # whose duty row is missing would be F2/F4: neither arises by construction (rows complete, positions fixed, no empty at a
        # proposal slot)
        for P in props:
            if blocks.get(P, {}).get("kind") == "empty":
                blocks[P] = {"kind": "none"}
    end = (last + CHECK_LAG + 1 - start) * tps
    return [cfg(True, tps, start, off, spe, end, sizes, duty=duty, blocks=blocks, blk=blk, duterr=set(duterr), comerr=sorted(set(comerr)),
                dcache=r.random() < 0.15, tag="clean" if clean else "dirty")] + steps


def random_schedules(seed, n, big):
    r = vlib.rng(seed, "inclusion-rnd")
    out = []
    for _ in range(n):
        s = random_on(r, big) if r.random() < 0.7 else random_off(r, big)
        if r.random() < 0.2:      # through the wiring of core.WithTracking: the Broadcaster edge, the broadcast itself may fail
            s[0]["wire"] = True
            for st in s[1:]:
                st["bcast"] = r.choice(["ok", "ok", "err"])
        out.append(s)
    return out


# ----------------------------------------------------------------------------------------------------------------------
# directed probes: one per named deviation (contract cfg must reject, the deviation's cfg must accept)
# ----------------------------------------------------------------------------------------------------------------------
def probes():
    out = {}
    # F1: flag off, no block at the proposal's slot
    out["F1"] = [cfg(False, 2, 40, 0, 8, 30, [[2]], blocks={41: {"kind": "none"}}),
                 sub("proposer", 41, [ent("a", "prop")], at=2500)]
    # F3: two committees (3 + 2 validators): the validator of committee 1 position 1 IS on chain, committee 1 position 0 is NOT
    duty = {"5": {"11": [41, 0, 0], "12": [41, 1, 1], "13": [41, 1, 0]}}
    cbits, bits, ln = layout([3, 2], {0: [0], 1: [1]})
    out["F3"] = [cfg(True, 2, 40, 0, 8, 100, [[3, 2]], duty=duty, blocks={42: {"kind": "atts", "atts": [onchain("electra", 1, 41, cbits, bits, ln)]}}),
                 sub("attester", 41, [ent("p11", "att", r=1, v=11, comm=0, pos=0, size=3), ent("p12", "att", r=1, v=12, comm=1, pos=1, size=2),
                                      ent("p13", "att", r=1, v=13, comm=1, pos=0, size=2)], at=2500)]
    # F4: one committee of 4; slot 47 is the last of epoch 5; validator 11 sits at position 1 in epoch 5 and at 2 in epoch 6; the
    # block of slot 48 (epoch 6) carries position 1
    duty = {"5": {"11": [47, 0, 1]}, "6": {"11": [50, 0, 2]}}
    out["F4"] = [cfg(True, 2, 40, 0, 8, 110, [[4]], duty=duty, blocks={48: {"kind": "atts", "atts": [onchain("electra", 1, 47, [0], [1], 4)]}}),
                 sub("attester", 47, [ent("p11", "att", r=1, v=11, comm=0, pos=1, size=4)], at=14500)]
    # F2: the attestation is handed in while the loop fetches the block that carries its data root (validator not in the
    # snapshot of indices -> no duty -> error); its bit (position 2) is NOT on chain
    duty = {"5": {"11": [41, 0, 2], "12": [41, 0, 1]}}
    out["F2"] = [cfg(True, 2, 40, 0, 8, 100, [[4]], duty=duty, blocks={42: {"kind": "atts", "atts": [onchain("electra", 1, 41, [0], [1], 4)]}}),
                 sub("attester", 41, [ent("p12", "att", r=1, v=12, comm=0, pos=1, size=4)], at=2500),
                 sub("attester", 41, [ent("p11", "att", r=1, v=11, comm=0, pos=2, size=4)], hook={"q": "Blk", "tick": first_tick(42, 2, 40, 0), "state": 0})]
    # F6: the checker starts at slot 10 of the chain
    out["F6"] = [cfg(False, 2, 10, 0, 8, 20, [[2]], blocks={11: {"kind": "found"}}),
                 sub("proposer", 11, [ent("a", "prop")], at=2500)]
    # F7: the proposal's block has no attestations
    out["F7"] = [cfg(True, 2, 40, 0, 8, 100, [[2]], blocks={41: {"kind": "empty"}}),
                 sub("proposer", 41, [ent("a", "prop")], at=2500)]
    return out


# ----------------------------------------------------------------------------------------------------------------------
# binding self-tests: corrupt one recorded field / drop or move one event of an accepted trace -> must be rejected
# ----------------------------------------------------------------------------------------------------------------------
def mutators():
    def first(t, pred, start=0):
        for k in range(start, len(t)):
            if pred(t[k]):
                return k
        return None

    def trk_flip(t):
        k = first(t, lambda e: e["ev"] == "Trk")
        if k is None:
            return None
        t[k]["ok"] = not t[k]["ok"]
        return t

    def trk_dropped(t):
        k = first(t, lambda e: e["ev"] == "Trk")
        if k is None:
            return None
        del t[k]
        return t

    def log_dropped(t):
        k = first(t, lambda e: e["ev"] == "Log" and e["msg"].endswith(("_incl", "_miss")))
        if k is None:
            return None
        del t[k]
        return t

    def incl_delay(t):
        k = first(t, lambda e: e["ev"] == "Log" and e["msg"] in ("att_incl", "agg_incl"))
        if k is None:
            return None
        t[k]["idelay"] += 1
        return t

    def incl_block(t):
        k = first(t, lambda e: e["ev"] == "Log" and e["msg"].endswith("_incl"))
        if k is None:
            return None
        t[k]["bslot"] += 1
        if t[k]["idelay"] >= 0:
            t[k]["idelay"] += 1
        return t

    def bcast_delay(t):
        k = first(t, lambda e: e["ev"] == "Log" and e["msg"].endswith(("_incl", "_miss")))
        if k is None:
            return None
        t[k]["bdelay"] += 1000
        return t

    def other_pubkey(t):
        k = first(t, lambda e: e["ev"] == "Trk")
        if k is None:
            return None
        t[k]["pk"] += "x"
        return t

    def reported_twice(t):
        k = first(t, lambda e: e["ev"] == "Trk" and e["ok"] and t[0]["flag"])
        if k is None or k == 0 or t[k - 1]["ev"] != "Log":
            return None
        # the same pair once more at the end of the next check that reports something, or right away
        return t[:k + 1] + [dict(t[k - 1]), dict(t[k])] + t[k + 1:]

    def missed_early(t):
        # a "never included" pair moved to the check one slot earlier
        k = first(t, lambda e: e["ev"] == "Log" and e["msg"] in ("att_miss", "agg_miss"))
        if k is None or k + 1 >= len(t) or t[k + 1]["ev"] != "Trk":
            return None
        b = max([j for j in range(k) if t[j]["ev"] == "Blk"] or [-1])          # the check that trimmed it
        a = max([j for j in range(b) if t[j]["ev"] == "Blk"] or [-1]) if b > 0 else -1   # the check before
        if a < 0:
            return None
        pair = [dict(t[k], t=t[a]["t"]), dict(t[k + 1], t=t[a]["t"])]
        rest = t[:k] + t[k + 2:]
        # insert right before the first query of check b (after everything check a produced)
        j = b
        while j > a + 1 and rest[j - 1]["ev"] in ("Dut",) and rest[j - 1]["t"] == rest[b]["t"]:
            j -= 1
        return rest[:j] + pair + rest[j:]

    def check_skipped(t):
        ks = [k for k, e in enumerate(t) if e["ev"] == "Blk" and e["ans"]["kind"] == "none" and not t[0]["flag"]]
        if len(ks) < 3:
            return None
        del t[ks[1]]
        return t

    def block_slot(t):
        k = first(t, lambda e: e["ev"] == "Blk")
        if k is None:
            return None
        t[k]["slot"] += 1
        return t

    def duties_index_dropped(t):
        k = first(t, lambda e: e["ev"] == "Dut" and len(e["idx"]) >= 1)
        if k is None:
            return None
        t[k]["idx"] = t[k]["idx"][1:]
        return t

    def duties_epoch(t):
        k = first(t, lambda e: e["ev"] == "Dut")
        if k is None:
            return None
        t[k]["epoch"] += 1
        return t

    def included_although_absent(t):
        # an attestation reported missed is reported included by the check of a block that has no attestation with its root
        k = first(t, lambda e: e["ev"] == "Log" and e["msg"] == "att_miss")
        if k is None or t[k + 1]["ev"] != "Trk":
            return None
        t[k]["msg"] = "att_incl"
        a = max([j for j in range(k) if t[j]["ev"] == "Blk"] or [-1])
        if a < 0:
            return None
        t[k]["bslot"] = t[a]["slot"]
        t[k]["idelay"] = t[a]["slot"] - t[k]["aslot"]
        t[k + 1]["ok"] = True
        return t

    def submit_error_flipped(t):
        k = first(t, lambda e: e["ev"] == "SubRet")
        if k is None:
            return None
        t[k]["err"] = not t[k]["err"]
        return t

    def synthetic_not_reported(t):
        for k, e in enumerate(t):
            if e["ev"] == "Sub" and any(x["kind"] == "prop" and x["synth"] for x in e["ents"]) and e["typ"] == "proposer":
                j = first(t, lambda x: x["ev"] == "Trk", k)
                if j is not None and j < first(t, lambda x: x["ev"] == "SubRet", k):
                    del t[j]
                    return t
        return None

    def broadcast_skipped(t):
        k = first(t, lambda e: e["ev"] == "Bcast")
        if k is None:
            return None
        del t[k]
        return t

    def edge_result(t):
        k = first(t, lambda e: e["ev"] == "Sub" and e["wire"])
        if k is None:
            return None
        j = first(t, lambda e: e["ev"] == "SubRet", k)
        t[j]["err"] = not t[j]["err"]
        return t

    def broadcast_before_submitted(t):
        for k, e in enumerate(t):
            if e["ev"] == "Subm" and t[k + 1]["ev"] == "Bcast":
                t[k], t[k + 1] = t[k + 1], t[k]
                return t
        return None

    return [("wiring: broadcaster not called", broadcast_skipped), ("wiring: edge's return value flipped", edge_result),
            ("wiring: broadcast before Submitted", broadcast_before_submitted),
            ("tracker callback's error flipped", trk_flip), ("tracker callback not observed", trk_dropped),
            ("report's log record not observed", log_dropped), ("inclusion delay off by one", incl_delay),
            ("included in another block", incl_block), ("broadcast delay changed by 1 s", bcast_delay),
            ("tracker callback for another pubkey", other_pubkey), ("a submission reported twice", reported_twice),
            ("'never included' one check early", missed_early), ("a slot not checked", check_skipped),
            ("block of another slot fetched", block_slot), ("attester duties asked without one validator", duties_index_dropped),
            ("attester duties asked for another epoch", duties_epoch),
            ("reported included by a block that lacks it", included_although_absent),
            ("Submitted's error flipped", submit_error_flipped), ("synthetic proposal not reported", synthetic_not_reported)]


# ----------------------------------------------------------------------------------------------------------------------
CONTROLS = (("InclusionMC_ctl_F1.cfg", "ReportsRight", "F1: the tracker is told 'included' for a proposal without block"),
            ("InclusionMC_ctl_F2.cfg", "ReportsRight", "F2 + F4: an error of the inclusion check counts as included"),
            ("InclusionMC_ctl_F3.cfg", "Safety", "F3: Electra bits concatenated bytewise in map order"),
            ("InclusionMC_ctl_F4.cfg", "Safety", "F4: validator position from the duty of the block's epoch"),
            ("InclusionMC_ctl_F6.cfg", "ReportsRight", "F6: Trim bound wraps around at the start of a chain"),
            ("InclusionMC_ctl_F7.cfg", "ReportsRight", "F7: a block without attestations is no block"),
            ("InclusionMC_ctl_noDelete.cfg", "ReportsRight", "a reported submission is not deleted (second report)"),
            ("InclusionMC_ctl_trimEarly.cfg", "ReportsRight", "Trim one slot early"),
            ("InclusionMC_ctl_dropSilently.cfg", "NoLoss", "Trim deletes without reporting"),
            ("InclusionMC_ctl_live.cfg", "temporal", "liveness control: 'everything stored is gone in the end' although young submissions stay"))
QUICK_MC = ["InclusionMC_p_off.cfg", "InclusionMC_p_on.cfg", "InclusionMC_p0.cfg", "InclusionMC_el1.cfg", "InclusionMC_el2.cfg",
            "InclusionMC_ep.cfg", "InclusionMC_early.cfg", "InclusionMC_live.cfg", "InclusionMC_live_off.cfg"]
THOROUGH_MC = ["InclusionMC_p_off_thorough.cfg", "InclusionMC_p_on.cfg", "InclusionMC_p0_thorough.cfg", "InclusionMC_el1_thorough.cfg",
               "InclusionMC_el2_thorough.cfg", "InclusionMC_ep.cfg", "InclusionMC_early.cfg", "InclusionMC_live.cfg", "InclusionMC_live_off.cfg"]


def design_check(o, tier, seed):
    """Design check, controls and schedule generation: independent TLC runs side by side; returns the generated histories as
    soon as the generation runs are done and a function that waits for the model-checking runs and books their results."""
    from concurrent.futures import ThreadPoolExecutor
    thorough = tier == "thorough"
    mains = THOROUGH_MC if thorough else QUICK_MC
    n = 400 if thorough else 40
    gens = [("InclusionGen", "InclusionGen_%s.cfg" % w, dict(simulate="num=%d" % n, depth=700, seed=seed + i, workers=1))
            for i, w in enumerate(GEN_WORLDS)]
    controls = CONTROLS
    if os.environ.get("VERIF_INCLUSION_NOMC"):      # mutation experiments: the design check does not depend on the tree
        mains, controls = [], ()
    jobs = gens + [("InclusionMC", c, dict(workers=WORKERS or (4 if thorough else 2))) for c in mains]
    jobs += [("InclusionMC", c, dict(workers=1)) for c, _, _ in controls]
    dirs = [vlib.scratch(o.pid, FAMILY) for _ in jobs]
    ex = ThreadPoolExecutor(max_workers=min(len(jobs), 10))
    futs = [ex.submit(vlib.tlc, o.pid, FAMILY, j[0], j[1], timeout=1700, sdir=d, **j[2]) for j, d in zip(jobs, dirs)]
    hists = []
    for w, f in zip(GEN_WORLDS, futs[:len(gens)]):
        g = f.result()
        if g.error or g.timed_out or (g.violation and g.violation != "deadlock"):
            raise vlib.Infra("schedule generation failed: %s\n%s" % (g.summary(), g.out[-2000:]))
        seen = set()
        for p in vlib.tagged_prints(g, "SCHED"):
            if p not in seen:
                seen.add(p)
                hists.append((w, json.loads(p)))
    if not hists:
        raise vlib.Infra("schedule generation: no histories")

    def join():
        res = [f.result() for f in futs[len(gens):]]
        ex.shutdown()
        for c, r in zip(mains, res):
            vlib.require_mc_ok(r, c)
            o.add_mc("Inclusion/" + c[:-4], r)
        for (c, inv, what), r in zip(controls, res[len(mains):]):
            got = r.violation or ("temporal" if "Temporal property AllGone was violated" in r.out else None)
            if got != inv:
                raise vlib.Infra("design-spec control failed: '%s' not caught by %s: %s" % (what, inv, r.summary()))
            o.selftests.append({"control": "Inclusion spec variant '%s' violates %s" % (what, inv), "rejected_as_required": True})
    return hists, join


_dev = {"flags": None}      # the deviations the probes confirmed on this tree (None: all of them)


def dev_cfg():
    """the as-coded configuration: the named deviations the directed probes confirmed on the tree under test"""
    if _dev["flags"] is None:
        return ASCODED
    txt = open(os.path.join(vlib.SPECS, FAMILY, ASCODED)).read()
    import re
    txt = re.sub(r" Dev = \{[^}]*\}", " Dev = {%s}" % ", ".join('"%s"' % f for f in sorted(_dev["flags"])), txt)
    return ("InclusionTrace_dev.cfg", txt)


def cfg_of(t):
    return STRICT if t and t[0].get("tag") == "clean" else dev_cfg()


def confirm_deviations(o):
    """Each directed probe is executed twice.  Rejected by the contract cfg and accepted by the cfg of its named deviation: the
    deviation is (still) in the tree -> KNOWN-FINDING, and it is switched on in the as-coded cfg of the bulk run.  Accepted by
    the contract: the deviation is gone (repaired tree), it is left out.  Rejected by both: something else is wrong with that
    scenario -> the regular violation path (re-execution, replay file)."""
    order = ["F1", "F3", "F4", "F2", "F6", "F7"]
    pr = probes()
    scheds = []
    for f in order:
        s = json.loads(json.dumps(pr[f]))
        s[0]["tag"] = "probe-" + f
        scheds += [s, s]
    traces, sids, wall = vlib.run_schedules(o.pid, PKG, "TestExec", scheds, tag="inclprobe")
    fl = lambda t: t[0]["tag"][len("probe-"):]
    vs = vlib.validate_traces(o.pid, FAMILY, TRACE, STRICT, traces)
    vd = vlib.validate_traces(o.pid, FAMILY, TRACE, lambda t: FINDINGS[fl(t)][1], traces)
    rej_s = {fl(traces[i]) for i, _, _ in vs.rejected}
    acc_s = {fl(traces[i]) for i in vs.accepted}
    rej_d = {fl(traces[i]) for i, _, _ in vd.rejected}
    o.schedules += len(scheds)
    o.traces += len(traces)
    o.trace_events += sum(len(t) for t in traces)
    o.trace_states += vs.states + vd.states
    flags = set()
    for f in order:
        if f in rej_s and f in acc_s:
            raise vlib.Infra("probe %s: the two executions of one schedule got different verdicts" % f)
        if f in rej_s and f not in rej_d:
            flags.add(f)
            o.known.append((FINDINGS[f][0], FINDINGS[f][2]))
        elif f in rej_s:      # not the named deviation: report through the regular path
            vlib.conformance(o, FAMILY, TRACE, STRICT, PKG, [pr[f]], tag="inclprobe_" + f)
            if not o.violations:
                raise vlib.Infra("probe %s rejected by the contract and by its deviation cfg, but not reproduced" % f)
        else:
            o.notes.append("deviation %s (%s) not observed on this tree: left out of the as-coded configuration" % (f, FINDINGS[f][0]))
    o.known.sort()
    o.extra["inclusion_deviations_confirmed"] = sorted(FINDINGS[f][0] for f in flags)
    _dev["flags"] = flags | ({"F4"} if "F2" in flags else set())
    log("[%s] Inclusion probes: %d executed in %.1fs; deviations confirmed: %s" % (o.pid, len(scheds), wall, " ".join(sorted(flags)) or "none"))


def stage(o, tier, seed):
    """Run the Inclusion family as a stage of a check."""
    t0 = time.time()
    thorough = tier == "thorough"
    hists, join_design = design_check(o, tier, seed)
    # the named deviations: each directed probe must be rejected by the contract and accepted by its deviation's cfg
    confirm_deviations(o)
    r = vlib.rng(seed, "inclusion-gen")
    r.shuffle(hists)
    hists = hists[:3000 if thorough else 90]
    gen = [from_hist(w, h) for w, h in hists]
    rnd = random_schedules(seed, 5000 if thorough else 420, thorough)
    o.extra["inclusion_histories_by_tlc"] = len(gen)
    kw = dict(chunk=60 if thorough else 24, exec_timeout=1500, tv_timeout=1500)
    vlib.conformance(o, FAMILY, TRACE, cfg_of, PKG, gen, tag="inclgen", **kw)
    vlib.conformance(o, FAMILY, TRACE, cfg_of, PKG, rnd, tag="inclrnd", **kw)
    join_design()
    tr = []
    for tag in ("inclgen", "inclrnd"):
        tr += vlib.split_traces(vlib.read_ndjson(os.path.join(vlib.workdir(o.pid), "trace_%s.ndjson" % tag)))
    if not o.violations:
        ms = mutators()
        nself = len(o.selftests)
        clean_first = sorted(tr, key=lambda t: (t[0].get("tag") != "clean", len(t)))
        vlib.binding_selftest(o, FAMILY, TRACE, cfg_of, clean_first, ms, candidates=6)
        if len(o.selftests) - nself < len(ms):
            raise vlib.Infra("Inclusion binding self-test: some negative control found no applicable trace")
    ev = [e for t in tr for e in t]
    o.extra["inclusion_traces_contract_cfg"] = sum(1 for t in tr if cfg_of(t) == STRICT)
    o.extra["inclusion_submitted_calls"] = sum(1 for e in ev if e["ev"] == "Sub")
    o.extra["inclusion_block_checks"] = sum(1 for e in ev if e["ev"] == "Blk")
    o.extra["inclusion_reports"] = {k: sum(1 for e in ev if e["ev"] == "Log" and e["msg"] == k) for k in
                                    ("blk_incl", "blk_miss", "att_incl", "att_miss", "agg_incl", "agg_miss", "att_chkerr", "agg_chkerr")}
    rep = o.extra["inclusion_reports"]
    if not o.violations and (min(rep["blk_incl"], rep["blk_miss"], rep["att_incl"], rep["att_miss"], rep["agg_incl"], rep["agg_miss"]) < 5):
        raise vlib.Infra("vacuous Inclusion run: %s" % rep)
    log("[%s] Inclusion stage: %d TLC histories + %d random schedules -> %d traces (%d under the contract cfg), %d Submitted calls, "
        "%d block checks, reports %s, %.0fs" % (o.pid, len(gen), len(rnd), len(tr), o.extra["inclusion_traces_contract_cfg"],
                                                 o.extra["inclusion_submitted_calls"], o.extra["inclusion_block_checks"], rep, time.time() - t0))


def main(tier="quick", seed=1, pid="GINCLUSION"):
    """Stand-alone driver (the evidence file is written by checks/grow_all.py when the family is registered)."""
    vlib.workdir(pid, fresh=True)
    o = vlib.Outcome(pid, tier, seed)
    try:
        stage(o, tier, int(seed))
    except vlib.Infra as e:
        log("INFRA: %s" % e)
        return 2
    for fid, txt in o.known:
        log("KNOWN-FINDING: property=%s %s: %s" % (pid, fid, txt))
    for path, txt in o.violations:
        log("VIOLATION property=%s replay=%s" % (pid, path))
        log("  " + txt)
    if o.violations:
        return 1
    log("[%s] OK tier=%s seed=%s: %d MC states, %d traces validated, %d self-test controls, %.0fs"
        % (pid, tier, seed, o.states, o.traces, len(o.selftests), time.time() - o.t0))
    return 0


def replay(path):
    rp = json.load(open(path))
    o = vlib.Outcome(rp.get("property", "GINCLUSION"), "quick", 0)
    vlib.conformance(o, FAMILY, rp["trace_module"], cfg_of, rp["pkg"], [rp["schedule"]], tag="replay")
    for p, t in o.violations:
        log("replay: " + t)
    return 1 if o.violations else 0


if __name__ == "__main__":
    import sys
    sys.path[:0] = [os.path.join(os.path.dirname(os.path.dirname(os.path.abspath(__file__))), "tools")]
    sys.exit(main(*(sys.argv[1:3] or ["quick", 1])))
