"""GROWTH family "DepositFlow" - the partial-deposit flow through the Obol API: cmd/depositsign.go, cmd/depositfetch.go,
cmd/deposit.go (driven through the real CLI, `cmd.New()`), app/obolapi/deposit.go + deposit_model.go (PostPartialDeposits,
GetFullDeposit: share index from the public share, verification of every partial, threshold aggregation, verification of the
aggregate under the group key) and eth2util/deposit (signing root, MarshalDepositData, WriteDepositDataFile) against a
scripted API.

Not a registered check: `stage(o, tier, seed)` runs the family as a stage (the Outcome `o` collects coverage and
violations); `main(tier, seed)` is a stand-alone driver, `replay(path)` re-runs a replay file."""
import json, os, time
import vlib
from vlib import log

FAMILY = "DepositFlow"
PKG = "depositflow"
TRACE = "DepositFlowTrace"
WORKERS = int(os.environ.get("VERIF_TLC_WORKERS", "0")) or None

RULE = ("DepositFlow family: schedules = command lines of the operators (deposit sign with one or several validator public keys, one "
        "withdrawal value for all or one per key - 0x01 / 0x02 / 0x00 credentials, a 20-byte address, not hex -, one or several "
        "amounts in and out of the allowed range, keys that are not in the lock / not hex; deposit fetch of one or several validators "
        "into a fresh or a used directory), the code the API answers a POST with (201 409 400 500), what it answers a full-deposit "
        "request with (any credentials that were posted, the amounts at the threshold, subsets, reordering, duplicates, blank / junk / "
        "truncated entries, swapped / missing / unknown public shares, other credentials / amount labels, partials over other "
        "messages / of another validator, groups below the threshold, duplicate groups, garbage, 401 404 500) and the partials a "
        "Byzantine operator posts (other credentials, other amount, its share of another validator, a validator that is not in the "
        "lock), calls of eth2util/deposit's NewMessage / VerifyDepositAmounts / DedupAmounts / MaxDepositAmount with amounts one Gwei "
        "around every bound and written directories read back with ReadDepositDataFiles; generated (a) by TLC simulation of DepositFlowGen (7 configurations) and (b) by a seeded random generator of scenarios "
        "around the threshold.  Executed on the real CLI commands + app/obolapi.Client + eth2util/deposit against a scripted API "
        "over loopback HTTP, one command at a time; every trace validated by DepositFlowTrace.tla (linear)")
ASSUMPTIONS = [
    "cryptography is abstract in the spec; the executor names signatures by observation functions of its own (its own SSZ "
    "merkleisation of deposit message / deposit data, the deposit domain computed from the lock's fork version, tbls.Verify against "
    "the lock's public shares / group keys)",
    "the API is the environment: it answers with whatever the schedule says, built from the partials that were posted; commands run "
    "one at a time (the only shared state between operators is the API, which is scripted)",
    "the executor runs as root: an existing read-only (0444) deposit-data file is replaced by os.WriteFile; as another user the second "
    "fetch into the same directory would fail with EACCES - that branch is not exercised",
    "only --deposit-data-dir with an explicit directory is exercised (the default directory carries a wall-clock timestamp)",
    "deviation D1 (credentials signed verbatim) and D2 (panic on a short public key) are switched on when the directed probes confirm them",
]
FINDINGS = {
    "D1": ("GROW-DEPOSITFLOW-credentials-verbatim",
           "`deposit sign --withdrawal-addresses` signs what the operator typed verbatim as the 32-byte withdrawal credentials: a 20-byte "
           "withdrawal ADDRESS (what flag name and help text ask for) is refused with an SSZ length error, and any 32-byte value is "
           "accepted whatever its prefix (0x00, 0x01 on a compounding cluster with 2048 ETH, 0x02 on a non-compounding one) - the "
           "0x01 / 0x02 prefix is not derived from the lock's compounding flag as everywhere else (deposit.NewMessage)"),
    "D2": ("GROW-DEPOSITFLOW-short-pubkey-panic",
           "`deposit sign --validator-public-keys=0x1234` panics (slice to array conversion of a decoded key shorter than 48 bytes) "
           "instead of returning an error; a key longer than 48 bytes is silently truncated"),
}

SHAPES = [(4, 3), (3, 2), (4, 3), (5, 4), (3, 3), (4, 2)]
_dev = {"D1": True, "D2": True}      # set by the probes


def trace_cfg(n, t, nv, comp, verbatim, panic):
    name = "DepositFlowTrace_%d_%d_%d_%s_%s%s.cfg" % (n, t, nv, "c" if comp else "n", "ascoded" if verbatim else "strict", "_p" if panic else "")
    txt = ("SPECIFICATION TraceSpec\nCONSTANTS\n N = %d\n T = %d\n NV = %d\n Comp = %s\n Cmds = {%s}\n CredsVerbatim = %s\n Defect = \"none\"\n"
           " AllowPanic = %s\nCONSTRAINT Mark\nPOSTCONDITION Report\nCHECK_DEADLOCK FALSE\n"
           % (n, t, nv, "TRUE" if comp else "FALSE", ", ".join(str(i) for i in range(1, 41)), "TRUE" if verbatim else "FALSE",
              "TRUE" if panic else "FALSE"))
    return (name, txt)


def cfg_strict(tr):
    r = tr[0]
    return trace_cfg(r["n"], r["t"], r["nv"], r["comp"], False, False)


def cfg_ascoded(tr):
    r = tr[0]
    return trace_cfg(r["n"], r["t"], r["nv"], r["comp"], True, True)


def cfg_of(tr):
    r = tr[0]
    return trace_cfg(r["n"], r["t"], r["nv"], r["comp"], _dev["D1"], _dev["D2"])


# ----------------------------------------------------------------------------------------------------------------------
# (a) histories of DepositFlowGen -> schedules
# ----------------------------------------------------------------------------------------------------------------------
def part_recipe(p):
    d = {"pk": list(p["pk"])}
    k = p["tok"]["k"]
    if k == -1:
        d["kind"] = "blank"
    elif k == -2:
        d["kind"] = "trunc"
    elif k == 0:
        d["kind"] = "junk"
    else:
        d["sig"] = dict(p["tok"])
    return d


def resp_recipe(code, R=None):
    if R is None or code // 100 != 2:
        return {"code": code}
    out = {"code": code, "w": R["w"], "amounts": []}
    if R.get("garbage"):
        out["garbage"] = "<html>502 bad gateway</html>"
    for g in R["amounts"]:
        a = {"a": max(g["a"], 0), "parts": [part_recipe(p) for p in g["parts"]]}
        if g["a"] == -2:
            a["araw"] = "12x"
        out["amounts"].append(a)
    return out


def from_hist(h):
    out = [{"ev": "Cfg", "n": h["n"], "t": h["t"], "nv": h["nv"], "comp": h["comp"]}]
    by_c = {}
    for e in h["steps"]:
        if e["ev"] == "Start":
            if e["kind"] == "sign":
                st = {"ev": "Sign", "c": e["c"], "op": e["op"], "vals": e["vals"], "ws": e["ws"], "amts": e["amts"], "code": 201}
            else:
                st = {"ev": "Fetch", "c": e["c"], "op": e["op"], "vals": e["vals"], "dir": e["dir"], "gets": []}
            by_c[e["c"]] = st
            out.append(st)
        elif e["ev"] == "Post":
            by_c[e["c"]]["code"] = e["code"]
        elif e["ev"] == "Get":
            by_c[e["c"]]["gets"].append(resp_recipe(e["code"], e.get("resp")))
        elif e["ev"] == "Byz":
            out.append({"ev": "Byz", "share": e["share"],
                        "blobs": [{"v": b["v"], "w": b["w"], "a": b["a"], "sv": b["sv"], "sk": b["k"]} for b in e["blobs"]]})
    return out


# ----------------------------------------------------------------------------------------------------------------------
# (b) seeded random scenarios
# ----------------------------------------------------------------------------------------------------------------------
class Scn:
    """builds one schedule; keeps a rough idea of which partials have been posted (a wrong guess only means that the API hands
    out junk instead: the executor logs what really went over the wire)"""
    def __init__(self, r, n, t, nv, comp):
        self.r, self.n, self.t, self.nv, self.comp = r, n, t, nv, comp
        self.s = [{"ev": "Cfg", "n": n, "t": t, "nv": nv, "comp": comp}]
        self.c = 0
        self.pool = set()       # (sv, k, v, w, a)

    def sign(self, op, vals, ws, amts, code=None):
        if self.c >= 38:
            return
        self.c += 1
        r = self.r
        if code is None:
            code = r.choice([201] * 12 + [200, 409, 400, 500, 503])
        self.s.append({"ev": "Sign", "c": self.c, "op": op, "vals": vals, "ws": ws, "amts": amts, "code": code})
        mx = 2048 if self.comp else 32
        if (len(ws) in (1, len(vals)) and all(1 <= v <= self.nv for v in vals) and all(1 <= w <= 5 for w in ws)
                and all(1 <= a <= mx for a in amts)):
            for i, v in enumerate(vals):
                w = ws[0] if len(ws) == 1 else ws[i]
                for a in amts:
                    self.pool.add((v, op, v, w, a))

    def byz(self, b, blobs):
        self.s.append({"ev": "Byz", "share": b, "blobs": [{"v": v, "w": w, "a": a, "sv": sv, "sk": sk} for (v, w, a, sv, sk) in blobs]})
        for (v, w, a, sv, sk) in blobs:
            if 1 <= sv <= self.nv and 1 <= sk <= self.n:
                self.pool.add((sv, sk, v, w, a))

    def shares(self, v, w, a):
        return sorted(k for (sv, k, vv, ww, aa) in self.pool if sv == v and vv == v and ww == w and aa == a)

    def honest(self, v, w=None, full=True):
        """what an API that stores everything would answer for validator v (None: nothing at the threshold)"""
        ws = sorted({ww for (sv, k, vv, ww, aa) in self.pool if sv == v and vv == v})
        if w is None:
            cands = [x for x in ws if any(len(self.shares(v, x, a)) >= self.t for a in {aa for (sv, k, vv, ww, aa) in self.pool if vv == v and ww == x})]
            if not cands:
                return None
            w = self.r.choice(cands)
        amts = sorted({aa for (sv, k, vv, ww, aa) in self.pool if sv == v and vv == v and ww == w})
        groups = []
        for a in amts:
            ks = self.shares(v, w, a)
            if len(ks) >= self.t or not full:
                groups.append({"a": a, "parts": [self.part(v, k, w, a) for k in ks]})
        if not groups:
            return None
        return {"code": 200, "w": w, "amounts": groups}

    def part(self, v, k, w, a):
        return {"pk": [v, k], "sig": {"sv": v, "k": k, "v": v, "w": w, "a": a}, "form": self.r.choice(["plain", "plain", "0x", "upper"])}

    def tamper(self, R, v):
        r, n = self.r, self.n
        kind = r.choice(["none", "none", "subset", "shuffle", "blank", "blankadd", "drop", "below", "dup", "dupadd", "junk", "trunc", "swappk", "nopk", "unkpk",
                         "otherw", "badw", "addrw", "othera", "bada", "mixw", "mixa", "otherv", "lowgroup", "dupgroup", "empty", "garbage", "pkfield",
                         "wform", "zero"])
        if not R["amounts"]:
            return R
        gi = r.randrange(len(R["amounts"]))
        g = R["amounts"][gi]
        ps = g["parts"]
        i = r.randrange(len(ps)) if ps else 0
        if kind == "subset" and len(ps) > self.t:
            g["parts"] = r.sample(ps, self.t)
        elif kind == "shuffle":
            r.shuffle(ps)
        elif kind == "blank" and ps:
            ps[i] = {"pk": ps[i]["pk"], "kind": "blank"}
        elif kind == "blankadd":
            ps.insert(r.randrange(len(ps) + 1), {"pk": r.choice([[-1, -1], [v, r.randint(1, n)]]), "kind": "blank"})
        elif kind == "drop" and ps:
            del ps[i]
        elif kind == "below":
            g["parts"] = r.sample(ps, min(len(ps), self.t - 1))
        elif kind == "dup" and len(ps) >= 2:
            ps[(i + 1) % len(ps)] = dict(ps[i])
        elif kind == "dupadd" and ps:
            ps.append(dict(ps[i]))
        elif kind == "junk" and ps:
            ps[i] = {"pk": ps[i]["pk"], "kind": "junk"}
        elif kind == "trunc" and ps:
            ps[i] = {"pk": ps[i]["pk"], "kind": "trunc"}
        elif kind == "swappk" and len(ps) >= 2:
            j = (i + 1) % len(ps)
            ps[i]["pk"], ps[j]["pk"] = ps[j]["pk"], ps[i]["pk"]
        elif kind == "nopk" and ps:
            ps[i]["pk"] = [-1, -1]
        elif kind == "unkpk" and ps:
            ps[i]["pk"] = r.choice([[0, 0], [v % self.nv + 1, ps[i]["pk"][1]]])
        elif kind == "otherw":
            R["w"] = r.choice([x for x in (1, 2, 3, 4, 5) if x != R["w"]])
        elif kind == "badw":
            R["w"] = 7
        elif kind == "addrw":
            R["w"] = 6
        elif kind == "othera":
            g["a"] = r.choice([1, 8, 32, 31, 64, 0])
        elif kind == "bada":
            g["araw"] = r.choice(["12x", "-1", "", "1e9", "32000000000.0"])
        elif kind == "mixw" and ps and "sig" in ps[i]:
            ps[i]["sig"] = dict(ps[i]["sig"], w=r.choice([x for x in (1, 2, 3, 4, 5) if x != ps[i]["sig"]["w"]]))
        elif kind == "mixa" and ps and "sig" in ps[i]:
            ps[i]["sig"] = dict(ps[i]["sig"], a=r.choice([1, 8, 32, 64]))
        elif kind == "otherv" and ps and "sig" in ps[i] and self.nv > 1:
            ov = v % self.nv + 1
            ps[i] = {"pk": [ov, ps[i]["pk"][1]], "sig": dict(ps[i]["sig"], sv=ov, v=r.choice([ov, v]))}
        elif kind == "lowgroup" and ps:
            R["amounts"].insert(r.randrange(len(R["amounts"]) + 1), {"a": r.choice([1, 2, 16]), "parts": [dict(ps[0])]})
        elif kind == "dupgroup":
            R["amounts"].append(json.loads(json.dumps(g)))
        elif kind == "empty":
            R["amounts"] = []
        elif kind == "garbage":
            R["garbage"] = r.choice(["<html>bad gateway</html>", "{", "[]", "null", "{\"amounts\": 5}"])
        elif kind == "pkfield":
            R["pkfield"] = r.choice([0, v % self.nv + 1])
        elif kind == "wform":
            R["wform"] = r.choice(["plain", "upper"])
        elif kind == "zero":
            g["a"] = 0
        return R

    def fetch(self, op, vals, d, gets=None, tamper=0.35, **kw):
        if self.c >= 38:
            return
        self.c += 1
        r = self.r
        if gets is None:
            gets = []
            for v in vals:
                x = r.random()
                if x < 0.06:
                    gets.append({"code": r.choice([500, 404, 401, 503, 400])})
                    continue
                R = self.honest(v) if 1 <= v <= self.nv else None
                if R is None:
                    R = self.honest(v, full=False) if (1 <= v <= self.nv and r.random() < 0.4) else None
                if R is None:
                    gets.append({"code": r.choice([401, 401, 404])})
                    continue
                if r.random() < tamper:
                    R = self.tamper(R, v)
                gets.append(R)
        self.s.append(dict({"ev": "Fetch", "c": self.c, "op": op, "vals": vals, "dir": d, "gets": gets}, **kw))


G = 1000000000
EDGE = [0, 1, G - 1, G, G + 1, 8 * G, 16 * G, 31 * G, 32 * G - 1, 32 * G, 32 * G + 1, 33 * G, 64 * G, 2048 * G - 1, 2048 * G, 2048 * G + 1, 4096 * G]


def fn_step(r, sc):
    """a call of one of the functions of eth2util/deposit with arguments around their edges"""
    f = r.choice(["newmsg", "newmsg", "verify", "verify", "dedup", "max"])
    comp = r.random() < 0.5
    if f == "newmsg":
        return {"ev": "Fn", "f": f, "v": r.randint(1, sc.nv), "addr": r.choice(["A", "A", "B", "B", "short", "no0x", "nothex", "creds32", "empty"]),
                "gwei": r.choice(EDGE), "comp": comp}
    if f == "verify":
        k = r.choice([0, 1, 1, 2, 2, 3, 4])
        amts = [r.choice(EDGE) for _ in range(k)]
        if r.random() < 0.5 and k:
            # partial amounts that add up to 32 ETH, give or take one Gwei
            amts = [G] * (k - 1)
            amts.append(32 * G - sum(amts) + r.choice([0, 0, -1, 1, G]))
            r.shuffle(amts)
        return {"ev": "Fn", "f": f, "amts": amts, "comp": comp, "nil": k == 0 and r.random() < 0.5}
    if f == "dedup":
        return {"ev": "Fn", "f": f, "amts": [r.choice([G, 8 * G, 32 * G, 32 * G, G, 256 * G, 5]) for _ in range(r.randint(0, 6))]}
    return {"ev": "Fn", "f": "max", "comp": comp}


def scenario(r, big):
    s = scenario0(r, big)
    sc = Scn(r, s[0]["n"], s[0]["t"], s[0]["nv"], s[0]["comp"])
    out = []
    for st in s:
        out.append(st)
        if st["ev"] == "Fetch" and r.random() < 0.7:
            out.append({"ev": "Fn", "f": "readback", "op": st["op"], "dir": st["dir"]})
        if r.random() < 0.12:
            out.append(fn_step(r, sc))
    return out


def scenario0(r, big):
    n, t = r.choice(SHAPES)
    flavour = r.choice(["threshold", "threshold", "messages", "messages", "refuse", "multi", "multi", "resign", "byz", "dirs", "tamper", "tamper", "comp"])
    comp = flavour == "comp" or r.random() < 0.2
    nv = r.choice([2, 3]) if flavour in ("multi", "dirs") else r.choice([1, 1, 2, 2, 3])
    sc = Scn(r, n, t, nv, comp)
    ops = list(range(1, n + 1))
    byz = r.choice([0, 0, n, r.randint(1, n)])
    honest = [o for o in ops if o != byz]
    pre = 2 if comp else 1
    goodw = [w for w in (1, 2, 3, 4) if (w % 2 == 0) == comp]
    v = r.randint(1, nv)
    w = r.choice(goodw)
    a = r.choice([32, 32, 1, 8, 2048 if comp else 16])

    def byzmove():
        if not byz:
            return
        bl = []
        for _ in range(r.choice([1, 1, 2])):
            bv = r.choice([v, v, r.randint(1, nv), 0])
            bl.append((bv, r.choice([w, w, r.randint(1, 5)]), r.choice([a, a, 8, 64, 0]), r.choice([bv, bv, r.randint(1, nv)]) or v, r.choice([byz, byz, r.randint(1, n)])))
        sc.byz(byz, bl)

    if flavour in ("threshold", "byz", "comp"):
        order = honest[:]
        r.shuffle(order)
        who = r.choice(honest)
        amts = [a] if r.random() < 0.6 else sorted({a, r.choice([1, 8, 32])})
        for k, op in enumerate(order):
            sc.sign(op, [v], [w], amts)
            if flavour == "byz" or r.random() < 0.15:
                byzmove()
            if r.random() < 0.5:
                sc.fetch(r.choice(honest), [v], r.choice([1, 1, 2]))
        sc.fetch(who, [v], 1)
        sc.fetch(who, [v], 1, tamper=0.8)
        if comp:
            sc.sign(r.choice(honest), [v], [r.choice([1, 2, 5, 6])], [r.choice([2048, 2049, 33, 64])])
            sc.fetch(who, [v], 2)
    elif flavour == "messages":
        # operators sign different messages for the same validator: other credentials, other amounts
        for op in honest:
            sc.sign(op, [v], [r.choice([w, w, r.choice(goodw), r.randint(1, 5)])], [r.choice([a, a, 8, 32])])
            if r.random() < 0.3:
                byzmove()
        who = r.choice(honest)
        for _ in range(r.randint(2, 4)):
            # the API mixes what it has: partials of every credentials / amount under one label
            have = sorted({(ww, aa) for (sv, k, vv, ww, aa) in sc.pool if sv == v and vv == v})
            if have and r.random() < 0.6:
                lw, la = r.choice(have)
                parts = []
                for (sv, k, vv, ww, aa) in sorted(sc.pool):
                    if sv == v and vv == v and (r.random() < 0.7 or (ww, aa) == (lw, la)):
                        parts.append({"pk": [v, k], "sig": {"sv": v, "k": k, "v": v, "w": ww, "a": aa}})
                r.shuffle(parts)
                sc.fetch(who, [v], 1, gets=[{"code": 200, "w": lw, "amounts": [{"a": la, "parts": parts}]}])
            else:
                sc.fetch(who, [v], 1)
            if r.random() < 0.5:
                sc.sign(r.choice(honest), [v], [w], [a])
    elif flavour == "refuse":
        for op in honest:
            kind = r.choice(["amount", "amount", "notinlock", "count", "addr", "prefix", "nothex", "keynothex", "keyshort", "ok", "ok", "dupamt", "zero"])
            if kind == "amount":
                sc.sign(op, [v], [w], r.choice([[33], [2049], [32, 33], [4096], [32, 100000]]))
            elif kind == "zero":
                sc.sign(op, [v], [w], r.choice([[0], [32, 0]]))
            elif kind == "notinlock":
                sc.sign(op, r.choice([[0], [v, 0], [0, v]]), [w], [32])
            elif kind == "count":
                sc.sign(op, [v, v % nv + 1], [w, w, w], [32])
            elif kind == "addr":
                sc.sign(op, [v], [6], [32])
            elif kind == "prefix":
                sc.sign(op, [v], [r.choice([1, 2, 3, 4, 5])], [32])
            elif kind == "nothex":
                sc.sign(op, [v], [7], [32])
            elif kind == "keynothex":
                sc.sign(op, [-2], [w], [32])
            elif kind == "keyshort":
                sc.sign(op, r.choice([[-1], [v, -1]]), [w], [32])
            elif kind == "dupamt":
                sc.sign(op, [v], [w], [8, 8, 32])
            else:
                sc.sign(op, [v], [w], [32])
        who = r.choice(honest)
        sc.fetch(who, [r.choice([v, 0, -2])], 1)
        sc.fetch(who, r.choice([[v, 0], [0, v], [v]]), 1)
    elif flavour in ("multi", "dirs"):
        vs = list(range(1, nv + 1))
        amts = r.choice([[32], [32, 8], [1, 32], [32]])
        for op in honest:
            mine = vs if r.random() < 0.7 else r.sample(vs, r.randint(1, nv))
            ws = [w] if r.random() < 0.6 else [r.choice(goodw) for _ in mine]
            sc.sign(op, mine, ws, amts)
            if r.random() < 0.3:
                sc.fetch(r.choice(honest), r.sample(vs, r.randint(1, nv)), r.choice([1, 2]))
        who = r.choice(honest)
        for _ in range(r.randint(2, 4)):
            fv = r.sample(vs, r.randint(1, nv))
            if r.random() < 0.2:
                fv.append(r.choice(fv + [0]))
            sc.fetch(who, fv, r.choice([1, 1, 2]), pkform=r.choice(["", "", "upper"]))
            if r.random() < 0.5:
                sc.sign(r.choice(honest), [r.choice(vs)], [r.choice(goodw)], [r.choice([32, 8, 1])])
    elif flavour == "resign":
        for op in honest:
            amts = r.choice([[a], [a, 8]])
            sc.sign(op, [v], [w], amts, code=r.choice([201, 500, 400]))
            sc.sign(op, [v], [w], amts, code=r.choice([201, 409]))
            if r.random() < 0.4:
                sc.fetch(r.choice(honest), [v], 1)
        # an API that stored the re-posted partials twice
        R = sc.honest(v, w)
        if R:
            for g in R["amounts"]:
                g["parts"] = g["parts"] + [dict(g["parts"][0])]
            sc.fetch(honest[0], [v], 1, gets=[R])
        sc.fetch(honest[0], [v], 1)
    else:   # tamper
        for op in honest[:r.choice([t, t, min(len(honest), t + 1)])]:
            sc.sign(op, [v], [w], [a], code=201)
        if r.random() < 0.3:
            byzmove()
        for _ in range(r.randint(4, 8)):
            sc.fetch(r.choice(honest), [v], r.choice([1, 1, 2]), tamper=0.9)
        sc.fetch(r.choice(honest), [v], 1, tamper=0)
    return sc.s


def random_schedules(seed, num, big):
    r = vlib.rng(seed, "depositflow-rnd")
    return [scenario(r, big) for _ in range(num)]


# ----------------------------------------------------------------------------------------------------------------------
# directed probes of the deviations
# ----------------------------------------------------------------------------------------------------------------------
def probe_D1():
    def part(k, w):
        return {"pk": [1, k], "sig": {"sv": 1, "k": k, "v": 1, "w": w, "a": 32}}
    return [{"ev": "Cfg", "n": 3, "t": 2, "nv": 1, "comp": False},
            {"ev": "Sign", "c": 1, "op": 1, "vals": [1], "ws": [6], "amts": [32]},       # a 20-byte withdrawal address
            {"ev": "Sign", "c": 2, "op": 2, "vals": [1], "ws": [2], "amts": [32]},       # 0x02 credentials, the lock is not compounding
            {"ev": "Sign", "c": 3, "op": 3, "vals": [1], "ws": [5], "amts": [32]},       # 0x00 credentials
            {"ev": "Sign", "c": 4, "op": 2, "vals": [1], "ws": [1], "amts": [32]},
            {"ev": "Fetch", "c": 5, "op": 1, "vals": [1], "dir": 1, "gets": [{"code": 200, "w": 1, "amounts": [{"a": 32, "parts": [part(1, 1), part(2, 1)]}]}]}]


def probe_D2():
    return [{"ev": "Cfg", "n": 3, "t": 2, "nv": 1, "comp": False},
            {"ev": "Sign", "c": 1, "op": 1, "vals": [-1], "ws": [1], "amts": [32]},
            {"ev": "Sign", "c": 2, "op": 1, "vals": [1], "ws": [1], "amts": [32]}]


def confirm_deviations(o):
    """Each directed probe, executed twice: rejected by the contract cfg and accepted by the as-coded cfg -> the deviation is in the
    tree (KNOWN-FINDING, the bulk is validated as coded); accepted by the contract -> the deviation is gone; rejected by both ->
    the regular violation path (against the as-coded cfg, so that the reported event is the unexplained one)."""
    confirmed = []
    for did, pr in (("D1", probe_D1()), ("D2", probe_D2())):
        traces, sids, wall = vlib.run_schedules(o.pid, PKG, "TestExec", [pr, pr], tag="probe_" + did)
        strict = (lambda tr, did=did: trace_cfg(tr[0]["n"], tr[0]["t"], tr[0]["nv"], tr[0]["comp"], did != "D1", did != "D2"))
        vs = vlib.validate_traces(o.pid, FAMILY, TRACE, strict, traces)
        vd = vlib.validate_traces(o.pid, FAMILY, TRACE, cfg_ascoded, traces)
        o.schedules += 2
        o.traces += len(traces)
        o.trace_events += sum(len(t) for t in traces)
        o.trace_states += vs.states + vd.states
        if len(vs.rejected) not in (0, len(traces)):
            raise vlib.Infra("probe %s: the two executions of one schedule got different verdicts" % did)
        if vs.rejected and not vd.rejected:
            _dev[did] = True
            confirmed.append(FINDINGS[did][0])
            o.known.append((FINDINGS[did][0], FINDINGS[did][1]))
        elif vs.rejected:
            # neither the contract nor the deviation explains what the code did: report it against the as-coded configuration
            vlib.conformance(o, FAMILY, TRACE, cfg_ascoded, PKG, [pr], tag="probe_" + did)
            if not o.violations:
                raise vlib.Infra("probe %s rejected by the contract and by the as-coded cfg, but not reproduced" % did)
        else:
            _dev[did] = False
            o.notes.append("deviation %s (%s) not observed on this tree: the bulk is validated against the contract" % (did, FINDINGS[did][0]))
        log("[%s] DepositFlow probe %s: %d traces in %.1fs; %s" % (o.pid, did, len(traces), wall, "confirmed" if _dev[did] else "not observed"))
    o.extra["depositflow_deviations_confirmed"] = confirmed


# ----------------------------------------------------------------------------------------------------------------------
# binding self-tests
# ----------------------------------------------------------------------------------------------------------------------
def mutators():
    def first(t, pred):
        for k, e in enumerate(t):
            if pred(e):
                return k
        return None

    def post(e):
        return e["ev"] == "Post" and e["op"] > 0 and e["blobs"]

    def other_share(t):
        k = first(t, post)
        if k is None:
            return None
        t[k]["blobs"][0]["k"] = t[k]["blobs"][0]["k"] % t[0]["n"] + 1
        return t

    def other_amount(t):
        k = first(t, post)
        if k is None:
            return None
        t[k]["blobs"][0]["a"] = t[k]["blobs"][0]["a"] + 1
        return t

    def other_creds(t):
        k = first(t, post)
        if k is None:
            return None
        t[k]["blobs"][0]["w"] = t[k]["blobs"][0]["w"] % 4 + 1
        return t

    def blob_dropped(t):
        k = first(t, post)
        if k is None:
            return None
        t[k]["blobs"] = t[k]["blobs"][1:]
        return t

    def share_index(t):
        k = first(t, post)
        if k is None:
            return None
        t[k]["share"] = t[k]["share"] % t[0]["n"] + 1
        return t

    def sig_bytes(t):
        seen = {}
        for e in t:
            if e["ev"] == "Post":
                for b in e["blobs"]:
                    key = (b["sv"], b["k"], b["v"], b["w"], b["a"])
                    if b["k"] >= 1 and key in seen:
                        b["id"] = 999
                        return t
                    seen[key] = b["id"]
        return None

    def post_dropped(t):
        k = first(t, post)
        if k is None:
            return None
        del t[k]
        return t

    def refused_posts(t):
        # a refused sign command is seen posting
        for k, e in enumerate(t):
            if e["ev"] == "Done" and not e["ok"] and t[k - 1]["ev"] == "Start" and t[k - 1]["kind"] == "sign" and all(1 <= v <= t[0]["nv"] for v in t[k - 1]["vals"]):
                st = t[k - 1]
                t.insert(k, {"ev": "Post", "op": st["op"], "lock": True, "share": st["op"], "code": 201,
                             "blobs": [{"v": st["vals"][0], "w": 1, "a": st["amts"][0], "sv": st["vals"][0], "k": st["op"], "id": 998}]})
                return t
        return None

    def result(t):
        k = first(t, lambda e: e["ev"] == "Done" and e["ok"])
        if k is None:
            return None
        t[k]["ok"] = False
        return t

    def failed_but_ok(t):
        k = first(t, lambda e: e["ev"] == "Done" and not e["ok"])
        if k is None:
            return None
        t[k]["ok"] = True
        return t

    def has_file(e):
        return e["ev"] == "Done" and any(f["entries"] for f in e["files"])

    def file_missing(t):
        k = first(t, has_file)
        if k is None:
            return None
        t[k]["files"] = t[k]["files"][1:]
        return t

    def file_bad(t):
        k = first(t, has_file)
        if k is None:
            return None
        [f for f in t[k]["files"] if f["entries"]][0]["entries"][0]["by"] = 0
        return t

    def file_other_creds(t):
        k = first(t, has_file)
        if k is None:
            return None
        e = [f for f in t[k]["files"] if f["entries"]][0]["entries"][0]
        e["w"] = e["w"] % 4 + 1
        return t

    def file_wrong_name(t):
        k = first(t, has_file)
        if k is None:
            return None
        f = [f for f in t[k]["files"] if f["entries"]][0]
        f["fa"] = f["fa"] + 1
        return t

    def file_extra_entry(t):
        k = first(t, has_file)
        if k is None:
            return None
        f = [f for f in t[k]["files"] if f["entries"]][0]
        f["entries"].append(dict(f["entries"][0]))
        return t

    def file_roots(t):
        k = first(t, has_file)
        if k is None:
            return None
        [f for f in t[k]["files"] if f["entries"]][0]["entries"][0]["roots"] = False
        return t

    def file_on_failure(t):
        for k, e in enumerate(t):
            if e["ev"] == "Done" and not e["ok"] and not e["files"]:
                st = [x for x in t if x["ev"] == "Start" and x["c"] == e["c"]][0]
                if st["kind"] == "fetch" and st["vals"][0] >= 1:
                    e["files"] = [{"name": "deposit-data.json", "fa": 32, "wellformed": True,
                                   "entries": [{"v": st["vals"][0], "w": 1, "a": 32, "by": st["vals"][0], "roots": True, "fork": True}]}]
                    return t
        return None

    def good_get(e):
        return e["ev"] == "Get" and e["code"] == 200 and e["resp"]["amounts"] and e["resp"]["amounts"][0]["parts"]

    def below_threshold(t):
        # an accepted response is reported with fewer partials than the threshold
        for k, e in enumerate(t):
            if good_get(e) and t[k + 1]["ev"] == "Done" and t[k + 1]["ok"]:
                e["resp"]["amounts"][0]["parts"] = e["resp"]["amounts"][0]["parts"][:t[0]["t"] - 1]
                return t
        return None

    def mixed_message(t):
        for k, e in enumerate(t):
            if good_get(e) and t[k + 1]["ev"] == "Done" and t[k + 1]["ok"]:
                e["resp"]["amounts"][0]["parts"][0]["tok"]["a"] += 1
                return t
        return None

    def wrong_pubshare(t):
        for k, e in enumerate(t):
            if good_get(e) and t[k + 1]["ev"] == "Done" and t[k + 1]["ok"]:
                p = e["resp"]["amounts"][0]["parts"][0]
                p["pk"] = [p["pk"][0], p["pk"][1] % t[0]["n"] + 1]
                return t
        return None

    def get_dropped(t):
        k = first(t, lambda e: e["ev"] == "Get")
        if k is None:
            return None
        del t[k]
        return t

    def get_other_validator(t):
        k = first(t, lambda e: e["ev"] == "Get")
        if k is None:
            return None
        t[k]["v"] = t[k]["v"] % 3 + 1 if t[k]["v"] >= 1 else 1
        return t

    def fn(name):
        return lambda e: e["ev"] == "Fn" and e["f"] == name

    def newmsg_result(t):
        k = first(t, fn("newmsg"))
        if k is None:
            return None
        t[k]["ok"] = not t[k]["ok"]
        return t

    def newmsg_prefix(t):
        k = first(t, lambda e: fn("newmsg")(e) and e["ok"])
        if k is None:
            return None
        t[k]["creds"] = {1: 2, 2: 1, 3: 4, 4: 3}[t[k]["creds"]]
        return t

    def verify_result(t):
        k = first(t, fn("verify"))
        if k is None:
            return None
        t[k]["ok"] = not t[k]["ok"]
        return t

    def dedup_order(t):
        k = first(t, lambda e: fn("dedup")(e) and len(e["out"]) >= 2)
        if k is None:
            return None
        t[k]["out"] = t[k]["out"][::-1]
        return t

    def readback_short(t):
        k = first(t, lambda e: fn("readback")(e) and e["files"])
        if k is None:
            return None
        t[k]["files"] = t[k]["files"][1:]
        return t

    def lock_touched(t):
        k = first(t, lambda e: e["ev"] == "Done")
        if k is None:
            return None
        t[k]["lockSame"] = False
        return t

    return [("partial signature by another share", other_share), ("partial over another amount", other_amount),
            ("partial over other credentials", other_creds), ("a partial of the command line not posted", blob_dropped),
            ("posted under another share index", share_index), ("re-signed partial with other bytes", sig_bytes),
            ("the request of a sign command not observed", post_dropped), ("a refused sign command posts", refused_posts),
            ("successful command reported failed", result), ("failed command reported successful", failed_but_ok),
            ("a written deposit file missing", file_missing), ("a written deposit that does not verify", file_bad),
            ("a written deposit with other credentials", file_other_creds), ("a deposit in the file of another amount", file_wrong_name),
            ("an extra entry in a deposit file", file_extra_entry), ("deposit roots in the file wrong", file_roots),
            ("deposit file written by a failed fetch", file_on_failure), ("deposit accepted below the threshold", below_threshold),
            ("deposit accepted with a partial over another message", mixed_message), ("deposit accepted with a mislabelled public share", wrong_pubshare),
            ("a full-deposit request not observed", get_dropped), ("full-deposit request for another validator", get_other_validator),
            ("the cluster lock file changed", lock_touched), ("NewMessage with the opposite result", newmsg_result),
            ("NewMessage credentials with the other prefix", newmsg_prefix), ("VerifyDepositAmounts with the opposite result", verify_result),
            ("DedupAmounts descending", dedup_order), ("a written file not read back", readback_short)]


# ----------------------------------------------------------------------------------------------------------------------
CONTROLS = (("DepositFlowMC_ctl_noVerify.cfg", "FetchSound", "the client verifies neither the partials nor the aggregate"),
            ("DepositFlowMC_ctl_posIdx.cfg", "Robust", "the client takes a partial signature's position for its share index"),
            ("DepositFlowMC_ctl_noRange.cfg", "SignedInRange", "deposit sign does not check the amounts"),
            ("DepositFlowMC_ctl_writeEarly.cfg", "FetchAtomic", "deposit fetch writes files before the last validator is fetched"),
            ("DepositFlowMC_ctl_mixExisting.cfg", "FetchAtomic", "deposit fetch appends to an existing file"),
            ("DepositFlowMC_ctl_okOn4xx.cfg", "SignReport", "deposit sign reports success when the API refused"),
            ("DepositFlowMC_ctl_D1_creds.cfg", "CredsMatchLock", "D1 as coded: credentials signed verbatim"))
QUICK_MC = ["DepositFlowMC_core.cfg", "DepositFlowMC_strict.cfg", "DepositFlowMC_msg.cfg", "DepositFlowMC_amts.cfg", "DepositFlowMC_multi.cfg",
            "DepositFlowMC_refuse.cfg", "DepositFlowMC_comp.cfg", "DepositFlowMC_four.cfg", "DepositFlowMC_live.cfg"]
THOROUGH_MC = QUICK_MC + ["DepositFlowMC_core_thorough.cfg", "DepositFlowMC_strict_thorough.cfg", "DepositFlowMC_msg_thorough.cfg",
                          "DepositFlowMC_multi_thorough.cfg", "DepositFlowMC_refuse_thorough.cfg", "DepositFlowMC_four_thorough.cfg"]
GEN = ["core", "small", "msg", "amts", "multi", "refuse", "comp"]


def design_check(o, tier, seed):
    """Design check, the controls that MUST be violated and the schedule generation: independent TLC runs side by side."""
    from concurrent.futures import ThreadPoolExecutor
    thorough = tier == "thorough"
    mains = THOROUGH_MC if thorough else QUICK_MC
    controls = CONTROLS
    if os.environ.get("VERIF_DEPOSITFLOW_NOMC"):      # mutation experiments: the design check does not depend on the tree
        mains, controls = [], ()
    n = 1200 if thorough else 150
    jobs = [("DepositFlowGen", "DepositFlowGen_%s.cfg" % g, dict(simulate="num=%d" % n, depth=100, seed=seed + k, workers=1)) for k, g in enumerate(GEN)]
    jobs += [("DepositFlowMC", c, dict(workers=WORKERS or (4 if thorough else 2))) for c in mains]
    jobs += [("DepositFlowMC", c, dict(workers=1)) for c, _, _ in controls]
    dirs = [vlib.scratch(o.pid, FAMILY) for _ in jobs]
    ex = ThreadPoolExecutor(max_workers=6 if thorough else 8)
    futs = [ex.submit(vlib.tlc, o.pid, FAMILY, j[0], j[1], timeout=1700, sdir=d, **j[2]) for j, d in zip(jobs, dirs)]
    hists = []
    for g, f in zip(GEN, futs[:len(GEN)]):
        r = f.result()
        if r.error or r.timed_out or (r.violation and r.violation != "deadlock"):
            raise vlib.Infra("schedule generation failed: %s\n%s" % (r.summary(), r.out[-2000:]))
        seen, mine = set(), []
        for p in vlib.tagged_prints(r, "SCHED"):
            if p not in seen:
                seen.add(p)
                mine.append(json.loads(p))
        if not mine:
            raise vlib.Infra("schedule generation %s: no histories" % g)
        hists.append(mine)

    def join():
        res = [f.result() for f in futs[len(GEN):]]
        ex.shutdown()
        for cfg, r in zip(mains, res):
            vlib.require_mc_ok(r, cfg)
            o.add_mc("DepositFlow/" + cfg[:-4], r)
        for (cfg, inv, what), r in zip(controls, res[len(mains):]):
            if r.violation != inv:
                raise vlib.Infra("design-spec control failed: '%s' not caught by %s: %s" % (what, inv, r.summary()))
            o.selftests.append({"control": "DepositFlow spec variant '%s' violates %s" % (what, inv), "rejected_as_required": True})
    return hists, join


def stage(o, tier, seed):
    """Run the DepositFlow family as a stage of a check."""
    t0 = time.time()
    thorough = tier == "thorough"
    hists, join_design = design_check(o, tier, seed)
    confirm_deviations(o)
    r = vlib.rng(seed, "depositflow-gen")
    gen = []
    per = 400 if thorough else 45
    for hs in hists:
        r.shuffle(hs)
        gen += [from_hist(h) for h in hs[:per]]
    rnd = random_schedules(seed, 3000 if thorough else 350, thorough)
    o.extra["depositflow_histories_by_tlc"] = len(gen)
    kw = dict(chunk=120, exec_timeout=1500, tv_timeout=1500, env={"VERIF_DEPOSITFLOW_PAR": "6"})
    vlib.conformance(o, FAMILY, TRACE, cfg_of, PKG, gen, tag="depgen", **kw)
    vlib.conformance(o, FAMILY, TRACE, cfg_of, PKG, rnd, tag="deprnd", **kw)
    join_design()
    tr = []
    for tag in ("depgen", "deprnd"):
        tr += vlib.split_traces(vlib.read_ndjson(os.path.join(vlib.workdir(o.pid), "trace_%s.ndjson" % tag)))
    if not o.violations:
        ms = mutators()
        nself = len(o.selftests)
        vlib.binding_selftest(o, FAMILY, TRACE, cfg_of, tr, ms, candidates=6)
        if len(o.selftests) - nself < len(ms):
            raise vlib.Infra("DepositFlow binding self-test: some negative control found no applicable trace")
    ev = [e for t in tr for e in t]
    starts = {}
    for e in ev:
        if e["ev"] == "Start":
            starts[e["kind"]] = starts.get(e["kind"], 0) + 1
    x = o.extra
    x["depositflow_commands"] = starts
    x["depositflow_posts"] = sum(1 for e in ev if e["ev"] == "Post")
    x["depositflow_partials_posted"] = sum(len(e["blobs"]) for e in ev if e["ev"] == "Post")
    x["depositflow_byzantine_posts"] = sum(1 for e in ev if e["ev"] == "Post" and e["op"] == 0)
    x["depositflow_gets"] = sum(1 for e in ev if e["ev"] == "Get")
    x["depositflow_gets_answered"] = sum(1 for e in ev if e["ev"] == "Get" and e["code"] == 200)
    x["depositflow_deposits_written"] = sum(len(f["entries"]) for e in ev if e["ev"] == "Done" and e["ok"] for f in e["files"])
    x["depositflow_commands_ok"] = sum(1 for e in ev if e["ev"] == "Done" and e["ok"])
    x["depositflow_commands_failed"] = sum(1 for e in ev if e["ev"] == "Done" and not e["ok"])
    x["depositflow_function_calls"] = sum(1 for e in ev if e["ev"] == "Fn")
    x["depositflow_fetch_ok_with_files"] = sum(1 for e in ev if e["ev"] == "Done" and e["ok"] and e["files"])
    if not o.violations and (x["depositflow_fetch_ok_with_files"] < 10 or x["depositflow_partials_posted"] < 50):
        raise vlib.Infra("vacuous DepositFlow run: %s" % {k: v for k, v in x.items() if k.startswith("depositflow_")})
    log("[%s] DepositFlow stage: %d TLC histories + %d random schedules -> %d traces, commands %s, %d posts (%d partials, %d Byzantine), "
        "%d full-deposit requests (%d answered), %d deposits in files, %d ok / %d failed commands, %.0fs"
        % (o.pid, len(gen), len(rnd), len(tr), starts, x["depositflow_posts"], x["depositflow_partials_posted"], x["depositflow_byzantine_posts"],
           x["depositflow_gets"], x["depositflow_gets_answered"], x["depositflow_deposits_written"], x["depositflow_commands_ok"],
           x["depositflow_commands_failed"], time.time() - t0))


def main(tier="quick", seed=1, pid="GDEPOSITFLOW"):
    """Stand-alone driver (the evidence file is written by checks/grow_all.py when the family is registered)."""
    vlib.workdir(pid, fresh=True)
    o = vlib.Outcome(pid, tier, seed)
    try:
        stage(o, tier, int(seed))
    except vlib.Infra as e:
        log("INFRA: %s" % e)
        return 2
    for fid, txt in o.known:
        log("KNOWN-FINDING: property=%s %s: %s" % (pid, fid, txt))
    for path, txt in o.violations:
        log("VIOLATION property=%s replay=%s" % (pid, path))
        log("  " + txt)
    if o.violations:
        return 1
    log("[%s] OK tier=%s seed=%s: %d MC states, %d traces validated, %d self-test controls, %.0fs"
        % (pid, tier, seed, o.states, o.traces, len(o.selftests), time.time() - o.t0))
    return 0


def replay(path):
    rp = json.load(open(path))
    o = vlib.Outcome(rp.get("property", "GDEPOSITFLOW"), "quick", 0)
    vlib.conformance(o, FAMILY, rp["trace_module"], cfg_of, rp["pkg"], [rp["schedule"]], tag="replay")
    for p, t in o.violations:
        log("replay: " + t)
    return 1 if o.violations else 0


if __name__ == "__main__":
    import sys
    sys.exit(main(*(sys.argv[1:3] or ["quick", 1])))
