"""GROWTH family "Exchanger" - the partial signature exchange of the key generation ceremony (dkg/exchanger.go: newExchanger,
exchange, pushPsigs, resolveQueriesUnsafe, verifyPeerShareIdx, the duty gater; wired to a real parsigdb.MemDB with threshold
= number of peers and a real parsigex.ParSigEx), as dkg.go uses it: one exchange per sigType (deposit amounts 200, 201, ..,
builder registrations 102, lock hash 101), one after the other on every node, the nodes not in lock-step.

specs/Exchanger/Exchanger.tla transcribes the code action by action (one action per critical section / send / select case);
TLC (a) checks the contract on the spec for every interleaving of a small cluster and refutes it for the control variants,
(b) generates schedules; the executor runs every schedule on n real exchangers over an in-memory libp2p host inside
testing/synctest and logs which messages appeared and what exchange returned; TLC validates every trace against the spec.

Not a registered check: `stage(o, tier, seed)` runs the family (./check --grow exchanger); `main(tier, seed)` is a stand-alone
driver, `replay(path)` re-runs a replay file."""
import json, os, time
import vlib
from vlib import log

FAMILY = "Exchanger"
PKG = "exchanger"
TRACE = "ExchangerTrace"
TCFG = "ExchangerTrace.cfg"
DEV = []

RULE = ("Exchanger: schedules = one cluster each: n in 3..4 real exchangers (real parsigdb.MemDB + parsigex.ParSigEx over an "
        "in-memory libp2p host), V in 1..2 validators, 2..3 consecutive sigTypes out of {200, 201, 202, 102, 101}; the "
        "environment's moves: Call(i, sigType) (sequentially per node as dkg.Run does, or several exchanges at once as "
        "TestExchanger does; nodes a whole step ahead of others), delivery of every message in any order / more than once / "
        "never (then the exchange timeout passes in virtual time), connections that block the sender's p2p.Send in the middle "
        "of its broadcast, one faulty peer handing forged messages to the others' parsigex handler under its own identity "
        "(foreign share index, index 0, a set with one foreign entry, second different signature, partial sets, unknown "
        "validator, unregistered sigTypes, future deposit sigType, entries made for another sigType) or replacing its own "
        "exchange by partial messages; generated (a) by TLC simulation of ExchangerGen, (b) by a seeded generator of "
        "structured orders (lock-step, reversed, straggler, early arrival = everything buffered before the local call, "
        "sprinter, concurrent calls with later sigTypes delivered first, starved + timeout, partial-message faulty peer); "
        "every trace validated by ExchangerTrace.tla: the messages that appeared and the calls that returned after every "
        "stimulus are exactly the model's, returned values judged by the contract (Exact, Authentic, ByzBound) first")
ASSUMPTIONS = [
    "Exchanger: a partial signature's bytes are opaque to the exchanger (cryptographic verification is deferred to "
    "aggregation: NodeSigs family); the model content <<signer, sigType, validator, variant>> stands for them",
    "Exchanger: every caller hands exchange the full validator set with its own share index (dkg.go does); exchange is called at "
    "most once per node and sigType; ctx cancellation and p2p send errors are not scheduled (a blocked connection is); the "
    "timeout is exercised as the last move of a schedule only (virtual time stands still before)",
    "Exchanger: goroutines run eagerly between two stimuli (exact quiescence through testing/synctest): the executed traces "
    "cover the interleavings of whole handler runs with an exchange goroutine blocked in its broadcast; the step-by-step "
    "interleaving of critical sections on one node is covered by the design check only (ExchangerMC, Focus nodes)",
    "Exchanger design check: free step-by-step interleaving on the Focus node(s) with at most MaxActive concurrent stream "
    "handlers there, goroutines of the other nodes run on eagerly and their inbound messages arrive in one canonical order per "
    "receiver (the arrival order at a node only matters to that node); quick: n=3 (V=2, two sigTypes; faulty peer with one "
    "forged message; hold + re-delivery; timeout at any time; liveness under weak fairness); thorough adds n=4, all three "
    "nodes in Focus, concurrent calls, Focus on node 2, larger faulty-peer configurations",
]
CONTROLS = [("ExchangerMC_ctl_thr.cfg", "Exact", "MemDB threshold n-1: exchange returns with one peer's partial signature missing"),
            ("ExchangerMC_ctl_nogate.cfg", "DbGated", "duty gater lets unregistered sigTypes through"),
            ("ExchangerMC_ctl_noverify.cfg", "DbSenderBound", "share index not bound to the sender"),
            ("ExchangerMC_ctl_flatkey.cfg", "Authentic", "sigData keyed without the sigType: a later exchange returns the earlier one's signatures"),
            ("ExchangerMC_ctl_firstpk.cfg", "Exact", "query resolved when the first validator is complete"),
            ("ExchangerMC_ctl_dropearly.cfg", "deadlock", "messages that arrive before the local call are dropped: the node never finishes"),
            ("ExchangerMC_ctl_noresolve.cfg", "deadlock", "exchange does not resolve when it registers: everything arrived early, the node never finishes")]
REG = (101, 102, 200)
TYPE_MENU = [[200, 102], [200, 201], [200, 201, 102], [200, 102, 101], [102, 101], [201, 202, 101], [200, 201, 202]]
UNKNOWN = [0, 100, 103, 150, 199]


def gated(st):
    return st in REG or st >= 200


# ----------------------------------------------------------------------------------------------
# seeded schedule generator: a simulator of the spec's enabling conditions (goroutines run eagerly)
# ----------------------------------------------------------------------------------------------
class Sim:
    def __init__(self, n, nv, byz, types, seq):
        self.n, self.nv, self.byz, self.types, self.seq = n, nv, byz, types, seq
        self.have = {}        # (node, st, pk) -> share indices in the node's db
        self.thr = {}         # (node, st) -> next peer the broadcast sends to (None: query registered)
        self.net, self.dlv, self.held = [], set(), set()
        self.skip = set()     # calls the faulty peer never makes

    def peers(self, i):
        return [k for k in range(1, self.n + 1) if k != i]

    def add(self, node, st, pk, idx):
        self.have.setdefault((node, st, pk), set()).add(idx)

    def advance(self, i, st):
        while self.thr[(i, st)] is not None and (i, self.thr[(i, st)]) not in self.held:
            k = self.thr[(i, st)]
            self.net.append((i, k, st))
            later = [j for j in self.peers(i) if j > k]
            self.thr[(i, st)] = later[0] if later else None

    def complete(self, i, st):
        return all(len(self.have.get((i, st, pk), ())) == self.n for pk in range(1, self.nv + 1))

    def returned(self, i, st):
        return (i, st) in self.thr and self.thr[(i, st)] is None and self.complete(i, st)

    def calls(self):
        out = []
        for i in range(1, self.n + 1):
            for k, st in enumerate(self.types):
                if (i, st) in self.thr or (i, st) in self.skip:
                    continue
                prev = self.types[k - 1] if k else None
                if k == 0 or (i, prev) in self.skip or (self.returned(i, prev) if self.seq else (i, prev) in self.thr):
                    out.append(("Call", i, st))
        return out

    def firsts(self):
        return [("D",) + p for p in self.net if p not in self.dlv]

    def all_done(self):
        return all(self.returned(i, st) for i in range(1, self.n + 1) for st in self.types if (i, st) not in self.skip)

    def apply(self, m):
        if m[0] == "Call":
            _, i, st = m
            assert (i, st) not in self.thr
            for pk in range(1, self.nv + 1):
                self.add(i, st, pk, i)
            self.thr[(i, st)] = self.peers(i)[0]
            self.advance(i, st)
        elif m[0] == "D":
            _, f, t, st = m
            assert (f, t, st) in self.net
            self.dlv.add((f, t, st))
            for pk in range(1, self.nv + 1):
                self.add(t, st, pk, f)
        elif m[0] == "Forge":
            _, to, st, ents = m
            if gated(st) and ents and all(e[1] == self.byz for e in ents):
                for e in ents:
                    self.add(to, st, e[0], self.byz)
        elif m[0] == "Hold":
            assert (m[1], m[2]) not in self.held and m[1] != m[2]
            self.held.add((m[1], m[2]))
        elif m[0] == "Release":
            self.held.discard((m[1], m[2]))
            for (i, st) in sorted(self.thr):
                if i == m[1]:
                    self.advance(i, st)


def step_of(m, var=0):
    if m[0] == "Call":
        return {"ev": "Call", "i": m[1], "st": m[2], "var": var}
    if m[0] == "D":
        return {"ev": "D", "from": m[1], "to": m[2], "st": m[3]}
    if m[0] == "Forge":
        return {"ev": "Forge", "to": m[1], "st": m[2], "set": m[3]}
    return {"ev": m[0], "from": m[1], "to": m[2]}


def forge_menu(r, sim, to, st):
    """the faulty peer's repertoire towards `to` while the cluster exchanges sigType st (entries [pk, idx, [by, st, pk, variant]])"""
    b, nv, n = sim.byz, sim.nv, sim.n
    third = [x for x in range(1, n + 1) if x not in (b, to)][0]
    other = r.choice([t for t in sim.types if t != st] or [101])
    ent = lambda pk, idx, var=0, cst=None: [pk, idx, [b, st if cst is None else cst, pk, var]]
    full = lambda s, var=0, idx=b, cst=None: (s, [ent(pk, idx, var, s if cst is None else cst) for pk in range(1, nv + 1)])
    menu = [(st, [ent(1, to, 1)]), (st, [ent(1, third, 1)]), (st, [ent(1, 0)]), (st, [ent(1, n + 1)]),
            (st, [ent(pk, b if pk == 1 else third) for pk in range(1, nv + 1)]),
            full(st, 1), (st, [ent(1, b)]), (st, [ent(nv, b)]), (st, [ent(nv + 1, b)]), full(250), full(other, 0, b, st),
            full(st, 0, third)]
    menu += [full(u) for u in UNKNOWN]
    return menu


KINDS = ["random", "lockstep", "reverse", "straggler", "early", "sprinter", "conc", "starve", "byzpartial", "holdy"]


def cluster(r, n, nv, byz, types, kind, seed):
    seq = kind != "conc" and r.random() < 0.85
    sim = Sim(n, nv, byz, types, seq)
    steps = [{"ev": "Cfg", "n": n, "V": nv, "byz": byz, "kind": kind, "seed": seed}]
    special = r.randint(1, n)
    pos = {st: k for k, st in enumerate(types)}
    ndup = nforge = nhold = 0
    starved = set()
    byzvar = r.choice([0, 0, 1]) if byz else 0
    if kind == "byzpartial" and byz:
        sim.skip.add((byz, types[-1]))
    p_hold = 0.25 if kind == "holdy" else 0.05

    def busy():
        open_ = [st for st in types if any(not sim.returned(i, st) for i in range(1, n + 1) if (i, st) not in sim.skip)]
        return open_[0] if open_ else types[-1]

    def do(m, var=0):
        sim.apply(m)
        steps.append(step_of(m, var))

    guard = 0
    while not sim.all_done():
        guard += 1
        assert guard < 2000, "generator does not terminate"
        # the faulty peer's partial messages replace its last exchange
        if kind == "byzpartial" and byz and r.random() < 0.35:
            st = types[-1]
            todo = [(to, pk) for to in range(1, n + 1) if to != byz for pk in range(1, nv + 1)
                    if byz not in sim.have.get((to, st, pk), ())]
            if todo:
                to, pk = r.choice(todo)
                do(("Forge", to, st, [[pk, byz, [byz, st, pk, 0]]]))
                continue
        if byz and nforge < 5 and r.random() < 0.12:
            to = r.choice([x for x in range(1, n + 1) if x != byz])
            st, ents = r.choice(forge_menu(r, sim, to, busy()))
            do(("Forge", to, st, ents))
            nforge += 1
            continue
        if sim.dlv and ndup < 4 and r.random() < 0.07:
            do(("D",) + r.choice(sorted(sim.dlv)))
            ndup += 1
            continue
        if nhold < 3 and r.random() < p_hold:
            i = r.randint(1, n)
            k = r.choice(sim.peers(i))
            if (i, k) not in sim.held:
                do(("Hold", i, k))
                nhold += 1
                continue
        if sim.held and r.random() < 0.3:
            do(("Release",) + r.choice(sorted(sim.held)))
            continue
        en = sim.calls() + [m for m in sim.firsts() if m[1:] not in starved]
        if kind == "starve" and en and r.random() < 0.08:
            ds = [m for m in en if m[0] == "D"]
            if ds:
                starved.add(r.choice(ds)[1:])
                continue
        if not en:
            if sim.held:
                do(("Release",) + r.choice(sorted(sim.held)))
                continue
            break                                   # starved (or the faulty peer's entries are missing): the timeout passes
        tgt = lambda m: m[1] if m[0] == "Call" else m[2]
        st_of = lambda m: m[2] if m[0] == "Call" else m[3]
        if kind in ("random", "starve", "byzpartial", "holdy"):
            m = r.choice(en)
        elif kind == "lockstep":
            s = min(pos[st_of(x)] for x in en)
            m = r.choice([x for x in en if pos[st_of(x)] == s])
        elif kind == "reverse":
            s = min(pos[st_of(x)] for x in en)
            m = max([x for x in en if pos[st_of(x)] == s], key=lambda x: (tgt(x), x[0], x[1]))
        elif kind == "straggler":            # a slow node: everything that does not concern it first
            rest = [x for x in en if tgt(x) != special]
            m = r.choice(rest) if rest else r.choice(en)
        elif kind == "early":                # everything reaches the special node before it calls
            a = [x for x in en if x[0] == "D" and x[2] == special]
            b_ = [x for x in en if not (x[0] == "Call" and x[1] == special)]
            m = r.choice(a or b_ or en)
        elif kind == "sprinter":
            mine = [x for x in en if tgt(x) == special]
            m = r.choice(mine) if mine and r.random() < 0.8 else r.choice(en)
        elif kind == "conc":                 # all calls first, then the messages of the later sigTypes first
            cs = [x for x in en if x[0] == "Call"]
            if cs:
                m = r.choice(cs)
            else:
                s = max(pos[st_of(x)] for x in en)
                m = r.choice([x for x in en if pos[st_of(x)] == s]) if r.random() < 0.7 else r.choice(en)
        else:
            raise ValueError(kind)
        do(m, byzvar if m[0] == "Call" and m[1] == byz else 0)
    if not sim.all_done():
        for h in sorted(sim.held):
            do(("Release",) + h)
        if not sim.all_done():
            if any(sim.thr[k] is None and not sim.complete(*k) for k in sim.thr):
                steps.append({"ev": "Expire"})
    else:
        # harmless late traffic
        for _ in range(r.choice([0, 0, 1, 2])):
            if byz and r.random() < 0.5:
                to = r.choice([x for x in range(1, n + 1) if x != byz])
                st, ents = r.choice(forge_menu(r, sim, to, types[-1]))
                do(("Forge", to, st, ents))
            elif sim.dlv:
                do(("D",) + r.choice(sorted(sim.dlv)))
    return steps


def random_schedules(seed, count):
    r = vlib.rng(seed, "exrnd")
    out = []
    for k in range(count):
        n = r.choice([3, 3, 4])
        nv = r.choice([1, 2, 2])
        kind = KINDS[k % len(KINDS)]
        byz = r.randint(1, n) if (kind == "byzpartial" or r.random() < 0.45) else 0
        out.append(cluster(r, n, nv, byz, r.choice(TYPE_MENU), kind, seed))
    return out


def from_tlc(scheds, seed):
    out = []
    for s in scheds:
        cfg = dict(s[0])
        cfg["seed"] = seed
        out.append([cfg] + list(s[1:]))
    return out


# ----------------------------------------------------------------------------------------------
# binding negative controls: corrupt one recorded field / drop one event of an accepted trace
# ----------------------------------------------------------------------------------------------
def mutators():
    def find(t, pred):
        for i, e in enumerate(t):
            if pred(e):
                return i, e
        return None, None

    def with_data(t):
        return find(t, lambda e: any(r[2] == "" for r in e.get("rets", [])))

    def message_lost(t):
        _, e = find(t, lambda e: e.get("sent"))
        if e:
            del e["sent"][-1]
            return t

    def message_content(t):
        _, e = find(t, lambda e: e.get("sent"))
        if e:
            e["sent"][0][3][0][2][3] ^= 1          # the variant of the first entry
            return t

    def message_to_self(t):
        _, e = find(t, lambda e: e.get("ev") == "Call" and e.get("sent"))
        if e:
            e["sent"].append([e["i"], e["i"], e["st"], e["sent"][0][3]])
            return t

    def sig_missing(t):
        _, e = with_data(t)
        if e:
            r = [r for r in e["rets"] if r[2] == ""][0]
            del r[3][0][1][-1]
            return t

    def validator_missing(t):
        _, e = with_data(t)
        if e and t[0]["V"] >= 2:
            r = [r for r in e["rets"] if r[2] == ""][0]
            del r[3][-1]
            return t

    def sig_twice(t):
        _, e = with_data(t)
        if e:
            r = [r for r in e["rets"] if r[2] == ""][0]
            r[3][0][1][-1] = json.loads(json.dumps(r[3][0][1][0]))
            return t

    def other_sigtype(t):
        # the returned set carries a peer's signature for ANOTHER sigType of the ceremony
        _, e = with_data(t)
        if e:
            r = [r for r in e["rets"] if r[2] == ""][0]
            for s in r[3][0][1]:
                if s[0] != t[0]["byz"]:
                    s[1][1] = 201 if s[1][1] != 201 else 200
                    return t

    def foreign_content(t):
        _, e = with_data(t)
        if e:
            r = [r for r in e["rets"] if r[2] == ""][0]
            for s in r[3][0][1]:
                if s[0] != t[0]["byz"]:
                    s[1][3] ^= 1
                    return t

    def early_return(t):
        # a call's return is logged one event too early
        for i, e in enumerate(t):
            if e.get("rets") and i >= 2 and "rets" in t[i - 1]:
                t[i - 1]["rets"].append(e["rets"].pop(0))
                return t

    def no_return(t):
        _, e = find(t, lambda e: e.get("rets"))
        if e:
            del e["rets"][0]
            return t

    def timeout_as_data(t):
        _, e = find(t, lambda e: any(r[2] == "timeout" for r in e.get("rets", [])))
        if e:
            [r for r in e["rets"] if r[2] == "timeout"][0][2] = ""
            return t

    def failed(t):
        _, e = with_data(t)
        if e:
            r = [r for r in e["rets"] if r[2] == ""][0]
            r[2], r[3] = "other", []
            return t

    def admitted_flipped(good):
        def fn(t):
            _, e = find(t, lambda e: e.get("ev") == "Forge" and e["admitted"] == good)
            if e:
                e["admitted"] = not good
                return t
        return fn

    def not_found(t):
        _, e = find(t, lambda e: e.get("ev") == "D")
        if e:
            e["found"] = False
            return t

    def delivery_dropped(t):
        # the delivery that completed a call is not in the log
        i, e = find(t, lambda e: e.get("ev") == "D" and e.get("rets"))
        if e:
            del t[i]
            return t

    def pending_wrong(t):
        if t[-1].get("ev") == "End":
            t[-1]["pending"] = t[-1]["pending"][1:] if t[-1]["pending"] else [[1, t[1].get("st", 200)]]
            return t

    def sent_while_held(t):
        # a message to a held connection appears before the release
        for i, e in enumerate(t):
            if e.get("ev") == "Release" and e.get("sent") and "sent" in t[i - 1]:
                t[i - 1]["sent"].append(e["sent"].pop(0))
                return t

    return [("a broadcast message is missing", message_lost), ("a broadcast message carries other content", message_content),
            ("a node sends to itself", message_to_self), ("a returned set lacks one partial signature", sig_missing),
            ("a returned map lacks a validator", validator_missing), ("a returned set lists one share twice instead of another", sig_twice),
            ("a returned set carries a signature made for another sigType", other_sigtype),
            ("a returned set carries content the peer did not submit", foreign_content),
            ("a call returns before the last message arrived", early_return), ("a call never returns", no_return),
            ("a timed-out call returns data", timeout_as_data), ("a complete exchange fails", failed),
            ("an admitted forged message reported as refused", admitted_flipped(True)),
            ("a refused forged message reported as admitted", admitted_flipped(False)),
            ("a delivered message was never sent", not_found), ("a completing delivery is missing from the log", delivery_dropped),
            ("the calls still pending at the end differ", pending_wrong), ("a message passes a held connection", sent_while_held)]


# ----------------------------------------------------------------------------------------------
WORKERS = int(os.environ.get("VERIF_TLC_WORKERS", "0")) or None


def design_check_start(o, tier):
    """design check + the controls that MUST be violated: independent TLC runs, started side by side in the background (the
    executor and the trace validation run meanwhile); returns a function that waits for them and records the results"""
    from concurrent.futures import ThreadPoolExecutor
    thorough = tier == "thorough"
    mcs = ["ExchangerMC_quick.cfg", "ExchangerMC_byz_quick.cfg", "ExchangerMC_hold_quick.cfg", "ExchangerMC_expire_quick.cfg",
           "ExchangerMC_live_quick.cfg"]
    sims = []
    if thorough:
        mcs += ["ExchangerMC_n4.cfg", "ExchangerMC_all3.cfg", "ExchangerMC_byz.cfg", "ExchangerMC_byz2.cfg",
                "ExchangerMC_focus2.cfg", "ExchangerMC_live.cfg"]
        sims = ["ExchangerMC_n4dr_sim.cfg", "ExchangerMC_conc_sim.cfg"]     # too large to enumerate: time-boxed simulation
    jobs = [(cfg, None, None) for cfg in mcs] + [(cfg, "sim", None) for cfg in sims] + list(CONTROLS)
    dirs = [vlib.scratch(o.pid, FAMILY) for _ in jobs]          # vlib.scratch is not thread-safe: all of them now
    big = WORKERS or max(4, vlib.NCPU // 2)
    SIM_S = 150

    def one(k):
        cfg, inv, _ = jobs[k]
        if inv == "sim":
            return vlib.tlc(o.pid, FAMILY, "ExchangerMC", cfg, simulate="num=1000000000", depth=170, seed=o.seed, workers=4,
                            timeout=SIM_S + 120, stop_after=SIM_S, sdir=dirs[k], heap="3g")
        return vlib.tlc(o.pid, FAMILY, "ExchangerMC", cfg, workers=(big if inv is None else 2), timeout=1700, sdir=dirs[k], heap="3g")
    ex = ThreadPoolExecutor(max_workers=3 if thorough else len(jobs))
    futs = [ex.submit(one, k) for k in range(len(jobs))]

    def finish():
        import re
        results = [f.result() for f in futs]
        ex.shutdown()
        for (cfg, inv, what), r in zip(jobs, results):
            if inv is None:
                vlib.require_mc_ok(r, cfg)
                o.add_mc("Exchanger/" + cfg[:-4], r)
            elif inv == "sim":
                if r.violation or r.error:
                    raise vlib.Infra("simulation of %s found a design-spec problem: %s\n%s" % (cfg, r.summary(), r.out[-3000:]))
                st = tr = 0
                for m in re.finditer(r"Progress: (\d+) states checked, (\d+) traces generated", r.out):
                    st, tr = int(m.group(1)), int(m.group(2))
                m = re.search(r"The number of states generated: (\d+)", r.out)
                st = max(st, int(m.group(1))) if m else st
                if st == 0:
                    raise vlib.Infra("simulation of %s made no progress: %s" % (cfg, r.out[-1500:]))
                o.add_sim("Exchanger/" + cfg[:-4], st, tr, r.wall)
            elif r.violation != inv:
                raise vlib.Infra("Exchanger design-spec control failed: '%s' not caught by %s: %s" % (what, inv, r.summary()))
            else:
                o.selftests.append({"control": "Exchanger spec variant '%s' violates %s" % (what, inv), "rejected_as_required": True})
    return finish


def stage(o, tier, seed):
    """Run the Exchanger family."""
    t0 = time.time()
    thorough = tier == "thorough"
    # GROW_ONLY=conformance: mutation experiments judge the implementation only (the design check judges the spec)
    design_done = design_check_start(o, tier) if os.environ.get("GROW_ONLY") != "conformance" else (lambda: None)
    try:
        g, _ = vlib.gen_schedules(o.pid, FAMILY, "ExchangerGen", "ExchangerGen.cfg", num=400 if thorough else 60, depth=900,
                                  seed=seed, limit=400 if thorough else 60)
        gen = from_tlc(g, seed)
        rnd = random_schedules(seed, 1500 if thorough else 200)
        if len(gen) < (100 if thorough else 20):
            raise vlib.Infra("ExchangerGen produced only %d schedules" % len(gen))
        vlib.conformance(o, FAMILY, TRACE, TCFG, PKG, gen + rnd, tag="ex_main", chunk=120, exec_timeout=900, tv_timeout=900,
                         dev_cfgs=DEV)
        if not o.violations:
            tr = vlib.split_traces(vlib.read_ndjson(os.path.join(vlib.workdir(o.pid), "trace_ex_main.ndjson")))
            tr.sort(key=lambda t: (-(t[0]["byz"] > 0) - (t[0]["V"] >= 2), len(t)))
            ms = mutators()
            nself = len(o.selftests)
            vlib.binding_selftest(o, FAMILY, TRACE, TCFG, tr, ms, candidates=6)
            if len(o.selftests) - nself < len(ms):
                raise vlib.Infra("Exchanger binding self-test: some negative control found no applicable trace")
            rets = [r for t in tr for e in t for r in e.get("rets", [])]
            o.extra["exchanger_calls_returned_data"] = sum(1 for r in rets if r[2] == "")
            o.extra["exchanger_calls_timed_out"] = sum(1 for r in rets if r[2] == "timeout")
            o.extra["exchanger_forged_messages"] = sum(1 for t in tr for e in t if e.get("ev") == "Forge")
            o.extra["exchanger_deliveries"] = sum(1 for t in tr for e in t if e.get("ev") == "D")
    finally:
        design_done()
    o.extra["exchanger_clusters"] = len(gen) + len(rnd)
    o.notes.append(RULE)
    log("[%s] Exchanger stage: %d TLC-generated + %d seeded clusters, %.0fs" % (o.pid, len(gen), len(rnd), time.time() - t0))


def main(tier="quick", seed=1, pid="GEXCH"):
    """Stand-alone driver (no evidence file is written: ./check --grow exchanger does that)."""
    vlib.workdir(pid, fresh=True)
    o = vlib.Outcome(pid, tier, seed)
    try:
        stage(o, tier, int(seed))
    except vlib.Infra as e:
        log("INFRA: %s" % e)
        return 2
    for fid, txt in o.known:
        log("KNOWN-FINDING: property=%s %s: %s" % (pid, fid, txt))
    for path, txt in o.violations:
        log("VIOLATION property=%s replay=%s" % (pid, path))
        log("  " + txt)
    if o.violations:
        return 1
    log("[%s] OK tier=%s seed=%s: %d MC states, %d traces validated, %d self-test controls, %.0fs"
        % (pid, tier, seed, o.states, o.traces, len(o.selftests), time.time() - o.t0))
    return 0


def replay(path):
    rp = json.load(open(path))
    o = vlib.Outcome(rp.get("property", "GEXCH"), "quick", 0)
    vlib.conformance(o, FAMILY, rp["trace_module"], rp["trace_cfg"], rp["pkg"], [rp["schedule"]], tag="replay", dev_cfgs=DEV)
    for p, t in o.violations:
        log("replay: " + t)
    return 1 if o.violations else 0


if __name__ == "__main__":
    import sys
    sys.exit(main(*(sys.argv[1:3] or ["quick", 1])))
