"""GROWTH family "Workflow" - WHOLE-SYSTEM trace validation: clusters of REAL, fully wired charon nodes (app.Run x N in one
process: scheduler, fetcher, QBFT consensus over libp2p on loopback, dutydb, validatorapi + validator mocks over http,
parsigdb, parsigex, sigagg, aggsigdb, broadcaster, tracker, retryer) are run under faults, every call across every
data-carrying edge of core.Wire (core/interfaces.go) as app/app.go wireCoreWorkflow composes it is recorded on every node
with one global sequence number (core.VerifWithObserver, build tag verif), and TLC validates each per-cluster log against
specs/Workflow/WorkflowTrace.tla.  This binds the COMPOSITION that the per-component specifications assume.

Needs the hooks pending_hooks/core/verif_export_wire.go, pending_hooks/app/verif_hook_{on,off}.go and app.go.diff in the tree
under test (VERIF_REPO).

Not a registered check: `stage(o, tier, seed)` runs the family as a stage (the Outcome `o` collects coverage and
violations); `main(tier, seed)` is a stand-alone driver, `replay(path)` re-validates / re-runs a replay file.

Because the executor uses wall-clock time and real sockets NO verdict depends on timing: the specification states safety /
value flow / causal order only; liveness (how many duties complete) is reported as statistics; a run in which nothing at all
completes is INFRA."""
import collections, json, os, re, subprocess, time
from concurrent.futures import ThreadPoolExecutor
import vlib
from vlib import log

FAMILY = "Workflow"
PKG = "workflow"
TRACE = "WorkflowTrace"
PAR = int(os.environ.get("VERIF_WF_PAR", "0")) or 6          # cluster runs side by side (each < 1 core)

RULE = ("Workflow family: schedule = ONE run (12-16 s wall, 1 s slots) of a cluster of n = 3..4 real charon nodes (app.Run with "
        "app.TestConfig, simnet beacon mocks, validator mocks, relay; as testutil/integration/simnet_test.go) for attester "
        "(+ aggregator), proposer (synthetic), sync-committee duties or all of them, with 1-2 validators, threshold ceil(2n/3), "
        "under faults that touch no charon code: per node DIFFERENT candidate attestation data from the beacon mocks; an "
        "in-memory ParSigEx with per-link delay / duplication / reordering / loss / temporary Broadcast failures whose "
        "deliveries go through the real parsigex.NewEth2Verifier (or through none: the exchange of core/parsigex/memory.go) -- or "
        "the REAL parsigex over libp2p; one Byzantine member (<= f, n = 4) whose validator client signs other data / with a key "
        "that is not its share and who injects its share over other data, foreign share indices, forged and garbage signatures "
        "and equivocations (in-memory or as raw ParSigExMsg from its own libp2p host); a node started late; a node stopped "
        "mid-run.  Fault plans are (a) histories of WorkflowGen (TLC simulation of the design instance: deliveries / losses / "
        "duplicates / Byzantine messages per slot) and (b) seeded random profiles.  Every edge call of every node (entry with "
        "arguments, return with error; roots by the real HashTreeRoot / MessageRoot, `ok` by the real tbls verification under "
        "the lock's public shares / group keys) is validated by WorkflowTrace.tla: validity and agreement of what DutyDB "
        "stores, served = stored, signed = served, own share only, exchange verification, threshold / distinct shares / one "
        "root / stored partials at SigAgg, group-valid aggregates, AggSigDB before Broadcaster, ONE ROOT PER DUTY AND VALIDATOR "
        "ACROSS THE CLUSTER (C01), causal nesting of the calls")
ASSUMPTIONS = [
    "wall-clock executor: no verdict depends on timing; the specification is safety-only (value flow, causal order); completion "
    "of duties is reported as statistics (coverage.workflow_stats); a run without any broadcast is an infrastructure failure",
    "the observer is the OUTERMOST wire option (one line in wireCoreWorkflow): it sees the calls the components make across "
    "the edges; behind core.WithAsyncRetry the real Fetch / Participate / Propose / ParSigEx.Broadcast / Broadcaster.Broadcast "
    "attempts are seen through the environment (beacon mock: BNAtt, in-memory exchange: ExSend / ExFail) or not at all",
    "QBFT, the databases, the retryer and http are not modelled: consensus is judged by what reaches DutyDB (validity, "
    "agreement)",
    "crypto abstraction of DESIGN.md section 3: a partial is (validator, share index, message root, ok); ok computed by the "
    "harness with core.VerifyEth2SignedData against a beacon mock of the same static configuration",
    "an in-memory exchange configured through app.TestConfig.ParSigExFunc BYPASSES parsigex verification in app.Run; the "
    "harness's exchange calls the real exported verifier itself (mode mem, exverify) and the real path is exercised in mode p2p",
    "a rejected trace counts only when the rejection reproduces on re-execution of its schedule (8 attempts); otherwise exit 2",
    "Byzantine members only with n = 4 (n = 3 tolerates none: WorkflowMC_ctl_sig3byz shows the counterexample)",
]

QUICK_MC = ["WorkflowMC_back.cfg", "WorkflowMC_backnv.cfg", "WorkflowMC_front.cfg", "WorkflowMC_mid.cfg", "WorkflowMC_sig4.cfg"]
THOROUGH_MC = ["WorkflowMC_back_thorough.cfg", "WorkflowMC_backnv_thorough.cfg", "WorkflowMC_front_thorough.cfg",
               "WorkflowMC_mid_thorough.cfg", "WorkflowMC_sig4_thorough.cfg", "WorkflowMC_n4_thorough.cfg",
               "WorkflowMC_whole_thorough.cfg"]
CONTROLS = (("WorkflowMC_ctl_noagreement.cfg", "AgreementI", "consensus without agreement (two DutyDBs store different values)"),
            ("WorkflowMC_ctl_unserved.cfg", "OnlyDecidedI", "a validator client signs data it was not served"),
            ("WorkflowMC_ctl_thrminus.cfg", "OneRootI", "threshold check dropped (t-1 partials aggregate)"),
            ("WorkflowMC_ctl_noexverify.cfg", "OnlyVerifiedI", "no verification on receive"),
            ("WorkflowMC_ctl_aggnoverify.cfg", "GroupValidI", "aggregate not verified (unverified exchange)"),
            ("WorkflowMC_ctl_bctwice.cfg", "OneRootI", "Broadcaster handed something SigAgg did not produce (two roots)"),
            ("WorkflowMC_ctl_vapinoverify.cfg", "OnlyVerifiedI", "validator API does not verify the partial signature"),
            ("WorkflowMC_ctl_novalidity.cfg", "ValidityI", "DutyDB stores a value nobody proposed"),
            ("WorkflowMC_ctl_sig3byz.cfg", "OneRootI", "a Byzantine member in a cluster of 3 (f = 0)"))


# ----------------------------------------------------------------------------------------------------------------------
# per-trace configuration of the trace specification (N, T, Byz, ExVerify come from the run)
# ----------------------------------------------------------------------------------------------------------------------
# When the family runs as a stage of a listed PROPERTY's check only the guards that are that property's statement may raise
# an alarm (a change that reorders or weakens a mechanism while the property still holds is not that property's violation):
# ONLY_GUARDS = set of guard names -> every other guard of Workflow.tla is switched off through its constant `Off`.
ONLY_GUARDS = None
C01_GUARDS = {"OneRoot", "GroupValid"}


def all_guards():
    txt = open(os.path.join(vlib.SPECS, FAMILY, "Workflow.tla")).read()
    return sorted(set(re.findall(r'G\("([A-Za-z]+)"', txt)))


def cfg_of(t):
    r = t[0]
    byz = "{" + ", ".join(str(b) for b in r["byz"]) + "}"
    off, tag = "{}", ""
    if ONLY_GUARDS is not None:
        off = "{" + ", ".join('"%s"' % g for g in all_guards() if g not in ONLY_GUARDS) + "}"
        tag = "_only"
    txt = ("SPECIFICATION TraceSpec\nCONSTANTS\n N = %d\n T = %d\n Byz = %s\n ExVerify = %s\n Off = %s\n GFail <- InvFail\n"
           "CONSTRAINT Mark\nPOSTCONDITION Report\nCHECK_DEADLOCK FALSE\n"
           % (r["n"], r["t"], byz, "TRUE" if r["exverify"] else "FALSE", off))
    return ("WorkflowTrace_n%d_t%d_b%s_%s%s.cfg" % (r["n"], r["t"], "".join(map(str, r["byz"])), r["exverify"], tag), txt)


# ----------------------------------------------------------------------------------------------------------------------
# schedules
# ----------------------------------------------------------------------------------------------------------------------
INJECT = ["claim", "otherdata", "forge", "garbage", "equiv"]


def script_entry(r, hist, n, byz):
    """one WorkflowGen history -> the exchange's plan for one slot"""
    cnt = collections.Counter((e["from"], e["to"]) for e in hist if e["ev"] == "Deliver")
    deliver = []
    for a in range(1, n + 1):
        for b in range(1, n + 1):
            if a == b:
                continue
            k = cnt.get((a, b), 0)
            if k == 0 and r.random() < 0.7:       # a pair the history does not mention: mostly delivered once
                k = 1
            if k != 1:
                deliver.append([a, b, min(k, 3)])
    bz = [[e["to"], e["what"]] for e in hist if e["ev"] == "Byz" and e["what"] != "own" and byz and e["to"] != byz]
    return {"deliver": deliver, "byz": bz}


def from_hists(r, hists4, hists3, k):
    """cluster runs whose exchange follows histories of the design instance"""
    out = []
    for i in range(k):
        n4 = i % 2 == 0
        hs = hists4 if n4 else hists3
        if not hs:
            continue
        byz = 4 if n4 else 0
        # the model's member 4 is the Byzantine one
        entries = [script_entry(r, r.choice(hs), 4 if n4 else 3, byz) for _ in range(r.choice([3, 5, 8]))]
        out.append({"ev": "Cfg", "n": 4 if n4 else 3, "t": 3 if n4 else 2, "nv": r.choice([1, 2]),
                    "kind": r.choice(["attester", "attester", "all", "sync", "proposer"]), "mode": "mem",
                    "secs": 14, "seed": r.randint(1, 10 ** 6), "spe": r.choice([2, 4, 8]), "diverge": r.choice([0, 2, 3]),
                    "byz": byz, "exverify": r.random() < 0.6, "maxdelay": r.choice([0, 50, 300]), "script": entries})
    return out


def random_profiles(r, k):
    out = []
    for i in range(k):
        n = r.choice([3, 4, 4])
        s = {"ev": "Cfg", "n": n, "t": (2 * n + 2) // 3, "nv": r.choice([1, 2, 2]),
             "kind": r.choice(["attester", "attester", "all", "all", "proposer", "sync"]),
             "mode": r.choice(["mem", "mem", "p2p"]), "secs": r.choice([12, 14, 16]), "seed": r.randint(1, 10 ** 6),
             "spe": r.choice([2, 2, 4, 8]), "diverge": r.choice([0, 2, 2, 3, n])}
        if s["mode"] == "mem":
            s.update({"exverify": r.random() < 0.7, "drop": r.choice([0, 0, 0.1, 0.3]), "dup": r.choice([0, 0.2, 0.5]),
                      "maxdelay": r.choice([0, 30, 200, 700]), "failp": r.choice([0, 0, 0.3, 0.7])})
            if r.random() < 0.2:
                a = r.randint(1, n)
                s["cut"] = [[a, a % n + 1]]
        s["bnfailp"] = r.choice([0, 0, 0.3, 0.6])
        if n == 4 and r.random() < 0.7:
            s["byz"] = r.randint(1, 4)
            s["byzvc"] = r.choice(["", "", "otherdata", "badsig"])
            s["inject"] = r.sample(INJECT, r.randint(1, 5))
            s["injectp"] = r.choice([0.4, 0.8, 1.0])
        if r.random() < 0.3:
            s["late_n"], s["late_ms"] = r.randint(1, n), r.choice([2000, 4000, 6000])
        if r.random() < 0.3:
            s["stop_n"], s["stop_ms"] = r.randint(1, n), r.choice([6000, 8000, 10000])
            if s.get("late_n") == s["stop_n"]:
                del s["late_n"], s["late_ms"]
        out.append(s)
    return out


def fixed_profiles(seed):
    """corners every run of the family visits (the random profiles may miss them for a given seed)"""
    b = seed * 100
    return [
        {"ev": "Cfg", "n": 4, "t": 3, "nv": 2, "kind": "all", "mode": "mem", "secs": 16, "seed": b + 1, "spe": 2, "diverge": 3,
         "maxdelay": 200, "dup": 0.3, "drop": 0.1, "bnfailp": 0.4, "failp": 0.3},
        {"ev": "Cfg", "n": 4, "t": 3, "nv": 2, "kind": "attester", "mode": "mem", "secs": 14, "seed": b + 2, "spe": 2, "diverge": 2,
         "byz": 4, "inject": INJECT, "injectp": 0.9},
        {"ev": "Cfg", "n": 4, "t": 3, "nv": 1, "kind": "attester", "mode": "p2p", "secs": 14, "seed": b + 3, "spe": 2, "diverge": 2,
         "byz": 2, "inject": INJECT, "injectp": 0.9},
        {"ev": "Cfg", "n": 4, "t": 3, "nv": 2, "kind": "attester", "mode": "mem", "secs": 14, "seed": b + 4, "spe": 2, "diverge": 2,
         "byz": 1, "byzvc": "otherdata", "exverify": False, "inject": ["claim", "garbage", "forge", "otherdata"], "injectp": 0.8,
         "failp": 0.5},
        {"ev": "Cfg", "n": 4, "t": 3, "nv": 1, "kind": "attester", "mode": "p2p", "secs": 14, "seed": b + 5, "spe": 2, "byz": 3,
         "byzvc": "badsig"},
        {"ev": "Cfg", "n": 3, "t": 2, "nv": 2, "kind": "sync", "mode": "mem", "secs": 14, "seed": b + 6, "spe": 2, "late_n": 2,
         "late_ms": 4000, "stop_n": 1, "stop_ms": 10000},
    ]


# ----------------------------------------------------------------------------------------------------------------------
# execution: one process per cluster run
# ----------------------------------------------------------------------------------------------------------------------
_bin = [None]


def build(o):
    if _bin[0]:
        return _bin[0]
    hdir = vlib.prepare_harness()
    out = os.path.join(vlib.workdir(o.pid), "workflow.test")
    t0 = time.time()
    p = subprocess.run(["timeout", "-s", "KILL", "1500", "go", "test", "-c", "-tags", "verif", "-vet=off", "-o", out, "./" + PKG],
                       cwd=hdir, env=vlib.go_env(), stdout=subprocess.PIPE, stderr=subprocess.STDOUT, text=True)
    if p.returncode != 0 or not os.path.exists(out):
        raise vlib.Infra("executor %s does not build against %s (are the Workflow hooks of /verif/pending_hooks installed?):\n%s"
                         % (PKG, vlib.REPO, p.stdout[-3000:]))
    log("[%s] executor built in %.0fs" % (o.pid, time.time() - t0))
    _bin[0] = out
    return out


def run_one(o, sched, name):
    """one cluster run in its own process -> its trace (list of events)"""
    w = vlib.workdir(o.pid)
    sp, tp, lp = [os.path.join(w, "%s_%s" % (x, name)) for x in ("sched", "trace", "log")]
    with open(sp, "w") as f:
        f.write(json.dumps([sched], separators=(",", ":")) + "\n")
    if os.path.exists(tp):
        os.remove(tp)
    env = vlib.go_env()
    env.update({"VERIF_SCHED": sp, "VERIF_OUT": tp})
    budget = int(sched.get("secs", 14)) + 90
    with open(lp, "w") as fo:
        p = subprocess.run(["timeout", "-s", "KILL", str(budget), build(o), "-test.run", "^TestExec$", "-test.count=1",
                            "-test.timeout", "%ds" % (budget - 10)], cwd=w, env=env, stdout=fo, stderr=subprocess.STDOUT)
    evs = []
    if os.path.exists(tp):
        for line in open(tp, errors="replace"):
            try:
                evs.append(json.loads(line))
            except ValueError:          # the process died while writing this line
                break
    crashed = p.returncode != 0 or not any(e.get("ev") == "End" for e in evs)   # (returns still arrive while the nodes shut down)
    if crashed and len(evs) < 2:
        tail = open(lp, errors="replace").read()[-3000:]
        raise vlib.Infra("cluster run %s failed (rc=%s):\n%s" % (name, p.returncode, tail))
    if crashed:
        # the log is streamed: what was observed before the process died is validated as far as it goes; the Crash event
        # itself matches no spec step and is reported as infrastructure trouble, not as a violation
        evs.append({"ev": "Crash", "rc": p.returncode, "log": open(lp, errors="replace").read()[-1500:]})
    else:
        os.remove(lp)
    return evs


def run_batch(o, scheds, tag):
    build(o)
    t0 = time.time()
    for i, s in enumerate(scheds):
        s["sid"] = i
    with ThreadPoolExecutor(max_workers=PAR) as ex:
        traces = list(ex.map(lambda a: run_one(o, a[1], "%s_%d" % (tag, a[0])), enumerate(scheds)))
    return traces, time.time() - t0


def stats(t):
    r = t[0]
    c = collections.Counter(e["ev"] for e in t)
    bc, duties, att = collections.defaultdict(set), collections.defaultdict(set), collections.defaultdict(set)
    byz, errs, types = collections.Counter(), collections.Counter(), collections.Counter()
    bad = 0
    for e in t:
        ev = e["ev"]
        if ev == "BcC":
            bc[e["d"]].add(e["n"])
            types[e["ty"]] += 1
        elif ev in ("FetchC", "SIntC"):
            duties[e["d"]].add(e["n"])
        elif ev == "BNAtt":
            att[e["d"]].add(e["u"])
        elif ev == "ByzSend":
            byz[e["what"]] += 1
        elif ev == "SExtC" and any(not p["ok"] for p in e["parts"]):
            bad += 1
        if ev.endswith("R") and e.get("err"):
            errs[ev] += 1
    return {"n": r["n"], "byz": r["byz"], "mode": r["mode"], "kind": r["kind"], "exverify": r["exverify"], "events": len(t),
            "duties": len(duties), "duties_broadcast_by_some_node": sum(1 for d in duties if bc[d]),
            "duties_broadcast_by_every_node": sum(1 for d in duties if len(bc[d]) == r["n"]),
            "broadcasts_by_type": dict(types), "duties_with_diverging_candidates": sum(1 for d in att if len(att[d]) > 1),
            "byzantine_messages": dict(byz), "unverifiable_partials_stored": bad, "errors_returned": dict(errs),
            "exchange_attempts_failed": c["ExFail"], "beacon_submissions": c["BNSub"],
            "beacon_submissions_refused_and_retried": c["BNFail"], "stopped": c["Stop"]}


def conformance(o, scheds, tag):
    """execute, validate, re-execute rejected schedules; only a reproduced rejection counts"""
    if not scheds:
        return []
    traces, wall = run_batch(o, scheds, tag)
    v = vlib.validate_traces(o.pid, FAMILY, TRACE, cfg_of, traces, timeout=900, chunk=4)
    # an ACCEPTED run in which nothing at all completed says nothing: once more, then infrastructure
    for i in v.accepted:
        if not any(e["ev"] == "BcC" for e in traces[i]):
            log("[%s] %s/%d: no broadcast at all, running it again" % (o.pid, tag, i))
            again = run_one(o, scheds[i], "%s_%d_again" % (tag, i))
            va = vlib.validate_traces(o.pid, FAMILY, TRACE, cfg_of, [again], timeout=900)
            if va.rejected:
                traces[i] = again
                v.accepted.remove(i)
                v.rejected.append((i, va.rejected[0][1], va.rejected[0][2]))
            elif not any(e["ev"] == "BcC" for e in again):
                raise vlib.Infra("cluster run %s/%d completed no duty at all (twice): %s" % (tag, i, json.dumps(scheds[i])[:600]))
            else:
                traces[i] = again
    # a run whose process died although everything it recorded is accepted (e.g. testutil/validatormock panics with "close of
    # closed channel" when two of its slot ticks overlap by an epoch: SlotAttester.Prepare "panics if called more than once"):
    # the schedule is run again (twice at most); a tree on which it dies every time is infrastructure trouble
    rej = {ti: (pos, reason) for (ti, pos, reason) in v.rejected}
    for ti in sorted(rej):
        tries = 0
        while ti in rej and rej[ti][0] < len(traces[ti]) and traces[ti][rej[ti][0]].get("ev") == "Crash":
            pos = rej[ti][0]
            crash = traces[ti][pos]
            lines = (crash.get("log") or "?").strip().splitlines() or ["?"]
            first_line = ([x for x in lines if "panic" in x] or lines)[0][:120]
            if tries == 2:
                raise vlib.Infra("cluster run %s/%d: the executor process died three times (rc=%s), last time after %d events that "
                                 "the specification accepts:\n%s" % (tag, ti, crash.get("rc"), pos, crash.get("log")))
            tries += 1
            o.notes.append("cluster run %s/%d: executor process died after %d accepted events (%s); run again" % (tag, ti, pos, first_line))
            log("[%s] %s/%d: executor process died after %d accepted events (%s), running it again" % (o.pid, tag, ti, pos, first_line))
            traces[ti] = run_one(o, scheds[ti], "%s_%d_crash%d" % (tag, ti, tries))
            va = vlib.validate_traces(o.pid, FAMILY, TRACE, cfg_of, [traces[ti]], timeout=900)
            if va.rejected:
                rej[ti] = (va.rejected[0][1], va.rejected[0][2])
            else:
                del rej[ti]
                v.accepted.append(ti)
    v.accepted.sort()
    v.rejected = sorted((ti, p, why) for ti, (p, why) in rej.items())
    o.schedules += len(scheds)
    o.traces += len(traces)
    o.trace_events += sum(len(t) for t in traces)
    o.trace_states += v.states
    for t in traces:
        o.distinct_keys.add(vlib.digest([e for e in t if e["ev"] in ("Reset", "BcC")]))
    if len(o.samples) < 3:
        o.samples.append({"family": FAMILY, "tag": tag, "trace": traces[0][:40]})
    log("[%s] %s/%s: %d cluster runs (%d events) executed in %.0fs, validated in %.1fs: %d accepted, %d rejected"
        % (o.pid, FAMILY, tag, len(scheds), sum(len(t) for t in traces), wall, v.wall, len(v.accepted), len(v.rejected)))
    unrepro = []
    for (ti, pos, reason) in v.rejected[:3]:
        sched = scheds[ti]
        log("[%s]   run %d rejected: %s at event %d %s -- re-executing" % (o.pid, ti, reason, pos, json.dumps(traces[ti][pos])[:300]))
        rep = None
        for rnd in range(2):
            again, _ = run_batch(o, [dict(sched) for _ in range(4)], "%s_re%d_%d" % (tag, ti, rnd))
            v2 = vlib.validate_traces(o.pid, FAMILY, TRACE, cfg_of, again, timeout=900, chunk=4)
            real = [x for x in v2.rejected if again[x[0]][x[1]].get("ev") != "Crash"]
            if real:
                k, p2, why2 = real[0]
                rep = (again[k], p2, why2)
                break
        first = {"property": o.pid, "family": FAMILY, "trace_module": TRACE, "pkg": PKG, "schedule": sched,
                 "trace": traces[ti], "rejected_at_event": pos, "event": traces[ti][pos] if pos < len(traces[ti]) else None,
                 "reason": reason}
        if rep is None:
            path = vlib.save_replay(o.pid, "%s_%s_%d_unreproduced" % (FAMILY, tag, ti), first)
            unrepro.append((ti, pos, reason, path))
            continue
        bad, bpos, breason = rep
        first.update({"reproduced_trace": bad, "reproduced_at_event": bpos, "reproduced_reason": breason})
        path = vlib.save_replay(o.pid, "%s_%s_%d" % (FAMILY, tag, ti), first)
        o.violations.append((path, "%s: %s at event %d: %s (reproduced: %s)" % (FAMILY, reason, pos,
                                                                               json.dumps(traces[ti][pos])[:300], breason)))
        break       # one reproduced rejection is the verdict; every re-execution costs a cluster run
    if unrepro and not o.violations:
        u = unrepro[0]
        raise vlib.Infra("%d rejected cluster run(s) did not reproduce in 8 re-executions (first: run %d, %s at event %d; recorded "
                         "trace kept in %s)" % (len(unrepro), u[0], u[2], u[1], u[3]))
    return [traces[i] for i in v.accepted]


# ----------------------------------------------------------------------------------------------------------------------
# binding self-tests: corrupt one recorded field / drop or move one event of an accepted trace -> must be rejected
# ----------------------------------------------------------------------------------------------------------------------
def mutators():
    def first(t, pred, start=0):
        for k in range(start, len(t)):
            if pred(t[k]):
                return k
        return None

    def bc_root(t):          # one node emits another root
        k = first(t, lambda e: e["ev"] == "BcC" and e["set"])
        if k is None:
            return None
        t[k]["set"][0]["r"] = "feedfeedfeed"
        return t

    def store_value(t):      # a DutyDB is handed a value nobody proposed
        k = first(t, lambda e: e["ev"] == "StoreC" and e["set"])
        if k is None:
            return None
        t[k]["set"][0]["u"] = "feedfeedfeed"
        return t

    def store_disagree(t):   # ... a value somebody proposed, but not the one the others store
        for k, e in enumerate(t):
            if e["ev"] == "PropC" and e["set"]:
                for j in range(k + 1, len(t)):
                    f = t[j]
                    if f["ev"] == "StoreC" and f["d"] == e["d"] and f["set"] != e["set"] and \
                            any(g["ev"] == "StoreC" and g["d"] == e["d"] and g["n"] != f["n"] for g in t[:j]):
                        f["set"] = json.loads(json.dumps(e["set"]))
                        return t
        return None

    def served_other(t):     # the validator client is served something the DutyDB was never handed
        k = first(t, lambda e: e["ev"] == "Await" and e["k"] in ("att", "prop", "agg", "contrib") and not e["err"])
        if k is None:
            return None
        t[k]["u"] = "feedfeedfeed"
        return t

    def signed_unserved(t):  # an honest validator client signs other data than it was served
        byz = set(t[0]["byz"])
        k = first(t, lambda e: e["ev"] == "SIntC" and e["n"] not in byz and e["parts"] and e["parts"][0]["u"] != "")
        if k is None:
            return None
        for p in t[k]["parts"]:
            p["u"] = "feedfeedfeed"
        return t

    def foreign_share(t):    # StoreInternal of another node's share
        k = first(t, lambda e: e["ev"] == "SIntC" and e["parts"])
        if k is None:
            return None
        t[k]["parts"][0]["sh"] = t[k]["n"] % t[0]["n"] + 1
        return t

    def unverified_internal(t):
        k = first(t, lambda e: e["ev"] == "SIntC" and e["parts"])
        if k is None:
            return None
        t[k]["parts"][0]["ok"] = False
        return t

    def unverified_external(t):
        if not t[0]["exverify"]:
            return None
        k = first(t, lambda e: e["ev"] == "SExtC" and e["parts"])
        if k is None:
            return None
        t[k]["parts"][0]["ok"] = False
        return t

    def received_unsent(t):  # a node stores a partial nobody sent
        k = first(t, lambda e: e["ev"] == "SExtC" and e["parts"])
        if k is None:
            return None
        t[k]["parts"][0]["sh"] = t[k]["parts"][0]["sh"] % t[0]["n"] + 1
        return t

    def below_threshold(t):  # SigAgg is handed t-1 partials
        k = first(t, lambda e: e["ev"] == "AggC" and len({(p["v"], p["k"]) for p in e["parts"]}) == 1 and len(e["parts"]) == t[0]["t"])
        if k is None:
            return None
        t[k]["parts"] = t[k]["parts"][1:]
        return t

    def mixed_roots(t):      # SigAgg is handed partials over two roots
        k = first(t, lambda e: e["ev"] == "AggC" and e["parts"])
        if k is None:
            return None
        t[k]["parts"][0]["r"] = "feedfeedfeed"
        return t

    def aggregate_twice(t):  # the same group is handed to SigAgg again
        k = first(t, lambda e: e["ev"] == "AggC")
        if k is None:
            return None
        r = first(t, lambda e: e["ev"] == "AggR" and e["c"] == t[k]["c"], k)
        if r is None:
            return None
        dup, ret = json.loads(json.dumps(t[k])), json.loads(json.dumps(t[r]))
        dup["c"] = ret["c"] = 999999
        t[r + 1:r + 1] = [dup, ret]      # right after the first one: still inside the enclosing Store call?
        return t if any(e["ev"] in ("SIntR", "SExtR") and e["n"] == dup["n"] and e["d"] == dup["d"] for e in t[r + 3:]) else None

    def invalid_aggregate(t):
        k = first(t, lambda e: e["ev"] == "ADBC" and e["set"])
        if k is None:
            return None
        t[k]["set"][0]["ok"] = False
        return t

    def invalid_broadcast(t):
        k = first(t, lambda e: e["ev"] == "BcC" and e["set"])
        if k is None:
            return None
        t[k]["set"][0]["ok"] = False
        return t

    def broadcast_before_store(t):   # Broadcaster is called before AggSigDB.Store returned
        k = first(t, lambda e: e["ev"] == "ADBC")
        if k is None:
            return None
        b = first(t, lambda e: e["ev"] == "BcC" and e["n"] == t[k]["n"] and e["d"] == t[k]["d"], k)
        if b is None:
            return None
        ev = t.pop(b)
        t.insert(k, ev)
        return t

    def store_dropped(t):    # the DutyDB.Store that made an answer possible is not in the log
        a = first(t, lambda e: e["ev"] == "Await" and e["k"] in ("att", "prop", "agg", "contrib") and not e["err"])
        if a is None:
            return None
        n, d = t[a]["n"], t[a]["d"]
        ids = {e["c"] for e in t[:a] if e["ev"] == "StoreC" and e["n"] == n and e["d"] == d}
        if not ids:
            return None
        return [e for e in t if not (e["ev"] in ("StoreC", "StoreR") and e.get("c") in ids)]

    def proposal_unfetched(t):
        k = first(t, lambda e: e["ev"] == "PropC" and e["ty"] == "attester" and e["set"])
        if k is None:
            return None
        for x in t[k]["set"]:
            x["u"] = "feedfeedfeed"
        # (keep validity intact: nobody stores it) -- only if no node stores this set
        return t

    def aggregate_outside_store(t):  # SigAgg called although no Store call of the node is in flight
        k = first(t, lambda e: e["ev"] == "AggC")
        if k is None:
            return None
        n, d = t[k]["n"], t[k]["d"]
        opened = [e for e in t[:k] if e["ev"] in ("SIntC", "SExtC") and e["n"] == n and e["d"] == d]
        closed = {e["c"] for e in t[:k] if e["ev"] in ("SIntR", "SExtR")}
        live = [e for e in opened if e["c"] not in closed]
        if len(live) != 1:
            return None
        c = live[0]["c"]
        r = first(t, lambda e: e["ev"] in ("SIntR", "SExtR") and e["c"] == c, k)
        if r is None:
            return None
        ev = t.pop(r)
        t.insert(k, ev)
        return t

    def bn_other_root(t):    # the beacon node receives an object the Broadcaster was not handed
        k = first(t, lambda e: e["ev"] == "BNSub" and e["set"])
        if k is None:
            return None
        t[k]["set"][0]["r"] = "feedfeedfeed"
        return t

    return [("a node broadcasts another root", bc_root), ("beacon node receives another root than the Broadcaster got", bn_other_root), ("DutyDB handed a value nobody proposed", store_value),
            ("DutyDB handed another node's proposal than the others", store_disagree),
            ("validator client served data the DutyDB never got", served_other),
            ("honest validator client signs unserved data", signed_unserved),
            ("StoreInternal of a foreign share index", foreign_share), ("unverified partial stored internally", unverified_internal),
            ("unverifiable partial accepted from a peer", unverified_external), ("a partial nobody sent is received", received_unsent),
            ("SigAgg handed t-1 partials", below_threshold), ("SigAgg handed two roots", mixed_roots),
            ("the same group aggregated twice", aggregate_twice), ("invalid aggregate stored", invalid_aggregate),
            ("invalid aggregate broadcast", invalid_broadcast), ("Broadcaster before AggSigDB", broadcast_before_store),
            ("DutyDB.Store missing before the answer", store_dropped), ("proposal the beacon node never served", proposal_unfetched),
            ("SigAgg outside a Store call", aggregate_outside_store)]


# ----------------------------------------------------------------------------------------------------------------------
def design_check(o, tier, seed):
    """Design check, the controls that MUST be violated and the schedule generation: independent TLC runs side by side."""
    thorough = tier == "thorough"
    mains = THOROUGH_MC if thorough else QUICK_MC
    controls = CONTROLS
    if os.environ.get("VERIF_WF_NOMC"):       # mutation experiments: the design check does not depend on the tree
        mains, controls = [], ()
    n = 600 if thorough else 200
    jobs = [("WorkflowGen", "WorkflowGen.cfg", dict(simulate="num=%d" % n, depth=80, seed=seed, workers=1)),
            ("WorkflowGen", "WorkflowGen_n3.cfg", dict(simulate="num=%d" % n, depth=80, seed=seed + 1000, workers=1))]
    jobs += [("WorkflowMC", c, dict(workers=5 if thorough else 2)) for c in mains]
    jobs += [("WorkflowMC", c, dict(workers=1)) for c, _, _ in controls]
    dirs = [vlib.scratch(o.pid, FAMILY) for _ in jobs]
    ex = ThreadPoolExecutor(max_workers=4 if thorough else 10)
    futs = [ex.submit(vlib.tlc, o.pid, FAMILY, j[0], j[1], timeout=1700, sdir=d, **j[2]) for j, d in zip(jobs, dirs)]
    hists = []
    for f in futs[:2]:
        g = f.result()
        if g.error or g.timed_out or (g.violation and g.violation != "deadlock"):
            raise vlib.Infra("schedule generation failed: %s\n%s" % (g.summary(), g.out[-2000:]))
        seen, hs = set(), []
        for p in vlib.tagged_prints(g, "SCHED"):
            if p not in seen:
                seen.add(p)
                hs.append(json.loads(p))
        if not hs:
            raise vlib.Infra("schedule generation: no histories")
        hists.append(hs)

    def join():
        res = [f.result() for f in futs[2:]]
        ex.shutdown()
        for cfg, r in zip(mains, res):
            vlib.require_mc_ok(r, cfg)
            o.add_mc("Workflow/" + cfg[:-4], r)
        for (cfg, inv, what), r in zip(controls, res[len(mains):]):
            if r.violation != inv:
                raise vlib.Infra("design-spec control failed: '%s' not caught by %s: %s" % (what, inv, r.summary()))
            o.selftests.append({"control": "Workflow design variant '%s' violates %s" % (what, inv), "rejected_as_required": True})
    return hists, join


C10_GUARDS = {"VAPIVerifies", "ExchangeVerifies"}


def light_stage(o, seed, only=None, pick=None, controls=None):
    """The whole-system stage as part of a property's QUICK tier: the six fixed fault profiles (Byzantine partial
    signatures through the in-memory exchange and through real libp2p, diverging candidates, retries, late / stopped
    node) as real app.Run clusters, trace-validated; no design check (./check --grow workflow and the thorough tier
    run it), three binding controls."""
    global ONLY_GUARDS
    t0 = time.time()
    ONLY_GUARDS = only
    try:
        profs = [p for p in fixed_profiles(seed) if pick is None or pick(p)]
        ok = conformance(o, profs, "wf")
        if not o.violations:
            ms = mutators()
            if controls is not None:
                ms = [m for m in ms if m[0] in controls]
            elif only is not None:    # the controls that break the property's own guards
                ms = [m for m in ms if m[0] in ("a node broadcasts another root", "invalid aggregate broadcast",
                                                "invalid aggregate stored")]
            else:
                ms = ms[:6]
            vlib.binding_selftest(o, FAMILY, TRACE, cfg_of, ok, ms, candidates=3)
    finally:
        ONLY_GUARDS = None
    st = [stats(t) for t in ok]
    tot = lambda k: sum(s[k] for s in st)
    o.extra["workflow_duties"] = tot("duties")
    o.extra["workflow_duties_broadcast_by_every_node"] = tot("duties_broadcast_by_every_node")
    o.extra["workflow_duties_with_diverging_candidates"] = tot("duties_with_diverging_candidates")
    o.extra["workflow_byzantine_messages"] = sum(sum(s["byzantine_messages"].values()) for s in st)
    log("[%s] Workflow stage (light): %d cluster runs, %d events; %d duties, %d broadcast by every node, %d with diverging "
        "candidates, %d Byzantine messages, %.0fs" % (o.pid, len(st), tot("events"), tot("duties"),
                                                      tot("duties_broadcast_by_every_node"),
                                                      tot("duties_with_diverging_candidates"),
                                                      o.extra["workflow_byzantine_messages"], time.time() - t0))


def stage(o, tier, seed, only=None):
    """Run the Workflow family as a stage of a check (only: see ONLY_GUARDS)."""
    global ONLY_GUARDS
    ONLY_GUARDS = only
    try:
        _stage(o, tier, seed, only)
    finally:
        ONLY_GUARDS = None


def _stage(o, tier, seed, only):
    t0 = time.time()
    thorough = tier == "thorough"
    hists, join_design = design_check(o, tier, seed)
    if thorough:        # the cluster runs are wall-clock: they do not share the machine with 30 TLC threads
        join_design()
        join_design = lambda: None
    r = vlib.rng(seed, "workflow")
    gen = from_hists(r, hists[0], hists[1], 30 if thorough else 3)
    rnd = fixed_profiles(seed) + random_profiles(r, 84 if thorough else 3)
    o.extra["workflow_fault_plans_from_tlc_histories"] = len(gen)
    ok = conformance(o, gen, "gen")
    if not o.violations:
        ok += conformance(o, rnd, "rnd")
    join_design()
    if not o.violations:
        ms = mutators()
        if only is not None:
            ms = [m for m in ms if m[0] in ("a node broadcasts another root", "invalid aggregate broadcast",
                                            "invalid aggregate stored")]
        nself = len(o.selftests)
        vlib.binding_selftest(o, FAMILY, TRACE, cfg_of, ok, ms, candidates=3)
        if len(o.selftests) - nself < len(ms) - 2:
            raise vlib.Infra("Workflow binding self-test: too many negative controls found no applicable trace (%d of %d)"
                             % (len(o.selftests) - nself, len(ms)))
    st = [stats(t) for t in ok]
    o.extra["workflow_stats"] = st
    tot = lambda k: sum(s[k] for s in st)
    o.extra["workflow_duties"] = tot("duties")
    o.extra["workflow_duties_broadcast_by_some_node"] = tot("duties_broadcast_by_some_node")
    o.extra["workflow_duties_broadcast_by_every_node"] = tot("duties_broadcast_by_every_node")
    o.extra["workflow_duties_with_diverging_candidates"] = tot("duties_with_diverging_candidates")
    o.extra["workflow_byzantine_messages"] = sum(sum(s["byzantine_messages"].values()) for s in st)
    log("[%s] Workflow stage: %d cluster runs, %d events; %d duties, %d broadcast by some node, %d by every node, %d with "
        "diverging candidates, %d Byzantine messages, %.0fs"
        % (o.pid, len(st), tot("events"), tot("duties"), tot("duties_broadcast_by_some_node"),
           tot("duties_broadcast_by_every_node"), tot("duties_with_diverging_candidates"),
           o.extra["workflow_byzantine_messages"], time.time() - t0))


def main(tier="quick", seed=1, pid="GWORKFLOW"):
    """Stand-alone driver (the evidence file is written by checks/grow_all.py when the family is registered)."""
    vlib.workdir(pid, fresh=True)
    o = vlib.Outcome(pid, tier, seed)
    try:
        stage(o, tier, int(seed))
    except vlib.Infra as e:
        log("INFRA: %s" % e)
        return 2
    for fid, txt in o.known:
        log("KNOWN-FINDING: property=%s %s: %s" % (pid, fid, txt))
    for path, txt in o.violations:
        log("VIOLATION property=%s replay=%s" % (pid, path))
        log("  " + txt)
    if o.violations:
        return 1
    log("[%s] OK tier=%s seed=%s: %d MC states, %d traces validated, %d self-test controls, %.0fs"
        % (pid, tier, seed, o.states, o.traces, len(o.selftests), time.time() - o.t0))
    return 0


def replay(path):
    """The recorded trace of the replay file is the evidence (its validation is deterministic); the schedule is re-executed
    as well (wall-clock executor: it need not take the same course)."""
    rp = json.load(open(path))
    o = vlib.Outcome(rp.get("property", "GWORKFLOW"), "quick", 0)
    v = vlib.validate_traces(o.pid, FAMILY, TRACE, cfg_of, [rp["trace"]], timeout=900)
    for (_, pos, why) in v.rejected:
        log("replay: recorded trace: %s at event %d: %s" % (why, pos, json.dumps(rp["trace"][pos])[:300]))
    again, _ = run_batch(o, [dict(rp["schedule"]) for _ in range(4)], "replay")
    v2 = vlib.validate_traces(o.pid, FAMILY, TRACE, cfg_of, again, timeout=900, chunk=4)
    log("replay: re-execution x4: %d rejected" % len(v2.rejected))
    for (k, pos, why) in v2.rejected[:2]:
        log("replay: re-executed: %s at event %d: %s" % (why, pos, json.dumps(again[k][pos])[:300]))
    return 1 if (v.rejected or v2.rejected) else 0


if __name__ == "__main__":
    import sys
    sys.exit(main(*(sys.argv[1:3] or ["quick", 1])))
