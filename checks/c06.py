"""C06 - the duty store serves one unique datum per key and never blocks a satisfiable query (core/dutydb/memory.go)."""
import json, os, shutil
from concurrent.futures import ThreadPoolExecutor
import vlib
from vlib import log

PID = "C06"
FAMILY = "DutyDB"
TRACE, CFG, DEVCFG = "DutyDBTrace", "DutyDBTrace.cfg", "DutyDBTrace_aggreplace.cfg"
FINDING = "C06-agg-replace"
DEV = [(FINDING, DEVCFG)]
RULE = ("schedules = histories of Store(duty,set) / Await*(key) / cancel / expiry / PubKeyByAttestation over the four keyspaces "
        "(attestation incl. committee-0 alias and pubkey index, proposal, aggregate, sync contribution) with equal, conflicting "
        "and partially conflicting data on overlapping keys; generated (a) by TLC simulation of DutyDBGen, (b) by a seeded random "
        "generator (sequential and, for 4 goroutines, concurrent call/ret histories validated as linearisable), a gate tier (a Store "
        "held inside deadliner.Add while its duty expires and another Store drains the expiry), (c) one fixed probe "
        "for the known finding; executed on dutydb.NewMemDB with a scripted core.Deadliner; distinct = distinct recorded traces")

# the known finding, executed on every run (keeps the KNOWN-FINDING line while the defect exists)
_K = {"slot": 1, "root": 1, "comm": 1}
PROBE = [
    {"op": "Store", "duty": {"type": "agg", "slot": 1}, "set": [{"pk": "A", "data": [dict(_K, bits=5)]}]},
    {"op": "Await", "q": 1, "kind": "agg", "key": _K},
    {"op": "Store", "duty": {"type": "agg", "slot": 1}, "set": [{"pk": "A", "data": [dict(_K, bits=7)]}]},
    {"op": "Await", "q": 2, "kind": "agg", "key": _K},
]


# ------------------------------------------------------------------------------------------------------------------
# random schedules
# ------------------------------------------------------------------------------------------------------------------
class Pool:
    """A small universe of data per schedule so that keys collide often."""
    def __init__(self, r, aggdev=False):
        self.r = r
        self.slots = r.sample([1, 2, 3], r.randint(1, 2))
        self.hot = self.slots[0]
        self.aggdev = aggdev
        self.pkof = {v: "ABCD"[v - 1] for v in (1, 2, 3, 4)}

    def slot(self):
        return self.hot if self.r.random() < 0.75 else self.r.choice(self.slots)

    def few(self, vals, p_first=0.7):
        return vals[0] if self.r.random() < p_first else self.r.choice(vals)

    def entry(self, kind, slot, used):
        r = self.r
        pk = r.choice([p for p in "ABCD" if p not in used] or ["E"])
        if kind == "att":
            val = r.randint(1, 4)
            if r.random() < 0.85 and self.pkof[val] not in used:
                pk = self.pkof[val]                        # else: another pubkey for this validator -> clashing public key
            d = {"slot": slot, "comm": r.choice([0, 1, 1, 2, 2, 3]), "val": val, "head": self.few([1, 2]),
                 "src": self.few([1, 2], 0.85), "tgt": self.few([1, 2], 0.85)}
            if r.random() < 0.5:
                d["comm"] = (val % 3) if val < 4 else 0   # mostly a fixed committee per validator
            return {"pk": pk, "data": [d]}
        if kind == "pro":
            return {"pk": pk, "data": [{"slot": slot, "root": self.few([1, 2, 3]), "extra": self.few([0, 1, 2], 0.5)}]}
        if kind == "agg":
            bits = self.few([1, 3, 5], 0.4) if self.aggdev else 1
            return {"pk": pk, "data": [{"slot": slot, "root": self.few([1, 2], 0.6), "comm": r.choice([0, 1, 2]), "bits": bits}]}
        if kind == "con":
            n = r.choice([1, 1, 2, 3])
            data = [{"slot": slot, "sub": r.choice([1, 2, 3]), "bbr": self.few([1, 2]), "bits": self.few([1, 2])} for _ in range(n)]
            e = {"pk": pk, "data": data}
            if n == 1 and r.random() < 0.3:
                e["single"] = 1
            return e
        raise ValueError(kind)

    def store(self, kind):
        r = self.r
        slot = self.slot()
        n = r.choice([1, 1, 2, 2, 3]) if kind != "pro" else r.choice([1, 1, 1, 1, 1, 2])
        ents, used = [], set()
        for _ in range(n):
            e = self.entry(kind, slot, used)
            if e["pk"] in used:
                continue
            used.add(e["pk"])
            ents.append(e)
        return {"op": "Store", "duty": {"type": kind, "slot": slot}, "set": ents}

    def key(self, kind):
        r = self.r
        slot = self.slot()
        if kind == "att":
            return {"slot": slot, "comm": r.choice([0, 0, 1, 2, 3])}
        if kind == "pro":
            return {"slot": slot}
        if kind == "agg":
            return {"slot": slot, "root": self.few([1, 2], 0.6), "comm": r.choice([0, 1, 2])}
        return {"slot": slot, "sub": r.choice([1, 2, 3]), "bbr": self.few([1, 2])}


def gen_steps(r, pool, kinds, n, qids, maxq, expired, conc=False):
    steps, mine = [], []
    for _ in range(n):
        x = r.random()
        kind = r.choice(kinds)
        if x < 0.42:
            if r.random() < 0.04:
                steps.append({"op": "Store", "duty": {"type": r.choice(["exit", "randao"]), "slot": 1}, "set": []})
            else:
                steps.append(pool.store(kind))
        elif x < 0.70 and qids[0] < maxq:
            qids[0] += 1
            mine.append(qids[0])
            steps.append({"op": "Await", "q": qids[0], "kind": kind, "key": pool.key(kind)})
        elif x < 0.78 and qids[0] > 0:
            steps.append({"op": "Cancel", "q": r.randint(1, qids[0])})
        elif x < 0.86:
            d = (kind, pool.slot())
            if d not in expired:
                expired.add(d)
                steps.append({"op": "Expire", "duty": {"type": d[0], "slot": d[1]}})
        elif x < 0.95 and "att" in kinds:
            steps.append({"op": "PubKey", "key": {"slot": pool.slot(), "comm": r.choice([0, 0, 1, 2, 3]), "val": r.randint(1, 4)}})
        elif conc:
            steps.append({"op": "Yield"})
    return steps


def random_schedules(seed, n, big, n_aggdev):
    r = vlib.rng(seed, "c06seq")
    out = []
    for i in range(n):
        aggdev = i < n_aggdev
        kinds = ["agg"] if aggdev else r.choice([["att"], ["att"], ["pro"], ["agg"], ["con"], ["att", "pro"], ["agg", "con"],
                                                  ["att", "pro", "agg", "con"]])
        pool = Pool(r, aggdev)
        out.append(gen_steps(r, pool, kinds, r.randint(6, 40 if big else 24), [0], 8, set()))
    return out


def concurrent_schedules(seed, n, big):
    r = vlib.rng(seed, "c06conc")
    out = []
    for i in range(n):
        kinds = r.choice([["att"], ["pro"], ["agg"], ["con"], ["att", "pro"], ["pro", "con"]])
        pool = Pool(r, False)
        pool.slots = pool.slots[:1] if r.random() < 0.6 else pool.slots
        qids, expired = [0], set()
        threads = [gen_steps(r, pool, kinds, r.randint(2, 6 if big else 5), qids, 5, expired, conc=True)
                   for _ in range(r.choice([3, 4, 4]))]
        out.append([{"op": "Conc", "threads": threads}])
    return out


def gate_schedules(seed, n):
    """Gate tier: Store(A) is held inside deadliner.Add (answer already decided), meanwhile A expires and a Store of
    another duty B runs (it drains C()); then A's Add is released.  Afterwards A's keys are queried with short-lived
    contexts / PubKeyByAttestation.  In the required design the expiry test and the write are one critical section."""
    r = vlib.rng(seed, "c06gate")
    out = []
    for i in range(n):
        pool = Pool(r, False)
        kind_a = ["att", "pro", "agg", "con"][i % 4] if i < 8 else r.choice(["att", "att", "pro", "pro", "agg", "con"])
        kind_b = r.choice(["att", "pro", "agg", "con"])
        slot_a, slot_b = 1, r.choice([2, 3])
        pool.slots, pool.hot = [slot_a], slot_a
        a = pool.store(kind_a)
        if kind_a != "pro":
            a["set"] = a["set"][:r.choice([1, 1, 2])]
        else:
            a["set"] = a["set"][:1]
        pool.slots, pool.hot = [slot_b], slot_b
        b = pool.store(kind_b)
        b["set"] = b["set"][:1]
        keys = lambda st: [(st["duty"]["type"], k) for e in st["set"] for d in e["data"]
                           for k in ([{"slot": d["slot"], "comm": d["comm"]}, {"slot": d["slot"], "comm": 0}] if st["duty"]["type"] == "att"
                                     else [{"slot": d["slot"]}] if st["duty"]["type"] == "pro"
                                     else [{"slot": d["slot"], "root": d["root"], "comm": d["comm"]}] if st["duty"]["type"] == "agg"
                                     else [{"slot": d["slot"], "sub": d["sub"], "bbr": d["bbr"]}])]
        steps, q = [], [0]

        def aw(op, kind, key):
            q[0] += 1
            steps.append({"op": op, "q": q[0], "kind": kind, "key": key})
        if r.random() < 0.3:
            pool.slots, pool.hot = [4], 4
            steps.append(pool.store(r.choice(["att", "pro"])))          # something unrelated, stored before
        if r.random() < 0.35:
            aw("Await", *r.choice(keys(a)))                               # a query already waiting for A's data
        if r.random() < 0.25:
            aw("Await", *r.choice(keys(b)))
        steps.append(dict(a, op="StoreGated"))
        expire = i < 8 or r.random() < 0.85
        if expire:
            steps.append({"op": "Expire", "duty": a["duty"]})
        if i < 8 or r.random() < 0.85:
            steps.append(dict(b, op="StoreBg"))
        if not expire and r.random() < 0.5:
            steps.append({"op": "Expire", "duty": b["duty"]})
        steps.append({"op": "Release"})
        seen = []
        for kind, key in keys(a) + keys(b):
            if (kind, key) not in seen:
                seen.append((kind, key))
                aw("AwaitShort", kind, key)
        for st in (a, b):
            if st["duty"]["type"] == "att":
                for e in st["set"]:
                    d = e["data"][0]
                    steps.append({"op": "PubKey", "key": {"slot": d["slot"], "comm": r.choice([d["comm"], 0]), "val": d["val"]}})
        if r.random() < 0.4:                                              # later traffic: is A still (not) served?
            pool.slots, pool.hot = [5], 5
            steps.append(pool.store(r.choice(["att", "pro", "con"])))
            aw("AwaitShort", *r.choice(keys(a)))
        out.append(steps)
    return out


# ------------------------------------------------------------------------------------------------------------------
# binding self-tests
# ------------------------------------------------------------------------------------------------------------------
def mutators():
    def flip_res(t):
        # only the FIRST Store of a trace and only if it stores ONE datum: the result of a larger set may depend on the
        # map iteration order, and after a failed larger set the spec does not know which part of it was stored
        calls = {e["op"]: e for e in t if e.get("ev") == "StoreCall"}
        for e in t:
            if e.get("ev") == "StoreRet":
                c = calls[e["op"]]
                if len(c["set"]) == 1 and len(c["set"][0]["data"]) == 1 and c["duty"]["type"] != "agg":
                    e["res"] = "err" if e["res"] == "ok" else "ok"
                    return t
                return None
        return None

    def wrong_value(t):
        for e in t:
            if e.get("ev") == "Return" and "err" not in e["res"]:
                f = "bits" if "bits" in e["res"] else ("head" if "head" in e["res"] else "root")
                e["res"][f] += 7            # a value outside every universe
                return t
        return None

    def blocked_although_ready(t):
        for i, e in enumerate(t):
            if e.get("ev") == "Return" and "err" not in e["res"] and t[i - 1].get("ev") in ("StoreRet", "AwaitReg"):
                t.insert(i, {"ev": "Blocked", "q": e["q"]})
                return t
        return None

    def drop_store(t):
        # drop the only successful Store of a trace in which a value is returned afterwards
        # (the only Store at all: a failed Store may have stored part of its set)
        oks = [i for i, e in enumerate(t) if e.get("ev") == "StoreRet"]
        if len(oks) != 1 or t[oks[0]]["res"] != "ok" or t[oks[0] - 1].get("ev") != "StoreCall":
            return None
        if not any(e.get("ev") == "Return" and "err" not in e["res"] for e in t[oks[0]:]):
            return None
        del t[oks[0] - 1:oks[0] + 1]
        return t

    def wrong_pubkey(t):
        for e in t:
            if e.get("ev") == "PubKeyRet":
                e["res"] = "Z"              # a pubkey outside every universe
                return t
        return None

    def wrong_deadline_status(t):
        for e in t:
            if e.get("ev") == "StoreRet" and e.get("dl") == "Scheduled":
                e["dl"] = "Expired"
                return t
        return None

    def ctxerr_without_cancel(t):
        for i, e in enumerate(t):
            if e.get("ev") == "Return" and "err" in e["res"]:
                for j in range(i - 1, -1, -1):
                    if t[j].get("ev") == "Cancel" and t[j]["q"] == e["q"]:
                        del t[j]
                        return t
        return None
    return [("Store result flipped", flip_res), ("returned value altered", wrong_value),
            ("Blocked inserted for a resolved query", blocked_although_ready), ("successful Store dropped", drop_store),
            ("PubKeyByAttestation answer altered", wrong_pubkey), ("deadliner status altered", wrong_deadline_status),
            ("Cancel event dropped", ctxerr_without_cancel)]


# ------------------------------------------------------------------------------------------------------------------
def mc_parallel(o, cfgs, workers, timeout):
    """Run several exhaustive configurations side by side (each in its own scratch directory)."""
    def one(cfg):
        d = os.path.join(vlib.workdir(PID), "mc_" + cfg)
        shutil.rmtree(d, ignore_errors=True)
        os.makedirs(d)
        for src in (os.path.join(vlib.SPECS, "Common"), os.path.join(vlib.SPECS, FAMILY)):
            for f in os.listdir(src):
                if f.endswith((".tla", ".cfg")):
                    shutil.copy(os.path.join(src, f), d)
        return vlib.tlc(PID, FAMILY, "DutyDBMC", "DutyDBMC_%s.cfg" % cfg, workers=workers, timeout=timeout, sdir=d)
    with ThreadPoolExecutor(max_workers=len(cfgs)) as ex:
        res = list(ex.map(one, cfgs))
    for cfg, r in zip(cfgs, res):
        vlib.require_mc_ok(r, "DutyDBMC_" + cfg)
        o.add_mc("DutyDBMC_" + cfg, r)
        log("[%s] design check %s: %d distinct states, depth %d, %.0fs" % (PID, cfg, r.distinct, r.depth, r.wall))


def run(tier, seed):
    o = vlib.Outcome(PID, tier, seed)
    thorough = tier == "thorough"
    # stage 0: design check (one configuration per keyspace, side by side)
    if thorough:
        mc_parallel(o, ["att", "pro", "agg", "con"], max(2, vlib.NCPU // 4), 1700)
        mc_parallel(o, ["mixed", "live"], max(2, vlib.NCPU // 2), 1700)
    else:
        mc_parallel(o, ["att_quick", "pro_quick", "agg_quick", "con_quick", "live_quick"], max(2, vlib.NCPU // 4), 800)
    # controls: the aggregate path as coded (equal data root => overwrite) must violate the invariants
    r = vlib.tlc(PID, FAMILY, "DutyDBMC", "DutyDBMC_ascoded.cfg", timeout=600, workers=4)
    if r.violation != "Safety":
        raise vlib.Infra("design-spec control failed: AggReplace variant not caught by UniquePerKey: " + r.summary())
    o.selftests.append({"control": "spec variant AggReplace=TRUE violates Safety (UniquePerKey)", "rejected_as_required": True})
    r = vlib.tlc(PID, FAMILY, "DutyDBMC", "DutyDBMC_ascoded_replace.cfg", timeout=600, workers=4)
    if r.violation != "MCNeverReplaced":
        raise vlib.Infra("design-spec control failed: AggReplace variant not caught by NeverReplaced: " + r.summary())
    o.selftests.append({"control": "spec variant AggReplace=TRUE violates NeverReplaced", "rejected_as_required": True})
    # control: deadliner.Add outside db.mu (expiry test and write in two critical sections) must violate ExpiredGone
    r = vlib.tlc(PID, FAMILY, "DutyDBMC", "DutyDBMC_earlyadd.cfg", timeout=600, workers=4)
    if r.violation != "ExpiredGone":
        raise vlib.Infra("design-spec control failed: EarlyAdd variant not caught by ExpiredGone: " + r.summary())
    o.selftests.append({"control": "spec variant EarlyAdd=TRUE (Add before the mutex) violates ExpiredGone", "rejected_as_required": True})
    # stage 1: schedules
    scheds, g = vlib.gen_schedules(PID, FAMILY, "DutyDBGen", "DutyDBGen.cfg", num=300 if thorough else 40, depth=80, seed=seed,
                                   limit=3000 if thorough else 500)
    n_aggdev = 12 if thorough else 2
    rnd = random_schedules(seed, 3000 if thorough else 400, thorough, n_aggdev)
    conc = concurrent_schedules(seed, 700 if thorough else 60, thorough)
    gate = gate_schedules(seed, 400 if thorough else 32)
    # stage 2+3
    def conf(schedules, tag, **kw):
        try:
            vlib.conformance(o, FAMILY, TRACE, CFG, "c06", schedules, tag=tag, dev_cfgs=DEV, **kw)
        except vlib.Infra as e:
            # a rejection that depends on an unlogged choice (Go map order, interleaving) may not come back on
            # re-execution; that is only tolerable when this run has already produced a reproduced violation
            if "did not reproduce" not in str(e) or not o.violations:
                raise
            o.notes.append("%s: %s" % (tag, str(e)[:300]))
    conf([PROBE], "probe")
    probe_hit = any(k == FINDING for k, _ in o.known)
    conf(scheds, "tlcgen")
    conf(rnd, "random")
    conf(gate, "gate")          # the deterministic tiers first: a racy rejection of the concurrent tier need not recur
    conf(conc, "conc", chunk=60, env={"C06_REPEAT": "2"})
    if not probe_hit:
        note = ("probe for known finding %s no longer reproduces (storeAggAttestationUnsafe no longer replaces an aggregate "
                "with equal data root): remove the finding and the deviation cfg" % FINDING)
        log("[%s] NOTE: %s" % (PID, note))
        o.notes.append(note)
    seen = set()
    o.known = [k for k in o.known if not (k[0] in seen or seen.add(k[0]))]
    # an executor that stopped early (hang / repeated blocking) without a rejection would silently lose coverage
    for tag, ss in (("tlcgen", scheds), ("random", rnd), ("conc", conc), ("gate", gate)):
        got = {t[0].get("sid") for t in vlib.split_traces(vlib.read_ndjson(vlib.workdir(PID) + "/trace_%s.ndjson" % tag))}
        if len(got) < len(ss) and not o.violations:
            raise vlib.Infra("executor stopped after %d of %d %s schedules without a rejected trace" % (len(got), len(ss), tag))
    # binding negative controls on recorded traces of a conforming run
    # (not on the schedules that aim at the known finding: there the strict spec allows reject as well as keep-first)
    if not o.violations:
        tr = vlib.split_traces(vlib.read_ndjson(vlib.workdir(PID) + "/trace_tlcgen.ndjson"))[:150]
        tr += [t for t in vlib.split_traces(vlib.read_ndjson(vlib.workdir(PID) + "/trace_random.ndjson"))
               if t[0].get("sid", 0) >= n_aggdev][:150]
        acc = vlib.validate_traces(PID, FAMILY, TRACE, CFG, tr).accepted
        vlib.binding_selftest(o, FAMILY, TRACE, CFG, [tr[i] for i in acc], mutators())
    return vlib.finish(o, "model_checking", RULE,
                       ["a scripted core.Deadliner stands in for the real one: Add answers Expired exactly after the schedule "
                        "expired the duty, C() carries the expired duties that had been added",
                        "every datum of a Store carries the slot and type of its duty; only duties of the four stored types expire",
                        "model data map to real objects that differ exactly in the modelled fields (attestation head/source/target, "
                        "block ParentRoot / number of KZG proofs, aggregation bits+signature, contribution bits+signature)",
                        "proposals with equal block root but different unsigned parts: either may be served (the statement speaks "
                        "about signed content)",
                        "an aggregate with a stored key but other aggregation bits may be rejected or ignored (keep-first); the "
                        "unchanged tree overwrites it: known finding " + FINDING,
                        "which partial state a failed Store leaves behind follows the code (entries before the clash stay, no resolve)"])


def replay(path):
    rp = json.load(open(path))
    o = vlib.Outcome(PID, "quick", 0)
    vlib.conformance(o, FAMILY, rp["trace_module"], rp["trace_cfg"], rp["pkg"], [rp["schedule"]], tag="replay", dev_cfgs=DEV)
    for p, t in o.violations:
        log("replay: " + t)
    for k, t in o.known:
        log("replay: KNOWN-FINDING %s: %s" % (k, t))
    return 1 if o.violations else 0
