"""C07 - the partial-signature store triggers aggregation exactly once, on matching shares (core/parsigdb/memory.go)."""
import json
from concurrent.futures import ThreadPoolExecutor
import vlib
from vlib import log

PID = "C07"
FAMILY = "ParSigDB"
TRACE = "ParSigDBTrace"
TCFG = "ParSigDBTrace.cfg"
RULE = ("schedules = sequences (and, in concurrent blocks, per-goroutine sequences) of StoreExternal/StoreInternal calls with "
        "batches of partials [validator, share, root, signature variant, subcommittee] for duties of six types (attester, "
        "randao, sync message, sync contribution, rootless signature, voluntary exit = never expiring), deadliner answers "
        "(scheduled/expired/exempt) and Trim requests; generated (a) by TLC simulation of ParSigDBGen and (b) by a seeded "
        "random generator (arrival orders, duplicates, minority roots, equivocation, multi-validator batches with refused "
        "entries, expiry, trim and refill, exempt cap eviction, goroutines racing for the t-th share; n/t = 4/3, 7/5, 3/2, "
        "6/4, 5/4; always 2t > n as cluster.Threshold guarantees); executed on parsigdb.NewMemDB with a scripted deadliner, multi-validator and concurrent schedules "
        "several times; distinct = distinct recorded traces")

CLUSTERS = [(4, 3), (4, 3), (7, 5), (3, 2), (6, 4), (5, 4)]
TYPES = ["att", "att", "randao", "syncmsg", "contrib", "sig", "exit"]


def duty(i, typ):
    return {"id": "%s%d" % (typ[0], i), "typ": typ, "ex": typ == "exit"}


def part(v, share, root="x", sig=0, sub=0):
    return {"v": v, "share": share, "root": root, "sig": sig, "sub": sub}


def call(d, batch, internal=False, expired=False, th=0):
    s = {"ev": "Call", "duty": d, "internal": internal, "expired": bool(expired and not d["ex"]), "batch": batch}
    if th:
        s["th"] = th
    return s


def trim(d, th=0):
    s = {"ev": "Trim", "duty": d}
    if th:
        s["th"] = th
    return s


def plan_for(r, v, n, t, sub, style):
    """Arrival plan of one validator: every share once over the majority root x (a few over y), plus duplicates and
    equivocations, in a random order shaped by `style`."""
    shares = list(range(1, n + 1))
    r.shuffle(shares)
    minority = set()
    if style in ("minority", "mixed") or r.random() < 0.3:
        minority = set(r.sample(shares, r.randint(1, max(1, n - t))))
    items = []
    for s in shares:
        items.append(part(v, s, "y" if s in minority else "x", 0, sub))
    if style == "minority_first":
        m = r.choice(shares)
        items = [part(v, m, "y", 0, sub)] + [part(v, s, "x", 0, sub) for s in shares if s != m]
    if style == "minority_after":
        m = shares[-1]
        items = [part(v, s, "x", 0, sub) for s in shares[:t]] + [part(v, m, "y", 0, sub)] + \
                [part(v, s, "x", 0, sub) for s in shares[t:-1]]
    if style == "split":
        # two roots racing: exactly t shares for each where n allows it
        items = [part(v, s, "x" if k % 2 == 0 else "y", 0, sub) for k, s in enumerate(shares)]
    # duplicates and equivocations
    extra = r.randint(0, 3) if style != "clean" else 0
    for _ in range(extra):
        pos = r.randint(1, len(items))
        base = r.choice(items[:pos])
        kind = r.random()
        if kind < 0.45:
            items.insert(pos, dict(base))                                       # duplicate
        elif kind < 0.75:
            items.insert(pos, dict(base, root="y" if base["root"] == "x" else "x"))  # other root
        else:
            items.insert(pos, dict(base, sig=1 - base["sig"]))                  # same root, other signature
    if r.random() < 0.3:
        items = items[:r.randint(max(1, t - 1), len(items))]
    return items


def merge_plans(r, d, plans, maxbatch, p_internal=0.15, p_expired=0.04):
    """Turns per-validator plans into calls: each call takes the next item of 1..maxbatch validators."""
    steps = []
    plans = [list(p) for p in plans if p]
    while plans:
        k = min(len(plans), 1 if r.random() < 0.45 else r.randint(1, maxbatch))
        chosen = r.sample(range(len(plans)), k)
        batch = [plans[i].pop(0) for i in chosen]
        steps.append(call(d, batch, r.random() < p_internal, r.random() < p_expired))
        plans = [p for p in plans if p]
    return steps


def sched_fill(r, big):
    n, t = r.choice(CLUSTERS)
    typ = r.choice(TYPES)
    d = duty(1, typ)
    nv = r.randint(1, 4 if big else 3)
    style = r.choice(["mixed", "minority", "minority_first", "minority_after", "split", "clean", "mixed"])
    plans = []
    for v in range(1, nv + 1):
        subs = [0, 1] if typ == "contrib" and r.random() < 0.6 else [0]
        for sub in subs:
            plans.append(plan_for(r, v, n, t, sub, style))
    # two plans of one validator (different subcommittees) must not meet in one batch: concatenate them
    byv = {}
    for p in plans:
        byv.setdefault(p[0]["v"], []).extend(p)
    for v in byv:
        if typ == "contrib":
            r.shuffle(byv[v])
    steps = merge_plans(r, d, list(byv.values()), 3)
    if r.random() < 0.35 and not d["ex"]:
        pos = r.randint(1, len(steps))
        steps.insert(pos, trim(d))
        if r.random() < 0.7:
            steps += merge_plans(r, d, [plan_for(r, v, n, t, 0, "clean") for v in range(1, nv + 1)], 2)
    return [{"ev": "Cfg", "t": t}] + steps


def sched_abort(r, big):
    """A batch in which one validator's entry is refused while another one's completes a threshold (and variants:
    duplicate instead of refusal, both complete, both refused)."""
    n, t = r.choice(CLUSTERS)
    d = duty(1, r.choice(["att", "randao", "syncmsg", "exit", "contrib"]))
    nv = r.randint(2, 3)
    steps = []
    sh = {v: r.sample(range(1, n + 1), n) for v in range(1, nv + 1)}
    for v in range(1, nv + 1):
        for s in sh[v][:t - 1]:
            steps.append(call(d, [part(v, s)]))
    r.shuffle(steps)
    batch = []
    for v in range(1, nv + 1):
        x = r.random()
        if x < 0.4:
            batch.append(part(v, sh[v][t - 1]))                                   # completes the threshold
        elif x < 0.75:
            s = r.choice(sh[v][:t - 1])
            batch.append(part(v, s, "y") if r.random() < 0.6 else part(v, s, "x", 1))  # refused
        else:
            batch.append(part(v, r.choice(sh[v][:t - 1])))                        # duplicate
    steps.append(call(d, batch, r.random() < 0.3))
    # afterwards: resend, one more share, the remaining ones
    for v in range(1, nv + 1):
        if r.random() < 0.7:
            steps.append(call(d, [part(v, sh[v][t - 1])]))
        for s in sh[v][t:]:
            if r.random() < 0.6:
                steps.append(call(d, [part(v, s, "y" if r.random() < 0.3 else "x")]))
    return [{"ev": "Cfg", "t": t}] + steps


def sched_exempt(r, big):
    """Never-expiring duties: more than the cap (10) of distinct duties per share and validator evicts the oldest."""
    n, t = r.choice([(3, 2), (4, 3), (5, 3)])
    nd = r.choice([10, 10, 11, 11, 12, 13])     # 10 distinct duties fill the cap exactly, the 11th evicts
    ds = [duty(i, "exit") for i in range(nd)]
    steps = []
    v = 1
    first = r.sample(range(1, n + 1), n)
    k0 = r.randint(1, n)
    for s in first[:k0]:
        steps.append(call(ds[0], [part(v, s)]))
    flooder = first[0]
    order = list(range(1, nd))
    if r.random() < 0.5:
        r.shuffle(order)
    for i in order:
        b = [part(v, flooder)]
        if r.random() < 0.3:
            b.append(part(2, flooder))
        steps.append(call(ds[i], b, r.random() < 0.1))
        if r.random() < 0.15:
            steps.append(call(ds[r.randrange(nd)], [part(v, r.randint(1, n), "y" if r.random() < 0.2 else "x")]))
    # after its oldest partial was evicted the flooder may come back to the first duty with ANOTHER root (nothing of it is
    # stored there any more, so it is accepted): what the store remembers about the evicted partial must not count
    back = "y" if r.random() < 0.5 else "x"
    late = first[k0:] + [flooder] + first[:2]
    if back == "y" and r.random() < 0.5:
        late = [flooder] + first[k0:] + first[:2]
    for s in late:
        steps.append(call(ds[0], [part(v, s, back if s == flooder else "x")]))
    if r.random() < 0.5:
        steps.append(call(ds[order[0]], [part(v, s) for s in [flooder]]))
        for s in first[1:]:
            steps.append(call(ds[order[0]], [part(v, s)]))
    return [{"ev": "Cfg", "t": t}] + steps


def sched_exempt_back(r, big):
    """Directed around the cap: exactly a threshold of shares (the flooder first) sign a never-expiring duty K - it triggers;
    the flooder then signs 10..12 further duties of that kind for the same validator, so that its partial at K is evicted while
    the others' stay; then it comes back to K with ANOTHER root (accepted: nothing of it is stored there) before / after a
    further share signs the first root."""
    n, t = r.choice([(3, 2), (4, 3), (5, 3), (4, 2)])
    nd = r.choice([11, 12, 13])
    ds = [duty(i, "exit") for i in range(nd)]
    v = 1
    first = r.sample(range(1, n + 1), n)
    flooder = first[0]
    steps = [call(ds[0], [part(v, s)]) for s in first[:t]]
    for i in range(1, nd):
        steps.append(call(ds[i], [part(v, flooder)]))
    tail_ = [call(ds[0], [part(v, flooder, "y")])] + [call(ds[0], [part(v, s)]) for s in first[t:]]
    if r.random() < 0.3:
        tail_ = tail_[1:2] + tail_[:1] + tail_[2:]
    steps += tail_ + [call(ds[0], [part(v, first[1], "x")])]
    return [{"ev": "Cfg", "t": t}] + steps


def sched_multi(r, big):
    """Several duties of several types interleaved, with expiry and trims."""
    n, t = r.choice(CLUSTERS)
    nd = r.randint(2, 3)
    ds = [duty(i, r.choice(TYPES)) for i in range(nd)]
    seqs = []
    for d in ds:
        nv = r.randint(1, 2)
        plans = [plan_for(r, v, n, t, 0, r.choice(["mixed", "clean", "minority_after"])) for v in range(1, nv + 1)]
        seqs.append(merge_plans(r, d, plans, 2, p_expired=0.1))
    steps = []
    while any(seqs):
        s = r.choice([q for q in seqs if q])
        steps.append(s.pop(0))
        if r.random() < 0.06:
            d = r.choice(ds)
            steps.append(trim(d))
    return [{"ev": "Cfg", "t": t}] + steps


def sched_conc(r, big):
    """Sequential prefix, then goroutines racing (for the t-th share, with duplicates, equivocation, Trim), then a
    sequential suffix."""
    n, t = r.choice(CLUSTERS)
    d = duty(1, r.choice(["att", "att", "randao", "syncmsg", "contrib", "sig", "exit"]))
    nv = r.randint(1, 3)
    steps = []
    sh = {v: r.sample(range(1, n + 1), n) for v in range(1, nv + 1)}
    pre = r.randint(max(0, t - 3), t - 1)
    for v in sh:
        for s in sh[v][:pre]:
            steps.append(call(d, [part(v, s)]))
    nth = r.randint(2, 4 if big else 3)
    items = []
    for v in sh:
        for s in sh[v][pre:]:
            x = r.random()
            items.append(part(v, s, "y" if x < 0.15 else "x"))
            if x > 0.8:
                items.append(part(v, s, "x" if x < 0.9 else "y", 0 if x < 0.95 else 1))
    r.shuffle(items)
    items = items[:r.randint(2, 10 if big else 8)]
    th = 0
    while items:
        k = 1 if r.random() < 0.6 else 2
        batch, vs = [], set()
        for it in list(items):
            if it["v"] not in vs and len(batch) < k:
                batch.append(it)
                vs.add(it["v"])
                items.remove(it)
        th = th % nth + 1
        steps.append(call(d, batch, r.random() < 0.15, False, th))
        if r.random() < 0.12 and not d["ex"]:
            steps.append(trim(d, r.randint(1, nth)))
    for v in sh:
        for s in sh[v]:
            if r.random() < 0.35:
                steps.append(call(d, [part(v, s, "y" if r.random() < 0.2 else "x")]))
    return [{"ev": "Cfg", "t": t}] + steps


def sched_race(r, big):
    """All goroutines enter the store at the same moment with the shares that complete and exceed the threshold of the
    same validators (the t-th and the (t+1)-th partial racing)."""
    n, t = r.choice([(7, 5), (6, 4), (4, 3), (5, 3), (7, 5)])
    d = duty(1, r.choice(["att", "randao", "syncmsg", "sig", "exit"]))
    nv = r.randint(1, 3 if big else 2)       # keeps the number of simultaneously floating store steps small
    sh = {v: r.sample(range(1, n + 1), n) for v in range(1, nv + 1)}
    steps = []
    for v in sh:
        for s in sh[v][:t - 1]:
            steps.append(call(d, [part(v, s)]))
    r.shuffle(steps)
    rest = n - t + 1
    for k in range(rest):
        batch = [part(v, sh[v][t - 1 + k], "y" if r.random() < 0.08 else "x") for v in sh if r.random() < 0.9]
        if batch:
            steps.append(call(d, batch, r.random() < 0.1, False, k + 1))
    if r.random() < 0.3:
        v = r.choice(list(sh))
        steps.append(call(d, [part(v, sh[v][0])], False, False, rest + 1))      # a duplicate in the same instant
    if r.random() < 0.2 and not d["ex"]:
        steps.append(trim(d, rest + 2))
    for v in sh:
        if r.random() < 0.4:
            steps.append(call(d, [part(v, r.choice(sh[v]))]))
    return [{"ev": "Cfg", "t": t}] + steps


def random_schedules(seed, n, big, conc):
    r = vlib.rng(seed, "c07")
    kinds = [sched_fill, sched_fill, sched_abort, sched_multi, sched_exempt, sched_exempt_back]
    out = []
    for i in range(n):
        if conc:
            out.append(sched_race(r, big) if i % 3 == 2 else sched_conc(r, big))
        else:
            k = kinds[i % len(kinds)] if i < 2 * len(kinds) else r.choice(kinds)
            out.append(k(r, big))
    return out


def control_schedules():
    """Deterministic schedules used for the binding self-tests."""
    a = duty(1, "att")
    s = [{"ev": "Cfg", "t": 3}]
    s += [call(a, [part(1, 1)]), call(a, [part(1, 2)], True), call(a, [part(1, 2)]), call(a, [part(1, 3)], True),
          call(a, [part(1, 3, "y")]), call(a, [part(1, 4)]), trim(a), call(a, [part(1, 4)])]
    return [s]


def from_tlc(s):
    out = []
    for st in s:
        st = dict(st)
        out.append(st)
    return out


def mutators():
    def find(t, ev, pred=lambda e: True):
        for i, e in enumerate(t):
            if e.get("ev") == ev and pred(e):
                return i
        return None

    def drop_fired(t):
        i = find(t, "Fired")
        if i is None:
            return None
        del t[i]
        return t

    def wrong_share(t):
        i = find(t, "Fired")
        if i is None:
            return None
        p = t[i]["sets"][0]["parts"][0]
        p["share"] = p["share"] + 1 if p["share"] < 4 else 1
        return t

    def wrong_root(t):
        i = find(t, "Fired")
        if i is None:
            return None
        p = t[i]["sets"][0]["parts"][-1]
        p["root"] = "y" if p["root"] == "x" else "x"
        return t

    def fewer(t):
        i = find(t, "Fired")
        if i is None:
            return None
        t[i]["sets"][0]["parts"].pop()
        return t

    def fired_twice(t):
        i = find(t, "Fired")
        if i is None:
            return None
        # the same set handed over again by the next call
        j = None
        for k in range(i + 1, len(t)):
            if t[k].get("ev") == "Ret" and t[k]["c"] != t[i]["c"]:
                j = k
                break
        if j is None:
            return None
        e = json.loads(json.dumps(t[i]))
        e["c"] = t[j]["c"]
        t.insert(j, e)
        return t

    def flip_err(t):
        i = find(t, "Ret", lambda e: e["err"])
        if i is None:
            return None
        t[i]["err"] = False
        return t

    def flip_ok(t):
        i = find(t, "Ret", lambda e: not e["err"])
        if i is None:
            return None
        t[i]["err"] = True
        return t

    def drop_internal(t):
        i = find(t, "Internal")
        if i is None:
            return None
        del t[i]
        return t

    def early_fired(t):
        # a trigger invented for a call that did not complete a threshold
        i = find(t, "Fired")
        if i is None:
            return None
        j = find(t, "Ret")
        if j is None or j > i:
            return None
        e = json.loads(json.dumps(t[i]))
        e["c"] = t[j]["c"]
        t.insert(j, e)
        return t[:j + 2]

    return [("Fired event dropped", drop_fired), ("share index in Fired changed", wrong_share),
            ("root in Fired changed", wrong_root), ("Fired with one partial fewer", fewer),
            ("same set fired again by a later call", fired_twice), ("error return hidden", flip_err),
            ("error return invented", flip_ok), ("Internal event dropped", drop_internal),
            ("trigger before threshold", early_fired)]


QUICK_MC = ["quick", "batch", "batchconc", "n7", "exempt", "sig", "subs", "two", "trimq"]
THOROUGH_MC = ["thor", "batchthor", "batchconc", "n7thor", "exemptthor", "sig", "subs", "two", "trim"]
CONTROLS = [("ctl_refire", "AtMostOnce", "as coded: any root group of exactly t entries fires (FireOnAnyGroup) violates AtMostOnce"),
            ("ctl_abort", "NoLostTrigger", "as coded: first refused entry aborts the batch (AbortOnReject) violates NoLostTrigger")]


def design_check(o, thorough):
    names = THOROUGH_MC if thorough else QUICK_MC
    jobs = [(n, None) for n in names] + [(c[0], c[1]) for c in CONTROLS]
    per = 4 if not thorough else max(4, vlib.NCPU // 2)

    dirs = {name: vlib.scratch(PID, FAMILY) for name, _ in jobs}      # vlib.scratch is not thread-safe

    def one(job):
        name, _ = job
        return vlib.tlc(PID, FAMILY, "ParSigDBMC", "ParSigDBMC_%s.cfg" % name, workers=per,
                        timeout=1500 if thorough else 300, sdir=dirs[name])
    with ThreadPoolExecutor(max_workers=max(1, vlib.NCPU // per) if not thorough else 2) as ex:
        results = list(ex.map(one, jobs))
    for (name, want), r in zip(jobs, results):
        log("[%s] MC %s: %s" % (PID, name, r.summary()))
        if want is None:
            vlib.require_mc_ok(r, "ParSigDBMC_" + name)
            o.add_mc("ParSigDBMC_" + name, r)
        else:
            if r.violation != want:
                raise vlib.Infra("design-spec control %s failed: expected violation of %s, got: %s\n%s"
                                 % (name, want, r.summary(), r.out[-1500:]))
            text = [c[2] for c in CONTROLS if c[0] == name][0]
            o.selftests.append({"control": "spec variant " + text, "rejected_as_required": True})


def conformance_racy(o, schedules, tag, env, chunk=100):
    """Like vlib.conformance, for schedules whose outcome depends on goroutine scheduling: a rejected trace may be a
    rare interleaving, so the rejected schedules are ranked by how often they were rejected and re-examined with many
    more executions; only what shows up again is reported (through vlib.conformance, which re-executes once more and
    writes the replay file).  Rejections that never show up again are an infrastructure failure, as everywhere."""
    from collections import Counter
    traces, sids, wall = vlib.run_schedules(PID, "c07", "TestExec", schedules, tag=tag, env=env)
    v = vlib.validate_traces(PID, FAMILY, TRACE, TCFG, traces, chunk=chunk)
    o.schedules += len(schedules)
    o.traces += len(traces)
    o.trace_events += sum(len(t) for t in traces)
    o.trace_states += v.states
    for t in traces:
        o.distinct_keys.add(vlib.digest(t))
    for t in traces[:2]:
        if len(o.samples) < 6:
            o.samples.append({"family": FAMILY, "tag": tag, "trace": t[:40]})
    log("[%s] %s/%s: %d schedules -> %d traces (%d events) executed in %.1fs, validated in %.1fs: %d accepted, %d rejected"
        % (PID, FAMILY, tag, len(schedules), len(traces), sum(len(t) for t in traces), wall, v.wall,
           len(v.accepted), len(v.rejected)))
    if not v.rejected:
        return
    ranked = [sid for sid, _ in Counter(sids[ti] for ti, _, _ in v.rejected).most_common()]
    hot = dict(env, VERIF_REPS="200")
    before = len(o.violations) + len(o.known)
    tried = 0
    for sid in ranked[:8]:
        tried += 1
        try:
            vlib.conformance(o, FAMILY, TRACE, TCFG, "c07", [schedules[sid]], tag="%s_hot%d" % (tag, sid), env=hot, chunk=chunk)
        except vlib.Infra as e:
            if "did not reproduce" not in str(e):
                raise
            continue
        if len(o.violations) + len(o.known) - before >= 3:
            break
    if len(o.violations) + len(o.known) == before:
        ti, pos, reason = v.rejected[0]
        raise vlib.Infra("%d traces of %d concurrent schedules were rejected (first: schedule %d, %s at event %d) but none "
                         "showed up again in 200 executions each of the %d most affected schedules: %s"
                         % (len(v.rejected), len(ranked), sids[ti], reason, pos, tried, json.dumps(traces[ti])[:1500]))


def run(tier, seed):
    o = vlib.Outcome(PID, tier, seed)
    thorough = tier == "thorough"
    design_check(o, thorough)
    log("[%s] design check done after %.0fs" % (PID, __import__("time").time() - o.t0))
    scheds, g = vlib.gen_schedules(PID, FAMILY, "ParSigDBGen", "ParSigDBGen.cfg", num=200 if thorough else 40,
                                   depth=250, seed=seed, limit=3000 if thorough else 400, timeout=600)
    log("[%s] %d schedules generated by TLC after %.0fs" % (PID, len(scheds), __import__("time").time() - o.t0))
    env = {"VERIF_REPS": "16" if thorough else "8"}
    # racing goroutines: more executions per schedule, so that a rare interleaving is seen again on re-execution
    cenv = {"VERIF_REPS": "32" if thorough else "16"}
    ctl = control_schedules()
    vlib.conformance(o, FAMILY, TRACE, TCFG, "c07", ctl, tag="control", env=env)
    vlib.conformance(o, FAMILY, TRACE, TCFG, "c07", [from_tlc(s) for s in scheds], tag="tlcgen", env=env)
    vlib.conformance(o, FAMILY, TRACE, TCFG, "c07", random_schedules(seed, 2500 if thorough else 300, thorough, False),
                     tag="random", env=env)
    conformance_racy(o, random_schedules(seed, 400 if thorough else 120, thorough, True), "conc", cenv, chunk=50)
    tr = vlib.split_traces(vlib.read_ndjson(vlib.workdir(PID) + "/trace_control.ndjson"))
    vlib.binding_selftest(o, FAMILY, TRACE, TCFG, tr, mutators())
    return vlib.finish(o, "model_checking", RULE,
                       ["scripted core.Deadliner: the answer of Add (scheduled / expired / exempt) is chosen by the schedule, exempt is a "
                        "function of the duty type as in core/deadline.go; Trim is driven through the stub's C() with a barrier duty",
                        "per-entry store steps and the Trim critical section are not logged; TLC places them between the Call/Ret (Trim/TrimDone) "
                        "events recorded around them (linearisability by trace validation)",
                        "a key is (duty, validator, subcommittee); after Trim or a cap eviction disturbed a key a new trigger for it is allowed "
                        "(the repository's own test expects a second trigger after Trim)",
                        "whether StoreInternal still calls its subscribers when an entry of the batch was refused is left open (the property is silent)",
                        "Go map iteration order of a batch is not controlled: multi-validator and concurrent schedules are executed "
                        + env["VERIF_REPS"] + " times (concurrent ones " + cenv["VERIF_REPS"] + " times) and every distinct trace is validated"])


def replay(path):
    rp = json.load(open(path))
    o = vlib.Outcome(PID, "quick", 0)
    vlib.conformance(o, FAMILY, rp["trace_module"], rp["trace_cfg"], rp["pkg"], [rp["schedule"]], tag="replay",
                     env=rp.get("env") or {})
    for p, t in o.violations:
        log("replay: " + t)
    return 1 if o.violations else 0
