#!/bin/bash
# usage: checks/c05_muttest.sh <patch.diff | -e 'sed-expr' file [-e 'sed-expr' file ...]>
# Like tools/muttest.sh for C05, but the scratch worktree also gets the build-tag hook from pending_hooks
# (core/consensus/qbft/verif_export.go), which is not in /repo yet.
set -u
WT=/tmp/c05mut_$$
git -C /repo worktree add -q --detach $WT HEAD || exit 3
cleanup() { git -C /repo worktree remove --force $WT; rm -rf /verif/.work/mut_$$; }
if [ "$1" = "-e" ]; then
  while [ "${1:-}" = "-e" ]; do sed -i -E "$2" $WT/$3 || echo "sed failed"; shift 3; done
  (cd $WT && git diff --stat | tail -1)
else
  (cd $WT && git apply "$1") || { echo "patch failed"; cleanup; exit 3; }
fi
if [ -z "$(cd $WT && git status --short)" ]; then echo "MUTATION DID NOT APPLY"; cleanup; exit 3; fi
cp /verif/pending_hooks/core/consensus/qbft/verif_export.go $WT/core/consensus/qbft/
(cd $WT && GOFLAGS=-mod=mod GOPROXY=off go build -tags verif ./core/consensus/qbft/ 2>&1 | head -5)
VERIF_WORK=/verif/.work/mut_$$ VERIF_REPO=$WT ${MUT_TIER:+VERIF_TIER=$MUT_TIER} timeout 1500 /verif/check C05 2>&1 | grep -E "VIOLATION|KNOWN-FINDING|INFRA|OK tier|^  " | head -12 | cut -c1-420
echo "exit=${PIPESTATUS[0]}"
cleanup
