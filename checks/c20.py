"""C20 - the duties cache answers exactly what the beacon node would answer (app/eth2wrap/cache.go)."""
import json
import os
import vlib
from vlib import log

FAMILY = "DutiesCache"
PID = "C20"
KINDS = ["prop", "att", "sync"]
RULE = ("schedules = sequences of Call(r,kind,epoch,index set)/Compute(r[,fail])/Deliver(r) (the beacon node computes -- or "
        "fails -- / delivers the answer of request r: every fetch is gated)/Reorg(e0)/Invalidate(e0)/Trim(ep)/Mutate(answer)/Par[...] "
        "(steps started concurrently) over a versioned beacon truth table (validators with none, one or several duties; "
        "a reorg changes contents and assignment); generated (a) by TLC simulation of DutiesCacheGen, (b) by a seeded "
        "random generator (overlapping / disjoint / repeated index sets, fetches straddling reorg+invalidate, trims, "
        "mutation of returned answers, failing beacon calls on cold / partially cached epochs followed by retries, "
        "concurrent groups) and (c) fixed probe schedules; executed on "
        "eth2wrap.NewDutiesCache over the gated beaconmock; distinct = distinct recorded traces")


# ------------------------------------------------------------------------------------------------
# schedules
# ------------------------------------------------------------------------------------------------
def random_table(r, kinds, epochs, vals, nver):
    asg = []
    for k in kinds:
        for e in epochs:
            for x in vals:
                for v in range(nver):
                    n = r.choice([0, 0, 1, 1, 2, 3]) if k == "prop" else r.choice([0, 1, 1])
                    if n:
                        asg.append({"k": k, "e": e, "x": x, "v": v, "n": n})
    return asg


def subset(r, vals):
    s = [x for x in vals if r.random() < 0.5]
    if not s:
        s = [r.choice(vals)]
    r.shuffle(s)
    return s


class Gen:
    """Keeps just enough bookkeeping to emit applicable steps (the executor skips steps that do not apply)."""

    def __init__(self, r, kinds, epochs, vals, pfail=0.0):
        self.r, self.kinds, self.epochs, self.vals = r, kinds, epochs, vals
        self.pfail = pfail   # probability that a beacon call fails instead of answering
        self.steps = []
        self.phase = {}      # request id -> "A" (waiting for Compute) | "B" (waiting for Deliver)
        self.reorgs = 0
        self.nans = 0
        self.recent = []     # recent (k, e, S) for repeats

    def free_id(self):
        for i in range(1, 7):
            if i not in self.phase:
                return i
        return None

    def call(self, k=None, e=None, S=None, out=None):
        i = self.free_id()
        if i is None:
            return None
        if self.recent and k is None and self.r.random() < 0.35:
            k, e, S = self.r.choice(self.recent)
            if self.r.random() < 0.5:
                S = subset(self.r, self.vals)
        k = k or self.r.choice(self.kinds)
        e = self.r.choice(self.epochs) if e is None else e
        S = S or subset(self.r, self.vals)
        self.recent = (self.recent + [(k, e, list(S))])[-6:]
        self.phase[i] = "A"
        (self.steps if out is None else out).append({"ev": "Call", "r": i, "k": k, "e": e, "S": list(S)})
        return i

    def compute(self, i, out=None, fail=None):
        if self.phase.get(i) == "A":
            self.phase[i] = "B"
            st = {"ev": "Compute", "r": i}
            if fail is None:
                fail = self.pfail > 0 and self.r.random() < self.pfail
            if fail:
                st["fail"] = True
            (self.steps if out is None else out).append(st)

    def deliver(self, i, out=None):
        if self.phase.get(i) == "B":
            del self.phase[i]
            self.nans += 1
            (self.steps if out is None else out).append({"ev": "Deliver", "r": i})

    def finish(self, i, fail=None):
        self.compute(i, fail=fail)
        self.deliver(i)

    def progress(self):
        if not self.phase:
            return
        i = self.r.choice(sorted(self.phase))
        if self.phase[i] == "A":
            self.compute(i)
        else:
            self.deliver(i)

    def reorg(self, e0=None):
        if self.reorgs >= 3:
            return
        self.reorgs += 1
        e0 = self.r.choice(self.epochs + [max(0, min(self.epochs) - 1)]) if e0 is None else e0
        self.steps.append({"ev": "Reorg", "e0": e0})
        return e0

    def invalidate(self, e0=None, out=None):
        e0 = self.r.choice(self.epochs + [max(0, min(self.epochs) - 1)]) if e0 is None else e0
        (self.steps if out is None else out).append({"ev": "Invalidate", "e0": e0})

    def trim(self, out=None):
        ep = self.r.choice([0, 2] + [e + d for e in self.epochs for d in (3, 4)])
        (self.steps if out is None else out).append({"ev": "Trim", "ep": min(ep, 13)})

    def mutate(self):
        self.steps.append({"ev": "Mutate", "a": self.r.randint(0, 2)})

    def par(self):
        """A group of steps started concurrently: at most one maintenance call, each request at most once."""
        sub, used = [], set()
        n = self.r.randint(2, 4)
        maint = False
        for _ in range(n):
            x = self.r.random()
            busy = [i for i in sorted(self.phase) if i not in used]
            if x < 0.45 or not busy:
                i = self.call(out=sub)
                if i:
                    used.add(i)
            elif x < 0.8:
                i = self.r.choice(busy)
                used.add(i)
                if self.phase[i] == "A":
                    self.compute(i, out=sub)
                else:
                    self.deliver(i, out=sub)
            elif not maint:
                maint = True
                if self.r.random() < 0.7:
                    self.invalidate(out=sub)
                else:
                    self.trim(out=sub)
        if len(sub) >= 2:
            self.steps.append({"ev": "Par", "steps": sub})
        else:
            self.steps.extend(sub)


def random_schedules(seed, n, big, concurrent, bnfail=False):
    r = vlib.rng(seed, "c20" + ("par" if concurrent else "seq") + ("fail" if bnfail else ""))
    out = []
    for _ in range(n):
        if bnfail:
            out.append(bnfail_schedule(r, big, concurrent))
            continue
        profile = r.choice(["overlap", "overlap", "straddle", "straddle", "trim", "mutate", "mixed", "mixed"])
        nv = r.randint(2, 5)
        vals = sorted(r.sample(range(1, 9), nv))
        if profile in ("overlap", "mutate"):
            kinds = [r.choice(KINDS)] if r.random() < 0.7 else KINDS
            epochs = sorted(r.sample(range(0, 10), r.randint(1, 2)))
        elif profile == "trim":
            kinds = KINDS if r.random() < 0.5 else [r.choice(KINDS)]
            epochs = sorted(r.sample(range(0, 10), r.randint(3, 6)))
        else:
            kinds = KINDS if r.random() < 0.5 else r.sample(KINDS, r.randint(1, 2))
            epochs = sorted(r.sample(range(0, 10), r.randint(1, 3)))
        g = Gen(r, kinds, epochs, vals, pfail=r.choice([0.0, 0.0, 0.1, 0.25]))
        cfgstep = {"ev": "Config", "asg": random_table(r, kinds, epochs, vals, 4)}
        setactive = r.random() < 0.5
        if setactive:     # a node with an active validator set that changes (same size, another member / smaller / larger)
            cfgstep["active"] = sorted(r.sample(vals, r.randint(1, len(vals))))
        g.steps.append(cfgstep)
        L = r.randint(8, 40 if not big else 80)
        for _ in range(L):
            x = r.random()
            if setactive and r.random() < 0.12:
                pool = sorted(set(vals) | {9, 10})
                g.steps.append({"ev": "SetActive", "idxs": sorted(r.sample(pool, r.randint(1, len(cfgstep["active"]) + 1)))})
            if concurrent and x < 0.3:
                g.par()
                continue
            if profile == "overlap":
                if x < 0.6:
                    i = g.call()
                    if i and r.random() < 0.7:
                        g.finish(i)
                elif x < 0.9:
                    g.progress()
                elif x < 0.95:
                    g.mutate()
                else:
                    g.trim()
            elif profile == "straddle":
                if x < 0.35:
                    g.call()
                elif x < 0.6:
                    g.progress()
                elif x < 0.8:
                    # reorg + invalidation with whatever is in flight, then ask again
                    e0 = g.reorg()
                    g.invalidate(e0 if e0 is not None and r.random() < 0.8 else None)
                    if g.recent and r.random() < 0.7:
                        k, e, S = r.choice(g.recent)
                        i = g.call(k, e, S)
                        if i and r.random() < 0.5:
                            g.finish(i)
                elif x < 0.9:
                    g.progress()
                    g.progress()
                else:
                    g.mutate()
            elif profile == "trim":
                if x < 0.45:
                    i = g.call()
                    if i and r.random() < 0.6:
                        g.finish(i)
                elif x < 0.7:
                    g.progress()
                elif x < 0.9:
                    g.trim()
                else:
                    g.invalidate()
            elif profile == "mutate":
                if x < 0.5:
                    i = g.call()
                    if i and r.random() < 0.8:
                        g.finish(i)
                        if r.random() < 0.7:
                            g.mutate()
                elif x < 0.8:
                    g.progress()
                else:
                    g.mutate()
            else:
                if x < 0.35:
                    g.call()
                elif x < 0.7:
                    g.progress()
                elif x < 0.78:
                    g.reorg()
                elif x < 0.86:
                    g.invalidate()
                elif x < 0.93:
                    g.trim()
                else:
                    g.mutate()
        # finish what is in flight, then observe the cache once more
        for i in sorted(g.phase):
            g.finish(i)
        for (k, e, S) in g.recent[-3:]:
            i = g.call(k, e, S)
            if i:
                g.finish(i)
        out.append(g.steps)
    return out


def bnfail_schedule(r, big, concurrent):
    """The beacon-node-failure dimension: one kind, one or two epochs, index sets that GROW (so that an epoch is cached
    for a strict subset of what is asked for next), a beacon node that fails a good part of its calls, retries of the
    failed request, the occasional reorg+invalidation / trim with a failing call in flight."""
    kinds = [r.choice(KINDS)]
    nv = r.randint(3, 5)
    vals = sorted(r.sample(range(1, 9), nv))
    epochs = sorted(r.sample(range(0, 10), r.randint(1, 2)))
    g = Gen(r, kinds, epochs, vals, pfail=r.choice([0.3, 0.5, 0.7]))
    # dense table: most validators have a duty in every version, so that a missing index matters
    asg = []
    for k in kinds:
        for e in epochs:
            for x in vals:
                for v in range(4):
                    n = r.choice([0, 1, 1, 1, 2, 2]) if k == "prop" else r.choice([0, 1, 1, 1, 1])
                    if n:
                        asg.append({"k": k, "e": e, "x": x, "v": v, "n": n})
    g.steps.append({"ev": "Config", "asg": asg})
    k = kinds[0]
    grown = {e: [] for e in epochs}       # indices asked for so far (successfully or not), per epoch
    L = r.randint(6, 24 if not big else 48)
    for _ in range(L):
        x = r.random()
        if concurrent and x < 0.3:
            g.par()
            continue
        e = r.choice(epochs)
        if x < 0.55:
            # ask for what was asked before plus something new (or a subset: fully cached -> no beacon call)
            rest = [v for v in vals if v not in grown[e]]
            S = list(grown[e])
            if rest and r.random() < 0.75:
                S += r.sample(rest, r.randint(1, min(2, len(rest))))
            elif S and r.random() < 0.5:
                S = r.sample(S, r.randint(1, len(S)))
            if not S:
                S = [r.choice(vals)]
            r.shuffle(S)
            grown[e] = sorted(set(grown[e]) | set(S))
            i = g.call(k, e, S)
            if i and r.random() < 0.75:
                g.finish(i)
                if r.random() < 0.5:      # retry the same request with a node that has recovered
                    j = g.call(k, e, S)
                    if j:
                        g.finish(j, fail=False)
        elif x < 0.8:
            g.progress()
        elif x < 0.9:
            e0 = g.reorg(max(0, e - 1)) if r.random() < 0.6 else None
            g.invalidate(e0 if e0 is not None else max(0, e - 1))
            grown = {e: [] for e in epochs}
        elif x < 0.95:
            g.trim()
        else:
            g.mutate()
    for i in sorted(g.phase):
        g.finish(i)
    for (kk, e, S) in g.recent[-3:]:
        i = g.call(kk, e, S)
        if i:
            g.finish(i, fail=False)
    return g.steps


def T(k, e, x, v, n):
    return {"k": k, "e": e, "x": x, "v": v, "n": n}


def probe_schedules():
    """Fixed schedules executed on every run: the corners named in the property statement and in DESIGN.md."""
    out = []
    for k in KINDS:
        tab = [T(k, 5, 1, 0, 1), T(k, 5, 2, 0, 2 if k == "prop" else 1), T(k, 5, 1, 1, 1), T(k, 5, 3, 1, 1),
               T(k, 2, 1, 0, 1), T(k, 2, 2, 0, 1)]
        cfg = {"ev": "Config", "asg": tab}
        call = lambda r, e, S: {"ev": "Call", "r": r, "k": k, "e": e, "S": S}
        # a fetch straddling reorg + InvalidateCache, then the same request again after the invalidation returned
        out.append([cfg, call(1, 5, [1, 2, 3]), {"ev": "Compute", "r": 1}, {"ev": "Reorg", "e0": 4},
                    {"ev": "Invalidate", "e0": 4}, {"ev": "Deliver", "r": 1}, call(2, 5, [1, 2, 3]),
                    {"ev": "Compute", "r": 2}, {"ev": "Deliver", "r": 2}, call(3, 5, [2]), {"ev": "Compute", "r": 3},
                    {"ev": "Deliver", "r": 3}])
        # a straddling fetch that AMENDS an epoch another request stored after the invalidation
        out.append([cfg, call(1, 5, [1, 2]), {"ev": "Compute", "r": 1}, {"ev": "Reorg", "e0": 4},
                    {"ev": "Invalidate", "e0": 4}, call(2, 5, [3]), {"ev": "Compute", "r": 2}, {"ev": "Deliver", "r": 2},
                    {"ev": "Deliver", "r": 1}, call(3, 5, [1, 2, 3]), {"ev": "Compute", "r": 3}, {"ev": "Deliver", "r": 3}])
        # callers write to their answers (miss path and hit path), later callers ask again
        out.append([cfg, call(1, 5, [1, 2]), {"ev": "Compute", "r": 1}, {"ev": "Deliver", "r": 1}, {"ev": "Mutate", "a": 0},
                    call(2, 5, [1, 2]), {"ev": "Mutate", "a": 0}, call(3, 5, [2, 1]), call(4, 5, [1, 3]),
                    {"ev": "Compute", "r": 4}, {"ev": "Deliver", "r": 4}, {"ev": "Mutate", "a": 0}, call(5, 5, [3, 2, 1])])
        # validator without duty: hit decided from the requested indices; two fetches with overlapping missing sets
        # in flight: the later store amends with the NEWLY requested indices only
        out.append([cfg, call(1, 5, [3]), {"ev": "Compute", "r": 1}, {"ev": "Deliver", "r": 1}, call(2, 5, [3]),
                    call(3, 5, [3, 1]), {"ev": "Compute", "r": 3}, call(5, 5, [1, 2]), {"ev": "Compute", "r": 5},
                    call(6, 5, [2, 3]), {"ev": "Compute", "r": 6}, {"ev": "Deliver", "r": 3}, call(4, 5, [1, 3]),
                    {"ev": "Deliver", "r": 5}, {"ev": "Deliver", "r": 6}, call(1, 5, [1, 2, 3]), call(2, 5, [2])])
        # trim: epochs older than ep-3 are fetched afresh, the others are kept
        out.append([cfg, call(1, 2, [1, 2]), {"ev": "Compute", "r": 1}, {"ev": "Deliver", "r": 1}, call(2, 5, [1]),
                    {"ev": "Compute", "r": 2}, {"ev": "Deliver", "r": 2}, {"ev": "Trim", "ep": 5}, call(3, 2, [1]),
                    {"ev": "Trim", "ep": 2}, call(3, 2, [2]), {"ev": "Trim", "ep": 6}, call(4, 2, [1, 2]),
                    {"ev": "Compute", "r": 4}, {"ev": "Deliver", "r": 4}, call(5, 5, [1]), {"ev": "Trim", "ep": 9},
                    call(6, 5, [1]), {"ev": "Compute", "r": 6}, {"ev": "Deliver", "r": 6}])
        # invalidation keeps epochs <= e0
        out.append([cfg, call(1, 2, [1, 2]), {"ev": "Compute", "r": 1}, {"ev": "Deliver", "r": 1}, call(2, 5, [1]),
                    {"ev": "Compute", "r": 2}, {"ev": "Deliver", "r": 2}, {"ev": "Reorg", "e0": 2},
                    {"ev": "Invalidate", "e0": 2}, call(3, 2, [1, 2]), call(4, 5, [1]), {"ev": "Compute", "r": 4},
                    {"ev": "Deliver", "r": 4}, {"ev": "Invalidate", "e0": 5}, call(5, 5, [1])])
        # ---- the beacon node fails a call ----
        C = lambda r: {"ev": "Compute", "r": r}
        F = lambda r: {"ev": "Compute", "r": r, "fail": True}
        D = lambda r: {"ev": "Deliver", "r": r}
        # epoch cached for a strict subset of the request, the call for the missing index fails; retry once the node
        # has recovered (asks for the missing index again); then fully cached
        out.append([cfg, call(1, 5, [1]), C(1), D(1), call(2, 5, [1, 2]), F(2), D(2), call(3, 5, [2, 1]), C(3), D(3),
                    call(4, 5, [1, 2])])
        # cold epoch, failing call; retry; a fully cached request never reaches the node; growing the set fails again
        out.append([cfg, call(1, 5, [1, 2]), F(1), D(1), call(2, 5, [1, 2]), C(2), D(2), call(3, 5, [2, 1]),
                    call(4, 5, [1, 2, 3]), F(4), D(4), call(5, 5, [1]), call(6, 5, [3, 1, 2]), C(6), D(6),
                    call(1, 5, [3, 2])])
        # a failing call concurrent with another caller's successful fetch of the same epoch (both orders of return)
        out.append([cfg, call(1, 5, [1]), C(1), D(1), call(2, 5, [1, 2]), call(3, 5, [2, 1, 3]),
                    {"ev": "Par", "steps": [F(2), C(3)]}, {"ev": "Par", "steps": [D(2), D(3)]}, call(4, 5, [1, 2, 3]),
                    call(5, 5, [2])])
        out.append([cfg, call(1, 5, [1]), C(1), D(1), call(2, 5, [1, 2]), call(3, 5, [2, 1, 3]), C(3), D(3), F(2), D(2),
                    call(4, 5, [1, 2]), call(5, 5, [2, 1])])
        out.append([cfg, call(1, 5, [1]), C(1), D(1), call(2, 5, [1, 2]), call(3, 5, [2, 3]), F(2), D(2), C(3), D(3),
                    call(4, 5, [1, 2, 3])])
        # a failing call straddling reorg + InvalidateCache, and one straddling Trim
        out.append([cfg, call(1, 5, [1]), C(1), D(1), call(2, 5, [1, 2]), {"ev": "Reorg", "e0": 4},
                    {"ev": "Invalidate", "e0": 4}, F(2), D(2), call(3, 5, [1, 2]), C(3), D(3), call(4, 5, [1, 3]), F(4),
                    D(4), call(5, 5, [3, 1]), C(5), D(5)])
        out.append([cfg, call(1, 2, [1]), C(1), D(1), call(2, 2, [1, 2]), F(2), {"ev": "Trim", "ep": 6}, D(2),
                    call(3, 2, [1, 2]), C(3), D(3), call(4, 2, [2])])
    return out


def thin(scheds, per_prefix=2):
    """TLC prints one schedule per sibling successor of the last step: keep a few per common prefix."""
    seen, out = {}, []
    for s in scheds:
        key = json.dumps(s[:-1], sort_keys=True)
        if seen.get(key, 0) < per_prefix:
            seen[key] = seen.get(key, 0) + 1
            out.append(s)
    return out


# ------------------------------------------------------------------------------------------------
# binding self-tests
# ------------------------------------------------------------------------------------------------
def mutators():
    def wrong_version(t):
        for e in t:
            if e.get("ev") == "Ret" and e["ans"]:
                e["ans"][0]["v"] += 1
                return t
        return None

    def drop_duty(t):
        for e in t:
            if e.get("ev") == "Ret" and len(e["ans"]) >= 1:
                del e["ans"][-1]
                return t
        return None

    def drop_fetchcall(t):
        for i, e in enumerate(t):
            if e.get("ev") == "FetchCall":
                del t[i]
                return t
        return None

    def fetch_more(t):
        # pretend the cache asked the beacon node for fewer indices than it did
        for e in t:
            if e.get("ev") == "FetchCall" and len(e["idxs"]) >= 2:
                e["idxs"] = e["idxs"][:-1]
                return t
        return None

    def hit_instead_of_fetch(t):
        # pretend a request that fetched was answered from the cache: drop its FetchCall/Compute/Deliver (only a
        # control when no other request's store falls between its Call and its Ret)
        for i, e in enumerate(t):
            if e.get("ev") == "FetchCall" and i > 0 and t[i - 1].get("ev") == "Call" and t[i - 1]["r"] == e["r"]:
                r = e["r"]
                end = next((j for j in range(i, len(t)) if t[j].get("ev") == "Ret" and t[j]["r"] == r), None)
                if end is None or any(f.get("ev") in ("Deliver", "Par") and f.get("r") != r for f in t[i:end]):
                    continue
                k = [j for j in range(i, end) if t[j].get("r") == r and t[j].get("ev") in ("FetchCall", "Compute", "Deliver")]
                for j in reversed(k):
                    del t[j]
                return t
        return None

    def drop_invret(t):
        for i, e in enumerate(t):
            if e.get("ev") == "InvRet":
                del t[i]
                return t
        return None

    def wrong_meta(t):
        for e in t:
            if e.get("ev") == "Ret":
                e["mv"] += 1
                return t
        return None
    def err_to_empty(t):
        for e in t:
            if e.get("ev") == "Ret" and "err" in e:
                del e["err"]
                e["ans"], e["mv"] = [], 0
                return t
        return None

    def err_to_cached_part(t):
        # what the seeded defect C15-C does: a request whose beacon call failed is answered, without error, with the
        # duties cached for the epoch (simulated on the recorded trace; only before any reorg / invalidation / trim)
        calls, cachedd, metav = {}, {}, {}
        asg = t[0].get("asg", [])
        for i, e in enumerate(t):
            ev = e.get("ev")
            if ev in ("Reorg", "InvCall", "TrimCall"):
                return None
            if ev == "Call":
                calls[e["r"]] = e
            if ev == "Ret" and "err" not in e:
                c = calls[e["r"]]
                metav.setdefault((c["k"], c["e"]), e["mv"])
                for d in e["ans"]:
                    cachedd.setdefault((c["k"], c["e"]), {}).setdefault(d["x"], [])
                    if d not in cachedd[(c["k"], c["e"])][d["x"]]:
                        cachedd[(c["k"], c["e"])][d["x"]].append(d)
            if ev == "Ret" and "err" in e:
                c = calls[e["r"]]
                have = cachedd.get((c["k"], c["e"]), {})
                part = [d for x in c["S"] for d in have.get(x, [])]
                lacking = [x for x in c["S"] if x not in have and
                           any(a["k"] == c["k"] and a["e"] == c["e"] and a["x"] == x and a["v"] == 0 for a in asg)]
                if part and lacking:
                    del e["err"]
                    e["ans"], e["mv"] = part, metav[(c["k"], c["e"])]
                    return t
        return None

    def fail_to_compute(t):
        for e in t:
            if e.get("ev") == "Fail":
                e["ev"], e["v"] = "Compute", 0
                return t
        return None

    def drop_fail(t):
        for i, e in enumerate(t):
            if e.get("ev") == "Fail":
                del t[i]
                return t
        return None

    def compute_to_fail(t):
        for e in t:
            if e.get("ev") == "Compute":
                e["ev"] = "Fail"
                del e["v"]
                return t
        return None
    return [("error return replaced by an empty answer without error", err_to_empty),
            ("failed request answered with the cached part, no error (the C15-C defect simulated on a trace)",
             err_to_cached_part),
            ("Fail event replaced by Compute", fail_to_compute), ("Fail event dropped", drop_fail),
            ("Compute event replaced by Fail", compute_to_fail),
            ("answer version changed", wrong_version), ("answer duty dropped", drop_duty),
            ("FetchCall event dropped", drop_fetchcall), ("fetched indices shortened", fetch_more),
            ("fetch replaced by cache hit", hit_instead_of_fetch), ("InvRet event dropped", drop_invret),
            ("metadata version changed", wrong_meta)]


# ------------------------------------------------------------------------------------------------
ASSUMPTIONS = [
        "the beacon node is the gated mock (real beaconmock.Mock with the three duty endpoints replaced): it answers exactly "
        "the indices asked for from a versioned table, each call blocks until the driver lets it compute and lets it return",
        "a reorg is visible to the cache only through InvalidateCache; answers may be as old as the last InvalidateCache that "
        "RETURNED before the request was called (per index one single version, never mixed)",
        "requests name an explicit, duplicate-free, non-empty index set; order of the returned duties is not compared",
        "linearisation of concurrent groups is inferred by TLC between call-type and return-type events; one "
        "InvalidateCache/Trim in flight at a time",
        "whether a store whose fetch straddled InvalidateCache is dropped or applied is left open in trace validation "
        "(GuardGeneration=either); FreshAfterInvalidate on the answers decides",
        "a beacon call fails only when the schedule says so (the driver's choice per call, made when the call is released); "
        "a request whose beacon call failed must return an error or else an answer that passes the same equality with the "
        "beacon node's answer for the WHOLE requested set (OnFetchError=either); a request returns an error only after its own "
        "beacon call failed; the error value itself and whatever accompanies it are not compared",
        "the empty-index request (all active validators) and a beacon node that answers with nil duties are outside the "
        "statement and not exercised"]


def run(tier, seed):
    o = vlib.Outcome(PID, tier, seed)
    thorough = tier == "thorough"
    # stage 0: design check
    cfgs = (["DutiesCacheMC.cfg", "DutiesCacheMC_mid.cfg", "DutiesCacheMC_2kinds.cfg", "DutiesCacheMC_trim.cfg",
             "DutiesCacheMC_bnfail.cfg"] if thorough
            else ["DutiesCacheMC_quick.cfg", "DutiesCacheMC_trim.cfg", "DutiesCacheMC_bnfail_quick.cfg"])
    if os.environ.get("VERIF_C20_NOMC"):      # development only (mutation experiments): skip the repo-independent stage 0
        cfgs = []
    for cfg in cfgs:
        r = vlib.tlc(PID, FAMILY, "DutiesCacheMC", cfg, timeout=1700)
        vlib.require_mc_ok(r, cfg)
        o.add_mc(cfg[:-4], r)
    # controls: the two behaviours of the pinned tree must violate the invariants meant to exclude them
    for cfg, inv, what in [("DutiesCacheMC_ascoded_stale.cfg", "FreshAfterInvalidate",
                            "spec variant GuardGeneration=no (store after invalidation) violates FreshAfterInvalidate"),
                           ("DutiesCacheMC_ascoded_shared.cfg", "PrivateCopies",
                            "spec variant ShareRefs=TRUE (answers share slices/maps with the cache) violates PrivateCopies"),
                           ("DutiesCacheMC_ctl_partial.cfg", "NoPartialOnError",
                            "spec variant OnFetchError=partial (a failed beacon call is answered with the cached part of the "
                            "epoch, no error) violates NoPartialOnError")]:
        r = vlib.tlc(PID, FAMILY, "DutiesCacheMC", cfg, timeout=600)
        if r.violation != inv:
            raise vlib.Infra("design-spec control failed (%s): %s" % (cfg, r.summary()))
        o.selftests.append({"control": what, "rejected_as_required": True})
    # stage 1: schedules
    scheds, g = vlib.gen_schedules(PID, FAMILY, "DutiesCacheGen", "DutiesCacheGen.cfg", num=1500 if thorough else 150,
                                   depth=90, seed=seed, timeout=600)
    scheds = thin(scheds)[:2000 if thorough else 200]
    probes = probe_schedules()
    rnd = random_schedules(seed, 2000 if thorough else 250, thorough, False)
    par = random_schedules(seed, 1000 if thorough else 100, thorough, True)
    bnf = (random_schedules(seed, 600 if thorough else 70, thorough, False, bnfail=True) +
           random_schedules(seed, 300 if thorough else 30, thorough, True, bnfail=True))
    # stage 2+3
    T, C = "DutiesCacheTrace", "DutiesCacheTrace.cfg"
    ch = 100 if thorough else 40      # traces per TLC process (validation runs NCPU processes side by side)
    vlib.conformance(o, FAMILY, T, C, "c20", probes, tag="probe", chunk=ch)
    vlib.conformance(o, FAMILY, T, C, "c20", scheds, tag="tlcgen", chunk=ch)
    vlib.conformance(o, FAMILY, T, C, "c20", rnd, tag="random", chunk=ch)
    vlib.conformance(o, FAMILY, T, C, "c20", par, tag="concurrent", chunk=ch)
    vlib.conformance(o, FAMILY, T, C, "c20", bnf, tag="bnfail", chunk=ch)
    if o.violations:     # (the controls below corrupt ACCEPTED traces)
        return vlib.finish(o, "model_checking", RULE, ASSUMPTIONS)
    # binding negative controls on recorded traces
    tr = (vlib.split_traces(vlib.read_ndjson(vlib.workdir(PID) + "/trace_bnfail.ndjson")) +
          vlib.split_traces(vlib.read_ndjson(vlib.workdir(PID) + "/trace_probe.ndjson")) +
          vlib.split_traces(vlib.read_ndjson(vlib.workdir(PID) + "/trace_random.ndjson")))
    vlib.binding_selftest(o, FAMILY, T, C, tr, mutators())
    return vlib.finish(o, "model_checking", RULE, ASSUMPTIONS)


def replay(path):
    rp = json.load(open(path))
    o = vlib.Outcome(PID, "quick", 0)
    vlib.conformance(o, FAMILY, rp["trace_module"], rp["trace_cfg"], rp["pkg"], [rp["schedule"]], tag="replay")
    for p, t in o.violations:
        log("replay: " + t)
    return 1 if o.violations else 0
