"""GROWTH family "ForkJoin" - app/forkjoin/forkjoin.go: New (WithWorkers / WithInputBuffer / WithoutFailFast /
WithWaitOnCancel), Fork, Join, cancel, Results.Flatten -- the fan-out helper under eth2wrap's multi client, dkg/bcast and
the keystore loader.  Contract from the doc comments: every forked input yields exactly one Result carrying that input;
fail-fast cancels the work context on the first error, later inputs are not executed and carry the context error; Flatten
returns every output and the first real error; at most `workers` work functions at a time; Fork blocks on a full buffer;
Fork after Join / Join twice panic; cancel() drops what nobody reads and (WaitOnCancel) waits for the close; after Join the
results channel is eventually closed and no goroutine stays behind.

`stage(o, tier, seed)` runs the family (the Outcome collects coverage and violations); `main(tier, seed)` is a stand-alone
driver, `replay(path)` re-runs a replay file."""
import json, os, time
import vlib
from vlib import log

FAMILY = "ForkJoin"
PKG = "forkjoin"
TRACE = "ForkJoinTrace"
TCFG = "ForkJoinTrace.cfg"
FINDING = "GROW-forkjoin-cancel-leak"

RULE = ("ForkJoin: design spec (transcription of fork / worker loop / enqueue goroutines / join's closer / cancel / Flatten) "
        "model-checked for every option combination and every script of <= 2 (thorough: 3) inputs over ok / error / "
        "own context.Canceled / returns-on-cancel kinds, with liveness (after Join the channel is closed, no goroutine "
        "left, a waiting cancel returns) and 6 defect variants that TLC must reject; schedules = environment moves (Fork, "
        "Join, Cancel, RootCancel by cancel or deadline, gate Release, single receives, Flatten) from TLC -simulate of "
        "ForkJoinGen (history variable) plus seeded generators (0..5 inputs, 1..3 workers, buffers 0..3) aimed at fail-fast "
        "races, blocked forks, cancel before/after Join, misuse panics and Flatten under cancel; executed on the real "
        "forkjoin.New inside testing/synctest (gated work stubs, quiescence barrier after every move, goroutine count read "
        "back); every trace validated by ForkJoinTrace.tla")
ASSUMPTIONS = [
    "one forker thread: Fork and Join are not called concurrently with each other (cancel, the root context and the consumer "
    "are concurrent with everything)",
    "work functions are the scripted stubs (block on a gate or on their context); a work function that ignores its context "
    "and never returns keeps the channel open by design",
    "inside a synctest bubble goroutines really run in parallel but the executor moves only at quiescence: races between two "
    "environment moves are covered by the model checker (free interleaving), not by the executed schedules",
]

KINDS = ["ok", "err", "cerr", "ctx", "okc"]


# ----------------------------------------------------------------------------------------------------------------------
# seeded schedule generators (environment moves only; the executor skips moves a single forker thread cannot make)
# ----------------------------------------------------------------------------------------------------------------------
def _cfg(r, n=None, kinds=None, **kw):
    n = r.choice([0, 1, 2, 3, 3, 4, 4, 5, 5]) if n is None else n
    c = {"ev": "Cfg", "workers": r.choice([1, 2, 2, 3]), "buf": r.choice([0, 1, 1, 2, 3, 5]),
         "failfast": r.random() < 0.6, "wait": r.random() < 0.35,
         "script": [r.choice(kinds or KINDS) for _ in range(n)]}
    c.update(kw)
    return c


F, J, C, RCV, FL, END = ({"ev": "Fork"}, {"ev": "Join"}, {"ev": "Cancel"}, {"ev": "Recv"}, {"ev": "Flatten"}, {"ev": "End"})


def _rel(i):
    return {"ev": "Release", "i": i}


def _root(r):
    return {"ev": "RootCancel", "kind": r.choice(["ctx", "dl"])}


def gen_orderly(r):
    """fork everything (releases and receives may come early), join, release in a random order, consume"""
    c = _cfg(r)
    n = len(c["script"])
    s = [c]
    order = list(range(1, n + 1))
    r.shuffle(order)
    early = r.randint(0, n)
    for k in range(n):
        s.append(dict(F))
        if r.random() < 0.3 and order and early > 0:
            s.append(_rel(order.pop()))
            early -= 1
    s.append(dict(J))
    flat = r.random() < 0.4
    if flat:
        s.append(dict(FL))
    for i in order:
        s.append(_rel(i))
        if not flat:
            s += [dict(RCV)] * r.choice([0, 1, 1, 2])
    if r.random() < 0.5:
        s.append(dict(C))
    if not flat:
        s += [dict(RCV)] * (n + 1)
    if r.random() < 0.3:
        s.append(dict(C))
    return s + [dict(END)]


def gen_failfast(r):
    """an error among blocked / context-aware work functions: who is cancelled, who is skipped, what Flatten says"""
    n = r.choice([2, 3, 4, 5])
    c = _cfg(r, n, failfast=r.random() < 0.85, workers=r.choice([1, 2, 3]))
    bad = r.randrange(n)
    c["script"][bad] = r.choice(["err", "err", "cerr"])
    s = [c] + [dict(F) for _ in range(n)]
    pos = r.randint(1, len(s))
    s.insert(pos, _rel(bad + 1))
    if r.random() < 0.7:
        s.append(dict(J))
    if r.random() < 0.5:
        s.append(dict(FL))
    rest = [i for i in range(1, n + 1) if i != bad + 1]
    r.shuffle(rest)
    for i in rest:
        s.append(_rel(i))
        if r.random() < 0.5:
            s.append(dict(RCV))
    s += [dict(RCV)] * (n + 1)
    if r.random() < 0.5:
        s.append(dict(C))
    return s + [dict(END)]


def gen_cancel(r):
    """cancel() at a random point: before Join (WaitOnCancel blocks), with results pending, while Flatten runs, twice"""
    c = _cfg(r, wait=r.random() < 0.6)
    n = len(c["script"])
    body = [dict(F) for _ in range(n)] + [dict(J)] + [_rel(i) for i in range(1, n + 1)] + [dict(RCV)] * r.randint(0, n)
    if r.random() < 0.4:
        body.insert(r.randint(n + 1, len(body)), dict(FL))
    if r.random() < 0.5:
        r.shuffle(body)
    body.insert(r.randint(0, len(body)), dict(C))
    if r.random() < 0.3:
        body.insert(r.randint(0, len(body)), dict(C))
    if r.random() < 0.3:
        body.insert(r.randint(0, len(body)), dict(J))
    return [c] + body + [dict(RCV)] * r.randint(0, 2) + [dict(END)]


def gen_blocked(r):
    """more inputs than workers + buffer: Fork blocks until a work function returns / the root context is done"""
    w, b = r.choice([1, 1, 2]), r.choice([0, 0, 1, 2])
    n = min(5, w + b + r.choice([1, 2]))
    c = _cfg(r, n, workers=w, buf=b)
    s = [c]
    for k in range(n):
        s.append(dict(F))
        if r.random() < 0.35:
            s.append(_rel(r.randint(1, n)))
    tail = [_rel(i) for i in range(1, n + 1)] + [dict(F)] * 2 + [dict(J), dict(RCV), dict(RCV)]
    r.shuffle(tail)
    if r.random() < 0.5:
        tail.insert(r.randint(0, len(tail)), _root(r))
    if r.random() < 0.4:
        tail.insert(r.randint(0, len(tail)), dict(C))
    return s + tail + [dict(F), dict(J)] + [dict(RCV)] * 3 + [dict(END)]


def gen_misuse(r):
    """Fork after Join, Join twice, cancel twice, with and without a done root context"""
    c = _cfg(r, r.choice([1, 2, 3, 4]))
    n = len(c["script"])
    k = r.randint(0, n - 1)
    s = [c] + [dict(F)] * k + [dict(J)]
    extra = [dict(F), dict(J), dict(C), dict(C), dict(RCV), _rel(r.randint(1, n))]
    if r.random() < 0.4:
        extra.append(_root(r))
    r.shuffle(extra)
    return s + extra + [dict(F), dict(RCV)] + [dict(END)]


def gen_walk(r):
    c = _cfg(r)
    n = len(c["script"])
    s = [c]
    for _ in range(r.randint(3, 22)):
        x = r.random()
        if x < 0.30:
            s.append(dict(F))
        elif x < 0.50 and n:
            s.append(_rel(r.randint(1, n)))
        elif x < 0.62:
            s.append(dict(J))
        elif x < 0.80:
            s.append(dict(RCV))
        elif x < 0.86:
            s.append(dict(FL))
        elif x < 0.94:
            s.append(dict(C))
        else:
            s.append(_root(r))
    return s + [dict(END)]


GENS = [gen_orderly, gen_orderly, gen_failfast, gen_failfast, gen_cancel, gen_cancel, gen_blocked, gen_misuse, gen_walk, gen_walk]


def random_schedules(seed, n):
    r = vlib.rng(seed, "forkjoin-rnd")
    out = []
    for k in range(n):
        s = GENS[k % len(GENS)](r)
        i = 0
        for e in s:                      # Fork steps carry the input number for readability; the executor counts itself
            if e["ev"] == "Fork":
                i += 1
                e["i"] = i
        out.append(s)
    return out


# ----------------------------------------------------------------------------------------------------------------------
# binding self-tests: corrupt one recorded field / drop or add one event of an accepted trace -> must be rejected
# ----------------------------------------------------------------------------------------------------------------------
def mutators():
    def first(t, pred):
        for k, e in enumerate(t):
            if pred(e):
                return k
        return None

    def res_err_swapped(t):
        k = first(t, lambda e: e.get("ev") == "RecvRet" and e["k"] == "res" and e["err"].startswith("e"))
        if k is None:
            return None
        t[k]["err"] = "ctx"
        return t

    def res_other_input(t):
        k = first(t, lambda e: e.get("ev") == "RecvRet" and e["k"] == "res" and e["out"] != 0)
        if k is None:
            return None
        t[k]["out"] = t[k]["out"] % len(t[0]["script"]) + 1 if len(t[0]["script"]) > 1 else 0
        return t

    def res_twice(t):
        k = first(t, lambda e: e.get("ev") == "RecvRet" and e["k"] == "res")
        if k is None or k + 1 >= len(t) or t[k + 1].get("ev") != "Q":
            return None
        t[k + 2:k + 2] = [t[k - 1], t[k], t[k + 1]]
        return t

    def skipped_but_executed(t):
        k = first(t, lambda e: e.get("ev") == "RecvRet" and e["k"] == "res" and e["out"] == 0)
        if k is None:
            return None
        t[k]["out"] = t[k]["in"]
        return t

    def early_eof(t):
        k = first(t, lambda e: e.get("ev") == "RecvRet" and e["k"] == "none")
        if k is None:
            return None
        t[k]["k"] = "eof"
        return t

    def goroutine_leaked(t):
        ks = [k for k, e in enumerate(t) if e.get("ev") == "Q"]
        if len(ks) < 3:
            return None
        t[ks[-1]]["g"] += 1
        return t

    def goroutine_missing(t):
        ks = [k for k, e in enumerate(t) if e.get("ev") == "Q" and e["g"] > 0]
        if len(ks) < 2:
            return None
        t[ks[len(ks) // 2]]["g"] -= 1
        return t

    def workstart_lost(t):
        k = first(t, lambda e: e.get("ev") == "WorkStart")
        if k is None:
            return None
        del t[k]
        return t

    def work_after_cancel(t):
        # a skipped input (zero output, context error) shown as executed: WorkStart/WorkEnd inserted before its result
        k = first(t, lambda e: e.get("ev") == "RecvRet" and e["k"] == "res" and e["out"] == 0)
        if k is None:
            return None
        i = t[k]["in"]
        t[k]["out"] = i
        q = max(j for j in range(k) if t[j].get("ev") == "Q")
        t[q:q] = [{"ev": "WorkStart", "i": i}, {"ev": "WorkEnd", "i": i, "out": i, "err": t[k]["err"]}]
        return t

    def extra_worker(t):
        # one more work function running than there are workers
        w = t[0]["workers"]
        run = set()
        for k, e in enumerate(t):
            if e.get("ev") == "WorkStart":
                run.add(e["i"])
            elif e.get("ev") == "WorkEnd":
                run.discard(e["i"])
            elif e.get("ev") == "Q" and len(run) == w:
                later = [x["i"] for x in t[k:] if x.get("ev") == "WorkStart"]
                if later:
                    t.insert(k, {"ev": "WorkStart", "i": later[0]})
                    return t
        return None

    def flatten_ctx_error(t):
        k = first(t, lambda e: e.get("ev") in ("FlattenRet", "Flat") and e["err"].startswith("e"))
        if k is None:
            return None
        t[k]["err"] = "ctx"
        return t

    def flatten_no_error(t):
        k = first(t, lambda e: e.get("ev") in ("FlattenRet", "Flat") and e["err"] != "nil")
        if k is None:
            return None
        t[k]["err"] = "nil"
        return t

    def flatten_output_lost(t):
        k = first(t, lambda e: e.get("ev") in ("FlattenRet", "Flat") and len(e["outs"]) >= 1)
        if k is None:
            return None
        t[k]["outs"] = t[k]["outs"][:-1]
        return t

    def flatten_reordered(t):
        k = first(t, lambda e: e.get("ev") == "Flat" and len(set(e["outs"])) >= 2)
        if k is None:
            return None
        t[k]["outs"] = sorted(t[k]["outs"]) if t[k]["outs"] != sorted(t[k]["outs"]) else sorted(t[k]["outs"], reverse=True)
        return t

    def flatten_early(t):
        # Flatten returns although the channel is not closed yet: FlattenRet moved right behind Flatten
        a = first(t, lambda e: e.get("ev") == "Flatten")
        b = first(t, lambda e: e.get("ev") == "FlattenRet")
        if a is None or b is None or b <= a + 2:
            return None
        e = t.pop(b)
        t.insert(a + 1, e)
        return t

    def flip(ev, field, cond=lambda e: True):
        def fn(t):
            k = first(t, lambda e: e.get("ev") == ev and cond(e))
            if k is None:
                return None
            t[k][field] = not t[k][field]
            return t
        return fn

    def cancel_returns_early(t):
        # WaitOnCancel: the CancelRet of a blocked cancel moved to right after the call
        a = first(t, lambda e: e.get("ev") == "Cancel")
        if a is None or not t[0]["wait"]:
            return None
        b = first(t[a:], lambda e: e.get("ev") == "CancelRet")
        if b is None or b < 3:
            return None
        e = t.pop(a + b)
        t.insert(a + 1, e)
        for x in t[a + 2:a + b + 1]:
            if x.get("ev") == "Q":
                x["cb"] = False
        return t

    def no_failfast(t):
        # fail-fast: a context-aware work function keeps running after another one's error (its ctx WorkEnd removed)
        if not t[0]["failfast"]:
            return None
        a = first(t, lambda e: e.get("ev") == "WorkEnd" and e["err"].startswith("e"))
        if a is None:
            return None
        b = first(t[a:], lambda e: e.get("ev") in ("WorkEnd",) and e["err"] == "ctx")
        q = first(t[a:], lambda e: e.get("ev") == "Q")
        if b is None or q is None or b > q:
            return None
        del t[a + b]
        return t

    return [("a result's error replaced by a context error", res_err_swapped),
            ("a result carries another input's output", res_other_input),
            ("the same result delivered twice", res_twice),
            ("a skipped input's result carries an output", skipped_but_executed),
            ("results channel closed before everything was delivered", early_eof),
            ("one goroutine more alive at the end", goroutine_leaked),
            ("one goroutine less alive mid-run", goroutine_missing),
            ("WorkStart event dropped", workstart_lost),
            ("a work function executed after the cancellation", work_after_cancel),
            ("more work functions running than workers", extra_worker),
            ("Flatten returns the context error instead of the real one", flatten_ctx_error),
            ("Flatten swallows the error", flatten_no_error),
            ("Flatten loses an output", flatten_output_lost),
            ("Flatten reorders the outputs", flatten_reordered),
            ("Flatten returns before the channel is closed", flatten_early),
            ("Fork panic flag flipped", flip("ForkRet", "panic")),
            ("Join panic flag flipped", flip("JoinRet", "panic")),
            ("cancel panic flag flipped", flip("CancelRet", "panic")),
            ("blocked Fork reported as returned", flip("Q", "fb", lambda e: e["fb"])),
            ("waiting cancel returns before the close", cancel_returns_early),
            ("fail-fast does not cancel a running work function", no_failfast)]


# ----------------------------------------------------------------------------------------------------------------------
CONTROLS = (("ForkJoinMC_ctl_nofailfast.cfg", "FailFastCancels", "an error does not cancel the work context"),
            ("ForkJoinMC_ctl_realerr.cfg", "FailFastCancels", "a context.Canceled returned by a work function does not trigger fail-fast"),
            ("ForkJoinMC_ctl_flattenctx.cfg", "FlattenRule", "Flatten prefers the context error"),
            ("ForkJoinMC_ctl_flattenfirst.cfg", "FlattenRule", "Flatten returns the first error of any kind"),
            ("ForkJoinMC_ctl_noskip.cfg", "NoWorkAfterCancel", "work functions are called although the work context is cancelled"),
            ("ForkJoinMC_ctl_extraworker.cfg", "WorkerBound", "one worker goroutine more than configured"),
            ("ForkJoinMC_finding_cancelleak.cfg", "NoLeakAfterCancel",
             "as coded: cancel() without Join leaves the idle workers behind (finding %s)" % FINDING))
WORKERS = int(os.environ.get("VERIF_TLC_WORKERS", "0")) or 4
POOL = int(os.environ.get("VERIF_FJ_POOL", "0")) or 5


def design_check(o, tier, seed):
    from concurrent.futures import ThreadPoolExecutor
    thorough = tier == "thorough"
    mains = [("ForkJoinMC_quick.cfg", WORKERS), ("ForkJoinMC_quick_env.cfg", WORKERS), ("ForkJoinMC_repaired_cancelleak.cfg", 2),
             ("ForkJoinMC_live.cfg", 2)]
    if thorough:
        mains = [("ForkJoinMC_full2.cfg", 8), ("ForkJoinMC_n3.cfg", 8), ("ForkJoinMC_repaired_cancelleak.cfg", 2),
                 ("ForkJoinMC_live_thorough.cfg", 4)]
    jobs = [("ForkJoinMC", c, w) for c, w in mains] + [("ForkJoinMC", c, 1) for c, _, _ in CONTROLS]
    dirs = [vlib.scratch(o.pid, FAMILY) for _ in jobs]
    gdir = vlib.scratch(o.pid, FAMILY)

    def gen(_):
        return vlib.tlc(o.pid, FAMILY, "ForkJoinGen", "ForkJoinGen.cfg", simulate="num=%d" % (1500 if thorough else 260),
                        depth=90, seed=seed, workers=1, timeout=600, sdir=gdir, heap="2g")

    # the machine is shared: at most POOL JVMs at a time, small heaps (the largest run holds < 6M states)
    def run(jd):
        (mod, cfg, w), d = jd
        return vlib.tlc(o.pid, FAMILY, mod, cfg, workers=w, timeout=1700, sdir=d, heap="3g" if w > 1 else "1g")

    with ThreadPoolExecutor(max_workers=POOL) as ex:
        fg = ex.submit(gen, 0)
        res = list(ex.map(run, zip(jobs, dirs)))
        g = fg.result()
    for (mod, cfg, _), r in zip(jobs[:len(mains)], res[:len(mains)]):
        vlib.require_mc_ok(r, cfg)
        o.add_mc("ForkJoin/" + cfg[:-4], r)
    for (cfg, inv, what), r in zip(CONTROLS, res[len(mains):]):
        if r.violation != inv:
            raise vlib.Infra("design-spec control failed: '%s' not caught by %s: %s" % (what, inv, r.summary()))
        o.selftests.append({"control": "ForkJoin spec variant '%s' violates %s" % (what, inv), "rejected_as_required": True})
    if g.error or g.timed_out or (g.violation and g.violation != "deadlock"):
        raise vlib.Infra("schedule generation failed: %s\n%s" % (g.summary(), g.out[-2000:]))
    seen, scheds = set(), []
    for p in vlib.tagged_prints(g, "SCHED"):
        if p not in seen:
            seen.add(p)
            scheds.append(json.loads(p))
    if len(scheds) < 100:
        raise vlib.Infra("schedule generation: only %d schedules" % len(scheds))
    return scheds


def observations(o, traces):
    """coverage counters, and the as-coded observation behind the finding: cancel() was called, Join never, and at the last
    quiescent point worker goroutines are still alive"""
    cnt = {}
    leak = 0
    for t in traces:
        evs = [e.get("ev") for e in t]
        for e in evs:
            cnt[e] = cnt.get(e, 0) + 1
        qs = [e for e in t if e.get("ev") == "Q"]
        busy = evs.count("WorkStart") - evs.count("WorkEnd")          # work functions that were not released: legitimately alive
        if "Cancel" in evs and "Join" not in evs and qs and busy == 0 and qs[-1]["g"] > 0 and not qs[-1]["fb"]:
            leak += 1
    o.extra["forkjoin_events"] = cnt
    o.extra["forkjoin_panics_observed"] = sum(1 for t in traces for e in t if e.get("panic") is True)
    o.extra["forkjoin_blocked_forks_observed"] = sum(1 for t in traces if any(e.get("ev") == "Q" and e["fb"] for e in t))
    o.extra["forkjoin_blocked_cancels_observed"] = sum(1 for t in traces if any(e.get("ev") == "Q" and e["cb"] for e in t))
    o.extra["forkjoin_skipped_results_observed"] = sum(1 for t in traces for e in t if e.get("ev") == "RecvRet" and e["k"] == "res"
                                                       and e["out"] == 0)
    o.extra["forkjoin_cancel_without_join_leaves_workers"] = leak
    if leak:
        o.known.append((FINDING, "cancel() without Join leaves the idle worker goroutines blocked on the input channel "
                                 "(%d executed schedules; as coded, accepted by the spec; dkg/bcast/client.go returns "
                                 "that way when signing fails)" % leak))


def stage(o, tier, seed):
    t0 = time.time()
    thorough = tier == "thorough"
    gen = design_check(o, tier, seed)
    rnd = random_schedules(seed, 6000 if thorough else 900)
    sch = gen + rnd
    o.extra["forkjoin_schedules_by_tlc"] = len(gen)
    vlib.conformance(o, FAMILY, TRACE, TCFG, PKG, sch, tag="fj", chunk=500, exec_timeout=900, tv_timeout=900)
    tr = vlib.split_traces(vlib.read_ndjson(os.path.join(vlib.workdir(o.pid), "trace_fj.ndjson")))
    if not o.violations:
        ms = mutators()
        nself = len(o.selftests)
        vlib.binding_selftest(o, FAMILY, TRACE, TCFG, tr, ms)
        if len(o.selftests) - nself < len(ms):
            raise vlib.Infra("ForkJoin binding self-test: some negative control found no applicable trace")
        observations(o, tr)
    log("[%s] ForkJoin stage: %d schedules by TLC + %d seeded -> %d traces, %.0fs" % (o.pid, len(gen), len(rnd), len(tr), time.time() - t0))


def main(tier="quick", seed=1, pid="G-FORKJOIN"):
    vlib.workdir(pid, fresh=True)
    o = vlib.Outcome(pid, tier, seed)
    try:
        stage(o, tier, int(seed))
    except vlib.Infra as e:
        log("INFRA: %s" % e)
        return 2
    for fid, txt in o.known:
        log("KNOWN-FINDING: property=%s %s: %s" % (pid, fid, txt))
    for path, txt in o.violations:
        log("VIOLATION property=%s replay=%s" % (pid, path))
        log("  " + txt)
    if o.violations:
        return 1
    log("[%s] OK tier=%s seed=%s: %d MC states, %d traces validated, %d self-test controls, %.0fs"
        % (pid, tier, seed, o.states, o.traces, len(o.selftests), time.time() - o.t0))
    return 0


def replay(path):
    rp = json.load(open(path))
    o = vlib.Outcome(rp.get("property", "G-FORKJOIN"), "quick", 0)
    vlib.conformance(o, FAMILY, rp["trace_module"], rp["trace_cfg"], rp["pkg"], [rp["schedule"]], tag="replay")
    for p, t in o.violations:
        log("replay: " + t)
    return 1 if o.violations else 0


if __name__ == "__main__":
    import sys
    sys.exit(main(*(sys.argv[1:3] or ["quick", 1])))
