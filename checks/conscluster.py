"""ConsCluster - cluster tier for the consensus properties (C02 agreement, C03 validity, C04 termination, C05 gate):
n REAL core/consensus/qbft.Consensus components (NewConsensus/Start/Participate/Propose, receive buffering, transport value
cache, createMsg/signing, handle incl. verifyMsgLimits, leader(), timer.GetRoundTimerFunc, deadliner) on in-memory libp2p
hosts inside a testing/synctest bubble (virtual time), with link latency / loss / crash injection and a Byzantine member
that re-uses observed honest signatures on altered content.  Oracle: specs/QBFT/QBFTClusterTrace.tla (cluster log against
QBFT.tla's invariants + BoundedDecision) and specs/QBFT/QBFTNodeTrace.tla (every member's sniffed transcript against the
QBFT.tla step relation, outputs and timeouts inferred by TLC).

Use from another check:   import conscluster; conscluster.stage(o, tier, seed)
Stand-alone:              python3 -c "import sys; sys.path[:0]=['/verif/tools','/verif/checks']; import conscluster; sys.exit(conscluster.main('quick', 1))"
"""
import itertools, json, os, sys, time
import vlib
from vlib import log

FAMILY = "QBFT"
PKG = "conscluster"
CL_TMPL = open(os.path.join(vlib.SPECS, FAMILY, "QBFTClusterTrace.cfg.tmpl")).read()
TYPES = {"proposer": 1, "attester": 2, "aggregator": 9}


FINDING = "C04-component-stops-on-decide"


def cfg_of(t, dev="FALSE", dev2="FALSE"):
    r = t[0]
    byz = r.get("byz") or []
    tag = ("dev" if dev == "TRUE" else "") + ("inc" if dev2 == "TRUE" else "")
    return ("cl%s_n%d_i%d_b%s.cfg" % (tag, r["n"], r["inst"], "_".join(map(str, byz))),
            CL_TMPL % {"N": r["n"], "Inst": r["inst"], "Byz": ", ".join(map(str, byz)), "Dev": dev, "Dev2": dev2})


def cfg_of_dev(t):
    return cfg_of(t, "TRUE")


def cfg_of_dev_inc(t):
    return cfg_of(t, "FALSE", "TRUE")


FINDING_INC = "C04-inc-timer-late-leader-desync"


# ----------------------------------------------------------------------------------------------------------------------
# schedules
# ----------------------------------------------------------------------------------------------------------------------
def slot_for(r, n, inst, dtype):
    """A slot whose leader of round k is (inst + k) % n (the component computes (slot + type + round) % n)."""
    base = 1 + r.randrange(3) * n
    return base + ((inst - TYPES[dtype] - base) % n)


def lat_matrix(r, n, lo, hi, zero_to=()):
    """Per-link latencies in ms; never a multiple of 50 (no ties with timer expiries, which fall on multiples of 250)."""
    m = []
    for i in range(n):
        row = []
        for j in range(n):
            if i == j:
                row.append(0)
            elif j in zero_to or i in zero_to:
                row.append(0)
            else:
                x = r.randint(lo, hi)
                if x % 50 == 0:
                    x += 1 + (i * n + j) % 7
                row.append(x)
        m.append(row)
    return m


def offsets(r, n, hi, late=None):
    """Start offsets (ms after the duty start) and Propose offsets (>= start; equal: Propose starts the instance itself)."""
    start, prop = [], []
    for i in range(n):
        s = r.choice([0, 0, r.randint(1, hi)]) if hi else 0
        if late and i in late:
            s = late[i]
        if s % 50 == 0 and s:
            s += 3
        start.append(s)
        prop.append(s + r.choice([0, 0, r.randint(5, 180)]))
    return start, prop


def cluster(family, n, inst, dtype, timer, r, *, byz=(), start=None, prop=None, lat=None, crashes=(), drops=(), byzplan=None,
            horizon=None, timely=True, expire=False, prelude=False):
    if start is None:
        start, prop = offsets(r, n, 0)
    return [{"ev": "Cluster", "family": family, "n": n, "slot": slot_for(r, n, inst, dtype) + (13 * n if prelude else 0), "dtype": dtype, "timer": timer,
             "prelude": prelude,
             "byz": list(byz), "start": start, "prop": prop, "lat": lat if lat is not None else lat_matrix(r, n, 10, 200),
             "crashes": list(crashes), "drops": list(drops), "byzplan": byzplan or {}, "timely": timely, "expire": expire,
             "rotate": True,   # members are logged relative to the required leader rotation (Inst = 0 in every trace)
             # what the round timers are REQUIRED to be (core/consensus/timer: linear 1 s per round, +500 ms for proposals)
             "roundms": 1000, "extrams": 500 if dtype == "proposer" else 0,
             "horizon": horizon or 1000 * (2 * (n + 4) + 2)}]


def honest(r, thorough):
    """Fault-free runs: n = 4, 6, 7, every leader rotation, different proposals per member, skewed starts."""
    out = []
    for n in (4, 6, 7):
        for inst in range(n):
            for k in range(3 if thorough else 1):
                dtype = r.choice(["attester", "attester", "aggregator", "proposer"])
                timer = r.choice(["eager", "eager", "inc"])
                start, prop = offsets(r, n, 300)
                out.append(cluster("honest", n, inst, dtype, timer, r, start=start, prop=prop, lat=lat_matrix(r, n, 5, 150),
                                   expire=(inst == 0 and dtype != "aggregator")))
    return out


def crash(r, thorough):
    out = []
    # (a) the structured point "between PREPARE and COMMIT after the others prepared", increasing timer: the round-1 leader
    #     starts first and times out of round 1 just before the late members' PREPAREs reach it over its slow inbound links;
    #     the crashing member's PREPARE got out, its COMMIT does not: round 2 must carry a value prepared by ALL members.
    for n in ((4, 6, 7) if thorough else (4, 7)):
        for inst in (range(n) if (thorough or n == 4) else [r.randrange(n)]):
            ldr = (inst + 1) % n
            victims = [(inst + n - k) % n for k in range((n - 1) // 3)]       # neither the leader of round 1 nor of round 2
            start = [0 if i == ldr else 903 for i in range(n)]
            lat = [[0 if i == j else (300 + (i % 5) if j == ldr else 10 + (i + j) % 5) for j in range(n)] for i in range(n)]
            out.append(cluster("crash_pc", n, inst, "attester", "inc", r, start=start, prop=list(start), lat=lat,
                               crashes=[{"p": v, "after": 1, "to": []} for v in victims]))
    # (b) one crash (n=4) / up to f crashes (n=6,7) anywhere: silent, or inside the k-th broadcast towards a subset
    for k in range(60 if thorough else 10):
        n = r.choice([4, 4, 6, 7])
        f = (n - 1) // 3
        inst = r.randrange(n)
        crashes = []
        for p in r.sample(range(n), r.randint(1, f)):
            others = [q for q in range(n) if q != p]
            crashes.append({"p": p, "after": r.randint(0, 5), "to": [q for q in others if r.random() < 0.5]})
        start, prop = offsets(r, n, 600)
        out.append(cluster("crash_any", n, inst, "attester", r.choice(["eager", "inc"]), r, start=start, prop=prop,
                           lat=lat_matrix(r, n, 10, 290), crashes=crashes))
    # (c) the leader of round 1 crashes INSIDE its PRE-PREPARE broadcast after at least a quorum of the others got it (possible
    #     for n - 1 > quorum, i.e. n = 6, 7): the members that missed the PRE-PREPARE reach the PREPARE quorum without it and
    #     must COMMIT (and decide) a value they only know from the PREPAREs / COMMITs of the others.  All duty types: the
    #     component carries the value next to every message, whatever the duty's payload is.
    for n in (6, 7):
        q = (2 * n + 2) // 3
        for k in range(4 if thorough else 2):
            inst = r.randrange(n)
            ldr = (inst + 1) % n
            others = [p for p in range(n) if p != ldr]
            to = r.sample(others, r.randint(q, n - 2))
            dtype = ["proposer", "attester", "aggregator", "proposer"][k % 4]
            start, prop = offsets(r, n, 0)
            out.append(cluster("crash_pp", n, inst, dtype, "eager", r, start=start, prop=prop, lat=lat_matrix(r, n, 10, 120),
                               crashes=[{"p": ldr, "after": 0, "to": to}]))
    return out


def overtake(r, thorough):
    """No fault at all, latencies below a third of the round: the leader's PRE-PREPARE is slow towards some members while the
    other links are fast, so a quorum of PREPAREs (and even COMMITs) OVERTAKES the PRE-PREPARE there: those members act on
    the PREPARE quorum first and have to COMMIT a value they have not been proposed yet."""
    out = []
    for k in range(12 if thorough else 4):
        n = [4, 6, 7, 4][k % 4]
        inst = r.randrange(n)
        ldr = (inst + 1) % n
        others = [p for p in range(n) if p != ldr]
        q = (2 * n + 2) // 3
        slow = r.sample(others, r.randint(1, max(1, n - q)))     # a quorum (leader included) still gets it at once
        lat = [[0 if i == j else ((270 + 2 * j + (k % 7)) if (i == ldr and j in slow) else 6 + (3 * i + j) % 11) for j in range(n)] for i in range(n)]
        dtype = ["proposer", "attester", "proposer", "aggregator"][(k // 2) % 4]
        start, prop = offsets(r, n, 0)
        out.append(cluster("overtake", n, inst, dtype, r.choice(["eager", "inc"]), r, start=start, prop=prop, lat=lat))
    return out


def second_duty(r, thorough):
    """The judged duty is the SECOND one the components see: an earlier duty of the same type (12 n slots before, same leader
    rotation) has been decided on the same components, its late votes have arrived after the decision, it has expired and
    been cleaned up - fault-free and unlogged.  Whatever the component keeps across duties (buffers, caches, pools) must not
    show in the judged duty: its members' transcripts hold only what was sent for THIS duty."""
    out = []
    for k in range(10 if thorough else 3):
        n = [6, 7, 4, 6, 7][k % 5]         # n = 6, 7: two / two COMMITs are still under way when the quorum has decided
        inst = r.randrange(n)
        dtype = ["attester", "proposer", "aggregator"][k % 3]
        start, prop = offsets(r, n, 0)
        fam_crashes = []
        if k % 2 == 1:
            p = r.randrange(n)
            fam_crashes = [{"p": p, "after": r.randint(1, 4), "to": [q for q in range(n) if q != p and r.random() < 0.5]}]
        out.append(cluster("second_duty", n, inst, dtype, r.choice(["eager", "inc"]), r, start=start, prop=prop,
                           lat=lat_matrix(r, n, 20, 220), crashes=fam_crashes, prelude=True, expire=(k % 2 == 0 and dtype != "aggregator")))
    return out


def loss(r, thorough):
    """Eager timer: the COMMITs of round 1 are lost (towards everybody, or towards everybody but one member, who then
    decides alone and - the component stops a decided instance - leaves n-1 >= quorum members to finish without it): the next
    leaders carry a value prepared by all n members."""
    out = []
    for n in (4, 6, 7):
        for inst in (range(n) if thorough else r.sample(range(n), 2)):
            keep = r.choice([None, r.randrange(n)])
            to = [q for q in range(n) if q != keep]
            out.append(cluster("loss", n, inst, r.choice(["attester", "aggregator"]), "eager", r,
                               drops=[{"type": "C", "round": 1, "to": to}], lat=lat_matrix(r, n, 10, 120)))
    return out


def late(r, thorough):
    out = []
    for k in range(24 if thorough else 6):
        n = r.choice([4, 6, 7])
        inst = r.randrange(n)
        who = r.randrange(n)
        timer = r.choice(["eager", "inc"])
        start, prop = offsets(r, n, 100, late={who: r.choice([333, 612, 941])})
        if k % 3 == 2:
            # a member that only participates (its fetcher never delivers a proposal); every third time it is the leader of round 1
            silent = (inst + 1) % n if k % 2 == 0 else r.randrange(n)
            prop[silent] = -1
        out.append(cluster("late", n, inst, "attester", timer, r, start=start, prop=prop, lat=lat_matrix(r, n, 10, 250)))
    # a member that Participates from the start and whose own proposal only arrives (Propose) long after the duty was decided
    # with its participation - as the leader of round 1 (nobody proposes in round 1, decision in round 2) or as a follower -
    # while another member starts later still and hears nothing of what went before: the component must still be ONE qbft
    # process per duty (no second instance that starts again in round 1)
    for k in range(12 if thorough else 4):
        n = r.choice([4, 4, 6, 7])
        inst = r.randrange(n)
        ldr = (inst + 1) % n
        who = ldr if k % 2 == 0 else r.choice([p for p in range(n) if p != ldr])
        deaf = r.choice([p for p in range(n) if p not in (who, ldr, (inst + 2) % n)])
        start, prop = offsets(r, n, 0)
        prop[who] = r.choice([2703, 3411, 4207])
        start[deaf] = prop[deaf] = prop[who] - r.choice([150, 0, -150]) if k % 4 < 2 else start[deaf]
        drops = [{"type": ty, "round": rd, "to": [deaf]} for ty in ("PP", "P", "C", "RC", "D") for rd in (1, 2, 3)] if k % 4 < 2 else []
        out.append(cluster("late_propose", n, inst, "attester", r.choice(["eager", "inc"]), r, start=start, prop=prop,
                           lat=lat_matrix(r, n, 10, 120), drops=drops, timely=False, horizon=9000))
    return out


def byzantine(r, thorough):
    out = []
    # DECIDED for the Byzantine member's value, "justified" by COMMITs that carry honest signatures taken from other messages
    for k in range(16 if thorough else 5):
        n = r.choice([4, 4, 7])
        inst = r.randrange(n)
        ldr = (inst + 1) % n
        byz = r.sample([p for p in range(n) if p != ldr], (n - 1) // 3)
        hon = [p for p in range(n) if p not in byz]
        victim = r.choice([p for p in hon if p != ldr] or hon)
        lat = lat_matrix(r, n, 60, 140, zero_to=byz)
        start, prop = offsets(r, n, 0)
        plan = {"kind": "decided", "victims": [victim], "sigfrom": r.choice(["P", "P", "C"]), "trigger": "commit", "delay": 0}
        if k % 2 == 1:   # the victim is late: everything is verified by its handle() and buffered until it starts
            start[victim] = prop[victim] = 703
            plan.update(trigger="prepares", delay=180, sigfrom="P")
        out.append(cluster("byz_decided", n, inst, "attester", "eager", r, byz=byz, start=start, prop=prop, lat=lat, byzplan=plan))
    # PRE-PREPARE of a Byzantine round-2 leader for its own value, "justified" by the honest ROUND-CHANGEs with the prepared
    # round/value stripped and the original signatures; round-1 COMMITs only reach one member (it decides), the others are
    # far from it (its DECIDED answer arrives late) and close to each other
    for k in range(8 if thorough else 3):
        n = 4
        inst = r.randrange(n)
        timer = "eager" if k % 2 == 0 else "inc"
        rnd = 3 if timer == "eager" else 2        # eager timer: round 2 has zero length once round 1 was doubled
        b = (inst + rnd) % n
        hon = [p for p in range(n) if p != b]
        keep = r.choice([p for p in hon])
        vict = [p for p in hon if p != keep]
        lat = [[0 if i == j or b in (i, j) else (290 + i if keep in (i, j) else 15 + i + j) for j in range(n)] for i in range(n)]
        out.append(cluster("byz_preprepare", n, inst, "attester", timer, r, byz=[b], lat=lat,
                           drops=[{"type": "C", "round": 1, "to": vict}], timely=False, horizon=6500,
                           byzplan={"kind": "preprepare", "victims": vict, "round": rnd}))
    return out


def probe():
    """Finding C04-component-stops-on-decide, fault-free and inside the C04 assumptions (n=6, increasing timer, start offsets
    903 ms < one round, latencies <= 304 ms < 1/3 round): the round-1 leader starts first and leaves round 1 at 1000 ms, 200 ms
    before the PREPAREs/COMMITs of the five late members reach it; those five decide in round 1 and their component cancels
    the instance, so nobody answers the leader's ROUND-CHANGEs (the core's DECIDED re-send needs a running instance) and
    COMMITs of a round the member has left are ignored by classify: the leader never decides."""
    n, inst = 6, 0
    ldr = 1
    start = [0 if i == ldr else 903 for i in range(n)]
    lat = [[0 if i == j else (300 + (i % 5) if j == ldr else 10 + (i + j) % 5) for j in range(n)] for i in range(n)]
    r = vlib.rng(0, "conscluster/probe")
    return cluster("probe_stop_on_decide", n, inst, "attester", "inc", r, start=start, prop=list(start), lat=lat, horizon=12000)


def probe_inc():
    """Finding C04-inc-timer-late-leader-desync on the real components: n=7, increasing timer, one member never starts, two
    members start at 0 and the other four 253-753 ms later, 251 ms on every link: the two early members stay one round
    ahead of the four for ever, nobody decides."""
    n, inst = 7, 1
    start = [0, 0, 753, -1, 503, 503, 253]
    lat = [[0 if i == j else 251 for j in range(n)] for i in range(n)]
    r = vlib.rng(0, "conscluster/probe_inc")
    return cluster("probe_inc_desync", n, inst, "attester", "inc", r, start=start, prop=list(start), lat=lat, horizon=30000)


def schedules(tier, seed):
    thorough = tier == "thorough"
    r = vlib.rng(seed, "conscluster")
    return honest(r, thorough) + crash(r, thorough) + overtake(r, thorough) + second_duty(r, thorough) + loss(r, thorough) + late(r, thorough) + byzantine(r, thorough)


# ----------------------------------------------------------------------------------------------------------------------
# binding self-tests of the cluster trace spec
# ----------------------------------------------------------------------------------------------------------------------
def mutators():
    def fam(t, *names):
        return t[0].get("family") in names

    def other_value(t):
        if not fam(t, "honest"):
            return None
        idx = [i for i, e in enumerate(t) if e.get("ev") == "Decide"]
        if len(idx) < 2:
            return None
        e = t[idx[-1]]
        e["v"] = 1 + (e["v"] % t[0]["n"])
        return t

    def undecided(t):
        if not fam(t, "honest"):
            return None
        idx = [i for i, e in enumerate(t) if e.get("ev") == "Decide"]
        if not idx:
            return None
        del t[idx[-1]]
        return t

    def twice(t):
        if not fam(t, "honest"):
            return None
        idx = [i for i, e in enumerate(t) if e.get("ev") == "Decide"]
        if not idx:
            return None
        t.insert(idx[-1] + 1, dict(t[idx[-1]]))
        return t

    def phantom(t):
        # a COMMIT in the name of an honest member that this member never sent shows up in another member's transcript
        if not fam(t, "honest"):
            return None
        for e in t:
            if e.get("ev") == "Sniff" and e["msgs"]:
                q = (e["p"] + 1) % t[0]["n"]
                e["msgs"].append({"t": 0, "m": {"type": "C", "src": q, "round": 9, "value": 1, "pr": 0, "pv": 0, "just": []}})
                return t
        return None

    def honest_reject(t):
        if not fam(t, "honest"):
            return None
        i = [k for k, e in enumerate(t) if e.get("ev") == "Send"][0]
        t.insert(i + 1, {"ev": "Reject", "from": t[i]["p"], "err": "x", "kind": "verdict", "now": t[i]["now"]})
        return t

    def too_late(t):
        if not fam(t, "honest") or t[0]["timer"] != "eager":
            return None
        idx = [i for i, e in enumerate(t) if e.get("ev") == "Decide"]
        if not idx:
            return None
        late_by = 2 * t[0]["roundms"] * 40
        for e in t[idx[-1]:]:
            if "now" in e:
                e["now"] = max(e["now"], late_by)
        return t

    def unjustified_pp(t):
        # a PRE-PREPARE of a later round that lost the PREPAREs of its justification
        for e in t:
            if e.get("ev") == "Send" and e["m"]["type"] == "PP" and e["m"]["round"] > 1 and \
                    any(b["type"] == "P" for b in e["m"]["just"]):
                e["m"]["just"] = [b for b in e["m"]["just"] if b["type"] != "P"]
                return t
        return None

    def wrong_leader(t):
        if not fam(t, "honest"):
            return None
        for e in t:
            if e.get("ev") == "Send" and e["m"]["type"] == "PP":
                q = (e["p"] + 1) % t[0]["n"]
                e["p"] = e["m"]["src"] = q
                return t
        return None
    return [("last decision changed to another member's value", other_value), ("a running member left undecided", undecided),
            ("a member's subscriber called twice", twice), ("transcript holds a COMMIT its honest source never sent", phantom),
            ("an honest wire message refused by handle", honest_reject), ("decision far beyond the round deadlines", too_late),
            ("PRE-PREPARE of a later round without its PREPAREs", unjustified_pp), ("PRE-PREPARE sent by a non-leader", wrong_leader)]


# ----------------------------------------------------------------------------------------------------------------------
def _account(o, schedules, traces, v, tag):
    """What vlib.conformance books for an executed and validated batch."""
    o.schedules += len(schedules)
    o.traces += len(traces)
    o.trace_events += sum(len(t) for t in traces)
    o.trace_states += v.states
    for t in traces:
        o.distinct_keys.add(vlib.digest(t))
    for t in traces[:2]:
        if len(o.samples) < 6:
            o.samples.append({"family": FAMILY, "tag": tag, "trace": t[:40]})


def stage(o, tier, seed, node_traces=True, probe_finding=True):
    """Run the cluster tier as an extra stage of an existing check (Outcome `o` collects coverage and violations).

    One executor run; then the cluster traces (QBFTClusterTrace), the member transcripts (QBFTNodeTrace, with its binding
    self-tests) and the probe of the known finding are validated side by side.  Whatever is rejected goes through
    vlib.conformance (re-execution in a fresh process, deviation cfg, replay file) like in every other check."""
    from concurrent.futures import ThreadPoolExecutor
    t0 = time.time()
    sch = schedules(tier, seed)
    probes = [(FINDING, probe(), cfg_of_dev, "fault-free n=6 run, one member never decides"),
              (FINDING_INC, probe_inc(), cfg_of_dev_inc, "n=7, inc timer, one member absent, 251 ms links: nobody decides in 30 s")] if probe_finding else []
    batch = sch + [p[1] for p in probes]
    traces, sids, wall = vlib.run_schedules(o.pid, PKG, "TestExec", batch, tag="cluster", timeout=600)
    if len(traces) != len(batch) or sids != list(range(len(batch))):
        raise vlib.Infra("executor returned %d traces for %d schedules" % (len(traces), len(batch)))
    main_tr, probe_tr = traces[:len(sch)], traces[len(sch):]
    side = vlib.Outcome(o.pid, o.tier, o.seed)      # filled by the member-transcript thread, merged below

    def members():
        import conscluster_node
        conscluster_node.validate(side, main_tr, sch)

    def probing():
        return [(vlib.validate_traces(o.pid, FAMILY, "QBFTClusterTrace", cfg_of, [probe_tr[k]], timeout=600),
                 vlib.validate_traces(o.pid, FAMILY, "QBFTClusterTrace", probes[k][2], [probe_tr[k]], timeout=600))
                for k in range(len(probes))]

    with ThreadPoolExecutor(max_workers=3) as ex:
        fm = ex.submit(members) if node_traces else None
        fp = ex.submit(probing) if probe_tr else None
        v = vlib.validate_traces(o.pid, FAMILY, "QBFTClusterTrace", cfg_of, main_tr, chunk=40, timeout=600)
        log("[%s] %s/cluster: %d schedules -> %d traces (%d events) executed in %.1fs, validated in %.1fs: %d accepted, %d rejected"
            % (o.pid, FAMILY, len(sch), len(main_tr), sum(len(t) for t in main_tr), wall, v.wall, len(v.accepted), len(v.rejected)))
        if v.rejected:
            # the standard treatment (reproduction, known-finding matching, replay files) for the rejected schedules only
            bad = sorted({i for i, _, _ in v.rejected})[:6]
            _account(o, [sch[i] for i in range(len(sch)) if i not in bad], [main_tr[i] for i in range(len(sch)) if i not in bad], v, "cluster")
            vlib.conformance(o, FAMILY, "QBFTClusterTrace", cfg_of, PKG, [sch[i] for i in bad], tag="cluster_rejected",
                             exec_timeout=600, tv_timeout=600, dev_cfgs=[(FINDING, cfg_of_dev), (FINDING_INC, cfg_of_dev_inc)], max_report=4)
        else:
            _account(o, sch, main_tr, v, "cluster")
            vlib.binding_selftest(o, FAMILY, "QBFTClusterTrace", cfg_of, main_tr, mutators())
        if fp:
            for k, (vp, vd) in enumerate(fp.result()):
                fid, psched, _, what = probes[k]
                _account(o, [psched], [probe_tr[k]], vp, "cluster_probe")
                if not vp.rejected:
                    log("note: the %s probe no longer reproduces (the finding may have been repaired)" % fid)
                elif not vd.rejected:
                    if not any(f == fid for f, _ in o.known):
                        _, pos, reason = vp.rejected[0]
                        o.known.append((fid, "%s at event %d %s (probe: %s)"
                                        % (reason, pos, json.dumps(probe_tr[k][pos] if pos < len(probe_tr[k]) else None)[:200], what)))
                else:   # rejected for another reason than the finding: standard treatment
                    vlib.conformance(o, FAMILY, "QBFTClusterTrace", cfg_of, PKG, [psched], tag="cluster_probe",
                                     exec_timeout=600, tv_timeout=600, dev_cfgs=[(FINDING, cfg_of_dev), (FINDING_INC, cfg_of_dev_inc)])
        if fm:
            try:
                fm.result()     # raises what the thread raised (vlib.Infra)
            except vlib.Infra as e:
                if not o.violations:
                    raise
                # transcripts of a tree that already violates the cluster properties: the verdict is the violation
                o.notes.append("member transcripts: " + str(e)[:300])
    o.traces += side.traces
    o.trace_events += side.trace_events
    o.trace_states += side.trace_states
    o.violations += side.violations
    o.notes += side.notes
    o.selftests += side.selftests
    o.extra.update(side.extra)
    dec = sum(1 for t in main_tr for e in t if e.get("ev") == "Decide")
    fams = {}
    for t in main_tr:
        fams[t[0].get("family")] = fams.get(t[0].get("family"), 0) + 1
    o.extra["cluster_runs"] = fams
    o.extra["cluster_decisions_observed"] = dec
    o.extra["cluster_max_round"] = max([e["round"] for t in main_tr for e in t if e.get("ev") == "Decide"] or [0])
    log("[%s] cluster tier: %d runs, %d decisions, %.0fs" % (o.pid, len(main_tr), dec, time.time() - t0))


def stage_safety(o, tier, seed):
    """The SAFETY part of the cluster tier as a stage of C01 (one decided value per duty across the cluster is the pipeline's
    first mechanism): the families in which the decision falls in a later round than the one a value was prepared in, with
    all members proposing different values (lost round-1 COMMITs, leaders re-proposing another member's value), a few
    fault-free runs and a second duty on used components - every run marked not timely, so that nothing about progress
    (C04's statement) is judged; no probes of liveness findings, no member transcripts."""
    thorough = tier == "thorough"
    r = vlib.rng(seed, "conscluster/safety")
    sch = loss(r, thorough) + honest(r, False)[:4] + second_duty(r, False)[:2]
    for s in sch:
        s[0]["timely"] = False
        s[0]["expire"] = False
    traces, sids, wall = vlib.run_schedules(o.pid, PKG, "TestExec", sch, tag="clustersafety", timeout=600)
    if len(traces) != len(sch):
        raise vlib.Infra("executor returned %d traces for %d schedules" % (len(traces), len(sch)))
    v = vlib.validate_traces(o.pid, FAMILY, "QBFTClusterTrace", cfg_of, traces, chunk=40, timeout=600)
    log("[%s] %s/cluster safety: %d runs (%d events) executed in %.1fs, validated in %.1fs: %d accepted, %d rejected"
        % (o.pid, FAMILY, len(sch), sum(len(t) for t in traces), wall, v.wall, len(v.accepted), len(v.rejected)))
    if v.rejected:
        bad = sorted({i for i, _, _ in v.rejected})[:4]
        vlib.conformance(o, FAMILY, "QBFTClusterTrace", cfg_of, PKG, [sch[i] for i in bad], tag="clustersafety_rejected",
                         exec_timeout=600, tv_timeout=600, max_report=3)
    else:
        _account(o, sch, traces, v, "clustersafety")
    o.extra["cluster_safety_runs"] = len(sch)
    o.extra["cluster_safety_decisions"] = sum(1 for t in traces for e in t if e.get("ev") == "Decide")


RULE = ("cluster tier: n = 4, 6, 7 real qbft.Consensus components on mocknet inside testing/synctest; fault-free runs for every "
        "leader rotation, one/f crashes at sampled points incl. between PREPARE and COMMIT, lost round-1 COMMITs, late and "
        "proposal-less members, a Byzantine member re-using honest signatures in DECIDED / PRE-PREPARE justifications; every "
        "run's log validated by QBFTClusterTrace.tla, every member's transcript by QBFTNodeTrace.tla")


def main(tier="quick", seed=1, pid="CCLUSTER"):
    """Stand-alone driver (no evidence file is written: the tier is registered as a stage of C02 / C04)."""
    vlib.workdir(pid, fresh=True)
    o = vlib.Outcome(pid, tier, seed)
    try:
        stage(o, tier, int(seed))
    except vlib.Infra as e:
        log("INFRA: %s" % e)
        return 2
    for fid, txt in o.known:
        log("KNOWN-FINDING: property=%s %s: %s" % (pid, fid, txt))
    for path, txt in o.violations:
        log("VIOLATION property=%s replay=%s" % (pid, path))
        log("  " + txt)
    if o.violations:
        return 1
    log("[%s] OK tier=%s seed=%s: %d traces validated, %.0fs" % (pid, tier, seed, o.traces, time.time() - o.t0))
    return 0


def replay(path):
    rp = json.load(open(path))
    o = vlib.Outcome("CCLUSTER", "quick", 0)
    vlib.conformance(o, FAMILY, rp["trace_module"], cfg_of, PKG, [rp["schedule"]], tag="replay")
    for p, t in o.violations:
        log("replay: " + t)
    return 1 if o.violations else 0
